package zzvrt

import (
	"fmt"
	"reflect"
	"runtime"
	"sort"
	"strings"
	"unsafe"
)

// InertTickers makes vtime.NewTicker return inert tickers even outside an execution
// (servers are often constructed by the driver before Begin).
var InertTickers = true

// Callers returns short "func:line" frames for diagnostics.
//
//go:norace
func Callers(skip, n int) []string {
	pc := make([]uintptr, n+skip)
	k := runtime.Callers(skip, pc)
	fr := runtime.CallersFrames(pc[:k])
	var out []string
	for {
		f, more := fr.Next()
		fn := f.Function
		if i := strings.LastIndex(fn, "/"); i >= 0 {
			fn = fn[i+1:]
		}
		if !strings.Contains(fn, "zzvrt") {
			out = append(out, fmt.Sprintf("%s:%d", fn, f.Line))
		}
		if !more || len(out) >= n {
			break
		}
	}
	return out
}

// CallerNames returns bare function names (no line numbers: stable across edits).
//
//go:norace
func CallerNames(skip, n int) []string {
	pc := make([]uintptr, n+skip+4)
	k := runtime.Callers(skip, pc)
	fr := runtime.CallersFrames(pc[:k])
	var out []string
	for {
		f, more := fr.Next()
		fn := f.Function
		if i := strings.LastIndex(fn, "/"); i >= 0 {
			fn = fn[i+1:]
		}
		if !strings.Contains(fn, "zzvrt") && !strings.Contains(fn, "vsync.") {
			if i := strings.Index(fn, "."); i >= 0 {
				fn = fn[i+1:]
			}
			out = append(out, fn)
		}
		if !more || len(out) >= n {
			break
		}
	}
	return out
}

// ---- channels ----

// hchan mirrors the head of runtime.hchan (go1.23): qcount, dataqsiz, buf, elemsize, closed.
type hchan struct {
	qcount   uint
	dataqsiz uint
	buf      unsafe.Pointer
	elemsize uint16
	closed   uint32
}

//go:norace
func chanPtr(ch any) *hchan {
	v := reflect.ValueOf(ch)
	if v.Kind() != reflect.Chan {
		panic("zzvrt: not a channel")
	}
	if v.IsNil() {
		return nil
	}
	return (*hchan)(v.UnsafePointer())
}

// RecvReady reports whether a receive from ch would not block.
//
//go:norace
func RecvReady(ch any) bool {
	h := chanPtr(ch)
	if h == nil {
		return false
	}
	return h.qcount > 0 || h.closed != 0
}

// SendReady reports whether a send to ch would not block (buffer space or closed: panics, not blocks).
//
//go:norace
func SendReady(ch any) bool {
	h := chanPtr(ch)
	if h == nil {
		return false
	}
	return h.qcount < h.dataqsiz || h.closed != 0
}

// IsClosed reports whether ch is closed.
//
//go:norace
func IsClosed(ch any) bool {
	h := chanPtr(ch)
	return h != nil && h.closed != 0
}

// WaitAny blocks the running thread until one of the predicates holds. The instrumenter
// emits it in front of every blocking channel statement; the statement that follows then
// completes without blocking (nothing else runs in between).
//
//go:norace
func WaitAny(site string, ready func() bool) {
	if !active || Killed() {
		if Killed() {
			runtime.Goexit()
		}
		return
	}
	if ex.cur == nil {
		return
	}
	Point(site)
	Block(BlockChan, site, ready)
}

// Select blocks until at least one case is ready and returns the index of the case to
// take. Go picks uniformly among ready cases; here that is an explicit choice (default:
// first ready case in source order). With hasDefault it returns -1 if none is ready.
//
//go:norace
func Select(site string, hasDefault bool, ready func() []bool) int {
	if Killed() {
		runtime.Goexit()
	}
	if ex.cur == nil {
		r := ready()
		for i, ok := range r {
			if ok {
				return i
			}
		}
		if hasDefault {
			return -1
		}
		panic("zzvrt.Select: driver goroutine would block at " + site)
	}
	Point(site)
	if !hasDefault {
		Block(BlockChan, site, func() bool {
			for _, ok := range ready() {
				if ok {
					return true
				}
			}
			return false
		})
	}
	r := ready()
	var idx []int
	for i, ok := range r {
		if ok {
			idx = append(idx, i)
		}
	}
	if len(idx) == 0 {
		return -1
	}
	return idx[ex.choose(ChSelect, len(idx), false, site)]
}

//go:norace
func init() {
	// self-test of the hchan mirror; a layout change must fail loudly
	c := make(chan int, 2)
	if RecvReady(c) || !SendReady(c) {
		panic("zzvrt: hchan mirror broken (empty)")
	}
	c <- 1
	c <- 2
	if !RecvReady(c) || SendReady(c) {
		panic("zzvrt: hchan mirror broken (full)")
	}
	d := make(chan struct{})
	if RecvReady(d) || SendReady(d) || IsClosed(d) {
		panic("zzvrt: hchan mirror broken (unbuffered)")
	}
	close(d)
	if !RecvReady(d) || !IsClosed(d) {
		panic("zzvrt: hchan mirror broken (closed)")
	}
}

// ---- map iteration order ----

// Entry is one key of a map being iterated in explorer-chosen order.
type Entry[K comparable, V any] struct {
	K K
	m map[K]V
}

// Get returns the current value for the key (ok=false if it was deleted meanwhile).
//
// Get is deliberately NOT //go:norace: in race mode the detector must see the lookup as a
// read of the map the broker code ranges over.
func (e Entry[K, V]) Get() (V, bool) { v, ok := e.m[e.K]; return v, ok }

// Iter returns the keys of m in the order the explorer chose (default: sorted).
//
//go:norace
func Iter[M ~map[K]V, K comparable, V any](site string, m M) []Entry[K, V] {
	n := len(m)
	if n == 0 {
		return nil
	}
	out := mapEntries[M, K, V](m, n)
	if len(out) <= 1 {
		return out
	}
	n = len(out)
	sortEntries(out)
	if active && ex != nil && ex.MapSite != nil && !ex.killed && ex.MapSite(site) {
		p := ex.choose(ChMap, permCount(n), false, site)
		applyPerm(out, p)
	}
	return out
}

// mapEntries performs the actual iteration. Deliberately NOT //go:norace: the range over m
// is the broker code's own map read and the race detector must attribute it (the caller's
// frames are skipped by the report filter, the first frame outside zzvrt is the broker's).
func mapEntries[M ~map[K]V, K comparable, V any](m M, n int) []Entry[K, V] {
	out := make([]Entry[K, V], 0, n)
	for k := range m {
		out = append(out, Entry[K, V]{k, m})
	}
	return out
}

//go:norace
func sortEntries[K comparable, V any](s []Entry[K, V]) {
	switch any(s[0].K).(type) {
	case string:
		sort.Slice(s, func(i, j int) bool { return any(s[i].K).(string) < any(s[j].K).(string) })
	case int:
		sort.Slice(s, func(i, j int) bool { return any(s[i].K).(int) < any(s[j].K).(int) })
	case uint16:
		sort.Slice(s, func(i, j int) bool { return any(s[i].K).(uint16) < any(s[j].K).(uint16) })
	case uint32:
		sort.Slice(s, func(i, j int) bool { return any(s[i].K).(uint32) < any(s[j].K).(uint32) })
	case int64:
		sort.Slice(s, func(i, j int) bool { return any(s[i].K).(int64) < any(s[j].K).(int64) })
	case byte:
		sort.Slice(s, func(i, j int) bool { return any(s[i].K).(byte) < any(s[j].K).(byte) })
	default:
		sort.Slice(s, func(i, j int) bool { return fmt.Sprint(s[i].K) < fmt.Sprint(s[j].K) })
	}
}

// permCount: all n! orders for n<=3; for n>3 the n rotations plus their reversals (2n).
//
//go:norace
func permCount(n int) int {
	switch {
	case n <= 1:
		return 1
	case n == 2:
		return 2
	case n == 3:
		return 6
	}
	return 2 * n
}

//go:norace
func applyPerm[T any](s []T, p int) {
	n := len(s)
	if p == 0 || n < 2 {
		return
	}
	if n <= 3 {
		perms := [][]int{{0, 1, 2}, {0, 2, 1}, {1, 0, 2}, {1, 2, 0}, {2, 0, 1}, {2, 1, 0}}
		if n == 2 {
			perms = [][]int{{0, 1}, {1, 0}}
		}
		c := append([]T{}, s...)
		for i := range s {
			s[i] = c[perms[p%len(perms)][i]]
		}
		return
	}
	rot, rev := p%n, p >= n
	c := append([]T{}, s...)
	for i := range s {
		s[i] = c[(i+rot)%n]
	}
	if rev {
		for i, j := 0, n-1; i < j; i, j = i+1, j-1 {
			s[i], s[j] = s[j], s[i]
		}
	}
}
