// Package vsync shims package sync for instrumented code. Inside a controlled execution
// the primitives are modelled on scheduler state (faithful blocking semantics, including
// "a pending writer blocks new readers" of sync.RWMutex); outside they delegate to sync.
package vsync

import (
	"strings"
	"sync"

	"github.com/mochi-mqtt/server/v2/zzvrt"
)

type Locker = sync.Locker
type Map = sync.Map
type Cond = sync.Cond

//go:norace
func NewCond(l Locker) *Cond { return sync.NewCond(l) }

// ---------------- Mutex ----------------

type Mutex struct {
	real   sync.Mutex
	locked bool
}

//go:norace
func (m *Mutex) Lock() {
	if !zzvrt.Active() {
		m.real.Lock()
		return
	}
	if zzvrt.Killed() {
		return
	}
	zzvrt.Point("Mutex.Lock")
	if m.locked {
		zzvrt.Block(zzvrt.BlockLock, "Mutex.Lock@"+callers(), func() bool { return !m.locked })
	}
	m.locked = true
	if zzvrt.RaceMode {
		m.real.Lock() // never blocks: the model is at least as strict; gives the detector the real edge
	}
}

//go:norace
func (m *Mutex) TryLock() bool {
	if !zzvrt.Active() {
		return m.real.TryLock()
	}
	if zzvrt.Killed() {
		return true
	}
	zzvrt.Point("Mutex.TryLock")
	if m.locked {
		return false
	}
	m.locked = true
	if zzvrt.RaceMode {
		m.real.Lock()
	}
	return true
}

//go:norace
func (m *Mutex) Unlock() {
	if !zzvrt.Active() {
		m.real.Unlock()
		return
	}
	if zzvrt.Killed() {
		return
	}
	if !m.locked {
		zzvrt.NoteEvent("unlock-unlocked", "Mutex")
		panic("sync: unlock of unlocked mutex")
	}
	if zzvrt.RaceMode {
		m.real.Unlock()
	}
	m.locked = false
}

// VerifLocked reports the modelled state (for state dumps).
//
//go:norace
func (m *Mutex) VerifLocked() bool { return m.locked }

// ---------------- RWMutex ----------------

type RWMutex struct {
	real    sync.RWMutex
	wLocked bool // the writer-serialising mutex rw.w
	pending bool // a writer has announced itself (readerCount < 0 in sync.RWMutex)
	held    bool // writer owns the lock
	readers int
}

//go:norace
func (rw *RWMutex) RLock() {
	if !zzvrt.Active() {
		rw.real.RLock()
		return
	}
	if zzvrt.Killed() {
		return
	}
	t := zzvrt.CurThread()
	if t != nil {
		if t.RHeld()[rw] > 0 {
			zzvrt.NoteEvent("rlock-reentry", callers())
		}
	}
	zzvrt.Point("RWMutex.RLock")
	if rw.pending {
		zzvrt.Block(zzvrt.BlockLock, "RLock@"+callers(), func() bool { return !rw.pending })
	}
	rw.readers++
	if t != nil {
		t.RHeld()[rw]++
	}
	if zzvrt.RaceMode {
		rw.real.RLock()
	}
}

//go:norace
func (rw *RWMutex) TryRLock() bool {
	if !zzvrt.Active() {
		return rw.real.TryRLock()
	}
	if zzvrt.Killed() {
		return true
	}
	zzvrt.Point("RWMutex.TryRLock")
	if rw.pending {
		return false
	}
	rw.readers++
	if t := zzvrt.CurThread(); t != nil {
		t.RHeld()[rw]++
	}
	if zzvrt.RaceMode {
		rw.real.RLock()
	}
	return true
}

//go:norace
func (rw *RWMutex) RUnlock() {
	if !zzvrt.Active() {
		rw.real.RUnlock()
		return
	}
	if zzvrt.Killed() {
		return
	}
	if rw.readers <= 0 {
		zzvrt.NoteEvent("unlock-unlocked", "RWMutex.RUnlock")
		panic("sync: RUnlock of unlocked RWMutex")
	}
	if zzvrt.RaceMode {
		rw.real.RUnlock()
	}
	rw.readers--
	if t := zzvrt.CurThread(); t != nil {
		if t.RHeld()[rw] > 0 {
			t.RHeld()[rw]--
		}
	}
}

//go:norace
func (rw *RWMutex) Lock() {
	if !zzvrt.Active() {
		rw.real.Lock()
		return
	}
	if zzvrt.Killed() {
		return
	}
	zzvrt.Point("RWMutex.Lock")
	if rw.wLocked {
		zzvrt.Block(zzvrt.BlockLock, "Lock@"+callers(), func() bool { return !rw.wLocked })
	}
	rw.wLocked = true
	rw.pending = true // from here on new readers block
	if rw.readers > 0 {
		zzvrt.Block(zzvrt.BlockLock, "Lock@"+callers(), func() bool { return rw.readers == 0 })
	}
	rw.held = true
	if zzvrt.RaceMode {
		rw.real.Lock()
	}
}

//go:norace
func (rw *RWMutex) TryLock() bool {
	if !zzvrt.Active() {
		return rw.real.TryLock()
	}
	if zzvrt.Killed() {
		return true
	}
	zzvrt.Point("RWMutex.TryLock")
	if rw.wLocked || rw.readers > 0 {
		return false
	}
	rw.wLocked, rw.pending, rw.held = true, true, true
	if zzvrt.RaceMode {
		rw.real.Lock()
	}
	return true
}

//go:norace
func (rw *RWMutex) Unlock() {
	if !zzvrt.Active() {
		rw.real.Unlock()
		return
	}
	if zzvrt.Killed() {
		return
	}
	if !rw.held {
		zzvrt.NoteEvent("unlock-unlocked", "RWMutex.Unlock")
		panic("sync: Unlock of unlocked RWMutex")
	}
	if zzvrt.RaceMode {
		rw.real.Unlock()
	}
	rw.held, rw.pending, rw.wLocked = false, false, false
}

//go:norace
func (rw *RWMutex) RLocker() Locker { return (*rlocker)(rw) }

type rlocker RWMutex

//go:norace
func (r *rlocker) Lock() { (*RWMutex)(r).RLock() }

//go:norace
func (r *rlocker) Unlock() { (*RWMutex)(r).RUnlock() }

// VerifState reports the modelled state (for state dumps).
//
//go:norace
func (rw *RWMutex) VerifState() (held bool, readers int) { return rw.held, rw.readers }

// ---------------- Once ----------------

type Once struct {
	real    sync.Once
	done    bool
	running bool
}

//go:norace
func (o *Once) Do(f func()) {
	if !zzvrt.Active() {
		o.real.Do(f)
		return
	}
	if zzvrt.Killed() {
		if !o.done && !o.running {
			o.running = true
			defer func() { o.done, o.running = true, false }()
			f()
		}
		return
	}
	zzvrt.Point("Once.Do")
	if o.done {
		if zzvrt.RaceMode {
			o.real.Do(func() {}) // completed: returns at once and gives the detector the real edge
		}
		return
	}
	if o.running {
		zzvrt.Block(zzvrt.BlockOnce, "Once.Do", func() bool { return o.done })
		if zzvrt.RaceMode {
			o.real.Do(func() {})
		}
		return
	}
	o.running = true
	defer func() { o.done, o.running = true, false }()
	if zzvrt.RaceMode {
		// run f inside the real Once; other threads are held back by the model until done
		o.real.Do(f)
		return
	}
	f()
}

// ---------------- WaitGroup ----------------

type WaitGroup struct {
	real sync.WaitGroup
	n    int
}

//go:norace
func (wg *WaitGroup) Add(delta int) {
	if !zzvrt.Active() {
		wg.real.Add(delta)
		return
	}
	if zzvrt.Killed() {
		return
	}
	zzvrt.Point("WaitGroup.Add")
	wg.n += delta
	if wg.n < 0 {
		zzvrt.NoteEvent("wg-negative", "")
		panic("sync: negative WaitGroup counter")
	}
	if zzvrt.RaceMode {
		wg.real.Add(delta)
	}
}

//go:norace
func (wg *WaitGroup) Done() { wg.Add(-1) }

//go:norace
func (wg *WaitGroup) Wait() {
	if !zzvrt.Active() {
		wg.real.Wait()
		return
	}
	if zzvrt.Killed() {
		return
	}
	zzvrt.Point("WaitGroup.Wait")
	if wg.n > 0 {
		zzvrt.Block(zzvrt.BlockWG, "WaitGroup.Wait", func() bool { return wg.n == 0 })
	}
	if zzvrt.RaceMode {
		wg.real.Wait() // counter is zero: returns at once with the real edges
	}
}

//go:norace
func (wg *WaitGroup) VerifCount() int { return wg.n }

// ---------------- Pool ----------------

// Pool is a deterministic LIFO model of sync.Pool. A Get may, as an environment
// deviation ("pool-miss"), find the pool empty as after a garbage collection.
type Pool struct {
	New   func() any
	real  sync.Pool
	items []any
}

//go:norace
func (p *Pool) Get() any {
	if !zzvrt.Active() || zzvrt.RaceMode {
		if p.real.New == nil && p.New != nil {
			p.real.New = p.New
		}
		return p.real.Get()
	}
	e := zzvrt.Cur()
	if !zzvrt.Killed() && !e.QuietPool {
		zzvrt.Point("Pool.Get")
	}
	if n := len(p.items); n > 0 {
		if e.QuietPool || zzvrt.Choose("pool-miss", 2) == 0 {
			x := p.items[n-1]
			p.items = p.items[:n-1]
			return x
		}
		p.items = p.items[:0] // GC emptied the pool
	}
	if p.New != nil {
		return p.New()
	}
	return nil
}

//go:norace
func (p *Pool) Put(x any) {
	if !zzvrt.Active() || zzvrt.RaceMode {
		p.real.Put(x)
		return
	}
	if !zzvrt.Killed() && !zzvrt.Cur().QuietPool {
		zzvrt.Point("Pool.Put")
	}
	if x == nil {
		return
	}
	p.items = append(p.items, x)
	if !zzvrt.Killed() && !zzvrt.Cur().QuietPool {
		// the object is obtainable from here on: whatever the caller still does with it
		// after Put is a separate step
		zzvrt.Point("Pool.Put.done")
	}
}

//go:norace
func callers() string { return strings.Join(zzvrt.CallerNames(3, 3), "<") }
