// Package vtime shims package time for instrumented code: Now is the explorer's virtual
// clock inside a controlled execution, tickers are inert (housekeeping is driven
// explicitly by the harness). All types are aliases of the real ones.
package vtime

import (
	"time"

	"github.com/mochi-mqtt/server/v2/zzvrt"
)

type (
	Duration = time.Duration
	Time     = time.Time
	Ticker   = time.Ticker
	Timer    = time.Timer
	Month    = time.Month
	Location = time.Location
)

const (
	Nanosecond  = time.Nanosecond
	Microsecond = time.Microsecond
	Millisecond = time.Millisecond
	Second      = time.Second
	Minute      = time.Minute
	Hour        = time.Hour
	RFC3339     = time.RFC3339
)

var UTC = time.UTC

func Now() Time {
	if e := zzvrt.Cur(); e != nil && zzvrt.Active() {
		return time.Unix(zzvrt.VirtualEpochUnix, 0).Add(time.Duration(e.NowMillis()) * time.Millisecond)
	}
	return time.Now()
}

func Since(t Time) Duration { return Now().Sub(t) }
func Until(t Time) Duration { return t.Sub(Now()) }
func Unix(s, ns int64) Time { return time.Unix(s, ns) }

// NewTicker returns an inert ticker inside a controlled execution.
func NewTicker(d Duration) *Ticker {
	if zzvrt.Active() || zzvrt.InertTickers {
		return &time.Ticker{C: make(chan time.Time)}
	}
	return time.NewTicker(d)
}

func Sleep(d Duration) {
	if zzvrt.Active() {
		return
	}
	time.Sleep(d)
}

func After(d Duration) <-chan Time {
	if zzvrt.Active() {
		return make(chan time.Time)
	}
	return time.After(d)
}
