// Package vatomic shims sync/atomic for instrumented code: every operation is a
// scheduling point inside a controlled execution (unless the address is declared quiet).
package vatomic

import (
	"sync/atomic"
	"unsafe"

	"github.com/mochi-mqtt/server/v2/zzvrt"
)

func pt(p unsafe.Pointer, op string) {
	if !zzvrt.Active() {
		return
	}
	e := zzvrt.Cur()
	if e == nil {
		return
	}
	if e.QuietAtomic != nil && e.QuietAtomic(uintptr(p)) {
		return
	}
	zzvrt.Point(op)
}

func AddInt32(p *int32, d int32) int32 {
	pt(unsafe.Pointer(p), "atomic.AddInt32")
	return atomic.AddInt32(p, d)
}
func AddInt64(p *int64, d int64) int64 {
	pt(unsafe.Pointer(p), "atomic.AddInt64")
	return atomic.AddInt64(p, d)
}
func AddUint32(p *uint32, d uint32) uint32 {
	pt(unsafe.Pointer(p), "atomic.AddUint32")
	return atomic.AddUint32(p, d)
}
func AddUint64(p *uint64, d uint64) uint64 {
	pt(unsafe.Pointer(p), "atomic.AddUint64")
	return atomic.AddUint64(p, d)
}
func LoadInt32(p *int32) int32 { pt(unsafe.Pointer(p), "atomic.LoadInt32"); return atomic.LoadInt32(p) }
func LoadInt64(p *int64) int64 { pt(unsafe.Pointer(p), "atomic.LoadInt64"); return atomic.LoadInt64(p) }
func LoadUint32(p *uint32) uint32 {
	pt(unsafe.Pointer(p), "atomic.LoadUint32")
	return atomic.LoadUint32(p)
}
func LoadUint64(p *uint64) uint64 {
	pt(unsafe.Pointer(p), "atomic.LoadUint64")
	return atomic.LoadUint64(p)
}
func StoreInt32(p *int32, v int32) {
	pt(unsafe.Pointer(p), "atomic.StoreInt32")
	atomic.StoreInt32(p, v)
}
func StoreInt64(p *int64, v int64) {
	pt(unsafe.Pointer(p), "atomic.StoreInt64")
	atomic.StoreInt64(p, v)
}
func StoreUint32(p *uint32, v uint32) {
	pt(unsafe.Pointer(p), "atomic.StoreUint32")
	atomic.StoreUint32(p, v)
}
func StoreUint64(p *uint64, v uint64) {
	pt(unsafe.Pointer(p), "atomic.StoreUint64")
	atomic.StoreUint64(p, v)
}
func SwapInt32(p *int32, v int32) int32 {
	pt(unsafe.Pointer(p), "atomic.SwapInt32")
	return atomic.SwapInt32(p, v)
}
func SwapInt64(p *int64, v int64) int64 {
	pt(unsafe.Pointer(p), "atomic.SwapInt64")
	return atomic.SwapInt64(p, v)
}
func SwapUint32(p *uint32, v uint32) uint32 {
	pt(unsafe.Pointer(p), "atomic.SwapUint32")
	return atomic.SwapUint32(p, v)
}
func CompareAndSwapInt32(p *int32, o, n int32) bool {
	pt(unsafe.Pointer(p), "atomic.CASInt32")
	return atomic.CompareAndSwapInt32(p, o, n)
}
func CompareAndSwapInt64(p *int64, o, n int64) bool {
	pt(unsafe.Pointer(p), "atomic.CASInt64")
	return atomic.CompareAndSwapInt64(p, o, n)
}
func CompareAndSwapUint32(p *uint32, o, n uint32) bool {
	pt(unsafe.Pointer(p), "atomic.CASUint32")
	return atomic.CompareAndSwapUint32(p, o, n)
}
func CompareAndSwapUint64(p *uint64, o, n uint64) bool {
	pt(unsafe.Pointer(p), "atomic.CASUint64")
	return atomic.CompareAndSwapUint64(p, o, n)
}

type Value struct{ v atomic.Value }

func (x *Value) Load() any      { pt(unsafe.Pointer(x), "atomic.Value.Load"); return x.v.Load() }
func (x *Value) Store(val any)  { pt(unsafe.Pointer(x), "atomic.Value.Store"); x.v.Store(val) }
func (x *Value) Swap(n any) any { pt(unsafe.Pointer(x), "atomic.Value.Swap"); return x.v.Swap(n) }
func (x *Value) CompareAndSwap(o, n any) bool {
	pt(unsafe.Pointer(x), "atomic.Value.CAS")
	return x.v.CompareAndSwap(o, n)
}

type Bool struct{ v atomic.Bool }

func (x *Bool) Load() bool       { pt(unsafe.Pointer(x), "atomic.Bool.Load"); return x.v.Load() }
func (x *Bool) Store(val bool)   { pt(unsafe.Pointer(x), "atomic.Bool.Store"); x.v.Store(val) }
func (x *Bool) Swap(n bool) bool { pt(unsafe.Pointer(x), "atomic.Bool.Swap"); return x.v.Swap(n) }
func (x *Bool) CompareAndSwap(o, n bool) bool {
	pt(unsafe.Pointer(x), "atomic.Bool.CAS")
	return x.v.CompareAndSwap(o, n)
}

type Int32 struct{ v atomic.Int32 }

func (x *Int32) Load() int32       { pt(unsafe.Pointer(x), "atomic.Int32.Load"); return x.v.Load() }
func (x *Int32) Store(val int32)   { pt(unsafe.Pointer(x), "atomic.Int32.Store"); x.v.Store(val) }
func (x *Int32) Add(d int32) int32 { pt(unsafe.Pointer(x), "atomic.Int32.Add"); return x.v.Add(d) }
func (x *Int32) CompareAndSwap(o, n int32) bool {
	pt(unsafe.Pointer(x), "atomic.Int32.CAS")
	return x.v.CompareAndSwap(o, n)
}

type Int64 struct{ v atomic.Int64 }

func (x *Int64) Load() int64       { pt(unsafe.Pointer(x), "atomic.Int64.Load"); return x.v.Load() }
func (x *Int64) Store(val int64)   { pt(unsafe.Pointer(x), "atomic.Int64.Store"); x.v.Store(val) }
func (x *Int64) Add(d int64) int64 { pt(unsafe.Pointer(x), "atomic.Int64.Add"); return x.v.Add(d) }
func (x *Int64) CompareAndSwap(o, n int64) bool {
	pt(unsafe.Pointer(x), "atomic.Int64.CAS")
	return x.v.CompareAndSwap(o, n)
}

type Uint32 struct{ v atomic.Uint32 }

func (x *Uint32) Load() uint32        { pt(unsafe.Pointer(x), "atomic.Uint32.Load"); return x.v.Load() }
func (x *Uint32) Store(val uint32)    { pt(unsafe.Pointer(x), "atomic.Uint32.Store"); x.v.Store(val) }
func (x *Uint32) Add(d uint32) uint32 { pt(unsafe.Pointer(x), "atomic.Uint32.Add"); return x.v.Add(d) }
func (x *Uint32) CompareAndSwap(o, n uint32) bool {
	pt(unsafe.Pointer(x), "atomic.Uint32.CAS")
	return x.v.CompareAndSwap(o, n)
}
