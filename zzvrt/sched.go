// Package zzvrt is the verification runtime that instrumented mochi-mqtt code and the
// /verif harness share. It provides a cooperative scheduler (exactly one registered
// thread runs at a time; every visible operation is a scheduling point whose outcome is
// decided by an explicit choice sequence), a virtual clock, explorer-owned map iteration
// order and environment choices.
//
// When no execution is active (Active()==false) every shim delegates to the real
// primitive, so instrumented code also runs correctly on free-running goroutines.
package zzvrt

import (
	"fmt"
	"runtime"
	"runtime/debug"
	"strings"
)

// BlockKind says what a disabled thread is waiting for.
type BlockKind uint8

const (
	BlockNone BlockKind = iota
	BlockLock           // Mutex / RWMutex
	BlockWG             // WaitGroup.Wait
	BlockOnce           // Once.Do while another thread runs the function
	BlockChan           // channel receive / send / select
	BlockIO             // harness connection read / accept
)

//go:norace
func (k BlockKind) String() string {
	return [...]string{"none", "lock", "waitgroup", "once", "chan", "io"}[k]
}

// ChoiceKind classifies a recorded choice point.
type ChoiceKind uint8

const (
	ChThread ChoiceKind = iota // which thread runs next
	ChMap                      // map iteration order
	ChEnv                      // environment answer (short read, fault, pool miss ...)
	ChSelect                   // which ready case of a select statement is taken
)

//go:norace
func (k ChoiceKind) String() string { return [...]string{"thread", "map", "env", "select"}[k] }

// ChoicePoint is one recorded decision of an execution.
type ChoicePoint struct {
	Kind       ChoiceKind
	N          int  // number of alternatives (>1)
	Chosen     int  // index taken
	CurEnabled bool // ChThread only: the running thread was still enabled (alt!=0 is a preemption)
	Site       string
}

type threadState uint8

const (
	tsRunnable threadState = iota
	tsBlocked
	tsDone
)

// Thread is a registered goroutine.
type Thread struct {
	ID    int
	Name  string
	wake  baton
	gone  chan struct{}
	state threadState
	pred  func() bool
	kind  BlockKind
	what  string
	// Panic holds the recovered value if the thread body panicked.
	Panic      any
	PanicStack string
	rheld      map[any]int // read locks held (re-entrancy monitor)
}

// Event is something the runtime noticed that an oracle may care about.
type Event struct {
	Kind   string // "panic", "rlock-reentry", "wg-negative", "unlock-unlocked"
	Thread string
	Detail string
}

// Exec is one controlled execution.
type Exec struct {
	threads    []*Thread
	cur        *Thread
	mainWake   baton
	prefix     []int
	pos        int
	Points     []ChoicePoint
	exploring  bool
	killed     bool
	steps      int
	Horizon    int
	HorizonHit bool
	Events     []Event
	// MapSite decides whether map order at a site is an explorer choice (nil: never).
	MapSite func(site string) bool
	// EnvSite decides whether an environment choice at a site is offered (nil: never).
	EnvSite func(site string) bool
	// QuietAtomic reports addresses whose atomic operations are not scheduling points.
	QuietAtomic func(p uintptr) bool
	// QuietPool: mempool Get/Put are not scheduling points.
	QuietPool bool
	now       int64 // virtual clock, milliseconds since VirtualEpoch
	divergent string
	// StepLog, when TraceSteps is set, records every scheduling point / block (debugging).
	TraceSteps bool
	StepLog    []string
}

// TraceAll makes every new execution record its step log (debugging aid).
var TraceAll bool

//go:norace
func (e *Exec) logStep(kind, site string) {
	name := "main"
	if e.cur != nil {
		name = e.cur.Name
	}
	e.StepLog = append(e.StepLog, kind+" "+name+" "+site)
}

// VirtualEpochUnix is the wall-clock second at which every execution starts.
const VirtualEpochUnix = 1_000_000

var (
	active bool
	ex     *Exec
)

// Active reports whether a controlled execution is in progress.
//
//go:norace
func Active() bool { return active }

// Cur returns the execution in progress (nil if none).
//
//go:norace
func Cur() *Exec { return ex }

// Begin starts a controlled execution that will replay prefix and then take default choices.
//
//go:norace
func Begin(prefix []int) *Exec {
	if active {
		panic("zzvrt: Begin while an execution is active")
	}
	e := &Exec{mainWake: newBaton(), prefix: prefix, Horizon: 2_000_000, exploring: true, TraceSteps: TraceAll}
	ex = e
	active = true
	return e
}

// SetExploring switches recording of choice points on/off. While off every choice is the default.
//
//go:norace
func (e *Exec) SetExploring(on bool) { e.exploring = on }

// Divergence returns a non-empty description if replaying the prefix went out of range.
//
//go:norace
func (e *Exec) Divergence() string { return e.divergent }

// PrefixConsumed reports whether the whole prefix has been replayed.
//
//go:norace
func (e *Exec) PrefixConsumed() bool { return e.pos >= len(e.prefix) }

//go:norace
func (e *Exec) event(kind, detail string) {
	name := "main"
	if e.cur != nil {
		name = e.cur.Name
	}
	e.Events = append(e.Events, Event{Kind: kind, Thread: name, Detail: detail})
}

// choose records a choice point with n>1 alternatives and returns the index taken.
//
//go:norace
func (e *Exec) choose(kind ChoiceKind, n int, curEnabled bool, site string) int {
	if n <= 1 || !e.exploring || e.killed {
		return 0
	}
	c := 0
	if e.pos < len(e.prefix) {
		c = e.prefix[e.pos]
		if c < 0 || c >= n {
			if e.divergent == "" {
				e.divergent = fmt.Sprintf("choice %d at point %d (%s %s) out of range n=%d", c, e.pos, kind, site, n)
			}
			c = 0
		}
	}
	e.pos++
	e.Points = append(e.Points, ChoicePoint{Kind: kind, N: n, Chosen: c, CurEnabled: curEnabled, Site: site})
	return c
}

// Choose offers an environment choice with n alternatives at site; default 0.
//
//go:norace
func Choose(site string, n int) int {
	e := ex
	if !active || e == nil || e.EnvSite == nil || !e.EnvSite(site) {
		return 0
	}
	return e.choose(ChEnv, n, false, site)
}

//go:norace
func (t *Thread) enabled() bool {
	switch t.state {
	case tsRunnable:
		return true
	case tsBlocked:
		return t.pred()
	}
	return false
}

// enabledOthers appends every enabled thread except skip, ascending id.
//
//go:norace
func (e *Exec) enabledOthers(skip *Thread, buf []*Thread) []*Thread {
	for _, t := range e.threads {
		if t != skip && t.enabled() {
			buf = append(buf, t)
		}
	}
	return buf
}

//go:norace
func (e *Exec) switchTo(from, to *Thread) {
	e.cur = to
	if to.state == tsBlocked {
		to.state = tsRunnable
		to.pred = nil
	}
	to.wake.signal()
	if from != nil {
		from.wake.wait()
		if e.killed {
			runtime.Goexit()
		}
	}
}

// Point is a scheduling point of the running thread.
//
//go:norace
func Point(site string) {
	if !active {
		return
	}
	e := ex
	t := e.cur
	if t == nil || e.killed {
		return
	}
	e.steps++
	if e.TraceSteps {
		e.logStep("point", site)
	}
	if e.steps > e.Horizon {
		e.HorizonHit = true
		return
	}
	var buf [8]*Thread
	others := e.enabledOthers(t, buf[:0])
	if len(others) == 0 {
		return
	}
	c := e.choose(ChThread, len(others)+1, true, site)
	if c == 0 {
		return
	}
	e.switchTo(t, others[c-1])
}

// Block disables the running thread until pred holds. pred is evaluated by the
// scheduler while no thread runs; it must be side-effect free.
//
//go:norace
func Block(kind BlockKind, what string, pred func() bool) {
	if !active {
		panic("zzvrt.Block outside an execution")
	}
	e := ex
	t := e.cur
	if e.killed {
		runtime.Goexit()
	}
	if t == nil {
		panic("zzvrt.Block called from an unregistered goroutine: " + what)
	}
	if pred() {
		return
	}
	if e.TraceSteps {
		e.logStep("block", what)
	}
	t.state, t.pred, t.kind, t.what = tsBlocked, pred, kind, what
	e.yieldFrom(t)
}

// yieldFrom hands control away from a thread that cannot continue (blocked or done).
//
//go:norace
func (e *Exec) yieldFrom(t *Thread) {
	var buf [8]*Thread
	others := e.enabledOthers(t, buf[:0])
	if len(others) == 0 {
		e.cur = nil
		e.mainWake.signal()
	} else {
		c := e.choose(ChThread, len(others), false, "blocked")
		next := others[c]
		if e.TraceSteps {
			names := ""
			for _, o := range others {
				names += o.Name + "(" + o.what + ") "
			}
			e.logStep("switch", fmt.Sprintf("choice %d of %s", c, names))
		}
		e.cur = next
		if next.state == tsBlocked {
			next.state = tsRunnable
			next.pred = nil
		}
		next.wake.signal()
	}
	if t.state == tsDone {
		return
	}
	t.wake.wait()
	if e.killed {
		runtime.Goexit()
	}
}

// Go registers fn as a new thread. Outside an execution it is a plain goroutine.
//
//go:norace
func Go(name string, fn func()) {
	if !active {
		go fn()
		return
	}
	e := ex
	if e.killed {
		return
	}
	t := &Thread{ID: len(e.threads), Name: fmt.Sprintf("%s#%d", name, len(e.threads)), wake: newBaton(), gone: make(chan struct{})}
	e.threads = append(e.threads, t)
	go func() {
		defer close(t.gone)
		t.wake.wait()
		if e.killed {
			t.state = tsDone
			return
		}
		defer func() {
			// runs on normal return, on panic and on Goexit (kill)
			if r := recover(); r != nil {
				t.Panic = r
				t.PanicStack = string(debug.Stack())
				e.Events = append(e.Events, Event{Kind: "panic", Thread: t.Name, Detail: fmt.Sprint(r) + "\n" + trimStack(t.PanicStack)})
			}
			t.state = tsDone
			if e.killed {
				return
			}
			e.yieldFrom(t)
		}()
		fn()
	}()
	Point("go:" + name)
}

//go:norace
func trimStack(s string) string {
	lines := strings.Split(s, "\n")
	out := []string{}
	for _, l := range lines {
		if strings.Contains(l, "/zzvrt/") || strings.Contains(l, "runtime/") || strings.Contains(l, "runtime.") {
			continue
		}
		out = append(out, l)
		if len(out) > 16 {
			break
		}
	}
	return strings.Join(out, "\n")
}

// Run lets threads run until none is enabled. Called by the driver (main goroutine).
//
//go:norace
func (e *Exec) Run() {
	if e.cur != nil {
		panic("zzvrt: Run re-entered")
	}
	var buf [8]*Thread
	en := e.enabledOthers(nil, buf[:0])
	if len(en) == 0 {
		return
	}
	c := e.choose(ChThread, len(en), false, "run")
	next := en[c]
	e.cur = next
	if next.state == tsBlocked {
		next.state = tsRunnable
		next.pred = nil
	}
	next.wake.signal()
	e.mainWake.waitWatchdog()
}

// ThreadInfo describes a thread at quiescence.
type ThreadInfo struct {
	Name    string
	Done    bool
	Blocked BlockKind
	What    string
	Panic   any
}

// Threads returns the state of every thread.
//
//go:norace
func (e *Exec) Threads() []ThreadInfo {
	out := make([]ThreadInfo, len(e.threads))
	for i, t := range e.threads {
		out[i] = ThreadInfo{Name: t.Name, Done: t.state == tsDone, Panic: t.Panic}
		if t.state == tsBlocked {
			out[i].Blocked, out[i].What = t.kind, t.what
		}
	}
	return out
}

// Deadlocked reports whether, at quiescence, some thread is blocked on a lock.
//
//go:norace
func (e *Exec) Deadlocked() (bool, string) {
	var b []string
	lock := false
	for _, t := range e.threads {
		if t.state == tsBlocked {
			if t.kind == BlockLock || t.kind == BlockOnce {
				lock = true
			}
			b = append(b, fmt.Sprintf("%s<-%s:%s", t.Name, t.kind, t.what))
		}
	}
	if !lock {
		return false, ""
	}
	return true, strings.Join(b, " ")
}

// Alive returns the names of threads that have not finished.
//
//go:norace
func (e *Exec) Alive() []string {
	var out []string
	for _, t := range e.threads {
		if t.state != tsDone {
			out = append(out, t.Name)
		}
	}
	return out
}

// Steps returns the number of scheduling points passed.
//
//go:norace
func (e *Exec) Steps() int { return e.steps }

// End terminates every unfinished thread (runtime.Goexit at its wait point, deferred
// calls run with all shims inert) and deactivates the runtime.
//
//go:norace
func (e *Exec) End() {
	e.killed = true
	e.cur = nil
	for _, t := range e.threads {
		// one at a time: deferred calls of dying threads must not run concurrently
		select {
		case <-t.gone:
			continue
		default:
		}
		t.wake.trySignal()
		<-t.gone
	}
	for _, t := range e.threads {
		t.wake.close()
	}
	e.mainWake.close()
	active = false
	ex = nil
}

// Killed reports whether the execution is being torn down (shims must be inert).
//
//go:norace
func Killed() bool { return ex != nil && ex.killed }

// NoteEvent lets shims record a runtime event.
//
//go:norace
func NoteEvent(kind, detail string) {
	if ex != nil {
		ex.event(kind, detail)
	}
}

// CurThread returns the running thread (nil for the driver).
//
//go:norace
func CurThread() *Thread {
	if ex == nil {
		return nil
	}
	return ex.cur
}

// RHeld returns the per-thread read-lock table of the running thread.
//
//go:norace
func (t *Thread) RHeld() map[any]int {
	if t.rheld == nil {
		t.rheld = map[any]int{}
	}
	return t.rheld
}

// ---- virtual clock ----

// NowMillis returns the virtual time in milliseconds since the virtual epoch.
//
//go:norace
func (e *Exec) NowMillis() int64 { return e.now }

// Advance moves the virtual clock forward.
//
//go:norace
func (e *Exec) Advance(ms int64) { e.now += ms }
