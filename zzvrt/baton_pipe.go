//go:build race

package zzvrt

import (
	"syscall"
	"unsafe"
)

// RaceMode: the binary is built with -race. Hand-off between threads uses one pipe per
// thread driven by RAW read/write system calls, which (unlike channels, mutexes, atomics
// or syscall.Read/Write) carry no race-detector annotation: the scheduler's serialisation
// creates no happens-before edge, so accesses that are ordered only by the explorer are
// still reported. The shims perform the real synchronisation operation once granted, so
// the detector sees exactly the edges the production code would create.
const RaceMode = true

type baton struct{ r, w int }

func newBaton() baton {
	var p [2]int
	if err := syscall.Pipe2(p[:], syscall.O_CLOEXEC); err != nil {
		panic("zzvrt: pipe: " + err.Error())
	}
	return baton{p[0], p[1]}
}

//go:norace
func (b baton) signal() {
	var x [1]byte
	for {
		n, _, e := syscall.Syscall(syscall.SYS_WRITE, uintptr(b.w), uintptr(unsafe.Pointer(&x[0])), 1)
		if int(n) == 1 {
			return
		}
		if e == syscall.EINTR || e == syscall.EAGAIN {
			continue
		}
		panic("zzvrt: baton write failed: " + e.Error())
	}
}

func (b baton) trySignal() { b.signal() }

//go:norace
func (b baton) wait() {
	var x [1]byte
	for {
		n, _, e := syscall.Syscall(syscall.SYS_READ, uintptr(b.r), uintptr(unsafe.Pointer(&x[0])), 1)
		if int(n) == 1 {
			return
		}
		if e == syscall.EINTR || e == syscall.EAGAIN {
			continue
		}
		panic("zzvrt: baton read failed: " + e.Error())
	}
}

func (b baton) waitWatchdog() { b.wait() }

func (b baton) close() {
	syscall.Close(b.r)
	syscall.Close(b.w)
}
