//go:build !race

package zzvrt

import (
	"runtime"
	"time"
)

// RaceMode reports whether this binary was built with the race detector.
const RaceMode = false

// baton is the hand-off primitive between the driver and threads (channel based).
type baton struct{ c chan struct{} }

func newBaton() baton   { return baton{make(chan struct{}, 1)} }
func (b baton) signal() { b.c <- struct{}{} }
func (b baton) trySignal() {
	select {
	case b.c <- struct{}{}:
	default:
	}
}
func (b baton) wait()  { <-b.c }
func (b baton) close() {}

// waitWatchdog waits for the baton; a stall of 60 s of real time means an uninstrumented
// blocking operation: fail loudly with all stacks.
func (b baton) waitWatchdog() {
	select {
	case <-b.c:
	case <-time.After(60 * time.Second):
		buf := make([]byte, 1<<20)
		n := runtime.Stack(buf, true)
		panic("zzvrt: execution stalled for 60s of real time (uninstrumented blocking operation?)\n" + string(buf[:n]))
	}
}
