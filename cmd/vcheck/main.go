// vcheck runs one property check (or a worker shard of one) against the instrumented
// build of the current /repo working tree.
package main

import (
	"encoding/json"
	"fmt"
	"os"
	"runtime"
	"strconv"
	"syscall"
	"time"

	"verif/explore"
	_ "verif/props"
)

func verifDir() string {
	if d := os.Getenv("VERIF_DIR"); d != "" {
		return d
	}
	return "/verif"
}

func main() {
	if len(os.Args) < 2 {
		fmt.Println("usage: vcheck check <id> <quick|thorough> | list | replay <file> | worker-dfs ...")
		os.Exit(2)
	}
	syscall.CloseOnExec(9) // run.sh's build lock: held by this process only, never by its workers
	switch os.Args[1] {
	case "list":
		for _, id := range explore.IDs() {
			fmt.Println(id)
		}
	case "check":
		id, tier := os.Args[2], "quick"
		if len(os.Args) > 3 {
			tier = os.Args[3]
		}
		if t := os.Getenv("VERIF_TIER"); t != "" && len(os.Args) <= 3 {
			tier = t
		}
		fn := explore.Lookup(id)
		if fn == nil {
			fmt.Fprintln(os.Stderr, "unknown property", id)
			os.Exit(2)
		}
		seed, _ := strconv.ParseInt(os.Getenv("VERIF_SEED"), 10, 64)
		budget := 95 * time.Second
		if tier == "thorough" {
			budget = 12 * time.Minute
		}
		if b := os.Getenv("VERIF_BUDGET_S"); b != "" {
			if n, err := strconv.Atoi(b); err == nil {
				budget = time.Duration(n) * time.Second
			}
		}
		workers := runtime.NumCPU()
		if wn, err := strconv.Atoi(os.Getenv("VERIF_WORKERS")); err == nil && wn > 0 {
			workers = wn
		}
		c := &explore.Ctx{ID: id, Tier: tier, Seed: seed, Start: time.Now(), Deadline: time.Now().Add(budget), Workers: workers, Rep: explore.NewReport(id)}
		fn(c)
		os.Exit(c.Rep.Finish(c, verifDir()))
	case "worker-dfs":
		// name arg bounds shard of deadlineMs
		var b explore.Bounds
		if err := json.Unmarshal([]byte(os.Args[4]), &b); err != nil {
			panic(err)
		}
		shard, _ := strconv.Atoi(os.Args[5])
		of, _ := strconv.Atoi(os.Args[6])
		dl, _ := strconv.ParseInt(os.Args[7], 10, 64)
		st := explore.WorkerDFS(os.Args[2], os.Args[3], b, shard, of, time.UnixMilli(dl))
		out, _ := json.Marshal(st)
		fmt.Println(string(out))
	case "worker-cases":
		shard, _ := strconv.Atoi(os.Args[4])
		of, _ := strconv.Atoi(os.Args[5])
		dl, _ := strconv.ParseInt(os.Args[6], 10, 64)
		explore.WorkerCases(os.Args[2], os.Args[3], shard, of, time.UnixMilli(dl))
	case "worker-bfs":
		explore.WorkerBFS(os.Args[2], os.Args[3])
	case "selftest":
		os.Exit(explore.SelfTest())
	case "debug-dfs":
		// scenario arg replayfile: run twice, print first difference in choice points
		os.Exit(explore.DebugDFS(os.Args[2]))
	case "replay":
		os.Exit(explore.Replay(os.Args[2]))
	default:
		fmt.Fprintln(os.Stderr, "unknown command", os.Args[1])
		os.Exit(2)
	}
}
