package main

import (
	"fmt"
	"time"

	"verif/ref"
	"verif/world"
)

func main() {
	t0 := time.Now()
	n := 2000
	for i := 0; i < n; i++ {
		w := world.New(nil, world.Config{})
		a := w.Connect(world.ConnectPacket("a", 5, true))
		b := w.Connect(world.ConnectPacket("b", 4, true))
		a.Poll()
		b.Poll()
		r := a.Do(ref.Packet{Type: ref.SUBSCRIBE, PacketID: 1, Filters: []ref.Filter{{Filter: "x/#", Opts: 1}}})
		r2 := b.Do(ref.Packet{Type: ref.PUBLISH, Topic: "x/y", Payload: []byte("m1"), Qos: 1, PacketID: 7})
		r3 := a.Poll()
		if i == 0 {
			fmt.Println(a.Recv, b.Recv, r, r2, r3, a.Err, b.Err, w.Problems(), w.X.Steps())
			for _, t := range w.X.Threads() {
				fmt.Printf("%+v\n", t)
			}
		}
		w.End()
	}
	fmt.Println(time.Since(t0)/time.Duration(n), "per execution")
}
