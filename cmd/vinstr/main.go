// vinstr writes an instrumented copy of mochi-mqtt/server (current working tree of the
// source repo) to an output module directory:
//
//   - import "sync"        -> .../zzvrt/vsync   (scheduler-visible locks, Once, WaitGroup, Pool)
//   - import "sync/atomic" -> .../zzvrt/vatomic (every atomic op is a scheduling point)
//   - import "time"        -> .../zzvrt/vtime   (virtual clock, inert tickers)
//   - go f(x)              -> zzvrt.Go(site, ...) with operands evaluated first
//   - blocking select / <-ch / ch<-v / range ch -> preceded by zzvrt.WaitAny(ready...)
//   - select with default  -> preceded by zzvrt.Point
//   - for k, v := range m (m a map) -> iteration over zzvrt.Iter(site, m): explorer-owned order
//   - any other channel use in an expression: the instrumenter FAILS (nothing escapes silently)
//
// Packages outside the instrumented set are copied verbatim. The verification runtime
// (zzvrt) and the add-only export files (xport) are copied in as well.
package main

import (
	"bytes"
	"crypto/sha256"
	"encoding/hex"
	"flag"
	"fmt"
	"go/ast"
	"go/format"
	"go/token"
	"go/types"
	"io/fs"
	"os"
	"path/filepath"
	"sort"
	"strconv"
	"strings"

	"golang.org/x/tools/go/ast/astutil"
	"golang.org/x/tools/go/packages"
)

const modPath = "github.com/mochi-mqtt/server/v2"
const version = "vinstr-9"

var instrumented = []string{".", "packets", "listeners", "mempool", "system", "hooks/auth"}

func main() {
	repo := flag.String("repo", "/repo", "source repository")
	out := flag.String("out", "/verif/.build/mochi", "output module directory")
	verif := flag.String("verif", "/verif", "verif directory (zzvrt, xport)")
	force := flag.Bool("force", false, "re-instrument even if inputs are unchanged")
	flag.Parse()

	h := inputHash(*repo, *verif)
	stamp := filepath.Join(*out, ".stamp")
	if b, err := os.ReadFile(stamp); err == nil && string(b) == h && !*force {
		fmt.Println("vinstr: up to date", h[:12])
		return
	}
	os.RemoveAll(*out)
	must(os.MkdirAll(*out, 0o755))

	// 1. verbatim copy of all non-test go files + go.mod/go.sum
	copyTree(*repo, *out)
	// 2. instrument
	sites := instrument(*repo, *out)
	// 3. runtime + exports
	copyDir(filepath.Join(*verif, "zzvrt"), filepath.Join(*out, "zzvrt"))
	copyDir(filepath.Join(*verif, "xport"), *out)
	must(os.WriteFile(filepath.Join(*out, "SITES.txt"), []byte(strings.Join(sites, "\n")+"\n"), 0o644))
	must(os.WriteFile(stamp, []byte(h), 0o644))
	fmt.Printf("vinstr: instrumented %d sites -> %s (%s)\n", len(sites), *out, h[:12])
}

func must(err error) {
	if err != nil {
		fmt.Fprintln(os.Stderr, "vinstr:", err)
		os.Exit(2)
	}
}

func skipDir(rel string) bool {
	top := strings.Split(rel, string(filepath.Separator))[0]
	return top == ".git" || top == "cmd" || top == "examples" || top == "zzvrt" || top == "vendor"
}

func sourceFiles(repo string) []string {
	var files []string
	filepath.WalkDir(repo, func(p string, d fs.DirEntry, err error) error {
		if err != nil {
			return nil
		}
		rel, _ := filepath.Rel(repo, p)
		if d.IsDir() {
			if rel != "." && skipDir(rel) {
				return filepath.SkipDir
			}
			return nil
		}
		if (strings.HasSuffix(p, ".go") && !strings.HasSuffix(p, "_test.go")) || rel == "go.mod" || rel == "go.sum" {
			files = append(files, rel)
		}
		return nil
	})
	sort.Strings(files)
	return files
}

func inputHash(repo, verif string) string {
	h := sha256.New()
	h.Write([]byte(version))
	for _, f := range sourceFiles(repo) {
		b, _ := os.ReadFile(filepath.Join(repo, f))
		fmt.Fprintf(h, "%s %d\n", f, len(b))
		h.Write(b)
	}
	for _, d := range []string{"zzvrt", "xport", "cmd/vinstr"} {
		filepath.WalkDir(filepath.Join(verif, d), func(p string, de fs.DirEntry, err error) error {
			if err == nil && !de.IsDir() {
				b, _ := os.ReadFile(p)
				fmt.Fprintf(h, "%s %d\n", p, len(b))
				h.Write(b)
			}
			return nil
		})
	}
	return hex.EncodeToString(h.Sum(nil))
}

func copyTree(repo, out string) {
	for _, f := range sourceFiles(repo) {
		b, err := os.ReadFile(filepath.Join(repo, f))
		must(err)
		dst := filepath.Join(out, f)
		must(os.MkdirAll(filepath.Dir(dst), 0o755))
		must(os.WriteFile(dst, b, 0o644))
	}
}

func copyDir(src, dst string) {
	filepath.WalkDir(src, func(p string, d fs.DirEntry, err error) error {
		if err != nil {
			return nil
		}
		rel, _ := filepath.Rel(src, p)
		if d.IsDir() {
			return os.MkdirAll(filepath.Join(dst, rel), 0o755)
		}
		b, err := os.ReadFile(p)
		must(err)
		must(os.MkdirAll(filepath.Dir(filepath.Join(dst, rel)), 0o755))
		return os.WriteFile(filepath.Join(dst, rel), b, 0o644)
	})
}

type rewriter struct {
	fset  *token.FileSet
	info  *types.Info
	file  *ast.File
	rel   string
	sites []string
	n     int
	needZ bool
	errs  []string
}

func (r *rewriter) site(pos token.Pos, kind string) string {
	p := r.fset.Position(pos)
	s := fmt.Sprintf("%s:%d", r.rel, p.Line)
	r.sites = append(r.sites, kind+" "+s)
	return s
}

func instrument(repo, out string) []string {
	cfg := &packages.Config{
		Mode: packages.NeedName | packages.NeedFiles | packages.NeedCompiledGoFiles | packages.NeedSyntax |
			packages.NeedTypes | packages.NeedTypesInfo | packages.NeedImports | packages.NeedDeps,
		Dir: repo,
		Env: append(os.Environ(), "GOFLAGS=-mod=mod", "GOPROXY=off", "GOSUMDB=off", "GOTOOLCHAIN=local"),
	}
	var pats []string
	for _, p := range instrumented {
		pats = append(pats, "./"+p)
	}
	pkgs, err := packages.Load(cfg, pats...)
	must(err)
	var sites []string
	for _, pkg := range pkgs {
		if len(pkg.Errors) > 0 {
			for _, e := range pkg.Errors {
				fmt.Fprintln(os.Stderr, "vinstr: load error:", e)
			}
			os.Exit(2)
		}
		for i, f := range pkg.Syntax {
			name := pkg.CompiledGoFiles[i]
			rel, _ := filepath.Rel(repo, name)
			r := &rewriter{fset: pkg.Fset, info: pkg.TypesInfo, file: f, rel: rel}
			r.rewrite()
			if len(r.errs) > 0 {
				for _, e := range r.errs {
					fmt.Fprintln(os.Stderr, "vinstr: cannot instrument:", e)
				}
				os.Exit(2)
			}
			// drop comments inside the file body: rewritten nodes have no positions and the
			// printer would scatter them (no compiler directives exist in these packages;
			// a //go: directive makes the instrumenter fail below)
			var keep []*ast.CommentGroup
			for _, cg := range f.Comments {
				for _, cm := range cg.List {
					if strings.HasPrefix(cm.Text, "//go:") && cg.Pos() > f.Package {
						r.errs = append(r.errs, fmt.Sprintf("%s: compiler directive %s not supported", pkg.Fset.Position(cm.Pos()), cm.Text))
					}
				}
				if cg.End() < f.Package {
					keep = append(keep, cg)
				}
			}
			f.Comments = keep
			if len(r.errs) > 0 {
				for _, e := range r.errs {
					fmt.Fprintln(os.Stderr, "vinstr: cannot instrument:", e)
				}
				os.Exit(2)
			}
			var buf bytes.Buffer
			must(format.Node(&buf, pkg.Fset, f))
			must(os.WriteFile(filepath.Join(out, rel), buf.Bytes(), 0o644))
			sites = append(sites, r.sites...)
		}
	}
	return sites
}

func (r *rewriter) rewrite() {
	// imports
	for _, im := range r.file.Imports {
		p, _ := strconv.Unquote(im.Path.Value)
		var np, def string
		switch p {
		case "sync":
			np, def = modPath+"/zzvrt/vsync", "sync"
		case "sync/atomic":
			np, def = modPath+"/zzvrt/vatomic", "atomic"
		case "time":
			np, def = modPath+"/zzvrt/vtime", "time"
		default:
			continue
		}
		im.Path.Value = strconv.Quote(np)
		if im.Name == nil {
			im.Name = ast.NewIdent(def)
		}
		r.sites = append(r.sites, "import "+r.rel+" "+p)
	}

	handled := map[ast.Node]bool{}
	astutil.Apply(r.file, func(c *astutil.Cursor) bool {
		switch n := c.Node().(type) {
		case *ast.GoStmt:
			c.Replace(r.goStmt(n))
		case *ast.SelectStmt:
			if !handled[n] {
				r.selectStmt(c, n, handled)
			}
		case *ast.SendStmt:
			if !handled[n] {
				r.insertWait(c, n.Pos(), []ast.Expr{r.ready("SendReady", n.Chan)})
			}
		case *ast.ExprStmt:
			if u, ok := n.X.(*ast.UnaryExpr); ok && u.Op == token.ARROW && !handled[n] {
				handled[u] = true
				r.insertWait(c, n.Pos(), []ast.Expr{r.ready("RecvReady", u.X)})
			}
		case *ast.AssignStmt:
			if len(n.Rhs) == 1 {
				if u, ok := n.Rhs[0].(*ast.UnaryExpr); ok && u.Op == token.ARROW && !handled[n] {
					handled[u] = true
					r.insertWait(c, n.Pos(), []ast.Expr{r.ready("RecvReady", u.X)})
				}
			}
		case *ast.RangeStmt:
			t := r.info.TypeOf(n.X)
			if t == nil {
				r.errs = append(r.errs, fmt.Sprintf("%s: no type for range operand", r.fset.Position(n.Pos())))
				return true
			}
			switch t.Underlying().(type) {
			case *types.Map:
				r.rangeMap(n)
			case *types.Chan:
				c.Replace(r.rangeChan(n, handled))
			}
		case *ast.UnaryExpr:
			if n.Op == token.ARROW && !handled[n] {
				r.errs = append(r.errs, fmt.Sprintf("%s: channel receive inside an expression is not supported", r.fset.Position(n.Pos())))
			}
		}
		return true
	}, nil)

	if r.needZ {
		astutil.AddNamedImport(r.fset, r.file, "zzvrt", modPath+"/zzvrt")
	}
}

func sel(pkg, name string) ast.Expr {
	return &ast.SelectorExpr{X: ast.NewIdent(pkg), Sel: ast.NewIdent(name)}
}

func strLit(s string) ast.Expr { return &ast.BasicLit{Kind: token.STRING, Value: strconv.Quote(s)} }

func (r *rewriter) ready(fn string, ch ast.Expr) ast.Expr {
	r.needZ = true
	return &ast.CallExpr{Fun: sel("zzvrt", fn), Args: []ast.Expr{ch}}
}

func (r *rewriter) insertWait(c *astutil.Cursor, pos token.Pos, conds []ast.Expr) {
	r.needZ = true
	var cond ast.Expr
	for _, e := range conds {
		if cond == nil {
			cond = e
		} else {
			cond = &ast.BinaryExpr{X: cond, Op: token.LOR, Y: e}
		}
	}
	fn := &ast.FuncLit{
		Type: &ast.FuncType{Params: &ast.FieldList{}, Results: &ast.FieldList{List: []*ast.Field{{Type: ast.NewIdent("bool")}}}},
		Body: &ast.BlockStmt{List: []ast.Stmt{&ast.ReturnStmt{Results: []ast.Expr{cond}}}},
	}
	call := &ast.ExprStmt{X: &ast.CallExpr{Fun: sel("zzvrt", "WaitAny"), Args: []ast.Expr{strLit(r.site(pos, "wait")), fn}}}
	if c.Index() < 0 {
		r.errs = append(r.errs, fmt.Sprintf("%s: blocking channel statement is not in a statement list", r.fset.Position(pos)))
		return
	}
	c.InsertBefore(call)
}

func (r *rewriter) selectStmt(c *astutil.Cursor, n *ast.SelectStmt, handled map[ast.Node]bool) {
	hasDefault := false
	var conds []ast.Expr
	var cases []ast.Stmt
	idx := 0
	for _, cc := range n.Body.List {
		cl := cc.(*ast.CommClause)
		var cond ast.Expr
		switch s := cl.Comm.(type) {
		case nil:
			hasDefault = true
			cases = append(cases, &ast.CaseClause{List: nil, Body: cl.Body})
			continue
		case *ast.SendStmt:
			handled[s] = true
			cond = r.ready("SendReady", s.Chan)
		case *ast.ExprStmt:
			u := s.X.(*ast.UnaryExpr)
			handled[u] = true
			handled[s] = true
			cond = r.ready("RecvReady", u.X)
		case *ast.AssignStmt:
			u := s.Rhs[0].(*ast.UnaryExpr)
			handled[u] = true
			handled[s] = true
			cond = r.ready("RecvReady", u.X)
		}
		conds = append(conds, cond)
		body := append([]ast.Stmt{cl.Comm}, cl.Body...)
		cases = append(cases, &ast.CaseClause{List: []ast.Expr{&ast.BasicLit{Kind: token.INT, Value: strconv.Itoa(idx)}}, Body: body})
		idx++
	}
	if len(conds) == 0 {
		r.errs = append(r.errs, fmt.Sprintf("%s: select without communication cases", r.fset.Position(n.Pos())))
		return
	}
	r.needZ = true
	kind := "select"
	if hasDefault {
		kind = "select-default"
	}
	fn := &ast.FuncLit{
		Type: &ast.FuncType{Params: &ast.FieldList{}, Results: &ast.FieldList{List: []*ast.Field{{Type: &ast.ArrayType{Elt: ast.NewIdent("bool")}}}}},
		Body: &ast.BlockStmt{List: []ast.Stmt{&ast.ReturnStmt{Results: []ast.Expr{&ast.CompositeLit{Type: &ast.ArrayType{Elt: ast.NewIdent("bool")}, Elts: conds}}}}},
	}
	hd := ast.NewIdent("false")
	if hasDefault {
		hd = ast.NewIdent("true")
	}
	sw := &ast.SwitchStmt{
		Tag:  &ast.CallExpr{Fun: sel("zzvrt", "Select"), Args: []ast.Expr{strLit(r.site(n.Pos(), kind)), hd, fn}},
		Body: &ast.BlockStmt{List: cases},
	}
	// outside a controlled execution the original select runs unchanged
	orig := &ast.SelectStmt{Body: &ast.BlockStmt{List: n.Body.List}}
	handled[orig] = true
	c.Replace(&ast.IfStmt{
		Cond: &ast.CallExpr{Fun: sel("zzvrt", "Active")},
		Body: &ast.BlockStmt{List: []ast.Stmt{sw}},
		Else: &ast.BlockStmt{List: []ast.Stmt{orig}},
	})
}

func (r *rewriter) goStmt(n *ast.GoStmt) ast.Stmt {
	r.needZ = true
	r.n++
	site := r.site(n.Pos(), "go")
	call := n.Call
	var pre []ast.Stmt
	fun := call.Fun
	if _, isLit := fun.(*ast.FuncLit); !isLit {
		id := ast.NewIdent(fmt.Sprintf("zzf%d", r.n))
		pre = append(pre, &ast.AssignStmt{Lhs: []ast.Expr{id}, Tok: token.DEFINE, Rhs: []ast.Expr{fun}})
		fun = id
	}
	var args []ast.Expr
	for i, a := range call.Args {
		id := ast.NewIdent(fmt.Sprintf("zza%d_%d", r.n, i))
		pre = append(pre, &ast.AssignStmt{Lhs: []ast.Expr{id}, Tok: token.DEFINE, Rhs: []ast.Expr{a}})
		args = append(args, id)
	}
	var body ast.Expr
	if len(args) == 0 {
		body = fun
		if _, isLit := fun.(*ast.FuncLit); isLit {
			// func literal with no parameters can be passed directly if it has no results
			fl := fun.(*ast.FuncLit)
			if fl.Type.Results != nil && len(fl.Type.Results.List) > 0 {
				body = nil
			}
		} else {
			// a function value with results cannot be passed as func(); wrap it
			body = nil
		}
	}
	if body == nil {
		inner := &ast.CallExpr{Fun: fun, Args: args, Ellipsis: call.Ellipsis}
		body = &ast.FuncLit{Type: &ast.FuncType{Params: &ast.FieldList{}}, Body: &ast.BlockStmt{List: []ast.Stmt{&ast.ExprStmt{X: inner}}}}
	}
	goCall := &ast.ExprStmt{X: &ast.CallExpr{Fun: sel("zzvrt", "Go"), Args: []ast.Expr{strLit(site), body}}}
	return &ast.BlockStmt{List: append(pre, goCall)}
}

// rangeChan turns `for v := range ch {B}` into
// `for { WaitAny(RecvReady(ch)); v, ok := <-ch; if !ok {break}; B }`.
func (r *rewriter) rangeChan(n *ast.RangeStmt, handled map[ast.Node]bool) ast.Stmt {
	r.needZ = true
	r.n++
	okv := ast.NewIdent(fmt.Sprintf("zzok%d", r.n))
	var v ast.Expr = ast.NewIdent("_")
	if !isBlank(n.Key) {
		v = n.Key
	}
	fn := &ast.FuncLit{
		Type: &ast.FuncType{Params: &ast.FieldList{}, Results: &ast.FieldList{List: []*ast.Field{{Type: ast.NewIdent("bool")}}}},
		Body: &ast.BlockStmt{List: []ast.Stmt{&ast.ReturnStmt{Results: []ast.Expr{r.ready("RecvReady", n.X)}}}},
	}
	wait := &ast.ExprStmt{X: &ast.CallExpr{Fun: sel("zzvrt", "WaitAny"), Args: []ast.Expr{strLit(r.site(n.Pos(), "rangechan")), fn}}}
	recv := &ast.UnaryExpr{Op: token.ARROW, X: n.X}
	handled[recv] = true
	as := &ast.AssignStmt{Lhs: []ast.Expr{v, okv}, Tok: token.DEFINE, Rhs: []ast.Expr{recv}}
	handled[as] = true
	brk := &ast.IfStmt{Cond: &ast.UnaryExpr{Op: token.NOT, X: okv}, Body: &ast.BlockStmt{List: []ast.Stmt{&ast.BranchStmt{Tok: token.BREAK}}}}
	body := &ast.BlockStmt{List: append([]ast.Stmt{wait, as, brk}, n.Body.List...)}
	return &ast.ForStmt{Body: body}
}

func isBlank(e ast.Expr) bool {
	if e == nil {
		return true
	}
	id, ok := e.(*ast.Ident)
	return ok && id.Name == "_"
}

func (r *rewriter) rangeMap(n *ast.RangeStmt) {
	r.needZ = true
	r.n++
	site := r.site(n.Pos(), "maprange")
	ent := ast.NewIdent(fmt.Sprintf("zze%d", r.n))
	okv := ast.NewIdent(fmt.Sprintf("zzok%d", r.n))
	var pre []ast.Stmt
	tok := n.Tok
	if tok == token.ILLEGAL {
		tok = token.DEFINE
	}
	if !isBlank(n.Key) {
		pre = append(pre, &ast.AssignStmt{Lhs: []ast.Expr{n.Key}, Tok: tok, Rhs: []ast.Expr{&ast.SelectorExpr{X: ent, Sel: ast.NewIdent("K")}}})
	}
	get := &ast.CallExpr{Fun: &ast.SelectorExpr{X: ent, Sel: ast.NewIdent("Get")}}
	if !isBlank(n.Value) {
		if tok == token.DEFINE {
			pre = append(pre, &ast.AssignStmt{Lhs: []ast.Expr{n.Value, okv}, Tok: token.DEFINE, Rhs: []ast.Expr{get}})
		} else {
			pre = append(pre,
				&ast.DeclStmt{Decl: &ast.GenDecl{Tok: token.VAR, Specs: []ast.Spec{&ast.ValueSpec{Names: []*ast.Ident{okv}, Type: ast.NewIdent("bool")}}}},
				&ast.AssignStmt{Lhs: []ast.Expr{n.Value, okv}, Tok: token.ASSIGN, Rhs: []ast.Expr{get}})
		}
	} else {
		pre = append(pre, &ast.AssignStmt{Lhs: []ast.Expr{ast.NewIdent("_"), okv}, Tok: token.DEFINE, Rhs: []ast.Expr{get}})
	}
	pre = append(pre, &ast.IfStmt{Cond: &ast.UnaryExpr{Op: token.NOT, X: okv}, Body: &ast.BlockStmt{List: []ast.Stmt{&ast.BranchStmt{Tok: token.CONTINUE}}}})
	n.Body.List = append(pre, n.Body.List...)
	n.X = &ast.CallExpr{Fun: sel("zzvrt", "Iter"), Args: []ast.Expr{strLit(site), n.X}}
	n.Key = ast.NewIdent("_")
	n.Value = ent
	n.Tok = token.DEFINE
}
