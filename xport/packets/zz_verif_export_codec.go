//go:build verif

package packets

import "bytes"

// VerifEncodeLength exposes the unexported variable-byte-integer encoder (C29).
func VerifEncodeLength(b *bytes.Buffer, length int64) { encodeLength(b, length) }
