//go:build verif

package listeners

import "net/http"

// VerifHandler returns the websocket listener's real HTTP handler bound to establish
// (add-only export for the /verif harness; Init must have been called).
func (l *Websocket) VerifHandler(establish EstablishFn) http.HandlerFunc {
	l.establish = establish
	return l.handler
}
