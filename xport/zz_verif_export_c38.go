//go:build verif

package mqtt

// VerifCountSubscriptions walks the topic trie and counts client and shared subscriptions.
func (x *TopicsIndex) VerifCountSubscriptions() (client, shared, inline int) {
	var walk func(p *particle)
	walk = func(p *particle) {
		if p.subscriptions != nil {
			client += p.subscriptions.Len()
		}
		if p.shared != nil {
			shared += p.shared.Len()
		}
		if p.inlineSubscriptions != nil {
			inline += p.inlineSubscriptions.Len()
		}
		for _, c := range p.particles.getAll() {
			walk(c)
		}
	}
	walk(x.root)
	return
}

// VerifInflightTotal sums the in-flight map sizes of all known clients.
func (s *Server) VerifInflightTotal() (n int) {
	for _, cl := range s.Clients.GetAll() {
		n += cl.State.Inflight.Len()
	}
	return
}
