//go:build verif

package mqtt

import "github.com/mochi-mqtt/server/v2/packets"

// Add-only exports for the /verif harness (build tag verif). They expose existing
// unexported entry points and change no behaviour.

func (s *Server) VerifClearExpiredClients(now int64)   { s.clearExpiredClients(now) }
func (s *Server) VerifClearExpiredRetained(now int64)  { s.clearExpiredRetainedMessages(now) }
func (s *Server) VerifSendDelayedLWT(now int64)        { s.sendDelayedLWT(now) }
func (s *Server) VerifClearExpiredInflights(now int64) { s.clearExpiredInflights(now) }
func (s *Server) VerifPublishSysTopics()               { s.publishSysTopics() }
func (s *Server) VerifReadStore() error                { return s.readStore() }
func (s *Server) VerifWillDelayed() *packets.Packets   { return s.loop.willDelayed }
func (s *Server) VerifHooks() *Hooks                   { return s.hooks }
func (s *Server) VerifInlineClient() *Client           { return s.inlineClient }
func (c *Capabilities) VerifSetMaxPacketID(n uint32)   { c.maximumPacketID = n }
func (cl *Client) VerifSendQuota() (send, recv, maxSend, maxRecv int32) {
	i := cl.State.Inflight
	return i.sendQuota, i.receiveQuota, i.maximumSendQuota, i.maximumReceiveQuota
}
func (cl *Client) VerifOutboundLen() int { return len(cl.State.outbound) }
