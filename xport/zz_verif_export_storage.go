//go:build verif

package mqtt

import "github.com/mochi-mqtt/server/v2/packets"

// Add-only export for the storage checks (C20, C21): every client and shared
// subscription held in the topic index, keyed "client|filter". Changes no behaviour.
func (s *Server) VerifIndexSubscriptions() map[string]packets.Subscription {
	out := map[string]packets.Subscription{}
	var walk func(p *particle)
	walk = func(p *particle) {
		if p.subscriptions != nil {
			for id, sub := range p.subscriptions.GetAll() {
				out[id+"|"+sub.Filter] = sub
			}
		}
		if p.shared != nil {
			for _, grp := range p.shared.GetAll() {
				for id, sub := range grp {
					out[id+"|"+sub.Filter] = sub
				}
			}
		}
		for _, c := range p.particles.getAll() {
			walk(c)
		}
	}
	walk(s.Topics.root)
	return out
}
