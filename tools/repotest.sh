#!/bin/bash
# Runs mochi's own tests for the given packages (default: . ./packets ./hooks/auth) several
# times and prints the tests that failed in EVERY run (timing-dependent tests of the suite
# flake under CPU load; a consistent failure is what matters).
# usage: repotest.sh [repo dir] [runs] [pkgs...]
REPO=${1:-/repo}; RUNS=${2:-4}; shift; shift
PKGS=${@:-. ./packets ./hooks/auth ./listeners ./mempool ./system}
export GOFLAGS=-mod=mod GOPROXY=off GOSUMDB=off GOTOOLCHAIN=local
cd "$REPO" || exit 2
tmp=$(mktemp -d)
for i in $(seq 1 $RUNS); do
  go test -count=1 -vet=off $PKGS 2>&1 | grep -E "^\s*--- FAIL|^FAIL.*\[build failed\]|cannot|undefined" | sed 's/ (.*//' | sort -u > $tmp/run$i
done
cp $tmp/run1 $tmp/all
for i in $(seq 2 $RUNS); do comm -12 $tmp/all $tmp/run$i > $tmp/x; mv $tmp/x $tmp/all; done
echo "failed in every one of $RUNS runs:"; cat $tmp/all; echo "(end)"
echo "failed in at least one run:"; cat $tmp/run* | sort | uniq -c
n=$(wc -l < $tmp/all); rm -rf $tmp; exit $n
