#!/bin/bash
# Re-evaluates every kept seeded change (seeded/<ID>-<n>) against the CURRENT checks, N streams in
# parallel, each stream in its own copy of /verif (own build directory and lock).
# usage: seedall.sh [N=3] [ID-n ...]   results: seeded/*/meta.json, logs /tmp/seedall.<k>.log
N=${1:-3}; shift
list=${@:-$(ls /verif/seeded)}
i=0
for k in $(seq 1 $N); do
  rm -rf /tmp/sv$k; mkdir -p /tmp/sv$k
  rsync -a --exclude .git --exclude .cache --exclude .build --exclude seeded --exclude replays /verif/ /tmp/sv$k/verif/
  ln -sfn /verif/.cache /tmp/sv$k/verif/.cache
  : > /tmp/seedall.$k.list
done
for s in $list; do k=$(( i % N + 1 )); echo $s >> /tmp/seedall.$k.list; i=$((i+1)); done
for k in $(seq 1 $N); do
  ( while read s; do id=${s%-*}; n=${s##*-}
      python3 /verif/tools/seedcheck.py $id --stored --only $n --skip-suite --verif /tmp/sv$k/verif 2>&1 | grep "^$id" | cut -c1-400
    done < /tmp/seedall.$k.list > /tmp/seedall.$k.log 2>&1; rm -rf /tmp/sv$k ) &
done
wait
