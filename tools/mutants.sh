#!/bin/bash
# Applies every own mutant (mutants/<ID>/*.diff) to a scratch copy of /repo and runs the property's
# quick check against it; prints CAUGHT / MISSED / NOAPPLY per mutant. usage: mutants.sh [ID...]
cd "$(dirname "$0")/.."; V=$PWD
ids=${@:-$(ls mutants)}
for id in $ids; do
  for m in mutants/$id/*.diff; do
    [ -f "$m" ] || continue
    w=/tmp/mutw.$$; rm -rf $w; cp -a /repo $w
    if ! (cd $w && git apply "$V/$m" 2>/dev/null || patch -p1 -s -f < "$V/$m" >/dev/null 2>&1); then echo "NOAPPLY $id $(basename $m)"; rm -rf $w; continue; fi
    out=$(VERIF_REPO=$w ./run.sh check $id quick 2>&1)
    if echo "$out" | grep -q "^VIOLATION"; then echo "CAUGHT  $id $(basename $m) $(echo "$out" | grep -m2 'key=' | tr -s ' ' | tr '\n' ' ' | cut -c1-160)"; else echo "MISSED  $id $(basename $m)"; fi
    rm -rf $w
  done
done
./run.sh build >/dev/null 2>&1
