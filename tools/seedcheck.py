#!/usr/bin/env python3
"""Validates seeded changes delivered by a seeding sub-agent and runs /verif checks against them.
usage: seedcheck.py <ID> [--checks C01,C05] [--tier quick] [--skip-suite]
For each /tmp/seedout/<ID>/patch<i>.diff:
  1. scratch worktree of /repo HEAD under /tmp/seedeval; patch must apply
  2. demo passes without the patch and fails with it
  3. mochi's own suite passes with it (failures must repeat in every one of 3 runs to count)
  4. the given checks (default: the seeded property's check) run against the patched copy via VERIF_REPO
Results are stored in /verif/seeded/<ID>-<i>/ (patch.diff, demo, meta.json)."""
import json, os, shutil, subprocess, sys, glob, re
ENV = dict(os.environ, GOFLAGS="-mod=mod", GOPROXY="off", GOSUMDB="off", GOTOOLCHAIN="local")
def sh(cmd, cwd=None, env=ENV, timeout=3600):
    p = subprocess.run(cmd, shell=True, cwd=cwd, env=env, stdout=subprocess.PIPE, stderr=subprocess.STDOUT, text=True, timeout=timeout)
    return p.returncode, p.stdout
def main():
    ID = sys.argv[1]
    checks = [ID]; tier = "quick"; skip_suite = False; srcroot = "/tmp/seedout"; offset = 0; vdir = "/verif"; only = None; reuse = False
    a = sys.argv[2:]
    while a:
        x = a.pop(0)
        if x == "--checks": checks = a.pop(0).split(",")
        elif x == "--tier": tier = a.pop(0)
        elif x == "--skip-suite": skip_suite = True
        elif x == "--src": srcroot = a.pop(0)
        elif x == "--offset": offset = int(a.pop(0))
        elif x == "--verif": vdir = a.pop(0)      # run the checks from this copy of /verif (own build dir and lock)
        elif x == "--stored": reuse = True        # take patch/demo from /verif/seeded/<ID>-<n> instead of a seeder's delivery
        elif x == "--only": only = a.pop(0)       # with --stored: only this <n>
    src = srcroot + "/" + ID
    items = []
    if reuse:
        for d in sorted(glob.glob("/verif/seeded/%s-*" % ID)):
            n = d.rsplit("-", 1)[1]
            if only and n != only: continue
            items.append((d + "/patch.diff", n, d))
    else:
        for pf in sorted(glob.glob(src + "/patch*.diff")):
            items.append((pf, re.search(r"patch(\d+)\.diff", pf).group(1), None))
    for pf, i, stored in items:
        out = stored or "/verif/seeded/%s-%d" % (ID, int(i) + offset)
        os.makedirs(out, exist_ok=True)
        meta = {}
        mf = src + "/meta%s.json" % i
        if stored:
            try:
                oldm = json.load(open(stored + "/meta.json"))
                meta = oldm.get("seed_meta", {})
                if oldm.get("checks"): checks = sorted(set(list(oldm["checks"].keys()) + [ID]))
            except Exception: meta = {}
        elif os.path.exists(mf):
            try: meta = json.load(open(mf))
            except Exception as e: meta = {"meta_parse_error": str(e)}
        res = {"seed_meta": meta, "property": ID}
        wt = "/tmp/seedeval/%s-%s" % (ID, i)
        sh("git -C /repo worktree remove --force %s" % wt); shutil.rmtree(wt, ignore_errors=True)
        os.makedirs("/tmp/seedeval", exist_ok=True)
        rc, o = sh("git -C /repo worktree add -q --detach %s HEAD" % wt)
        if rc: print("worktree failed", o); continue
        head = sh("git -C /repo rev-parse --short HEAD")[1].strip()
        res["evaluated_at_repo_head"] = head
        rc, o = sh("git apply --check %s" % pf, cwd=wt)
        threeway = False
        if rc:
            rc3, o3 = sh("git apply --3way %s && git reset -q" % pf, cwd=wt)
            if rc3 == 0 and "<<<<<<<" not in sh("git diff", cwd=wt)[1]:
                sh("git diff > /tmp/seedeval/%s-%s.ported.diff && git checkout -- ." % (ID, i), cwd=wt)
                pf = "/tmp/seedeval/%s-%s.ported.diff" % (ID, i)
                rc, o, threeway = 0, "", True
            else:
                sh("git checkout -- . ; git clean -fdq", cwd=wt)
        res["applies"] = rc == 0
        if threeway: res["applied_with_3way_merge_at_head"] = True
        if rc:
            res["apply_error"] = o[-500:]
            print(ID, i, "patch does not apply at HEAD", o[-300:])
        else:
            demos = glob.glob(stored + "/*_test.go") if stored else glob.glob(src + "/demo%s_test.go" % i)
            demo_pkg = "."
            dc = meta.get("demo_cmd", "")
            m = re.search(r"cp \S+ (\S+)", dc)
            dst = m.group(1) if m else "seeded_demo%s_test.go" % i
            pre = "/tmp/seedwt/%s/" % ID
            mm = re.match(r"/tmp/seedwt\d+/%s/" % ID, dst)
            if mm: pre = mm.group(0)
            if dst.startswith(pre):
                dst = dst[len(pre):]
            elif dst.startswith("/"):
                dst = os.path.basename(dst)
            dst = dst.lstrip("./")
            if "/" in dst: demo_pkg = "./" + os.path.dirname(dst)
            run = re.search(r"-run '?\"?([^ '\"]+)", dc)
            runpat = run.group(1) if run else "Seed"
            if demos:
                shutil.copy(demos[0], os.path.join(wt, dst))
                c = "go test -count=1 -vet=off -run '%s' %s" % (runpat, demo_pkg)
                rc0, o0 = sh(c, cwd=wt)
                sh("git apply %s" % pf, cwd=wt)
                rc1, o1 = sh(c, cwd=wt)
                res["demo_passes_without"] = rc0 == 0
                res["demo_fails_with"] = rc1 != 0
                res["demo_cmd"] = c
                if rc0 != 0: res["demo_without_output"] = o0[-800:]
                os.remove(os.path.join(wt, dst))
                if not stored: shutil.copy(demos[0], out + "/" + os.path.basename(demos[0]))
            else:
                sh("git apply %s" % pf, cwd=wt)
                res["demo_missing"] = True
            if not skip_suite:
                rc, o = sh("/verif/tools/repotest.sh %s 3" % wt)
                res["suite_consistent_failures"] = rc
                res["suite_output"] = o[-600:]
            det = {}
            for c in checks:
                rc, o = sh("VERIF_REPO=%s ./run.sh check %s %s" % (wt, c, tier), cwd=vdir)
                keys = re.findall(r"^\s+key=(\S+)", o, re.M)
                det[c] = {"exit": rc, "violation_keys": keys, "violation_lines": len(re.findall(r"^VIOLATION ", o, re.M))}
                if rc != 0 and not det[c]["violation_lines"]:
                    det[c]["error_output"] = o[-600:]
                ev = "/verif/evidence/%s.json" % c
            res["checks"] = det
            res["detected"] = any(v["exit"] == 1 and v["violation_lines"] > 0 for v in det.values())
        if not stored: shutil.copy(pf, out + "/patch.diff")
        elif res.get("applied_with_3way_merge_at_head"):
            if not os.path.exists(out + "/patch.orig.diff"): shutil.copy(out + "/patch.diff", out + "/patch.orig.diff")
            shutil.copy(pf, out + "/patch.diff")
        if skip_suite and os.path.exists(out + "/meta.json"):
            try:
                old = json.load(open(out + "/meta.json"))
                for k, v in old.items():
                    if k.startswith("suite_") or k == "note": res[k] = v
                if old.get("demo_fails_with") and not res.get("demo_fails_with") and res.get("demo_passes_without"):
                    res["demo_fails_with_note"] = "failed with the change in an earlier evaluation; schedule-dependent demo"
            except Exception: pass
        json.dump(res, open(out + "/meta.json", "w"), indent=1)
        print(ID, i if stored else int(i) + offset, {k: res.get(k) for k in ("applies", "demo_passes_without", "demo_fails_with", "suite_consistent_failures", "detected")}, {c: v["violation_keys"][:4] for c, v in res.get("checks", {}).items()})
        sh("git -C /repo worktree remove --force %s" % wt); shutil.rmtree(wt, ignore_errors=True)
    # restore the instrumented build and evidence of the real tree
    sh("./run.sh build", cwd=vdir)
main()
