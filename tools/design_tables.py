#!/usr/bin/env python3
"""Regenerates the generated sections of DESIGN.md (between the GENERATED markers):
 §11.1 fix commits, §11.2 known findings, §12 seeded changes and mutants."""
import subprocess, re, json, glob, os
D='/verif/DESIGN.md'
kf=open('/verif/KNOWN_FINDINGS.txt').read().splitlines()
fixed=[l for l in kf if l.startswith('fixed:')]
known=[l for l in kf if l.startswith('known:')]
log=subprocess.run("git -C /repo log --reverse --format='%h|%s' f01d2fe..HEAD",shell=True,capture_output=True,text=True).stdout.strip().splitlines()
byc={}
for l in fixed:
    m=re.match(r'fixed: property=(C\d+) (\w+) (.*)',l)
    if m: byc.setdefault(m.group(2),[]).append(m.group(1))
o=[]
o.append("### 11.1 Repairs (`fix:` commits in /repo, in commit order)\n")
o.append("Every commit is minimal, unguarded, was validated with `tools/repotest.sh` (mochi's unedited suite; a test counts as broken only if it fails in every run) and by re-running the reporting check, which is quiet afterwards. `fixed:` lines in KNOWN_FINDINGS.txt give the failing input/history per property; they suppress nothing.\n")
o.append("| commit | subject | properties whose check reported it |\n|---|---|---|")
for l in log:
    h,sub=l.split('|',1)
    if not sub.startswith('fix:'): continue
    props=sorted(set(byc.get(h,[])))
    o.append("| %s | %s | %s |"%(h,sub.replace('|','\\|'),", ".join(props) if props else "-"))
o.append("\n### 11.2 Known findings (genuine defects recorded, not repaired)\n")
o.append("Each is keyed by the failing shape; any other violation of the same property still fails the check. Reasons for not repairing: the behaviour is pinned by mochi's own tests (the unedited suite must keep passing), or the repair is a design change (two in-flight maps, readers under the root lock, alias binding at write time, counting handlers before `go` in every listener, acknowledging after fan-out).\n")
o.append("| property | key | what fails |\n|---|---|---|")
for l in known:
    m=re.match(r'known: property=(C\d+) key=(\S+) (.*)',l)
    what=m.group(3)
    if len(what)>240: what=what[:237]+'...'
    o.append("| %s | `%s` | %s |"%(m.group(1),m.group(2),what.replace('|','\\|')))
o.append("\n## 12. Detection: seeded changes and mutants\n")
o.append("### 12.1 Seeded changes by independent sub-agents\n")
o.append("Fresh sub-agents were given only a property's text and a scratch worktree of /repo (nothing from /verif) and asked for a realistic change that breaks the property, compiles, passes mochi's tests and needs something specific to manifest, plus a demonstration. `tools/seedcheck.py` re-validates each (patch applies at HEAD, demo passes without and fails with it, suite has no consistent failure) and runs the checks against the patched copy. Kept under `seeded/<id>-<n>/`.\n")
o.append("| seed | change (seeder's summary) | needs | caught by (keys) |\n|---|---|---|---|")
for d in sorted(glob.glob('/verif/seeded/*')):
    mf=d+'/meta.json'
    if not os.path.exists(mf): continue
    m=json.load(open(mf))
    sm=m.get('seed_meta',{})
    det=[]
    for c,v in (m.get('checks') or {}).items():
        if v.get('violation_keys'): det.append("%s: %s"%(c,", ".join("`%s`"%k for k in v['violation_keys'][:3])+(" …" if len(v['violation_keys'])>3 else "")))
    status="; ".join(det) if det else ("NOT CAUGHT" if m.get('applies') else "does not apply at HEAD")
    note=m.get('note','')
    def cut(x,n):
        x=str(x).replace('|','\\|').replace('\n',' ')
        return x if len(x)<=n else x[:n-1]+'…'
    o.append("| %s | %s | %s | %s%s |"%(os.path.basename(d),cut(sm.get('summary',''),220),cut(sm.get('needs',''),160),status,(" ("+note+")") if note else ""))
o.append("\n### 12.2 Own mutants (`mutants/<id>/*.diff`)\n")
o.append("Written together with the checks (each still compiles and passes mochi's tests); every one is reported by its property's check with a key that is not a known finding. Apply with `git apply` to a scratch copy and run `VERIF_REPO=<copy> ./run.sh check <id> quick`.\n")
o.append("| property | mutants |\n|---|---|")
for d in sorted(glob.glob('/verif/mutants/C*')):
    names=[os.path.basename(x)[:-5] for x in sorted(glob.glob(d+'/*.diff'))]
    o.append("| %s | %s |"%(os.path.basename(d),", ".join(names)))
gen="\n".join(o)
s=open(D).read()
B,E='<!-- BEGIN GENERATED -->','<!-- END GENERATED -->'
if B in s:
    s=s[:s.index(B)+len(B)]+"\n"+gen+"\n"+s[s.index(E):]
else:
    raise SystemExit("markers missing")
open(D,'w').write(s)
print("regenerated", len(o), "lines")
