#!/usr/bin/env python3
"""Runs mochi's whole test suite (go test ./..., the baseline command) against every kept seeded
change and records, in seeded/<ID>-<n>/meta.json, the baseline-stable tests that fail in EVERY
one of up to 3 runs (the suite has timing-dependent tests that flake under load).
usage: seedsuite.py [--jobs N] [ID-n ...]"""
import json, os, subprocess, sys, glob, shutil
from concurrent.futures import ThreadPoolExecutor
ENV = dict(os.environ, GOFLAGS="-mod=mod", GOPROXY="off", GOSUMDB="off", GOTOOLCHAIN="local")
STABLE = set(json.load(open("/root/.vp/BASELINE.json"))["stable_pass"])
def sh(cmd, cwd=None, timeout=3000):
    p = subprocess.run(cmd, shell=True, cwd=cwd, env=ENV, stdout=subprocess.PIPE, stderr=subprocess.STDOUT, text=True, timeout=timeout)
    return p.returncode, p.stdout
def suite(wt):
    rc, o = sh("go build ./... && go test -vet=off -count=1 -run '^$' ./...", cwd=wt)
    if rc: return None, "build failed: " + o[-400:]
    failing = None
    for run in range(3):
        rc, o = sh("go test -json -vet=off -count=1 -timeout 25m ./...", cwd=wt)
        res = {}
        for l in o.splitlines():
            try: d = json.loads(l)
            except Exception: continue
            if d.get("Test") and d.get("Action") in ("pass", "fail", "skip"):
                res[d["Package"] + "::" + d["Test"]] = d["Action"]
        bad = {t for t in STABLE if res.get(t) != "pass"}
        failing = bad if failing is None else failing & bad
        if not failing: break
    return sorted(failing), "runs=%d" % (run + 1)
def one(name):
    d = "/verif/seeded/" + name
    wt = "/tmp/seedeval/suite-" + name
    sh("git -C /repo worktree remove --force %s" % wt); shutil.rmtree(wt, ignore_errors=True)
    os.makedirs("/tmp/seedeval", exist_ok=True)
    rc, o = sh("git -C /repo worktree add -q --detach %s HEAD" % wt)
    if rc: return name, "worktree failed"
    rc, o = sh("git apply %s/patch.diff" % d, cwd=wt)
    if rc:
        res = (None, "patch does not apply: " + o[-200:])
    else:
        res = suite(wt)
    sh("git -C /repo worktree remove --force %s" % wt); shutil.rmtree(wt, ignore_errors=True)
    m = json.load(open(d + "/meta.json"))
    m["suite_stable_tests_failing_in_every_run"] = res[0]
    m["suite_consistent_failures"] = None if res[0] is None else len(res[0])
    m["suite_note"] = res[1] + "; go test ./... at repo HEAD " + sh("git -C /repo rev-parse --short HEAD")[1].strip()
    m.pop("suite_output", None)
    json.dump(m, open(d + "/meta.json", "w"), indent=1)
    return name, res
def main():
    a = sys.argv[1:]; jobs = 3
    if a and a[0] == "--jobs": jobs = int(a[1]); a = a[2:]
    names = a or sorted(os.path.basename(os.path.dirname(p)) for p in glob.glob("/verif/seeded/*/patch.diff"))
    with ThreadPoolExecutor(jobs) as ex:
        for name, res in ex.map(one, names):
            print(name, res, flush=True)
main()
