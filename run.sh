#!/bin/bash
# Entry point for every /verif command. Builds the instrumented copy of /repo's current
# working tree (hash-keyed), the check binary, and dispatches.
set -e
cd "$(dirname "$0")"
export VERIF_DIR="$PWD"
export GOFLAGS=-mod=mod GOPROXY=off GOSUMDB=off GOTOOLCHAIN=local
export GOCACHE="$PWD/.cache/go-build"
REPO="${VERIF_REPO:-/repo}"
OUT="$PWD/.build/mochi"
mkdir -p .build/bin .cache

# The instrumented copy and the check binary are shared: builds are serialised (exclusive
# lock); a run on /repo then keeps a shared lock, a run on another tree (VERIF_REPO) keeps
# the exclusive lock until it ends, so that no build replaces a binary that is in use.
exec 9>.build/lock
flock -x 9

build() {
  if [ ! -x .build/bin/vinstr ] || [ cmd/vinstr/main.go -nt .build/bin/vinstr ]; then
    (cd cmd/vinstr && go build -o "$VERIF_DIR/.build/bin/vinstr" .) >&2
  fi
  .build/bin/vinstr -repo "$REPO" -out "$OUT" -verif "$PWD" >&2
  cp "$OUT/go.sum" go.sum 2>/dev/null || true
  go build -tags verif -o .build/bin/vcheck ./cmd/vcheck >&2
}

buildrace() {
  go build -race -tags verif -o .build/bin/vcheck-race ./cmd/vcheck >&2
}

case "$1" in
  setup)
    build
    buildrace
    .build/bin/vcheck selftest
    ;;
  check)
    build
    shift
    if [ "$1" = "C33" ] || [ "$1" = "C31" ]; then buildrace; fi
    if [ -z "$VERIF_REPO" ]; then flock -s 9; fi
    exec .build/bin/vcheck check "$@"
    ;;
  replay)
    build
    shift
    if [ -z "$VERIF_REPO" ]; then flock -s 9; fi
    exec .build/bin/vcheck replay "$@"
    ;;
  build)
    build
    ;;
  *)
    echo "usage: run.sh setup | check <id> [quick|thorough] | replay <file> | build" >&2
    exit 2
    ;;
esac
