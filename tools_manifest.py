#!/usr/bin/env python3
# Regenerates MANIFEST.json from the table below (single source of truth for check registration).
import json, sys
CHECKS = json.load(open('/verif/checks.json'))
NA = json.load(open('/verif/not_applicable.json'))
m = {
 "version": 1,
 "setup_cmd": "./run.sh setup",
 "hooks": {
  "guard": "verif",
  "enable": "./run.sh build  (vinstr writes an instrumented copy of /repo's working tree to /verif/.build/mochi: sync/atomic/time shims, go/select/map-range rewrites, plus add-only //go:build verif export files from /verif/xport; built with: go build -tags verif)",
  "baseline_off_cmd": "cd /repo && GOFLAGS=-mod=mod GOPROXY=off GOSUMDB=off GOTOOLCHAIN=local go test -vet=off -count=1 -timeout 25m ./...",
  "source_commits": [],
  "add_only": True
 },
 "engines": [
  {"name": "E1 enum", "path": "explore/common.go", "kind_free_text": "bounded-exhaustive enumeration of inputs of pure functions/codecs/data structures against independent reference implementations (ref/)"},
  {"name": "E2 histex", "path": "explore/bfs.go", "kind_free_text": "explicit-state BFS over operation histories of the real broker under the deterministic cooperative scheduler; canonical-state dedup; successor = replay on fresh broker + 1 op"},
  {"name": "E3 sched", "path": "explore/dfs.go", "kind_free_text": "stateless DFS over thread interleavings of the real (instrumented) broker, iterative delay/preemption bounding, explicit select-case and map-order choices"},
  {"name": "E4 fault", "path": "explore/fault.go", "kind_free_text": "for every history, every storage-write prefix (crash) / every failing conn.Write index"},
  {"name": "zzvrt", "path": "zzvrt/", "kind_free_text": "cooperative scheduler runtime + sync/atomic/time shims shared by instrumented code and harness"},
  {"name": "vinstr", "path": "cmd/vinstr/", "kind_free_text": "source instrumenter (go/packages + go/ast)"}
 ],
 "checks": [],
 "not_applicable": NA,
 "notes": "All checks: ./run.sh check <id> quick|thorough. Nothing is committed to /repo except fix: commits; instrumentation is generated from the current working tree on every invocation (hash-keyed)."
}
for c in CHECKS:
    e = {
     "property_id": c["id"],
     "quick_cmd": "./run.sh check %s quick" % c["id"],
     "thorough_cmd": "./run.sh check %s thorough" % c["id"],
     "evidence_file": "/verif/evidence/%s.json" % c["id"],
     "replay_cmd_template": "./run.sh replay {path}",
     "engine": c["engine"],
     "level_claimed": {"category": c["category"], "text": c["text"], "design_ref": c.get("design_ref", "DESIGN.md §5 " + c["id"])},
     "level_note": c["note"],
     "technique": c["technique"],
    }
    m["checks"].append(e)
json.dump(m, open('/verif/MANIFEST.json', 'w'), indent=1)
print("checks:", len(CHECKS), "not_applicable:", len(NA))
