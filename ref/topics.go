package ref

import "strings"

// SplitShare parses "$share/<group>/<filter>". ok=false if f is not a shared filter.
// Per the specification the literal is "$share" (case sensitive).
func SplitShare(f string) (group, inner string, ok bool) {
	if !strings.HasPrefix(f, "$share/") {
		return "", "", false
	}
	rest := f[len("$share/"):]
	i := strings.IndexByte(rest, '/')
	if i < 0 {
		return rest, "", true
	}
	return rest[:i], rest[i+1:], true
}

// IsShare reports whether f's first level is $share (case sensitive).
func IsShare(f string) bool { return f == "$share" || strings.HasPrefix(f, "$share/") }

// ValidFilter implements MQTT 4.7 / 4.8.2 for subscription filters.
func ValidFilter(f string) bool {
	if f == "" {
		return false
	}
	if IsShare(f) {
		g, inner, _ := SplitShare(f)
		if g == "" || strings.ContainsAny(g, "+#") || inner == "" {
			return false
		}
		if f == "$share" {
			return false
		}
		f = inner
	}
	levels := strings.Split(f, "/")
	for i, l := range levels {
		if strings.Contains(l, "#") {
			if l != "#" || i != len(levels)-1 {
				return false
			}
		}
		if strings.Contains(l, "+") && l != "+" {
			return false
		}
	}
	return true
}

// ValidPublishTopic: what a client may publish to, as stated by property C30:
// no wildcard, does not start with "$SYS".
func ValidPublishTopic(t string) bool {
	if strings.ContainsAny(t, "+#") {
		return false
	}
	if len(t) >= 4 && strings.EqualFold(t[:4], "$SYS") {
		return false
	}
	return true
}

// Match implements MQTT 4.7 topic matching for a non-shared filter and a topic name.
func Match(filter, topic string) bool {
	if filter == "" || topic == "" {
		return false
	}
	if topic[0] == '$' && (filter[0] == '+' || filter[0] == '#') {
		return false
	}
	fl := strings.Split(filter, "/")
	tl := strings.Split(topic, "/")
	for i, f := range fl {
		if f == "#" {
			return i == len(fl)-1
		}
		if i >= len(tl) {
			return false
		}
		if f != "+" && f != tl[i] {
			return false
		}
	}
	return len(fl) == len(tl)
}

// MatchSub matches a subscription filter (possibly shared) against a topic.
func MatchSub(filter, topic string) bool {
	if _, inner, ok := SplitShare(filter); ok {
		return Match(inner, topic)
	}
	return Match(filter, topic)
}
