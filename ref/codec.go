// Package ref holds the independent oracles: an MQTT 3.1/3.1.1/5.0 codec written from the
// specification text (not from mochi's packets package), topic matching, filter
// validation and the reference broker rules used by the monitors.
package ref

import (
	"bytes"
	"errors"
	"fmt"
	"unicode/utf8"
)

// Packet types.
const (
	CONNECT     = 1
	CONNACK     = 2
	PUBLISH     = 3
	PUBACK      = 4
	PUBREC      = 5
	PUBREL      = 6
	PUBCOMP     = 7
	SUBSCRIBE   = 8
	SUBACK      = 9
	UNSUBSCRIBE = 10
	UNSUBACK    = 11
	PINGREQ     = 12
	PINGRESP    = 13
	DISCONNECT  = 14
	AUTH        = 15
)

var TypeNames = [...]string{"RESERVED", "CONNECT", "CONNACK", "PUBLISH", "PUBACK", "PUBREC", "PUBREL", "PUBCOMP",
	"SUBSCRIBE", "SUBACK", "UNSUBSCRIBE", "UNSUBACK", "PINGREQ", "PINGRESP", "DISCONNECT", "AUTH"}

// Property identifiers.
const (
	PPayloadFormat     = 0x01
	PMessageExpiry     = 0x02
	PContentType       = 0x03
	PResponseTopic     = 0x08
	PCorrelationData   = 0x09
	PSubscriptionID    = 0x0B
	PSessionExpiry     = 0x11
	PAssignedClientID  = 0x12
	PServerKeepAlive   = 0x13
	PAuthMethod        = 0x15
	PAuthData          = 0x16
	PRequestProblem    = 0x17
	PWillDelay         = 0x18
	PRequestResponse   = 0x19
	PResponseInfo      = 0x1A
	PServerReference   = 0x1C
	PReasonString      = 0x1F
	PReceiveMaximum    = 0x21
	PTopicAliasMaximum = 0x22
	PTopicAlias        = 0x23
	PMaximumQos        = 0x24
	PRetainAvailable   = 0x25
	PUser              = 0x26
	PMaximumPacketSize = 0x27
	PWildcardSubAvail  = 0x28
	PSubIDAvail        = 0x29
	PSharedSubAvail    = 0x2A
)

type pkind byte

const (
	kByte pkind = iota + 1
	kU16
	kU32
	kVar
	kStr
	kBin
	kPair
)

const willCtx = 16 // pseudo packet type for will properties

type pinfo struct {
	kind  pkind
	multi bool
	in    uint32 // bitmask of packet types (1<<type) where allowed
}

func m(ts ...int) uint32 {
	var r uint32
	for _, t := range ts {
		r |= 1 << uint(t)
	}
	return r
}

var propTable = map[byte]pinfo{
	PPayloadFormat:     {kByte, false, m(PUBLISH, willCtx)},
	PMessageExpiry:     {kU32, false, m(PUBLISH, willCtx)},
	PContentType:       {kStr, false, m(PUBLISH, willCtx)},
	PResponseTopic:     {kStr, false, m(PUBLISH, willCtx)},
	PCorrelationData:   {kBin, false, m(PUBLISH, willCtx)},
	PSubscriptionID:    {kVar, true, m(PUBLISH, SUBSCRIBE)},
	PSessionExpiry:     {kU32, false, m(CONNECT, CONNACK, DISCONNECT)},
	PAssignedClientID:  {kStr, false, m(CONNACK)},
	PServerKeepAlive:   {kU16, false, m(CONNACK)},
	PAuthMethod:        {kStr, false, m(CONNECT, CONNACK, AUTH)},
	PAuthData:          {kBin, false, m(CONNECT, CONNACK, AUTH)},
	PRequestProblem:    {kByte, false, m(CONNECT)},
	PWillDelay:         {kU32, false, m(willCtx)},
	PRequestResponse:   {kByte, false, m(CONNECT)},
	PResponseInfo:      {kStr, false, m(CONNACK)},
	PServerReference:   {kStr, false, m(CONNACK, DISCONNECT)},
	PReasonString:      {kStr, false, m(CONNACK, PUBACK, PUBREC, PUBREL, PUBCOMP, SUBACK, UNSUBACK, DISCONNECT, AUTH)},
	PReceiveMaximum:    {kU16, false, m(CONNECT, CONNACK)},
	PTopicAliasMaximum: {kU16, false, m(CONNECT, CONNACK)},
	PTopicAlias:        {kU16, false, m(PUBLISH)},
	PMaximumQos:        {kByte, false, m(CONNACK)},
	PRetainAvailable:   {kByte, false, m(CONNACK)},
	PUser:              {kPair, true, m(CONNECT, CONNACK, PUBLISH, willCtx, PUBACK, PUBREC, PUBREL, PUBCOMP, SUBSCRIBE, SUBACK, UNSUBSCRIBE, UNSUBACK, DISCONNECT, AUTH)},
	PMaximumPacketSize: {kU32, false, m(CONNECT, CONNACK)},
	PWildcardSubAvail:  {kByte, false, m(CONNACK)},
	PSubIDAvail:        {kByte, false, m(CONNACK)},
	PSharedSubAvail:    {kByte, false, m(CONNACK)},
}

// PropAllowed reports whether property id may appear in packet type t (use WillCtx for will properties).
func PropAllowed(id byte, t int) bool {
	pi, ok := propTable[id]
	return ok && pi.in&(1<<uint(t)) != 0
}

const WillCtx = willCtx

// PropIDs returns all property ids allowed in packet type t, ascending.
func PropIDs(t int) []byte {
	var out []byte
	for id := 0; id < 0x30; id++ {
		if PropAllowed(byte(id), t) {
			out = append(out, byte(id))
		}
	}
	return out
}

// Prop is one property; the field used depends on the id's kind.
type Prop struct {
	ID   byte
	Num  uint32
	Str  string // string / pair key
	Val  string // pair value
	Data []byte
}

func (p Prop) String() string {
	switch propTable[p.ID].kind {
	case kStr:
		return fmt.Sprintf("%02x=%q", p.ID, p.Str)
	case kBin:
		return fmt.Sprintf("%02x=%x", p.ID, p.Data)
	case kPair:
		return fmt.Sprintf("%02x=%q:%q", p.ID, p.Str, p.Val)
	}
	return fmt.Sprintf("%02x=%d", p.ID, p.Num)
}

// Props is an ordered property list.
type Props []Prop

func (ps Props) Get(id byte) (Prop, bool) {
	for _, p := range ps {
		if p.ID == id {
			return p, true
		}
	}
	return Prop{}, false
}

func (ps Props) All(id byte) []Prop {
	var out []Prop
	for _, p := range ps {
		if p.ID == id {
			out = append(out, p)
		}
	}
	return out
}

func (ps Props) Num(id byte) (uint32, bool) {
	p, ok := ps.Get(id)
	return p.Num, ok
}

// Filter is one SUBSCRIBE / UNSUBSCRIBE entry.
type Filter struct {
	Filter string
	Opts   byte // qos | nolocal<<2 | rap<<3 | rh<<4
}

func SubOpts(qos byte, noLocal, rap bool, rh byte) byte {
	o := qos & 3
	if noLocal {
		o |= 4
	}
	if rap {
		o |= 8
	}
	return o | (rh&3)<<4
}

// Packet is a decoded MQTT control packet.
type Packet struct {
	Type   byte
	Dup    bool
	Qos    byte
	Retain bool

	// CONNECT
	ProtoName   string
	ProtoVer    byte
	CleanStart  bool
	KeepAlive   uint16
	ClientID    string
	WillFlag    bool
	WillQos     byte
	WillRetain  bool
	WillTopic   string
	WillPayload []byte
	WillProps   Props
	UserFlag    bool
	PassFlag    bool
	Username    []byte
	Password    []byte

	SessionPresent bool
	ReasonCode     byte
	Topic          string
	PacketID       uint16
	Payload        []byte
	Filters        []Filter
	ReasonCodes    []byte
	Props          Props
}

func (p Packet) String() string {
	var b bytes.Buffer
	fmt.Fprintf(&b, "%s", TypeNames[p.Type&15])
	switch p.Type {
	case CONNECT:
		fmt.Fprintf(&b, "{%s/%d id=%q clean=%v ka=%d", p.ProtoName, p.ProtoVer, p.ClientID, p.CleanStart, p.KeepAlive)
		if p.WillFlag {
			fmt.Fprintf(&b, " will=%q/%q q%d r=%v %v", p.WillTopic, p.WillPayload, p.WillQos, p.WillRetain, p.WillProps)
		}
		b.WriteString("}")
	case CONNACK:
		fmt.Fprintf(&b, "{sp=%v rc=%#x}", p.SessionPresent, p.ReasonCode)
	case PUBLISH:
		fmt.Fprintf(&b, "{%q %q q%d", p.Topic, p.Payload, p.Qos)
		if p.Qos > 0 {
			fmt.Fprintf(&b, " id=%d", p.PacketID)
		}
		if p.Dup {
			b.WriteString(" dup")
		}
		if p.Retain {
			b.WriteString(" ret")
		}
		b.WriteString("}")
	case PUBACK, PUBREC, PUBREL, PUBCOMP:
		fmt.Fprintf(&b, "{id=%d rc=%#x}", p.PacketID, p.ReasonCode)
	case SUBSCRIBE, UNSUBSCRIBE:
		fmt.Fprintf(&b, "{id=%d %v}", p.PacketID, p.Filters)
	case SUBACK, UNSUBACK:
		fmt.Fprintf(&b, "{id=%d %x}", p.PacketID, p.ReasonCodes)
	case DISCONNECT, AUTH:
		fmt.Fprintf(&b, "{rc=%#x}", p.ReasonCode)
	}
	if len(p.Props) > 0 {
		fmt.Fprintf(&b, "%v", []Prop(p.Props))
	}
	return b.String()
}

// ---------- encoding ----------

// EncOpts selects among the encodings the specification permits.
type EncOpts struct {
	OmitReason      bool  // acks/DISCONNECT/AUTH: stop after the packet id (or emit remaining length 0)
	OmitPropLen     bool  // acks/DISCONNECT: stop after the reason code (no property length byte)
	RawFlags        *byte // override fixed header low nibble
	RawConnectFlags *byte
}

func EncodeVarint(v uint32) []byte {
	var out []byte
	for {
		b := byte(v % 128)
		v /= 128
		if v > 0 {
			b |= 0x80
		}
		out = append(out, b)
		if v == 0 {
			return out
		}
	}
}

func putU16(b *bytes.Buffer, v uint16) { b.WriteByte(byte(v >> 8)); b.WriteByte(byte(v)) }
func putU32(b *bytes.Buffer, v uint32) {
	b.WriteByte(byte(v >> 24))
	b.WriteByte(byte(v >> 16))
	b.WriteByte(byte(v >> 8))
	b.WriteByte(byte(v))
}
func putStr(b *bytes.Buffer, s string) { putU16(b, uint16(len(s))); b.WriteString(s) }
func putBin(b *bytes.Buffer, s []byte) { putU16(b, uint16(len(s))); b.Write(s) }

func encodePropsBody(ps Props) []byte {
	var b bytes.Buffer
	for _, p := range ps {
		b.WriteByte(p.ID)
		switch propTable[p.ID].kind {
		case kByte:
			b.WriteByte(byte(p.Num))
		case kU16:
			putU16(&b, uint16(p.Num))
		case kU32:
			putU32(&b, p.Num)
		case kVar:
			b.Write(EncodeVarint(p.Num))
		case kStr:
			putStr(&b, p.Str)
		case kBin:
			putBin(&b, p.Data)
		case kPair:
			putStr(&b, p.Str)
			putStr(&b, p.Val)
		default:
			// unknown id: raw data follows
			b.Write(p.Data)
		}
	}
	return b.Bytes()
}

func putProps(b *bytes.Buffer, ps Props) {
	body := encodePropsBody(ps)
	b.Write(EncodeVarint(uint32(len(body))))
	b.Write(body)
}

// Encode produces the wire form of p for protocol version ver (3,4,5).
func Encode(p Packet, ver byte, o EncOpts) []byte {
	var body bytes.Buffer
	flags := byte(0)
	v5 := ver >= 5
	switch p.Type {
	case CONNECT:
		name := p.ProtoName
		putStr(&body, name)
		body.WriteByte(p.ProtoVer)
		var cf byte
		if p.CleanStart {
			cf |= 2
		}
		if p.WillFlag {
			cf |= 4 | (p.WillQos&3)<<3
			if p.WillRetain {
				cf |= 0x20
			}
		}
		if p.PassFlag {
			cf |= 0x40
		}
		if p.UserFlag {
			cf |= 0x80
		}
		if o.RawConnectFlags != nil {
			cf = *o.RawConnectFlags
		}
		body.WriteByte(cf)
		putU16(&body, p.KeepAlive)
		if v5 {
			putProps(&body, p.Props)
		}
		putStr(&body, p.ClientID)
		if p.WillFlag {
			if v5 {
				putProps(&body, p.WillProps)
			}
			putStr(&body, p.WillTopic)
			putBin(&body, p.WillPayload)
		}
		if p.UserFlag {
			putBin(&body, p.Username)
		}
		if p.PassFlag {
			putBin(&body, p.Password)
		}
	case CONNACK:
		if p.SessionPresent {
			body.WriteByte(1)
		} else {
			body.WriteByte(0)
		}
		body.WriteByte(p.ReasonCode)
		if v5 {
			putProps(&body, p.Props)
		}
	case PUBLISH:
		flags = (p.Qos & 3) << 1
		if p.Dup {
			flags |= 8
		}
		if p.Retain {
			flags |= 1
		}
		putStr(&body, p.Topic)
		if p.Qos > 0 {
			putU16(&body, p.PacketID)
		}
		if v5 {
			putProps(&body, p.Props)
		}
		body.Write(p.Payload)
	case PUBACK, PUBREC, PUBREL, PUBCOMP:
		if p.Type == PUBREL {
			flags = 2
		}
		putU16(&body, p.PacketID)
		if v5 && !o.OmitReason {
			body.WriteByte(p.ReasonCode)
			if !o.OmitPropLen {
				putProps(&body, p.Props)
			}
		}
	case SUBSCRIBE:
		flags = 2
		putU16(&body, p.PacketID)
		if v5 {
			putProps(&body, p.Props)
		}
		for _, f := range p.Filters {
			putStr(&body, f.Filter)
			body.WriteByte(f.Opts)
		}
	case SUBACK, UNSUBACK:
		putU16(&body, p.PacketID)
		if v5 {
			putProps(&body, p.Props)
		}
		if p.Type == SUBACK || v5 {
			body.Write(p.ReasonCodes)
		}
	case UNSUBSCRIBE:
		flags = 2
		putU16(&body, p.PacketID)
		if v5 {
			putProps(&body, p.Props)
		}
		for _, f := range p.Filters {
			putStr(&body, f.Filter)
		}
	case PINGREQ, PINGRESP:
	case DISCONNECT, AUTH:
		if v5 && !o.OmitReason {
			body.WriteByte(p.ReasonCode)
			if !o.OmitPropLen {
				putProps(&body, p.Props)
			}
		}
	}
	if o.RawFlags != nil {
		flags = *o.RawFlags
	}
	out := []byte{p.Type<<4 | flags&15}
	out = append(out, EncodeVarint(uint32(body.Len()))...)
	return append(out, body.Bytes()...)
}

// ---------- strict decoding ----------

var ErrIncomplete = errors.New("incomplete packet")

type rd struct {
	b   []byte
	pos int
	err error
}

func (r *rd) fail(f string, a ...any) {
	if r.err == nil {
		r.err = fmt.Errorf(f, a...)
	}
}
func (r *rd) left() int { return len(r.b) - r.pos }
func (r *rd) u8() byte {
	if r.err != nil || r.left() < 1 {
		r.fail("truncated (byte) at %d", r.pos)
		return 0
	}
	r.pos++
	return r.b[r.pos-1]
}
func (r *rd) u16() uint16 { a := r.u8(); b := r.u8(); return uint16(a)<<8 | uint16(b) }
func (r *rd) u32() uint32 { a := r.u16(); b := r.u16(); return uint32(a)<<16 | uint32(b) }
func (r *rd) varint() uint32 {
	var v uint32
	var mul uint32 = 1
	for i := 0; i < 4; i++ {
		c := r.u8()
		if r.err != nil {
			return 0
		}
		v += uint32(c&0x7f) * mul
		if c&0x80 == 0 {
			if i > 0 && c == 0 {
				r.fail("non-minimal variable byte integer")
			}
			return v
		}
		mul *= 128
	}
	r.fail("variable byte integer longer than 4 bytes")
	return 0
}
func (r *rd) bin() []byte {
	n := int(r.u16())
	if r.err != nil {
		return nil
	}
	if r.left() < n {
		r.fail("declared length %d exceeds remaining %d", n, r.left())
		return nil
	}
	out := append([]byte{}, r.b[r.pos:r.pos+n]...)
	r.pos += n
	return out
}
func (r *rd) str() string {
	b := r.bin()
	if r.err != nil {
		return ""
	}
	if !ValidUTF8(b) {
		r.fail("invalid UTF-8 string %x", b)
	}
	return string(b)
}

// ValidUTF8 applies the MQTT rules: well-formed UTF-8, no U+0000, no surrogates.
func ValidUTF8(b []byte) bool {
	if !utf8.Valid(b) {
		return false
	}
	for _, c := range b {
		if c == 0 {
			return false
		}
	}
	return true
}

func (r *rd) props(ctx int) Props {
	n := int(r.varint())
	if r.err != nil {
		return nil
	}
	if r.left() < n {
		r.fail("property length %d exceeds remaining %d", n, r.left())
		return nil
	}
	end := r.pos + n
	sub := &rd{b: r.b[:end], pos: r.pos}
	var out Props
	seen := map[byte]bool{}
	for sub.pos < end && sub.err == nil {
		id := sub.u8()
		pi, ok := propTable[id]
		if !ok {
			sub.fail("unknown property %#x", id)
			break
		}
		if pi.in&(1<<uint(ctx)) == 0 {
			sub.fail("property %#x not allowed in %d", id, ctx)
			break
		}
		if seen[id] && !pi.multi {
			sub.fail("property %#x repeated", id)
			break
		}
		seen[id] = true
		p := Prop{ID: id}
		switch pi.kind {
		case kByte:
			p.Num = uint32(sub.u8())
		case kU16:
			p.Num = uint32(sub.u16())
		case kU32:
			p.Num = sub.u32()
		case kVar:
			p.Num = sub.varint()
		case kStr:
			p.Str = sub.str()
		case kBin:
			p.Data = sub.bin()
		case kPair:
			p.Str = sub.str()
			p.Val = sub.str()
		}
		out = append(out, p)
	}
	if sub.err != nil {
		r.err = sub.err
	}
	r.pos = end
	return out
}

// DecodeOne strictly decodes one packet from the front of b for protocol version ver.
// It returns the packet, the number of bytes consumed, or ErrIncomplete / a malformation error.
func DecodeOne(b []byte, ver byte) (Packet, int, error) {
	var p Packet
	if len(b) < 2 {
		return p, 0, ErrIncomplete
	}
	h := &rd{b: b, pos: 1}
	if len(b) < 5 {
		// need the whole length field
		complete := false
		for i := 1; i < len(b); i++ {
			if b[i]&0x80 == 0 {
				complete = true
				break
			}
		}
		if !complete {
			return p, 0, ErrIncomplete
		}
	}
	rl := int(h.varint())
	if h.err != nil {
		return p, 0, h.err
	}
	if h.left() < rl {
		return p, 0, ErrIncomplete
	}
	total := h.pos + rl
	r := &rd{b: b[:total], pos: h.pos}
	p.Type = b[0] >> 4
	fl := b[0] & 15
	v5 := ver >= 5
	want := byte(0)
	switch p.Type {
	case PUBREL, SUBSCRIBE, UNSUBSCRIBE:
		want = 2
	}
	if p.Type != PUBLISH && fl != want {
		return p, total, fmt.Errorf("%s: reserved flags %#x", TypeNames[p.Type], fl)
	}
	switch p.Type {
	case 0:
		return p, total, fmt.Errorf("reserved packet type 0")
	case CONNECT:
		p.ProtoName = r.str()
		p.ProtoVer = r.u8()
		cf := r.u8()
		if cf&1 != 0 {
			r.fail("connect reserved flag set")
		}
		p.CleanStart = cf&2 != 0
		p.WillFlag = cf&4 != 0
		p.WillQos = (cf >> 3) & 3
		p.WillRetain = cf&0x20 != 0
		p.PassFlag = cf&0x40 != 0
		p.UserFlag = cf&0x80 != 0
		if !p.WillFlag && (p.WillQos != 0 || p.WillRetain) {
			r.fail("will qos/retain without will flag")
		}
		if p.WillQos == 3 {
			r.fail("will qos 3")
		}
		p.KeepAlive = r.u16()
		if p.ProtoVer >= 5 {
			p.Props = r.props(CONNECT)
		}
		p.ClientID = r.str()
		if p.WillFlag {
			if p.ProtoVer >= 5 {
				p.WillProps = r.props(willCtx)
			}
			p.WillTopic = r.str()
			p.WillPayload = r.bin()
		}
		if p.UserFlag {
			p.Username = r.bin()
		}
		if p.PassFlag {
			p.Password = r.bin()
		}
	case CONNACK:
		f := r.u8()
		if f > 1 {
			r.fail("connack flags %#x", f)
		}
		p.SessionPresent = f == 1
		p.ReasonCode = r.u8()
		if v5 {
			p.Props = r.props(CONNACK)
		}
	case PUBLISH:
		p.Dup = fl&8 != 0
		p.Qos = (fl >> 1) & 3
		p.Retain = fl&1 != 0
		if p.Qos == 3 {
			r.fail("publish qos 3")
		}
		if p.Qos == 0 && p.Dup {
			r.fail("dup on qos 0")
		}
		p.Topic = r.str()
		if p.Qos > 0 {
			p.PacketID = r.u16()
			if p.PacketID == 0 {
				r.fail("packet id 0")
			}
		}
		if v5 {
			p.Props = r.props(PUBLISH)
		}
		if r.err == nil {
			p.Payload = append([]byte{}, r.b[r.pos:]...)
			r.pos = len(r.b)
		}
	case PUBACK, PUBREC, PUBREL, PUBCOMP:
		p.PacketID = r.u16()
		if p.PacketID == 0 {
			r.fail("packet id 0")
		}
		if v5 && r.left() > 0 {
			p.ReasonCode = r.u8()
			if r.left() > 0 {
				p.Props = r.props(int(p.Type))
			}
		}
	case SUBSCRIBE:
		p.PacketID = r.u16()
		if p.PacketID == 0 {
			r.fail("packet id 0")
		}
		if v5 {
			p.Props = r.props(SUBSCRIBE)
		}
		for r.err == nil && r.left() > 0 {
			f := Filter{Filter: r.str()}
			f.Opts = r.u8()
			p.Filters = append(p.Filters, f)
		}
		if len(p.Filters) == 0 {
			r.fail("subscribe without filters")
		}
	case UNSUBSCRIBE:
		p.PacketID = r.u16()
		if p.PacketID == 0 {
			r.fail("packet id 0")
		}
		if v5 {
			p.Props = r.props(UNSUBSCRIBE)
		}
		for r.err == nil && r.left() > 0 {
			p.Filters = append(p.Filters, Filter{Filter: r.str()})
		}
		if len(p.Filters) == 0 {
			r.fail("unsubscribe without filters")
		}
	case SUBACK, UNSUBACK:
		p.PacketID = r.u16()
		if v5 {
			p.Props = r.props(int(p.Type))
		}
		if p.Type == SUBACK || v5 {
			if r.err == nil {
				p.ReasonCodes = append([]byte{}, r.b[r.pos:]...)
				r.pos = len(r.b)
			}
		}
	case PINGREQ, PINGRESP:
	case DISCONNECT, AUTH:
		if !v5 && p.Type == AUTH {
			r.fail("AUTH in protocol version %d", ver)
		}
		if v5 && r.left() > 0 {
			p.ReasonCode = r.u8()
			if r.left() > 0 {
				p.Props = r.props(int(p.Type))
			}
		}
	}
	if r.err != nil {
		return p, total, fmt.Errorf("%s: %w", TypeNames[p.Type], r.err)
	}
	if r.left() != 0 {
		return p, total, fmt.Errorf("%s: %d trailing bytes inside remaining length", TypeNames[p.Type], r.left())
	}
	return p, total, nil
}

// DecodeStream decodes as many whole packets as b holds. rest is the undecoded tail.
func DecodeStream(b []byte, ver byte) (pks []Packet, raw [][]byte, rest []byte, err error) {
	for len(b) > 0 {
		p, n, e := DecodeOne(b, ver)
		if e == ErrIncomplete {
			return pks, raw, b, nil
		}
		if e != nil {
			return pks, raw, b, e
		}
		pks = append(pks, p)
		raw = append(raw, b[:n])
		b = b[n:]
	}
	return pks, raw, nil, nil
}
