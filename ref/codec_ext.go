package ref

// Additions for the codec checks (C26, C27, C29, C42): property kinds, specified
// defaults, property permutations and a length walker. Written from the MQTT text.

// PropKind returns the wire kind of property id: "byte","u16","u32","var","str","bin","pair" or "".
func PropKind(id byte) string {
	switch propTable[id].kind {
	case kByte:
		return "byte"
	case kU16:
		return "u16"
	case kU32:
		return "u32"
	case kVar:
		return "var"
	case kStr:
		return "str"
	case kBin:
		return "bin"
	case kPair:
		return "pair"
	}
	return ""
}

// PropMulti reports whether id may occur more than once.
func PropMulti(id byte) bool { return propTable[id].multi }

// PropDefault returns the value that the specification assigns to an ABSENT property id in
// context ctx (packet type or WillCtx), if it specifies one ("if absent, the value X is
// used"). A present property carrying that value is equivalent to an omitted one.
func PropDefault(id byte, ctx int) (uint32, bool) {
	switch id {
	case PPayloadFormat: // 3.3.2.3.2: 0 "is equivalent to not sending a Payload Format Indicator"
		return 0, true
	case PWillDelay: // 3.1.3.2.2
		return 0, true
	case PSessionExpiry: // 3.1.2.11.2 (CONNECT only; in CONNACK/DISCONNECT absence means "as in CONNECT")
		if ctx == CONNECT {
			return 0, true
		}
	case PReceiveMaximum: // 3.1.2.11.3 / 3.2.2.3.3
		return 65535, true
	case PTopicAliasMaximum: // 3.1.2.11.5 / 3.2.2.3.8
		return 0, true
	case PRequestResponse: // 3.1.2.11.6
		return 0, true
	case PRequestProblem: // 3.1.2.11.7
		return 1, true
	case PRetainAvailable, PWildcardSubAvail, PSubIDAvail, PSharedSubAvail: // 3.2.2.3.5/.11/.12/.13
		return 1, true
	case PMaximumQos: // 3.2.2.3.4 absent = 2 (2 itself must not be sent)
		return 2, true
	}
	return 0, false
}

// Permutations returns every ordering of ps (n! lists; use for len(ps) <= 4).
func Permutations(ps Props) []Props {
	if len(ps) <= 1 {
		return []Props{append(Props{}, ps...)}
	}
	var out []Props
	for i := range ps {
		rest := append(append(Props{}, ps[:i]...), ps[i+1:]...)
		for _, t := range Permutations(rest) {
			out = append(out, append(Props{ps[i]}, t...))
		}
	}
	return out
}

// Overrun is the verdict of WalkLengths.
type Overrun struct {
	Beyond     bool   // a declared length extends beyond the end of the packet body
	What       string // which one (first found): "string", "binary", "property-length"
	CrossBlock bool   // a property value extends beyond its property block (but stays inside the body)
	Walked     bool   // the whole body could be walked by the packet's structure
}

type walker struct {
	b   []byte
	pos int
	o   *Overrun
	bad bool // structure cannot be followed any further (truncated fixed-width field, unknown id)
}

func (w *walker) skip(n int) {
	if w.bad {
		return
	}
	if len(w.b)-w.pos < n {
		w.bad = true
		return
	}
	w.pos += n
}

func (w *walker) u8() byte {
	if w.bad || w.pos >= len(w.b) {
		w.bad = true
		return 0
	}
	w.pos++
	return w.b[w.pos-1]
}

func (w *walker) lenPrefixed(what string) {
	if w.bad {
		return
	}
	if len(w.b)-w.pos < 2 {
		w.bad = true
		return
	}
	n := int(w.b[w.pos])<<8 | int(w.b[w.pos+1])
	w.pos += 2
	if len(w.b)-w.pos < n {
		if !w.o.Beyond {
			w.o.Beyond, w.o.What = true, what
		}
		w.bad = true
		return
	}
	w.pos += n
}

func (w *walker) varint() int {
	v, mul := 0, 1
	for i := 0; i < 4; i++ {
		c := w.u8()
		if w.bad {
			return 0
		}
		v += int(c&0x7f) * mul
		if c&0x80 == 0 {
			return v
		}
		mul *= 128
	}
	w.bad = true
	return 0
}

func (w *walker) props() {
	n := w.varint()
	if w.bad {
		return
	}
	if len(w.b)-w.pos < n {
		if !w.o.Beyond {
			w.o.Beyond, w.o.What = true, "property-length"
		}
		w.bad = true
		return
	}
	end := w.pos + n
	for w.pos < end && !w.bad {
		id := w.u8()
		switch propTable[id].kind {
		case kByte:
			w.skip(1)
		case kU16:
			w.skip(2)
		case kU32:
			w.skip(4)
		case kVar:
			w.varint()
		case kStr:
			w.lenPrefixed("string")
		case kBin:
			w.lenPrefixed("binary")
		case kPair:
			w.lenPrefixed("string")
			w.lenPrefixed("string")
		default:
			w.bad = true
		}
	}
	if !w.bad && w.pos > end {
		w.o.CrossBlock = true
	}
	if !w.bad {
		w.pos = end
	}
}

// WalkLengths follows the structure of a packet body (the bytes after the fixed header) of
// the given type / fixed-header flags / protocol version and reports whether a declared
// length (two-byte string or binary length prefix, property length) extends beyond the end
// of the body. It judges nothing else.
func WalkLengths(typ, flags, ver byte, body []byte) Overrun {
	var o Overrun
	w := &walker{b: body, o: &o}
	v5 := ver >= 5
	switch typ {
	case CONNECT:
		w.lenPrefixed("string")
		pv := w.u8()
		cf := w.u8()
		w.skip(2)
		if !w.bad && (pv < 3 || pv > 5) {
			w.bad = true // unknown protocol level: the layout that follows is not defined
		}
		if pv == 5 {
			w.props()
		}
		w.lenPrefixed("string")
		if cf&4 != 0 {
			if pv == 5 {
				w.props()
			}
			w.lenPrefixed("string")
			w.lenPrefixed("binary")
		}
		if cf&0x80 != 0 {
			w.lenPrefixed("string")
		}
		if cf&0x40 != 0 {
			w.lenPrefixed("binary")
		}
	case CONNACK:
		w.skip(2)
		if v5 {
			w.props()
		}
	case PUBLISH:
		w.lenPrefixed("string")
		if (flags>>1)&3 != 0 {
			w.skip(2)
		}
		if v5 {
			w.props()
		}
		if !w.bad {
			w.pos = len(w.b)
		}
	case PUBACK, PUBREC, PUBREL, PUBCOMP:
		w.skip(2)
		if v5 && !w.bad && w.pos < len(w.b) {
			w.skip(1)
			if !w.bad && w.pos < len(w.b) {
				w.props()
			}
		}
	case SUBSCRIBE:
		w.skip(2)
		if v5 {
			w.props()
		}
		for !w.bad && w.pos < len(w.b) {
			w.lenPrefixed("string")
			w.skip(1)
		}
	case UNSUBSCRIBE:
		w.skip(2)
		if v5 {
			w.props()
		}
		for !w.bad && w.pos < len(w.b) {
			w.lenPrefixed("string")
		}
	case SUBACK, UNSUBACK:
		w.skip(2)
		if v5 {
			w.props()
		}
		if !w.bad {
			w.pos = len(w.b)
		}
	case DISCONNECT, AUTH:
		if v5 && w.pos < len(w.b) {
			w.skip(1)
			if !w.bad && w.pos < len(w.b) {
				w.props()
			}
		}
	}
	o.Walked = !w.bad
	return o
}
