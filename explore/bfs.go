package explore

// placeholder, replaced below
func WorkerBFS(name, arg string) {}
