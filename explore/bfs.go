package explore

import (
	"bufio"
	"crypto/sha1"
	"encoding/json"
	"fmt"
	"io"
	"os"
	"os/exec"
	"strings"
	"sync"
	"time"
)

// HistResult is what executing one operation history on a fresh broker produced.
type HistResult struct {
	Key      string         `json:"key"`  // canonical state after the last op (broker + harness + monitor state)
	Next     []string       `json:"next"` // operations enabled in that state
	Viol     []Violation    `json:"viol"`
	Counters map[string]int `json:"counters,omitempty"`
	Trace    []string       `json:"trace,omitempty"`
}

// HistFn executes hist on a fresh world (replay + monitors) and reports the final state.
type HistFn func(hist []string) HistResult

var bfsScenarios = map[string]func(arg string) HistFn{}

// RegisterBFS names a history scenario.
func RegisterBFS(name string, mk func(arg string) HistFn) { bfsScenarios[name] = mk }

// WorkerBFS serves history executions over stdin/stdout (one JSON document per line).
func WorkerBFS(name, arg string) {
	mk := bfsScenarios[name]
	if mk == nil {
		panic("unknown BFS scenario " + name)
	}
	run := mk(arg)
	in := bufio.NewReaderSize(os.Stdin, 1<<20)
	out := bufio.NewWriterSize(os.Stdout, 1<<20)
	for {
		line, err := in.ReadBytes('\n')
		if len(line) > 0 {
			var hist []string
			if e := json.Unmarshal(line, &hist); e != nil {
				panic(e)
			}
			r := run(hist)
			h := sha1.Sum([]byte(r.Key))
			r.Key = fmt.Sprintf("%x", h[:12])
			b, _ := json.Marshal(r)
			out.Write(b)
			out.WriteByte('\n')
			out.Flush()
		}
		if err != nil {
			return
		}
	}
}

// BFSStats summarises a state-space search.
type BFSStats struct {
	States      int64
	Transitions int64
	MaxDepth    int
	Complete    bool
	Counters    map[string]int64
	Samples     [][]string
	PerDepth    []int64
}

type bfsWorker struct {
	cmd *exec.Cmd
	in  io.WriteCloser
	out *bufio.Reader
}

func (w *bfsWorker) call(hist []string) (HistResult, error) {
	b, _ := json.Marshal(hist)
	if _, err := w.in.Write(append(b, '\n')); err != nil {
		return HistResult{}, err
	}
	line, err := w.out.ReadBytes('\n')
	if err != nil {
		return HistResult{}, err
	}
	var r HistResult
	err = json.Unmarshal(line, &r)
	return r, err
}

// RunBFS explores all states reachable in scenario name/arg (explicit-state search with
// canonical-state deduplication; each transition is an execution of the real broker).
// maxDepth<=0: unbounded (scenario pools make the space finite).
func RunBFS(c *Ctx, name, arg string, maxDepth int, budget time.Duration) *BFSStats {
	st := &BFSStats{Complete: true, Counters: map[string]int64{}}
	if f := os.Getenv("VERIF_SCEN"); f != "" && !strings.Contains(name+":"+arg, f) {
		return st
	}
	deadline := time.Now().Add(budget)
	if deadline.After(c.Deadline) {
		deadline = c.Deadline
	}
	exe, _ := os.Executable()
	n := c.Workers
	type item struct {
		hist []string
	}
	var mu sync.Mutex
	cond := sync.NewCond(&mu)
	seen := map[string]bool{}
	queue := []item{{nil}}
	inflight := 0
	stopped := false
	addViol := func(v Violation, hist []string) {
		v.Replay = map[string]any{"bfs": name, "arg": arg, "hist": hist, "extra": v.Replay}
		c.Rep.Add(v)
	}
	var wg sync.WaitGroup
	for i := 0; i < n; i++ {
		wg.Add(1)
		go func(i int) {
			defer wg.Done()
			cmd := exec.Command(exe, "worker-bfs", name, arg)
			cmd.Env = append(os.Environ(), "GOMAXPROCS=2")
			cmd.Stderr = os.Stderr
			in, _ := cmd.StdinPipe()
			outp, _ := cmd.StdoutPipe()
			if err := cmd.Start(); err != nil {
				c.Rep.Add(Violation{Key: "internal:worker-failed", Msg: err.Error()})
				return
			}
			w := &bfsWorker{cmd: cmd, in: in, out: bufio.NewReaderSize(outp, 1<<20)}
			defer func() { in.Close(); cmd.Wait() }()
			for {
				mu.Lock()
				for len(queue) == 0 && inflight > 0 && !stopped {
					cond.Wait()
				}
				if stopped || (len(queue) == 0 && inflight == 0) {
					mu.Unlock()
					cond.Broadcast()
					return
				}
				it := queue[0]
				queue = queue[1:]
				inflight++
				mu.Unlock()

				r, err := w.call(it.hist)

				mu.Lock()
				inflight--
				if err != nil {
					stopped = true
					st.Complete = false
					mu.Unlock()
					cond.Broadcast()
					c.Rep.Add(Violation{Key: "internal:worker-failed", Msg: fmt.Sprintf("bfs worker %s/%s died on history %v: %v", name, arg, it.hist, err), Replay: map[string]any{"bfs": name, "arg": arg, "hist": it.hist}})
					return
				}
				st.Transitions++
				for k, v := range r.Counters {
					st.Counters[k] += int64(v)
				}
				for _, v := range r.Viol {
					if v.Trace == nil {
						v.Trace = r.Trace
					}
					addViol(v, it.hist)
				}
				if !seen[r.Key] {
					seen[r.Key] = true
					st.States++
					d := len(it.hist)
					for len(st.PerDepth) <= d {
						st.PerDepth = append(st.PerDepth, 0)
					}
					st.PerDepth[d]++
					if d > st.MaxDepth {
						st.MaxDepth = d
					}
					if len(st.Samples) < 3 || (d >= 4 && len(st.Samples) < 6) {
						st.Samples = append(st.Samples, it.hist)
					}
					if maxDepth <= 0 || d < maxDepth {
						for _, op := range r.Next {
							h := make([]string, d+1)
							copy(h, it.hist)
							h[d] = op
							queue = append(queue, item{h})
						}
					}
				}
				if time.Now().After(deadline) && (len(queue) > 0) {
					stopped = true
					st.Complete = false
				}
				mu.Unlock()
				cond.Broadcast()
			}
		}(i)
	}
	wg.Wait()
	c.Rep.Count("states", st.States)
	c.Rep.Count("transitions", st.Transitions)
	c.Rep.Count("traces_validated_against_impl", st.Transitions)
	c.Rep.mu.Lock()
	sc, _ := c.Rep.Cov["scenarios"].([]any)
	c.Rep.Cov["scenarios"] = append(sc, map[string]any{"scenario": name, "arg": arg, "states": st.States, "transitions": st.Transitions,
		"max_depth": st.MaxDepth, "states_per_depth": st.PerDepth, "complete": st.Complete, "depth_limit": maxDepth, "counters": st.Counters})
	c.Rep.mu.Unlock()
	for _, s := range st.Samples {
		c.Rep.Sample(map[string]any{"scenario": name, "arg": arg, "history": s})
	}
	if !st.Complete {
		c.Rep.Capped(fmt.Sprintf("%s/%s: search stopped at %d states, %d transitions (deepest fully expanded level < %d)", name, arg, st.States, st.Transitions, st.MaxDepth))
	}
	return st
}

// ReplayBFS re-executes a recorded history.
func replayBFS(name, arg string, hist []string, key string) int {
	mk := bfsScenarios[name]
	if mk == nil {
		fmt.Println("unknown scenario", name)
		return 2
	}
	r := mk(arg)(hist)
	for _, t := range r.Trace {
		fmt.Println("   ", t)
	}
	hit := false
	for _, v := range r.Viol {
		fmt.Printf("  violation key=%s: %s\n", v.Key, v.Msg)
		if v.Key == key {
			hit = true
		}
	}
	if hit {
		fmt.Println("REPRODUCED")
		return 1
	}
	fmt.Println("not reproduced")
	return 0
}
