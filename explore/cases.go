package explore

import (
	"encoding/json"
	"fmt"
	"os"
	"os/exec"
	"strconv"
	"strings"
	"sync"
	"time"
)

// CaseResult is what evaluating one case (index i of a finite enumeration) produced.
type CaseResult struct {
	Evals      int64            `json:"evals"`      // executions / evaluations performed for this case
	Nontrivial int64            `json:"nontrivial"` // how many of them were non-trivial by the check's rule
	Viol       []Violation      `json:"viol,omitempty"`
	Counters   map[string]int64 `json:"counters,omitempty"`
	Sample     any              `json:"sample,omitempty"`
}

// CaseFn evaluates case i (0 <= i < Total). Each case may run controlled executions
// (one at a time); cases are sharded over worker processes.
type CaseSet struct {
	Total int
	Run   func(i int) CaseResult
}

var caseSets = map[string]func(arg string) CaseSet{}

// RegisterCases names a finite case enumeration.
func RegisterCases(name string, mk func(arg string) CaseSet) { caseSets[name] = mk }

type caseStats struct {
	Done       int64            `json:"done"`
	Evals      int64            `json:"evals"`
	Nontrivial int64            `json:"nontrivial"`
	Viol       []Violation      `json:"viol"`
	ViolCount  map[string]int   `json:"viol_count"`
	Counters   map[string]int64 `json:"counters"`
	Samples    []any            `json:"samples"`
	Complete   bool             `json:"complete"`
	Total      int              `json:"total"`
	Aborted    bool             `json:"aborted,omitempty"`    // the case AbortedAt could not be completed (AbortCase); the worker exited
	AbortedAt  int              `json:"aborted_at,omitempty"` // the parent continues the shard after this index
}

// caseWorker is the state AbortCase needs: the statistics of the running worker (or the
// key a replay is looking for).
var caseWorker struct {
	mu        sync.Mutex
	st        *caseStats
	name, arg string
	index     int
	replaying bool
	replayKey string
}

func (st *caseStats) fold(name, arg string, i int, r CaseResult) {
	st.Evals += r.Evals
	st.Nontrivial += r.Nontrivial
	for k, v := range r.Counters {
		st.Counters[k] += v
	}
	for _, v := range r.Viol {
		st.ViolCount[v.Key]++
		if st.ViolCount[v.Key] == 1 {
			v.Replay = map[string]any{"cases": name, "arg": arg, "index": i, "extra": v.Replay}
			st.Viol = append(st.Viol, v)
		}
	}
	if r.Sample != nil && len(st.Samples) < 2 {
		st.Samples = append(st.Samples, r.Sample)
	}
}

// AbortCase ends the case that is being evaluated when it cannot be completed in this
// process, e.g. because the code under test does not return (a liveness guard of the case
// fired on another goroutine while Run is stuck). partial holds what the case found so far
// (including the violation that describes the runaway). The worker reports its statistics
// and exits; RunCases starts a fresh worker that continues the shard after the aborted case
// (the rest of the aborted case itself is not evaluated; the run is marked not exhaustive).
// Under `replay` the violations are printed and the process exits like a finished replay.
// AbortCase does not return.
func AbortCase(partial CaseResult) {
	caseWorker.mu.Lock() // never released: the process ends here
	if caseWorker.replaying || caseWorker.st == nil {
		hit := false
		for _, v := range partial.Viol {
			fmt.Printf("  violation key=%s: %s\n", v.Key, v.Msg)
			for _, t := range v.Trace {
				fmt.Println("     ", t)
			}
			if v.Key == caseWorker.replayKey {
				hit = true
			}
		}
		if hit {
			fmt.Println("REPRODUCED")
			os.Exit(1)
		}
		fmt.Println("not reproduced (case aborted)")
		os.Exit(0)
	}
	st := caseWorker.st
	st.fold(caseWorker.name, caseWorker.arg, caseWorker.index, partial)
	st.Aborted, st.AbortedAt = true, caseWorker.index
	b, _ := json.Marshal(st)
	fmt.Println(string(b))
	os.Exit(0)
}

// WorkerCases evaluates the cases of one shard (from index VERIF_CASES_FROM on, when the
// worker continues a shard after an aborted case).
func WorkerCases(name, arg string, shard, of int, deadline time.Time) {
	cs := caseSets[name](arg)
	from, _ := strconv.Atoi(os.Getenv("VERIF_CASES_FROM"))
	st := caseStats{ViolCount: map[string]int{}, Counters: map[string]int64{}, Complete: true, Total: cs.Total}
	caseWorker.mu.Lock()
	caseWorker.st, caseWorker.name, caseWorker.arg = &st, name, arg
	caseWorker.mu.Unlock()
	for i := shard; i < cs.Total; i += of {
		if i < from {
			continue
		}
		if i%16 == shard%16 && time.Now().After(deadline) {
			st.Complete = false
			break
		}
		caseWorker.mu.Lock()
		caseWorker.index = i
		caseWorker.mu.Unlock()
		r := cs.Run(i)
		caseWorker.mu.Lock()
		st.Done++
		st.fold(name, arg, i, r)
		caseWorker.mu.Unlock()
	}
	caseWorker.mu.Lock()
	b, _ := json.Marshal(st)
	fmt.Println(string(b))
}

// RunCases evaluates all cases of a registered enumeration on c.Workers processes.
func RunCases(c *Ctx, name, arg string, budget time.Duration) (complete bool) {
	if f := os.Getenv("VERIF_SCEN"); f != "" && !strings.Contains(name+":"+arg, f) {
		return true
	}
	deadline := time.Now().Add(budget)
	if deadline.After(c.Deadline) {
		deadline = c.Deadline
	}
	exe, _ := os.Executable()
	n := c.Workers
	var mu sync.Mutex
	var wg sync.WaitGroup
	complete = true
	var done, total, aborted int64
	for i := 0; i < n; i++ {
		wg.Add(1)
		go func(i int) {
			defer wg.Done()
			from, aborts := 0, 0
			for {
				cmd := exec.Command(exe, "worker-cases", name, arg, fmt.Sprint(i), fmt.Sprint(n), fmt.Sprint(deadline.UnixMilli()))
				cmd.Env = append(os.Environ(), "GOMAXPROCS=2", "VERIF_CASES_FROM="+fmt.Sprint(from))
				cmd.Stderr = os.Stderr
				out, err := cmd.Output()
				var st caseStats
				if err == nil {
					err = json.Unmarshal(lastLine(out), &st)
				}
				mu.Lock()
				if err != nil {
					complete = false
					c.Rep.Add(Violation{Key: "internal:worker-failed", Msg: fmt.Sprintf("cases worker %d of %s/%s failed: %v\n%s", i, name, arg, err, tail(out))})
					mu.Unlock()
					return
				}
				done += st.Done
				total = int64(st.Total)
				c.Rep.Count("evaluations", st.Evals)
				c.Rep.Count("distinct_nontrivial", st.Nontrivial)
				for k, v := range st.Counters {
					c.Rep.Count(k, v)
				}
				for _, v := range st.Viol {
					c.Rep.Add(v)
					c.Rep.mu.Lock()
					c.Rep.ViolCount[v.Key] += st.ViolCount[v.Key] - 1
					c.Rep.mu.Unlock()
				}
				for _, s := range st.Samples {
					c.Rep.Sample(s)
				}
				if !st.Complete {
					complete = false
				}
				if !st.Aborted {
					mu.Unlock()
					return
				}
				// the worker gave up on case AbortedAt (AbortCase): continue the shard behind it
				aborted++
				aborts++
				from = st.AbortedAt + 1
				mu.Unlock()
				if aborts >= 64 {
					mu.Lock()
					complete = false
					mu.Unlock()
					return
				}
			}
		}(i)
	}
	wg.Wait()
	c.Rep.mu.Lock()
	sc, _ := c.Rep.Cov["case_sets"].([]any)
	c.Rep.Cov["case_sets"] = append(sc, map[string]any{"name": name, "arg": arg, "cases_total": total, "cases_done": done, "complete": complete})
	c.Rep.mu.Unlock()
	if aborted > 0 {
		c.Rep.Capped(fmt.Sprintf("%s/%s: %d cases were aborted by their guard and not evaluated to the end", name, arg, aborted))
	}
	if !complete {
		c.Rep.Capped(fmt.Sprintf("%s/%s: %d of %d cases evaluated (deadline)", name, arg, done, total))
	}
	return complete
}

func replayCase(name, arg string, index int, key string) int {
	mk := caseSets[name]
	if mk == nil {
		fmt.Println("unknown case set", name)
		return 2
	}
	caseWorker.mu.Lock()
	caseWorker.replaying, caseWorker.replayKey = true, key
	caseWorker.mu.Unlock()
	r := mk(arg).Run(index)
	hit := false
	for _, v := range r.Viol {
		fmt.Printf("  violation key=%s: %s\n", v.Key, v.Msg)
		for _, t := range v.Trace {
			fmt.Println("     ", t)
		}
		if v.Key == key {
			hit = true
		}
	}
	if hit {
		fmt.Println("REPRODUCED")
		return 1
	}
	fmt.Println("not reproduced")
	return 0
}
