package explore

import (
	"bufio"
	"crypto/sha1"
	"encoding/hex"
	"encoding/json"
	"fmt"
	"os"
	"os/exec"
	"sort"
	"strings"
	"sync"
	"time"

	"github.com/mochi-mqtt/server/v2/zzvrt"
)

// Outcome is what one controlled execution produced.
type Outcome struct {
	Points     []zzvrt.ChoicePoint
	Obs        string // canonical final observation (distinct-outcome counting)
	Viol       []Violation
	Divergence string
	Steps      int
	Counters   map[string]int // scenario-declared collision counters (non-vacuity)
	StepLog    []string
}

// Bounds limits deviations from the default execution.
type Bounds struct {
	Preempt   int // preemptions (switch away from a still-enabled thread)
	Map       int // non-default map orders
	Env       int // non-default environment answers
	Unbounded bool
}

func (b Bounds) String() string {
	if b.Unbounded {
		return "unbounded"
	}
	return fmt.Sprintf("PB=%d,map=%d,env=%d", b.Preempt, b.Map, b.Env)
}

// RunFn executes the scenario once under the given choice prefix (defaults afterwards).
type RunFn func(prefix []int) Outcome

var dfsScenarios = map[string]func(arg string) RunFn{}

// RegisterDFS names a scenario so that worker sub-processes can find it.
func RegisterDFS(name string, mk func(arg string) RunFn) { dfsScenarios[name] = mk }

// DFSStats summarises an exploration.
type DFSStats struct {
	Executions int64            `json:"executions"`
	Points     int64            `json:"points"` // total choice points over all executions
	MaxPoints  int              `json:"max_points"`
	Obs        map[string]int64 `json:"obs"` // distinct observation hashes
	Viol       []Violation      `json:"viol"`
	ViolCount  map[string]int   `json:"viol_count"`
	Complete   bool             `json:"complete"`
	Counters   map[string]int64 `json:"counters"`
	Diverged   int64            `json:"diverged"`
	SampleObs  []string         `json:"sample_obs"`
}

func newStats() *DFSStats {
	return &DFSStats{Obs: map[string]int64{}, ViolCount: map[string]int{}, Counters: map[string]int64{}, Complete: true}
}

func (s *DFSStats) merge(o *DFSStats) {
	s.Executions += o.Executions
	s.Points += o.Points
	if o.MaxPoints > s.MaxPoints {
		s.MaxPoints = o.MaxPoints
	}
	for k, v := range o.Obs {
		s.Obs[k] += v
	}
	seen := map[string]bool{}
	for _, v := range s.Viol {
		seen[v.Key] = true
	}
	for _, v := range o.Viol {
		if !seen[v.Key] {
			s.Viol = append(s.Viol, v)
			seen[v.Key] = true
		}
	}
	for k, v := range o.ViolCount {
		s.ViolCount[k] += v
	}
	for k, v := range o.Counters {
		s.Counters[k] += v
	}
	s.Complete = s.Complete && o.Complete
	s.Diverged += o.Diverged
	for _, o := range o.SampleObs {
		if len(s.SampleObs) < 4 {
			s.SampleObs = append(s.SampleObs, o)
		}
	}
}

func cost(p zzvrt.ChoicePoint, chosen int) (pre, mp, env int) {
	if chosen == 0 {
		return
	}
	switch p.Kind {
	case zzvrt.ChThread, zzvrt.ChSelect:
		pre = 1 // delay bounding: every departure from the default scheduler costs one
	case zzvrt.ChMap:
		mp = 1
	case zzvrt.ChEnv:
		env = 1
	}
	return
}

type dfs struct {
	run      RunFn
	b        Bounds
	st       *DFSStats
	deadline time.Time
	scenario string
	arg      string
}

func hashObs(s string) string {
	h := sha1.Sum([]byte(s))
	return hex.EncodeToString(h[:8])
}

func (d *dfs) record(prefix []int, o Outcome) {
	s := d.st
	s.Executions++
	s.Points += int64(len(o.Points))
	if len(o.Points) > s.MaxPoints {
		s.MaxPoints = len(o.Points)
	}
	h := hashObs(o.Obs)
	if s.Obs[h] == 0 && len(s.SampleObs) < 4 {
		s.SampleObs = append(s.SampleObs, o.Obs)
	}
	s.Obs[h]++
	for k, v := range o.Counters {
		s.Counters[k] += int64(v)
	}
	if o.Divergence != "" {
		s.Diverged++
		s.ViolCount["internal:divergence"]++
		if s.ViolCount["internal:divergence"] == 1 {
			s.Viol = append(s.Viol, Violation{Key: "internal:divergence", Msg: "replay of a recorded prefix diverged: " + o.Divergence, Replay: map[string]any{"scenario": d.scenario, "arg": d.arg, "choices": prefix}})
		}
	}
	full := make([]int, len(o.Points))
	for i, p := range o.Points {
		full[i] = p.Chosen
	}
	for _, v := range o.Viol {
		s.ViolCount[v.Key]++
		if s.ViolCount[v.Key] == 1 {
			v.Replay = map[string]any{"scenario": d.scenario, "arg": d.arg, "choices": full, "extra": v.Replay}
			s.Viol = append(s.Viol, v)
		}
	}
}

// children returns the alternative prefixes that branch off execution o after len(prefix).
func (d *dfs) children(prefix []int, o Outcome) [][]int {
	var out [][]int
	pre, mp, env := 0, 0, 0
	for i, p := range o.Points {
		if i >= len(prefix) {
			for alt := 1; alt < p.N; alt++ {
				a, b, c := cost(p, alt)
				if !d.b.Unbounded && (pre+a > d.b.Preempt || mp+b > d.b.Map || env+c > d.b.Env) {
					continue
				}
				np := make([]int, i+1)
				for j := 0; j < i; j++ {
					np[j] = o.Points[j].Chosen
				}
				np[i] = alt
				out = append(out, np)
			}
		}
		a, b, c := cost(p, p.Chosen)
		pre, mp, env = pre+a, mp+b, env+c
	}
	return out
}

func (d *dfs) explore(prefix []int) {
	if time.Now().After(d.deadline) {
		d.st.Complete = false
		return
	}
	o := d.run(prefix)
	d.record(prefix, o)
	for _, c := range d.children(prefix, o) {
		d.explore(c)
		if !d.st.Complete {
			return
		}
	}
}

// frontier expands the tree breadth-first until at least want open prefixes exist.
// The executions run while expanding are recorded only when rec is true.
func (d *dfs) frontier(want int, rec bool) [][]int {
	open := [][]int{nil}
	for len(open) > 0 && len(open) < want {
		if time.Now().After(d.deadline) {
			d.st.Complete = false
			return open
		}
		// expand the shallowest prefix
		p := open[0]
		open = open[1:]
		o := d.run(p)
		if rec {
			d.record(p, o)
		}
		ch := d.children(p, o)
		// children become open leaves; p itself is done
		open = append(open, ch...)
		if len(ch) == 0 && len(open) == 0 {
			break
		}
	}
	return open
}

// WorkerDFS runs one shard; called in a sub-process.
func WorkerDFS(name, arg string, b Bounds, shard, of int, deadline time.Time) *DFSStats {
	mk := dfsScenarios[name]
	if mk == nil {
		panic("unknown DFS scenario " + name)
	}
	d := &dfs{run: mk(arg), b: b, st: newStats(), deadline: deadline, scenario: name, arg: arg}
	open := d.frontier(of*8, shard == 0)
	for i, p := range open {
		if i%of != shard {
			continue
		}
		d.explore(p)
		if !d.st.Complete {
			break
		}
	}
	return d.st
}

// WorkerExe, when set, is the binary used for worker sub-processes (C33 uses the -race build).
var WorkerExe string

// RunDFS explores scenario name under bounds b on c.Workers processes and merges the result.
func RunDFS(c *Ctx, name, arg string, b Bounds, budget time.Duration) *DFSStats {
	deadline := time.Now().Add(budget)
	if deadline.After(c.Deadline) {
		deadline = c.Deadline
	}
	n := c.Workers
	total := newStats()
	var mu sync.Mutex
	var wg sync.WaitGroup
	exe, _ := os.Executable()
	if WorkerExe != "" {
		exe = WorkerExe
	}
	bj, _ := json.Marshal(b)
	for i := 0; i < n; i++ {
		wg.Add(1)
		go func(i int) {
			defer wg.Done()
			cmd := exec.Command(exe, "worker-dfs", name, arg, string(bj), fmt.Sprint(i), fmt.Sprint(n), fmt.Sprint(deadline.UnixMilli()))
			cmd.Env = append(os.Environ(), "GOMAXPROCS=2")
			if WorkerExe != "" {
				// race mode: every thread blocks in a raw read() holding its P until sysmon
				// retakes it; enough Ps avoid waiting for that
				cmd.Env = append(os.Environ(), "GOMAXPROCS=32")
			}
			cmd.Stderr = os.Stderr
			out, err := cmd.Output()
			var st DFSStats
			if err == nil {
				err = json.Unmarshal(lastLine(out), &st)
			}
			mu.Lock()
			defer mu.Unlock()
			if err != nil {
				total.Complete = false
				total.ViolCount["internal:worker-failed"]++
				total.Viol = append(total.Viol, Violation{Key: "internal:worker-failed", Msg: fmt.Sprintf("worker %d of %s failed: %v\n%s", i, name, err, tail(out))})
				return
			}
			total.merge(&st)
		}(i)
	}
	wg.Wait()
	return total
}

func lastLine(b []byte) []byte {
	sc := bufio.NewScanner(strings.NewReader(string(b)))
	sc.Buffer(make([]byte, 1<<20), 1<<28)
	var last string
	for sc.Scan() {
		if strings.HasPrefix(sc.Text(), "{") {
			last = sc.Text()
		}
	}
	return []byte(last)
}

func tail(b []byte) string {
	s := string(b)
	if len(s) > 2000 {
		s = s[len(s)-2000:]
	}
	return s
}

// IterateDFS runs bounds[0], bounds[1], ... until the budget is used, folds the result
// of the deepest completed bound into the report and returns it.
func IterateDFS(c *Ctx, name, arg string, bounds []Bounds, budget time.Duration) (completed *Bounds, last *DFSStats) {
	start := time.Now()
	if f := os.Getenv("VERIF_SCEN"); f != "" && !strings.Contains(name+":"+arg, f) {
		return nil, nil
	}
	for i, b := range bounds {
		left := budget - time.Since(start)
		if left < 2*time.Second && i > 0 {
			c.Rep.Capped(fmt.Sprintf("%s: bound %s not started (budget)", name, b))
			break
		}
		st := RunDFS(c, name, arg, b, left)
		for _, v := range st.Viol {
			cnt := st.ViolCount[v.Key]
			c.Rep.Add(v)
			c.Rep.mu.Lock()
			c.Rep.ViolCount[v.Key] += cnt - 1
			c.Rep.mu.Unlock()
		}
		if !st.Complete {
			c.Rep.Capped(fmt.Sprintf("%s: bound %s cut at %d executions", name, b, st.Executions))
			if last == nil {
				last = st
			}
			break
		}
		bb := b
		completed, last = &bb, st
	}
	if last != nil {
		cb := "none"
		if completed != nil {
			cb = completed.String()
		}
		c.Rep.Count("transitions", last.Executions)
		c.Rep.Count("traces_validated_against_impl", last.Executions)
		c.Rep.Count("states", int64(len(last.Obs)))
		c.Rep.Count("choice_points", last.Points)
		c.Rep.mu.Lock()
		sc, _ := c.Rep.Cov["scenarios"].([]any)
		ctrs := map[string]int64{}
		for k, v := range last.Counters {
			ctrs[k] = v
		}
		c.Rep.Cov["scenarios"] = append(sc, map[string]any{"scenario": name, "arg": arg, "completed_bound": cb, "executions": last.Executions,
			"distinct_final_observations": len(last.Obs), "max_choice_points": last.MaxPoints, "counters": ctrs})
		c.Rep.mu.Unlock()
		for _, o := range last.SampleObs {
			c.Rep.Sample(map[string]any{"scenario": name, "arg": arg, "final_observation": o})
		}
	}
	return
}

// SortedKeys is a helper for canonical output.
func SortedKeys[V any](m map[string]V) []string {
	out := make([]string, 0, len(m))
	for k := range m {
		out = append(out, k)
	}
	sort.Strings(out)
	return out
}
