package explore

import (
	"github.com/mochi-mqtt/server/v2/zzvrt"

	"encoding/json"
	"fmt"
	"os"
)

// Replayer re-executes a recorded violation without the explorer and prints its trace.
type Replayer func(replay json.RawMessage) (reproduced bool, trace []string)

var replayers = map[string]Replayer{}

func RegisterReplayer(prop string, r Replayer) { replayers[prop] = r }

// Replay loads a replay file and re-executes it.
func Replay(path string) int {
	b, err := os.ReadFile(path)
	if err != nil {
		fmt.Fprintln(os.Stderr, err)
		return 2
	}
	var f struct {
		Property string          `json:"property"`
		Key      string          `json:"key"`
		Msg      string          `json:"msg"`
		Replay   json.RawMessage `json:"replay"`
	}
	if err := json.Unmarshal(b, &f); err != nil {
		fmt.Fprintln(os.Stderr, err)
		return 2
	}
	fmt.Printf("replaying property=%s key=%s\n  recorded: %s\n", f.Property, f.Key, f.Msg)
	// generic DFS replay: {"scenario":..., "arg":..., "choices":[...]}
	var d struct {
		Scenario string `json:"scenario"`
		Arg      string `json:"arg"`
		Choices  []int  `json:"choices"`
	}
	if json.Unmarshal(f.Replay, &d) == nil && d.Scenario != "" {
		mk := dfsScenarios[d.Scenario]
		if mk == nil {
			fmt.Println("unknown scenario", d.Scenario)
			return 2
		}
		o := mk(d.Arg)(d.Choices)
		fmt.Printf("  final observation: %s\n", o.Obs)
		hit := false
		for _, v := range o.Viol {
			fmt.Printf("  violation key=%s: %s\n", v.Key, v.Msg)
			for _, t := range v.Trace {
				fmt.Println("    ", t)
			}
			if v.Key == f.Key {
				hit = true
			}
		}
		if hit {
			fmt.Println("REPRODUCED")
			return 1
		}
		fmt.Println("not reproduced")
		return 0
	}
	var hb struct {
		BFS  string   `json:"bfs"`
		Arg  string   `json:"arg"`
		Hist []string `json:"hist"`
	}
	if json.Unmarshal(f.Replay, &hb) == nil && hb.BFS != "" {
		return replayBFS(hb.BFS, hb.Arg, hb.Hist, f.Key)
	}
	var cb struct {
		Cases string `json:"cases"`
		Arg   string `json:"arg"`
		Index int    `json:"index"`
	}
	if json.Unmarshal(f.Replay, &cb) == nil && cb.Cases != "" {
		return replayCase(cb.Cases, cb.Arg, cb.Index, f.Key)
	}
	if r := replayers[f.Property]; r != nil {
		ok, trace := r(f.Replay)
		for _, t := range trace {
			fmt.Println("  ", t)
		}
		if ok {
			fmt.Println("REPRODUCED")
			return 1
		}
		fmt.Println("not reproduced")
		return 0
	}
	fmt.Println("no replayer for", f.Property)
	return 2
}

// DebugDFS runs a recorded DFS replay twice and reports the first differing choice point.
func DebugDFS(path string) int {
	b, _ := os.ReadFile(path)
	var f struct {
		Replay struct {
			Scenario string `json:"scenario"`
			Arg      string `json:"arg"`
			Choices  []int  `json:"choices"`
		} `json:"replay"`
	}
	json.Unmarshal(b, &f)
	run := dfsScenarios[f.Replay.Scenario](f.Replay.Arg)
	zzvrt.TraceAll = true
	o1 := run(f.Replay.Choices)
	o2 := run(f.Replay.Choices)
	fmt.Println("len", len(o1.Points), len(o2.Points), "div1:", o1.Divergence, "div2:", o2.Divergence)
	for i := 0; i < len(o1.StepLog) && i < len(o2.StepLog); i++ {
		if o1.StepLog[i] != o2.StepLog[i] {
			for j := i - 12; j <= i+3; j++ {
				if j >= 0 && j < len(o1.StepLog) && j < len(o2.StepLog) {
					fmt.Printf("step %d: %-60s | %s\n", j, o1.StepLog[j], o2.StepLog[j])
				}
			}
			break
		}
	}
	for i := 0; i < len(o1.Points) && i < len(o2.Points); i++ {
		if o1.Points[i] != o2.Points[i] {
			fmt.Printf("first difference at %d: %+v vs %+v\n", i, o1.Points[i], o2.Points[i])
			return 1
		}
	}
	n := len(f.Replay.Choices)
	for i := n - 5; i < n+3 && i < len(o1.Points); i++ {
		if i >= 0 {
			fmt.Printf("%d: %+v\n", i, o1.Points[i])
		}
	}
	fmt.Println("obs equal:", o1.Obs == o2.Obs)
	return 0
}

// SelfTest executes fixed scenarios twice under the same choice sequence and demands
// identical step logs, choice points and observations (the explorer owns the nondeterminism).
func SelfTest() int {
	zzvrt.TraceAll = true
	defer func() { zzvrt.TraceAll = false }()
	bad := 0
	for _, tc := range []struct {
		name, arg string
		prefix    []int
	}{{"c32", "pubB+takeA", nil}, {"c32", "pubB+takeA", []int{0, 0, 1, 0, 1}}, {"c32", "close+connC", []int{1, 0, 0, 2}}, {"c32", "pingA+pubB+ackA", []int{0, 1, 1}}} {
		mk := dfsScenarios[tc.name]
		if mk == nil {
			continue
		}
		run := mk(tc.arg)
		a, b := run(tc.prefix), run(tc.prefix)
		same := a.Obs == b.Obs && len(a.StepLog) == len(b.StepLog) && len(a.Points) == len(b.Points)
		for i := 0; same && i < len(a.StepLog); i++ {
			same = a.StepLog[i] == b.StepLog[i]
		}
		for i := 0; same && i < len(a.Points); i++ {
			same = a.Points[i] == b.Points[i]
		}
		fmt.Printf("selftest %s %s prefix=%v steps=%d points=%d deterministic=%v\n", tc.name, tc.arg, tc.prefix, len(a.StepLog), len(a.Points), same)
		if !same || len(a.StepLog) == 0 {
			bad++
		}
	}
	if bad > 0 {
		fmt.Println("SELFTEST FAILED")
		return 1
	}
	return 0
}
