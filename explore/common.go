// Package explore holds the exploration engines (E1 enumeration helpers, E2 history BFS,
// E3 schedule DFS, E4 fault enumeration), the violation report with known-finding
// classification, and the evidence writer.
package explore

import (
	"bufio"
	"crypto/sha1"
	"encoding/hex"
	"encoding/json"
	"fmt"
	"os"
	"path/filepath"
	"sort"
	"strings"
	"sync"
	"time"
)

// Violation is one property violation found by a monitor.
type Violation struct {
	Key    string   `json:"key"`    // narrow classifier key (known-finding granularity)
	Msg    string   `json:"msg"`    // human readable: expected vs observed
	Replay any      `json:"replay"` // scenario-specific replay data (ops, choices, input)
	Trace  []string `json:"trace,omitempty"`
}

// Ctx is handed to a property check.
type Ctx struct {
	ID       string
	Tier     string // quick | thorough
	Seed     int64
	Start    time.Time
	Deadline time.Time // soft internal deadline: stop exploring, report exhaustive=false
	Workers  int
	Rep      *Report
	Worker   *WorkerSpec // non-nil when running as a sub-process
}

func (c *Ctx) Quick() bool         { return c.Tier != "thorough" }
func (c *Ctx) Expired() bool       { return time.Now().After(c.Deadline) }
func (c *Ctx) Left() time.Duration { return time.Until(c.Deadline) }

// WorkerSpec identifies a sub-process job.
type WorkerSpec struct {
	Kind  string // dfs | bfs
	Name  string
	Shard int
	Of    int
	Arg   string
}

// Report accumulates what a check covered and found.
type Report struct {
	mu         sync.Mutex
	ID         string
	Level      string // exploration | model_checking | fault_enumeration
	Viol       map[string]Violation
	ViolCount  map[string]int
	Cov        map[string]any
	Samples    []any
	Assume     []string
	Exhaustive bool
	capped     []string
	Notes      []string
}

func NewReport(id string) *Report {
	return &Report{ID: id, Viol: map[string]Violation{}, ViolCount: map[string]int{}, Cov: map[string]any{}, Exhaustive: true, Level: "model_checking"}
}

// Add records a violation (first replay per key is kept).
func (r *Report) Add(v Violation) {
	r.mu.Lock()
	defer r.mu.Unlock()
	r.ViolCount[v.Key]++
	if _, ok := r.Viol[v.Key]; !ok {
		r.Viol[v.Key] = v
	}
}

// Count adds n to an integer coverage counter.
func (r *Report) Count(key string, n int64) {
	r.mu.Lock()
	defer r.mu.Unlock()
	cur, _ := r.Cov[key].(int64)
	r.Cov[key] = cur + n
}

func (r *Report) Get(key string) int64 {
	r.mu.Lock()
	defer r.mu.Unlock()
	cur, _ := r.Cov[key].(int64)
	return cur
}

func (r *Report) Set(key string, v any) {
	r.mu.Lock()
	defer r.mu.Unlock()
	r.Cov[key] = v
}

func (r *Report) Sample(s any) {
	r.mu.Lock()
	defer r.mu.Unlock()
	if len(r.Samples) < 8 {
		r.Samples = append(r.Samples, s)
	}
}

// Capped marks the run as not exhaustive and says what was cut.
func (r *Report) Capped(what string) {
	r.mu.Lock()
	defer r.mu.Unlock()
	r.Exhaustive = false
	r.capped = append(r.capped, what)
}

func (r *Report) Note(s string) {
	r.mu.Lock()
	defer r.mu.Unlock()
	r.Notes = append(r.Notes, s)
}

func (r *Report) Assumption(s string) {
	r.mu.Lock()
	defer r.mu.Unlock()
	for _, a := range r.Assume {
		if a == s {
			return
		}
	}
	r.Assume = append(r.Assume, s)
}

// ---------- known findings ----------

type known struct {
	prop, key, what string
}

func loadKnown(path string) []known {
	f, err := os.Open(path)
	if err != nil {
		return nil
	}
	defer f.Close()
	var out []known
	sc := bufio.NewScanner(f)
	for sc.Scan() {
		line := strings.TrimSpace(sc.Text())
		if !strings.HasPrefix(line, "known:") {
			continue // "fixed:" lines and comments suppress nothing
		}
		fs := strings.Fields(line[len("known:"):])
		k := known{}
		rest := []string{}
		for _, f := range fs {
			switch {
			case strings.HasPrefix(f, "property=") && k.prop == "":
				k.prop = f[len("property="):]
			case strings.HasPrefix(f, "key=") && k.key == "":
				k.key = f[len("key="):]
			default:
				rest = append(rest, f)
			}
		}
		k.what = strings.Join(rest, " ")
		if k.prop != "" && k.key != "" {
			out = append(out, k)
		}
	}
	return out
}

// Finish writes evidence and replays, prints KNOWN-FINDING / VIOLATION lines and returns the exit code.
func (r *Report) Finish(c *Ctx, verifDir string) int {
	kn := loadKnown(filepath.Join(verifDir, "KNOWN_FINDINGS.txt"))
	keys := make([]string, 0, len(r.Viol))
	for k := range r.Viol {
		keys = append(keys, k)
	}
	sort.Strings(keys)
	exit := 0
	nviol := 0
	skipped := 0
	for _, k := range keys {
		v := r.Viol[k]
		var hit *known
		for i := range kn {
			if kn[i].prop == r.ID && kn[i].key == k {
				hit = &kn[i]
			}
		}
		if hit != nil {
			fmt.Printf("KNOWN-FINDING: property=%s key=%s %s (seen %d times; e.g. %s)\n", r.ID, k, hit.what, r.ViolCount[k], oneLine(v.Msg))
			continue
		}
		if (strings.HasPrefix(k, "internal:vacuous") || strings.HasPrefix(k, "internal:c22-vacuous")) && !r.Exhaustive && os.Getenv("VERIF_STRICT_VACUITY") == "" {
			// a non-vacuity counter stayed at zero in a run that was cut by a budget or deadline
			// (e.g. on a loaded machine): the part that exercises it may simply not have run.
			// It is an alarm only in a complete run (or with VERIF_STRICT_VACUITY=1).
			skipped++
			r.capped = append(r.capped, "non-vacuity counter not reached in this capped run (not judged): "+k)
			continue
		}
		nviol++
		dir := filepath.Join(verifDir, "replays", r.ID)
		os.MkdirAll(dir, 0o755)
		h := sha1.Sum([]byte(k))
		p := filepath.Join(dir, hex.EncodeToString(h[:6])+".json")
		b, _ := json.MarshalIndent(map[string]any{"property": r.ID, "key": k, "msg": v.Msg, "replay": v.Replay, "trace": v.Trace, "count": r.ViolCount[k]}, "", " ")
		os.WriteFile(p, b, 0o644)
		fmt.Printf("VIOLATION property=%s replay=%s\n", r.ID, p)
		fmt.Printf("  key=%s count=%d\n  %s\n", k, r.ViolCount[k], v.Msg)
		exit = 1
	}
	r.writeEvidence(c, verifDir, nviol)
	if len(r.capped) > 0 {
		fmt.Printf("note: property=%s not exhaustive: %s\n", r.ID, strings.Join(r.capped, "; "))
	}
	fmt.Printf("done property=%s tier=%s violations=%d known=%d wall=%.1fs\n", r.ID, c.Tier, nviol, len(keys)-nviol-skipped, time.Since(c.Start).Seconds())
	return exit
}

func oneLine(s string) string {
	s = strings.ReplaceAll(s, "\n", " | ")
	if len(s) > 200 {
		s = s[:200] + "…"
	}
	return s
}

func (r *Report) writeEvidence(c *Ctx, verifDir string, nviol int) {
	cov := map[string]any{}
	for k, v := range r.Cov {
		cov[k] = v
	}
	cov["exhaustive"] = r.Exhaustive
	if len(r.capped) > 0 {
		cov["capped"] = r.capped
	}
	if len(r.Notes) > 0 {
		cov["notes"] = r.Notes
	}
	samples := r.Samples
	if len(samples) == 0 {
		samples = []any{"(no sample recorded)"}
	}
	cov["samples"] = samples
	known := []string{}
	for k := range r.Viol {
		known = append(known, k)
	}
	sort.Strings(known)
	cov["violation_keys_seen"] = known
	ev := map[string]any{
		"property_id": r.ID,
		"tier":        c.Tier,
		"seed":        c.Seed,
		"level":       r.Level,
		"coverage":    cov,
		"assumptions": r.Assume,
		"wall_s":      time.Since(c.Start).Seconds(),
		"violations":  nviol,
	}
	if r.Assume == nil {
		ev["assumptions"] = []string{}
	}
	os.MkdirAll(filepath.Join(verifDir, "evidence"), 0o755)
	b, _ := json.MarshalIndent(ev, "", " ")
	os.WriteFile(filepath.Join(verifDir, "evidence", r.ID+".json"), append(b, '\n'), 0o644)
}

// ---------- registry ----------

type CheckFn func(c *Ctx)

var checks = map[string]CheckFn{}

func Register(id string, fn CheckFn) { checks[id] = fn }
func Lookup(id string) CheckFn       { return checks[id] }
func IDs() []string {
	var out []string
	for k := range checks {
		out = append(out, k)
	}
	sort.Strings(out)
	return out
}

// ---------- in-process parallel enumeration (E1) ----------

// ParallelRange calls fn(i) for i in [0,n) on `workers` goroutines. fn must be
// goroutine-safe (pure function calls on separate data). Stops early if stop() is true.
func ParallelRange(n int, workers int, stop func() bool, fn func(i int)) (completed bool) {
	var next int64
	var mu sync.Mutex
	var wg sync.WaitGroup
	aborted := false
	for w := 0; w < workers; w++ {
		wg.Add(1)
		go func() {
			defer wg.Done()
			for {
				mu.Lock()
				i := int(next)
				next++
				mu.Unlock()
				if i >= n {
					return
				}
				if stop != nil && i%64 == 0 && stop() {
					mu.Lock()
					aborted = true
					mu.Unlock()
					return
				}
				fn(i)
			}
		}()
	}
	wg.Wait()
	return !aborted
}
