package props

import (
	"fmt"
	"io"
	"log/slog"
	"os"
	"reflect"
	"sort"
	"strings"
	"unsafe"

	miniredis "github.com/alicebob/miniredis/v2"
	pebbledb "github.com/cockroachdb/pebble"
	"github.com/cockroachdb/pebble/vfs"
	badgerdb "github.com/dgraph-io/badger/v4"
	rv8 "github.com/go-redis/redis/v8"
	"go.etcd.io/bbolt"

	mqtt "github.com/mochi-mqtt/server/v2"
	"github.com/mochi-mqtt/server/v2/hooks/storage"
	"github.com/mochi-mqtt/server/v2/hooks/storage/badger"
	"github.com/mochi-mqtt/server/v2/hooks/storage/bolt"
	"github.com/mochi-mqtt/server/v2/hooks/storage/pebble"
	"github.com/mochi-mqtt/server/v2/hooks/storage/redis"
	"github.com/mochi-mqtt/server/v2/packets"
	"github.com/mochi-mqtt/server/v2/system"
)

// Shared machinery of the storage properties C20, C21, C22.
//
// The four bundled back ends are third-party databases behind mochi's storage hooks.
// They are NOT instrumented (real sync/time, their own goroutines); they are only ever
// called synchronously, from the driver or from a scheduler thread, never concurrently
// from goroutines of the harness while a controlled execution is active.
//
// A stStore is one physical store (temp file / temp dir / in-memory FS / in-process
// redis server) on which any number of hook instances can be opened one after another,
// which is how a broker restart is modelled: Stop the old hook, build a NEW hook
// instance on the same store.

var stBackends = []string{"bolt", "redis", "pebble", "badger"}

var stQuietLog = slog.New(slog.NewTextHandler(io.Discard, &slog.HandlerOptions{Level: slog.Level(100)}))

type stStore struct {
	Kind string
	// Tiny: badger with the smallest buffers it accepts (a reopen then costs a fraction:
	// C22 reopens its stores thousands of times and stores a handful of records)
	Tiny bool
	dir  string
	mr   *miniredis.Miniredis
	mem  vfs.FS
}

func stTmpRoot() string {
	if d := os.Getenv("VERIF_TMP"); d != "" {
		return d
	}
	// tmpfs when available: bolt and badger fsync while creating a database even with
	// syncing switched off for commits, which costs 50+ ms per store on a loaded disk
	if st, err := os.Stat("/dev/shm"); err == nil && st.IsDir() {
		if d, err := os.MkdirTemp("/dev/shm", "verif-probe-"); err == nil {
			os.Remove(d)
			return "/dev/shm"
		}
	}
	return "/tmp"
}

// stNewStore creates an empty store of the given kind.
func stNewStore(kind string) *stStore {
	s := &stStore{Kind: kind}
	switch kind {
	case "bolt", "badger":
		d, err := os.MkdirTemp(stTmpRoot(), "verif-st-"+kind+"-")
		if err != nil {
			panic(err)
		}
		s.dir = d
	case "pebble":
		// pebble on its own in-memory file system: the same FS object is handed to every
		// hook instance, so data survives Close/Open exactly like files do.
		s.mem = vfs.NewMem()
	case "redis":
		mr, err := miniredis.Run()
		if err != nil {
			panic(err)
		}
		s.mr = mr
	default:
		panic("unknown storage back end " + kind)
	}
	return s
}

// Hook returns a NEW, uninitialised hook instance for this store and its config
// (to be handed to Server.AddHook, or to stInit for direct use).
func (s *stStore) Hook() (mqtt.Hook, any) {
	switch s.Kind {
	case "bolt":
		return new(bolt.Hook), &bolt.Options{Path: s.dir + "/bolt.db", Options: &bbolt.Options{Timeout: 250_000_000, NoSync: true}}
	case "badger":
		o := badgerdb.DefaultOptions(s.dir).
			WithMemTableSize(4 << 20).WithValueThreshold(1 << 10).WithValueLogFileSize(1 << 20).
			WithNumMemtables(1).WithBlockCacheSize(1 << 20).WithNumCompactors(2).WithSyncWrites(false)
		if s.Tiny {
			o = o.WithMemTableSize(256 << 10).WithBaseTableSize(256 << 10).WithCompactL0OnClose(true)
		}
		return new(badger.Hook), &badger.Options{Path: s.dir, Options: &o}
	case "pebble":
		return new(pebble.Hook), &pebble.Options{Path: "pebble", Options: &pebbledb.Options{FS: s.mem, Logger: stPebbleQuiet{}}}
	case "redis":
		return new(redis.Hook), &redis.Options{Options: &rv8.Options{Addr: s.mr.Addr()}}
	}
	panic("unreachable")
}

type stPebbleQuiet struct{}

func (stPebbleQuiet) Infof(string, ...interface{})      {}
func (stPebbleQuiet) Fatalf(f string, a ...interface{}) { panic(fmt.Sprintf("pebble fatal: "+f, a...)) }

// Open returns an initialised hook for direct use (no broker).
func (s *stStore) Open() mqtt.Hook {
	h, cfg := s.Hook()
	h.SetOpts(stQuietLog, &mqtt.HookOptions{Capabilities: mqtt.NewDefaultServerCapabilities()})
	if err := h.Init(cfg); err != nil {
		panic(fmt.Sprintf("init %s: %v", s.Kind, err))
	}
	return h
}

// Destroy removes the store.
func (s *stStore) Destroy() {
	if s.mr != nil {
		s.mr.Close()
	}
	if s.dir != "" {
		os.RemoveAll(s.dir)
	}
}

// stStop stops a hook; pebble's Close reports "leaked iterators" (the hook never closes
// the iterators of its Stored* methods) and can panic on a second Close: both are
// swallowed here and returned as text, the store stays usable (verified by reopening).
func stStop(h mqtt.Hook) (msg string) {
	defer func() {
		if r := recover(); r != nil {
			msg = fmt.Sprint("panic: ", r)
		}
	}()
	if err := h.Stop(); err != nil {
		return err.Error()
	}
	return ""
}

// stDB returns the unexported database handle of a hook.
func stDB(h mqtt.Hook) any {
	f := reflect.ValueOf(h).Elem().FieldByName("db")
	return reflect.NewAt(f.Type(), unsafe.Pointer(f.UnsafeAddr())).Elem().Interface()
}

// stWipe empties the store through the back end's own bulk operations (bolt: drop and
// recreate the bucket; badger: delete every key in one transaction; pebble: DeleteRange
// over the whole key space; redis: FLUSHALL).
func stWipe(s *stStore, h mqtt.Hook) error {
	switch s.Kind {
	case "bolt":
		db := stDB(h).(*bbolt.DB)
		return db.Update(func(tx *bbolt.Tx) error {
			if err := tx.DeleteBucket([]byte("mochi")); err != nil {
				return err
			}
			_, err := tx.CreateBucket([]byte("mochi"))
			return err
		})
	case "badger":
		db := stDB(h).(*badgerdb.DB)
		var keys [][]byte
		err := db.View(func(txn *badgerdb.Txn) error {
			o := badgerdb.DefaultIteratorOptions
			o.PrefetchValues = false
			it := txn.NewIterator(o)
			defer it.Close()
			for it.Rewind(); it.Valid(); it.Next() {
				keys = append(keys, it.Item().KeyCopy(nil))
			}
			return nil
		})
		if err != nil {
			return err
		}
		return db.Update(func(txn *badgerdb.Txn) error {
			for _, k := range keys {
				if err := txn.Delete(k); err != nil {
					return err
				}
			}
			return nil
		})
	case "pebble":
		db := stDB(h).(*pebbledb.DB)
		return db.DeleteRange([]byte{0}, []byte{0xff, 0xff}, pebbledb.NoSync)
	case "redis":
		s.mr.FlushAll()
		return nil
	}
	return nil
}

// ---------------------------------------------------------------------------------
// Normalised view of what a hook returns from its five Stored* methods.

// stDump is the normalised content of a store: per kind, sorted JSON-ish lines, one per
// item, each a sorted list of field=value pairs. The storage key field (ID) is compared
// modulo the back end's own key prefix ("SUB_", "RET_", "IFM_", "CL_").
type stDump struct {
	Clients, Subs, Retained, Inflight []map[string]string
	Sys                               map[string]string
	Errs                              []string
}

func stStripKey(id string) string {
	for _, p := range []string{storage.SubscriptionKey + "_", storage.RetainedKey + "_", storage.InflightKey + "_", storage.ClientKey + "_"} {
		if strings.HasPrefix(id, p) {
			return id[len(p):]
		}
	}
	return id
}

// stFlat flattens a struct into field=value strings (nested structs with dotted names;
// empty slices and nil slices are the same; zero values are kept as their text).
func stFlat(prefix string, v reflect.Value, out map[string]string) {
	switch v.Kind() {
	case reflect.Struct:
		for i := 0; i < v.NumField(); i++ {
			f := v.Type().Field(i)
			if !f.IsExported() {
				continue
			}
			name := f.Name
			if prefix != "" {
				name = prefix + "." + name
			}
			if f.Anonymous {
				name = prefix
			}
			stFlat(name, v.Field(i), out)
		}
	case reflect.Slice:
		if v.Len() == 0 {
			out[prefix] = ""
			return
		}
		if v.Type().Elem().Kind() == reflect.Uint8 {
			out[prefix] = fmt.Sprintf("%q", v.Bytes())
			return
		}
		out[prefix] = fmt.Sprintf("%v", v.Interface())
	case reflect.String:
		out[prefix] = v.String()
	default:
		out[prefix] = fmt.Sprintf("%v", v.Interface())
	}
}

func stFlatOf(x any) map[string]string {
	m := map[string]string{}
	stFlat("", reflect.ValueOf(x), m)
	if id, ok := m["ID"]; ok {
		m["ID"] = stStripKey(id)
	}
	return m
}

func stLine(m map[string]string) string {
	ks := make([]string, 0, len(m))
	for k := range m {
		ks = append(ks, k)
	}
	sort.Strings(ks)
	var b strings.Builder
	for _, k := range ks {
		if m[k] == "" || m[k] == "0" || m[k] == "false" {
			continue
		}
		fmt.Fprintf(&b, "%s=%s ", k, m[k])
	}
	return b.String()
}

func stSortItems(items []map[string]string, keyFields ...string) {
	sort.SliceStable(items, func(i, j int) bool {
		for _, k := range keyFields {
			if items[i][k] != items[j][k] {
				return items[i][k] < items[j][k]
			}
		}
		return stLine(items[i]) < stLine(items[j])
	})
}

// stRead reads the five Stored* results of a hook and normalises them (sorted).
func stRead(h mqtt.Hook) (d stDump) {
	defer func() {
		if r := recover(); r != nil {
			d.Errs = append(d.Errs, fmt.Sprint("panic: ", r))
		}
	}()
	cls, err := h.StoredClients()
	if err != nil {
		d.Errs = append(d.Errs, "StoredClients: "+err.Error())
	}
	for _, c := range cls {
		d.Clients = append(d.Clients, stFlatOf(c))
	}
	subs, err := h.StoredSubscriptions()
	if err != nil {
		d.Errs = append(d.Errs, "StoredSubscriptions: "+err.Error())
	}
	for _, c := range subs {
		d.Subs = append(d.Subs, stFlatOf(c))
	}
	ret, err := h.StoredRetainedMessages()
	if err != nil {
		d.Errs = append(d.Errs, "StoredRetainedMessages: "+err.Error())
	}
	for _, c := range ret {
		d.Retained = append(d.Retained, stFlatOf(c))
	}
	inf, err := h.StoredInflightMessages()
	if err != nil {
		d.Errs = append(d.Errs, "StoredInflightMessages: "+err.Error())
	}
	for _, c := range inf {
		d.Inflight = append(d.Inflight, stFlatOf(c))
	}
	sys, err := h.StoredSysInfo()
	if err != nil {
		d.Errs = append(d.Errs, "StoredSysInfo: "+err.Error())
	}
	d.Sys = stFlatOf(sys)
	stSortItems(d.Clients, "ID")
	stSortItems(d.Subs, "Client", "Filter")
	stSortItems(d.Retained, "TopicName")
	stSortItems(d.Inflight, "Client", "ID")
	return d
}

func (d stDump) Empty() bool {
	return len(d.Clients) == 0 && len(d.Subs) == 0 && len(d.Retained) == 0 && len(d.Inflight) == 0 && stLine(d.Sys) == "" && len(d.Errs) == 0
}

func (d stDump) String() string {
	var b strings.Builder
	w := func(name string, items []map[string]string) {
		fmt.Fprintf(&b, "%s[", name)
		for i, it := range items {
			if i > 0 {
				b.WriteString("; ")
			}
			b.WriteString(strings.TrimSpace(stLine(it)))
		}
		b.WriteString("] ")
	}
	w("clients", d.Clients)
	w("subs", d.Subs)
	w("retained", d.Retained)
	w("inflight", d.Inflight)
	fmt.Fprintf(&b, "sys[%s]", strings.TrimSpace(stLine(d.Sys)))
	if len(d.Errs) > 0 {
		fmt.Fprintf(&b, " errs%v", d.Errs)
	}
	return b.String()
}

// stDiff names the differences between two dumps as "kind:field" signatures (field =
// "count" when the numbers of items differ, else the names of the differing fields of
// the items paired in sorted order).
func stDiff(a, b stDump) []string {
	set := map[string]bool{}
	cmp := func(kind string, x, y []map[string]string) {
		if len(x) != len(y) {
			set[kind+":count"] = true
			return
		}
		for i := range x {
			for _, f := range stFieldDiff(x[i], y[i]) {
				set[kind+":"+f] = true
			}
		}
	}
	cmp("clients", a.Clients, b.Clients)
	cmp("subscriptions", a.Subs, b.Subs)
	cmp("retained", a.Retained, b.Retained)
	cmp("inflight", a.Inflight, b.Inflight)
	for _, f := range stFieldDiff(a.Sys, b.Sys) {
		set["sysinfo:"+f] = true
	}
	if fmt.Sprint(a.Errs) != fmt.Sprint(b.Errs) {
		set["error:read"] = true
	}
	return explore_sortedKeys(set)
}

func stFieldDiff(x, y map[string]string) []string {
	set := map[string]bool{}
	norm := func(s string) string {
		if s == "0" || s == "false" {
			return ""
		}
		return s
	}
	for k, v := range x {
		if norm(v) != norm(y[k]) {
			set[k] = true
		}
	}
	for k, v := range y {
		if norm(v) != norm(x[k]) {
			set[k] = true
		}
	}
	return explore_sortedKeys(set)
}

func explore_sortedKeys(m map[string]bool) []string {
	out := make([]string, 0, len(m))
	for k := range m {
		out = append(out, k)
	}
	sort.Strings(out)
	return out
}

// ---------------------------------------------------------------------------------
// stWrap: a hook that forwards to a real storage hook, logs every mutating call as one
// "write" (tagged with the issuing *Client) and can stop forwarding (crash, or after
// shutdown so that the in-memory broker can go on living as the never-restarted twin).

type stWrite struct {
	N      int    // 1-based index in the log
	Event  string // hook event name
	Client *mqtt.Client
	ID     string // client id ("" for events without client)
	Kind   string // set | del
	Keys   []string
	Fwd    bool // forwarded to the store (false: dropped after the crash point)
}

func (w stWrite) String() string {
	return fmt.Sprintf("#%d %s(%s) %s %v fwd=%v", w.N, w.Event, w.ID, w.Kind, w.Keys, w.Fwd)
}

type stWrap struct {
	mqtt.HookBase
	Inner       mqtt.Hook
	Log         []stWrite
	CutAt       int  // forward only writes with N <= CutAt (-1: forward all)
	Off         bool // forward nothing any more (after Stop)
	Stopped     bool
	StopMsg     string
	OnWrite     func(w *stWrite) // called before the write is (not) forwarded
	After       func(w *stWrite) // called after a forwarded write returned
	OnEstablish func(cl *mqtt.Client)
}

func (h *stWrap) after() {
	if h.After != nil && len(h.Log) > 0 {
		h.After(&h.Log[len(h.Log)-1])
	}
}

func stNewWrap(inner mqtt.Hook) *stWrap { return &stWrap{Inner: inner, CutAt: -1} }

func (h *stWrap) ID() string { return "verif-wrap-" + h.Inner.ID() }
func (h *stWrap) Provides(b byte) bool {
	return h.Inner.Provides(b) || (b == mqtt.OnSessionEstablish && h.OnEstablish != nil)
}

// OnSessionEstablish is not a storage event: it marks the instant from which a new
// connection owns the session of its client id (just before the broker inherits it).
func (h *stWrap) OnSessionEstablish(cl *mqtt.Client, pk packets.Packet) {
	if h.OnEstablish != nil {
		h.OnEstablish(cl)
	}
}
func (h *stWrap) Init(config any) error {
	h.Inner.SetOpts(h.HookBase.Log, h.HookBase.Opts)
	return h.Inner.Init(config)
}
func (h *stWrap) Stop() error {
	if h.Stopped {
		return nil
	}
	h.Stopped = true
	h.Off = true
	h.StopMsg = stStop(h.Inner)
	return nil
}

func (h *stWrap) write(event string, cl *mqtt.Client, kind string, keys ...string) bool {
	w := stWrite{N: len(h.Log) + 1, Event: event, Client: cl, Kind: kind, Keys: keys}
	if cl != nil {
		w.ID = cl.ID
	}
	w.Fwd = !h.Off && (h.CutAt < 0 || w.N <= h.CutAt)
	if h.OnWrite != nil {
		h.OnWrite(&w)
	}
	if !h.Off {
		h.Log = append(h.Log, w)
	}
	return w.Fwd
}

func (h *stWrap) OnSessionEstablished(cl *mqtt.Client, pk packets.Packet) {
	if h.write("OnSessionEstablished", cl, "set", "client/"+cl.ID) {
		h.Inner.OnSessionEstablished(cl, pk)
		h.after()
	}
}
func (h *stWrap) OnDisconnect(cl *mqtt.Client, err error, expire bool) {
	kind := "none"
	if expire {
		kind = "del"
	}
	if h.write(fmt.Sprintf("OnDisconnect[expire=%v]", expire), cl, kind, "client/"+cl.ID) {
		h.Inner.OnDisconnect(cl, err, expire)
		h.after()
	}
}
func (h *stWrap) OnSubscribed(cl *mqtt.Client, pk packets.Packet, rc []byte) {
	var keys []string
	for _, f := range pk.Filters {
		keys = append(keys, "sub/"+cl.ID+"/"+f.Filter)
	}
	if h.write("OnSubscribed", cl, "set", keys...) {
		h.Inner.OnSubscribed(cl, pk, rc)
		h.after()
	}
}
func (h *stWrap) OnUnsubscribed(cl *mqtt.Client, pk packets.Packet) {
	var keys []string
	for _, f := range pk.Filters {
		keys = append(keys, "sub/"+cl.ID+"/"+f.Filter)
	}
	if h.write("OnUnsubscribed", cl, "del", keys...) {
		h.Inner.OnUnsubscribed(cl, pk)
		h.after()
	}
}
func (h *stWrap) OnRetainMessage(cl *mqtt.Client, pk packets.Packet, r int64) {
	kind := "set"
	if r == -1 {
		kind = "del"
	}
	if h.write("OnRetainMessage", cl, kind, "retained/"+pk.TopicName) {
		h.Inner.OnRetainMessage(cl, pk, r)
		h.after()
	}
}
func (h *stWrap) OnQosPublish(cl *mqtt.Client, pk packets.Packet, sent int64, resends int) {
	if h.write("OnQosPublish", cl, "set", fmt.Sprintf("inflight/%s/%d", cl.ID, pk.PacketID)) {
		h.Inner.OnQosPublish(cl, pk, sent, resends)
		h.after()
	}
}
func (h *stWrap) OnQosComplete(cl *mqtt.Client, pk packets.Packet) {
	if h.write("OnQosComplete", cl, "del", fmt.Sprintf("inflight/%s/%d", cl.ID, pk.PacketID)) {
		h.Inner.OnQosComplete(cl, pk)
		h.after()
	}
}
func (h *stWrap) OnQosDropped(cl *mqtt.Client, pk packets.Packet) {
	if h.write("OnQosDropped", cl, "del", fmt.Sprintf("inflight/%s/%d", cl.ID, pk.PacketID)) {
		h.Inner.OnQosDropped(cl, pk)
		h.after()
	}
}
func (h *stWrap) OnWillSent(cl *mqtt.Client, pk packets.Packet) {
	if h.write("OnWillSent", cl, "set", "client/"+cl.ID) {
		h.Inner.OnWillSent(cl, pk)
		h.after()
	}
}
func (h *stWrap) OnClientExpired(cl *mqtt.Client) {
	if h.write("OnClientExpired", cl, "del", "client/"+cl.ID) {
		h.Inner.OnClientExpired(cl)
		h.after()
	}
}
func (h *stWrap) OnRetainedExpired(topic string) {
	if h.write("OnRetainedExpired", nil, "del", "retained/"+topic) {
		h.Inner.OnRetainedExpired(topic)
		h.after()
	}
}
func (h *stWrap) OnSysInfoTick(info *system.Info) {
	if h.write("OnSysInfoTick", nil, "set", "sysinfo") {
		h.Inner.OnSysInfoTick(info)
		h.after()
	}
}
func (h *stWrap) StoredClients() ([]storage.Client, error) { return h.Inner.StoredClients() }
func (h *stWrap) StoredSubscriptions() ([]storage.Subscription, error) {
	return h.Inner.StoredSubscriptions()
}
func (h *stWrap) StoredInflightMessages() ([]storage.Message, error) {
	return h.Inner.StoredInflightMessages()
}
func (h *stWrap) StoredRetainedMessages() ([]storage.Message, error) {
	return h.Inner.StoredRetainedMessages()
}
func (h *stWrap) StoredSysInfo() (storage.SystemInfo, error) { return h.Inner.StoredSysInfo() }
