package props

// Generators of well-formed packets (reference representation) for C26 / C42, written
// from the MQTT 3.1 / 3.1.1 / 5.0 packet descriptions. Domains: structural shapes (flag
// combinations, QoS, optional sections) x strings {1 byte, 2-byte UTF-8 "ü", 65 535
// bytes, and "" where the specification allows it} x integers at the 7-bit / 16-bit
// boundaries; properties: none, every admissible single property over its value domain,
// every pair, all present, user properties / subscription identifiers repeated 0-3 times.

import (
	"strings"

	"verif/ref"
)

var (
	cdcMaxStr   = strings.Repeat("a", 65535)
	cdcMaxStrU  = strings.Repeat("ü", 32767) + "a" // 65 535 bytes, multi-byte
	cdcMaxBin   = append(make([]byte, 65534), 0xff)
	cdcSmallStr = []string{"a", "ü"}
	cdcInts16   = []uint32{1, 127, 128, 255, 256, 16383, 16384, 65535}
	cdcInts32   = []uint32{1, 127, 128, 16383, 16384, 65535, 65536, 2097151, 2097152, 268435455, 268435456, 4294967295}
	cdcIntsVar  = []uint32{1, 127, 128, 16383, 16384, 2097151, 2097152, 268435455}
)

// cdcPropValues returns the value domain of property id (well-formed values only).
func cdcPropValues(id byte, big bool) []ref.Prop {
	var out []ref.Prop
	num := func(vs ...uint32) {
		for _, v := range vs {
			out = append(out, ref.Prop{ID: id, Num: v})
		}
	}
	switch ref.PropKind(id) {
	case "byte":
		num(0, 1)
	case "u16":
		if id == ref.PTopicAliasMaximum || id == ref.PServerKeepAlive {
			num(0)
		}
		num(cdcInts16...)
	case "u32":
		if id == ref.PSessionExpiry || id == ref.PWillDelay {
			num(0)
		}
		num(cdcInts32...)
	case "var":
		num(cdcIntsVar...)
	case "str":
		for _, s := range cdcSmallStr {
			out = append(out, ref.Prop{ID: id, Str: s})
		}
		if big {
			out = append(out, ref.Prop{ID: id, Str: cdcMaxStr}, ref.Prop{ID: id, Str: cdcMaxStrU})
		}
	case "bin":
		out = append(out, ref.Prop{ID: id, Data: []byte{1}}, ref.Prop{ID: id, Data: []byte{0, 0xff}})
		if big {
			out = append(out, ref.Prop{ID: id, Data: cdcMaxBin})
		}
	case "pair":
		out = append(out, ref.Prop{ID: id, Str: "k", Val: "v"}, ref.Prop{ID: id, Str: "", Val: ""}, ref.Prop{ID: id, Str: "ü", Val: "ü"})
		if big {
			out = append(out, ref.Prop{ID: id, Str: cdcMaxStr, Val: "v"}, ref.Prop{ID: id, Str: "k", Val: cdcMaxStrU})
		}
	}
	return out
}

// cdcBaseProp is the representative value of id used in pairs / all-present lists (never a default).
func cdcBaseProp(id byte) ref.Prop {
	switch ref.PropKind(id) {
	case "byte":
		v := uint32(1)
		if d, ok := ref.PropDefault(id, 0); ok && d == 1 {
			v = 0
		}
		return ref.Prop{ID: id, Num: v}
	case "u16":
		return ref.Prop{ID: id, Num: 300}
	case "u32":
		return ref.Prop{ID: id, Num: 70000}
	case "var":
		return ref.Prop{ID: id, Num: 200}
	case "str":
		return ref.Prop{ID: id, Str: "sü"}
	case "bin":
		return ref.Prop{ID: id, Data: []byte{0, 1, 0xff}}
	}
	return ref.Prop{ID: id, Str: "k", Val: "v"}
}

// cdcPropVariants enumerates property lists for context ctx (packet type or ref.WillCtx).
// maxSubID: how many subscription identifiers the context allows (PUBLISH: several, SUBSCRIBE: 1).
func cdcPropVariants(ctx int, big bool) []ref.Props {
	ids := ref.PropIDs(ctx)
	out := []ref.Props{nil}
	for _, id := range ids {
		for _, p := range cdcPropValues(id, big) {
			out = append(out, ref.Props{p})
		}
	}
	multiOK := func(id byte) bool {
		return id == ref.PUser || (id == ref.PSubscriptionID && ctx == ref.PUBLISH)
	}
	for i, a := range ids {
		for _, b := range ids[i+1:] {
			out = append(out, ref.Props{cdcBaseProp(a), cdcBaseProp(b)})
		}
		if multiOK(a) {
			vs := cdcPropValues(a, false)
			out = append(out, ref.Props{vs[0], vs[1]}, ref.Props{vs[1], vs[0], vs[2]}, ref.Props{vs[0], vs[0], vs[0]})
		}
	}
	if len(ids) > 0 {
		out = append(out, cdcAllProps(ctx))
	}
	return out
}

// cdcAllProps is the list with every admissible property present (multi-valued ones twice).
func cdcAllProps(ctx int) ref.Props {
	var all ref.Props
	for _, id := range ref.PropIDs(ctx) {
		all = append(all, cdcBaseProp(id))
		if id == ref.PUser || (id == ref.PSubscriptionID && ctx == ref.PUBLISH) {
			p := cdcBaseProp(id)
			if id == ref.PUser {
				p.Str = "k2"
			} else {
				p.Num = 16384
			}
			all = append(all, p)
		}
	}
	return all
}

var cdcPids = []uint16{1, 127, 128, 255, 256, 16383, 16384, 65535}

func cdcProtoName(ver byte) string {
	if ver == 3 {
		return "MQIsdp"
	}
	return "MQTT"
}

// cdcGenPackets returns the well-formed packets of type typ for protocol version ver.
// full=false: structural shapes x {no properties, all properties} plus one property sweep
// per type; full=true: structural shapes x every property variant.
func cdcGenPackets(typ, ver byte, full bool) []ref.Packet {
	v5 := ver >= 5
	var out []ref.Packet
	pv := func(ctx int) []ref.Props {
		if !v5 {
			return []ref.Props{nil}
		}
		return cdcPropVariants(ctx, true)
	}
	// pvShort multiplies the structural shapes: {none, all present}, or (full) every
	// property variant with small values
	pvShort := func(ctx int) []ref.Props {
		if !v5 {
			return []ref.Props{nil}
		}
		if full {
			return cdcPropVariants(ctx, false)
		}
		return []ref.Props{nil, cdcAllProps(ctx)}
	}
	switch typ {
	case ref.CONNECT:
		base := ref.Packet{Type: typ, ProtoName: cdcProtoName(ver), ProtoVer: ver, ClientID: "c", KeepAlive: 60, CleanStart: true}
		type will struct {
			on     bool
			qos    byte
			retain bool
		}
		wills := []will{{}, {true, 0, false}, {true, 1, true}, {true, 2, false}}
		users := []*[]byte{nil, {}, {'u'}, {0xc3, 0xbc}}
		passes := []*[]byte{nil, {'p'}, {0, 0xff}}
		for _, clean := range []bool{false, true} {
			for _, w := range wills {
				for _, u := range users {
					for _, pw := range passes {
						if pw != nil && u == nil && !v5 {
							continue // [MQTT-3.1.2-22]
						}
						for _, ka := range []uint16{0, 1, 65535} {
							for _, id := range []string{"", "c", "ü"} {
								if id == "" && !clean && !v5 {
									continue // [MQTT-3.1.3-7]
								}
								if id == "" && ver == 3 {
									continue // 3.1: 1..23 characters
								}
								for _, ps := range pvShort(ref.CONNECT) {
									p := base
									p.CleanStart, p.KeepAlive, p.ClientID, p.Props = clean, ka, id, ps
									if w.on {
										p.WillFlag, p.WillQos, p.WillRetain, p.WillTopic, p.WillPayload = true, w.qos, w.retain, "w/ü", []byte("bye")
										if v5 && len(ps) > 0 {
											p.WillProps = cdcAllProps(ref.WillCtx)
										}
									}
									if u != nil {
										p.UserFlag, p.Username = true, *u
									}
									if pw != nil {
										p.PassFlag, p.Password = true, *pw
									}
									out = append(out, p)
								}
							}
						}
					}
				}
			}
		}
		// property sweeps on a fixed shape
		for _, ps := range pv(ref.CONNECT) {
			p := base
			p.Props = ps
			out = append(out, p)
		}
		wbase := base
		wbase.WillFlag, wbase.WillQos, wbase.WillTopic, wbase.WillPayload = true, 1, "w", []byte{0}
		for _, ps := range pv(ref.WillCtx) {
			p := wbase
			p.WillProps = ps
			out = append(out, p)
		}
		// field sweeps with the maximum-length values, one at a time and all at once
		for i := 0; i < 7; i++ {
			p := wbase
			p.UserFlag, p.PassFlag, p.Username, p.Password = true, true, []byte("u"), []byte("p")
			if i == 0 || i == 6 {
				p.ClientID = cdcMaxStr
			}
			if i == 1 || i == 6 {
				p.WillTopic = cdcMaxStrU
			}
			if i == 2 || i == 6 {
				p.WillPayload = cdcMaxBin
			}
			if i == 3 || i == 6 {
				p.Username = []byte(cdcMaxStr)
			}
			if i == 4 || i == 6 {
				p.Password = cdcMaxBin
			}
			if i == 5 {
				p.WillPayload = nil // zero-length will payload is permitted on the wire
			}
			out = append(out, p)
		}
	case ref.CONNACK:
		codes := []byte{0, 1, 2, 3, 4, 5}
		if v5 {
			codes = []byte{0, 0x80, 0x81, 0x84, 0x87, 0x8a, 0x95, 0x9f}
		}
		for _, rc := range codes {
			for _, sp := range []bool{false, true} {
				if sp && rc != 0 {
					continue // [MQTT-3.2.2-6]
				}
				for _, ps := range pv(ref.CONNACK) {
					out = append(out, ref.Packet{Type: typ, SessionPresent: sp, ReasonCode: rc, Props: ps})
				}
			}
		}
	case ref.PUBLISH:
		topics := []string{"a", "ü", "a/b"}
		payloads := [][]byte{nil, {0}, []byte("ü"), []byte("hello")}
		for qos := byte(0); qos <= 2; qos++ {
			for _, dup := range []bool{false, true} {
				if dup && qos == 0 {
					continue
				}
				for _, ret := range []bool{false, true} {
					for _, tp := range topics {
						for _, pl := range payloads {
							for _, id := range cdcPids {
								if qos == 0 && id != 1 {
									continue
								}
								for _, ps := range pvShort(ref.PUBLISH) {
									p := ref.Packet{Type: typ, Qos: qos, Dup: dup, Retain: ret, Topic: tp, Payload: pl, Props: ps}
									if qos > 0 {
										p.PacketID = id
									}
									out = append(out, p)
								}
							}
						}
					}
				}
			}
		}
		for _, ps := range pv(ref.PUBLISH) {
			out = append(out, ref.Packet{Type: typ, Qos: 1, PacketID: 7, Topic: "t", Payload: []byte("x"), Props: ps})
			out = append(out, ref.Packet{Type: typ, Topic: "t", Props: ps})
		}
		if v5 { // topic alias only
			out = append(out, ref.Packet{Type: typ, Topic: "", Payload: []byte("x"), Props: ref.Props{{ID: ref.PTopicAlias, Num: 1}}})
			out = append(out, ref.Packet{Type: typ, Qos: 2, PacketID: 65535, Topic: "", Props: ref.Props{{ID: ref.PTopicAlias, Num: 65535}}})
		}
		// remaining length at every size class (1, 2, 3, 4 bytes), maximum-length topic
		for _, n := range []int{0, 100, 121, 122, 123, 16000, 16376, 16377, 16378, 65535, 70000, 2097140, 2097150, 2097160} {
			out = append(out, ref.Packet{Type: typ, Qos: 1, PacketID: 9, Topic: "ab", Payload: make([]byte, n)})
		}
		out = append(out, ref.Packet{Type: typ, Topic: cdcMaxStr, Payload: []byte("x")})
		out = append(out, ref.Packet{Type: typ, Qos: 2, PacketID: 256, Retain: true, Topic: cdcMaxStrU, Payload: cdcMaxBin})
	case ref.PUBACK, ref.PUBREC, ref.PUBREL, ref.PUBCOMP:
		codes := []byte{0}
		if v5 {
			if typ == ref.PUBACK || typ == ref.PUBREC {
				codes = []byte{0, 0x10, 0x80, 0x83, 0x87, 0x90, 0x91, 0x97, 0x99}
			} else {
				codes = []byte{0, 0x92}
			}
		}
		for _, id := range cdcPids {
			for _, rc := range codes {
				for _, ps := range pv(int(typ)) {
					out = append(out, ref.Packet{Type: typ, PacketID: id, ReasonCode: rc, Props: ps})
				}
			}
		}
	case ref.SUBSCRIBE:
		var opts []byte
		for qos := byte(0); qos <= 2; qos++ {
			if !v5 {
				opts = append(opts, qos)
				continue
			}
			for _, nl := range []bool{false, true} {
				for _, rap := range []bool{false, true} {
					for rh := byte(0); rh <= 2; rh++ {
						opts = append(opts, ref.SubOpts(qos, nl, rap, rh))
					}
				}
			}
		}
		filters := []string{"a", "ü/+", "#", "$share/g/a/#"}
		for _, id := range cdcPids {
			for _, f := range filters {
				for _, o := range opts {
					if v5 && o&4 != 0 && strings.HasPrefix(f, "$share/") {
						continue // [MQTT-3.8.3-4] no local on a shared subscription
					}
					for _, ps := range pvShort(ref.SUBSCRIBE) {
						out = append(out, ref.Packet{Type: typ, PacketID: id, Filters: []ref.Filter{{Filter: f, Opts: o}}, Props: ps})
					}
				}
			}
		}
		for i, o := range opts {
			o2 := opts[(i*7+3)%len(opts)]
			o3 := opts[(i*5+1)%len(opts)]
			out = append(out, ref.Packet{Type: typ, PacketID: 10, Filters: []ref.Filter{{Filter: "a", Opts: o}, {Filter: "ü/+", Opts: o2}}})
			out = append(out, ref.Packet{Type: typ, PacketID: 11, Filters: []ref.Filter{{Filter: "#", Opts: o3}, {Filter: "a", Opts: o}, {Filter: "b/c", Opts: o2}}})
		}
		for _, ps := range pv(ref.SUBSCRIBE) {
			out = append(out, ref.Packet{Type: typ, PacketID: 12, Filters: []ref.Filter{{Filter: "a/b", Opts: 1}}, Props: ps})
		}
		out = append(out, ref.Packet{Type: typ, PacketID: 13, Filters: []ref.Filter{{Filter: cdcMaxStr, Opts: 2}}})
		out = append(out, ref.Packet{Type: typ, PacketID: 14, Filters: []ref.Filter{{Filter: "a", Opts: 0}, {Filter: cdcMaxStrU, Opts: 1}}})
	case ref.SUBACK, ref.UNSUBACK:
		codes := []byte{0, 1, 2, 0x80}
		if typ == ref.UNSUBACK {
			codes = []byte{0, 0x11, 0x80, 0x8f}
		} else if v5 {
			codes = []byte{0, 1, 2, 0x80, 0x8f, 0x9e, 0xa2}
		}
		var lists [][]byte
		if typ == ref.UNSUBACK && !v5 {
			lists = [][]byte{nil}
		} else {
			for _, a := range codes {
				lists = append(lists, []byte{a})
				for _, b := range codes {
					lists = append(lists, []byte{a, b})
				}
			}
			lists = append(lists, []byte{codes[0], codes[1], codes[2]}, []byte{codes[3], codes[3], codes[3]}, make([]byte, 200))
		}
		for _, id := range cdcPids {
			for _, l := range lists {
				for _, ps := range pvShort(int(typ)) {
					out = append(out, ref.Packet{Type: typ, PacketID: id, ReasonCodes: l, Props: ps})
				}
			}
		}
		for _, ps := range pv(int(typ)) {
			out = append(out, ref.Packet{Type: typ, PacketID: 300, ReasonCodes: lists[0], Props: ps})
		}
	case ref.UNSUBSCRIBE:
		filters := []string{"a", "ü/+", "#", "$share/g/a"}
		for _, id := range cdcPids {
			for i, f := range filters {
				for _, ps := range pvShort(ref.UNSUBSCRIBE) {
					out = append(out, ref.Packet{Type: typ, PacketID: id, Filters: []ref.Filter{{Filter: f}}, Props: ps})
					out = append(out, ref.Packet{Type: typ, PacketID: id, Filters: []ref.Filter{{Filter: f}, {Filter: filters[(i+1)%4]}}, Props: ps})
					out = append(out, ref.Packet{Type: typ, PacketID: id, Filters: []ref.Filter{{Filter: filters[(i+2)%4]}, {Filter: f}, {Filter: filters[(i+1)%4]}}, Props: ps})
				}
			}
		}
		for _, ps := range pv(ref.UNSUBSCRIBE) {
			out = append(out, ref.Packet{Type: typ, PacketID: 12, Filters: []ref.Filter{{Filter: "a/b"}}, Props: ps})
		}
		out = append(out, ref.Packet{Type: typ, PacketID: 13, Filters: []ref.Filter{{Filter: cdcMaxStr}, {Filter: cdcMaxStrU}}})
	case ref.PINGREQ, ref.PINGRESP:
		out = append(out, ref.Packet{Type: typ})
	case ref.DISCONNECT:
		if !v5 {
			out = append(out, ref.Packet{Type: typ})
			break
		}
		for _, rc := range []byte{0, 0x04, 0x80, 0x81, 0x82, 0x87, 0x8b, 0x8d, 0x8e, 0x93, 0x98, 0xa2} {
			for _, ps := range pv(ref.DISCONNECT) {
				out = append(out, ref.Packet{Type: typ, ReasonCode: rc, Props: ps})
			}
		}
	case ref.AUTH:
		if !v5 {
			break
		}
		for _, rc := range []byte{0, 0x18, 0x19} {
			for _, ps := range pv(ref.AUTH) {
				out = append(out, ref.Packet{Type: typ, ReasonCode: rc, Props: ps})
			}
		}
	}
	return out
}

var cdcAllTypes = []byte{ref.CONNECT, ref.CONNACK, ref.PUBLISH, ref.PUBACK, ref.PUBREC, ref.PUBREL, ref.PUBCOMP, ref.SUBSCRIBE,
	ref.SUBACK, ref.UNSUBSCRIBE, ref.UNSUBACK, ref.PINGREQ, ref.PINGRESP, ref.DISCONNECT, ref.AUTH}

var cdcClientTypes = []byte{ref.CONNECT, ref.PUBLISH, ref.PUBACK, ref.PUBREC, ref.PUBREL, ref.PUBCOMP, ref.SUBSCRIBE,
	ref.UNSUBSCRIBE, ref.PINGREQ, ref.DISCONNECT, ref.AUTH}
