package props

// C29: variable byte integers are canonical and bounded.
//
// Encoder side: for every value v in 0..268 435 455 (both tiers: the whole range; it costs
// a few core-seconds) encodeLength(v) must be the minimum-length form (1..4 bytes; checked
// against the length implied by v and byte-for-byte against the reference encoder), and
// DecodeLength of those bytes must return (v, consumed = len). The FixedHeader.Encode path
// (Remaining) is checked on the boundary values.
// Decoder side: every byte string of length <= 6 over {00,01,7F,80,81,FF} (quick), plus
// (thorough) every string of length <= 3 over all 256 byte values and every string of
// length 4..6 over a 16-value alphabet. Oracle (MQTT 1.5.5): the first byte without the
// continuation bit among the first four terminates the integer: value = sum of 7-bit
// groups, bytes consumed = its index + 1; four continuation bytes in a row must be rejected
// (encoding longer than four bytes); running out of bytes must be an error. Non-minimal
// encodings of <= 4 bytes are not judged (the property only constrains what is written).
//
// Violation keys:
//   encode:non-minimal:len<n>   encode:wrong-bytes   encode:roundtrip-value   encode:roundtrip-consumed
//   fixedheader:remaining-length
//   decode:accepts-<n>-byte-encoding (n = 5, 6)   decode:accepts-value>max   decode:rejects-valid:len<n>
//   decode:wrong-value:len<n>   decode:wrong-consumed:len<n>   decode:accepts-truncated   decode:accepts-unterminated   decode:panic

import (
	"bytes"
	"encoding/hex"
	"encoding/json"
	"fmt"
	"io"
	"sync/atomic"

	"github.com/mochi-mqtt/server/v2/packets"

	"verif/explore"
	"verif/ref"
)

const cdcVarintMax = 268435455

// cdcSliceReader is a minimal io.ByteReader that records how many bytes were consumed.
type cdcSliceReader struct {
	b   []byte
	pos int
}

func (r *cdcSliceReader) ReadByte() (byte, error) {
	if r.pos >= len(r.b) {
		return 0, io.EOF
	}
	r.pos++
	return r.b[r.pos-1], nil
}

func cdcMinimalLen(v int) int {
	switch {
	case v < 128:
		return 1
	case v < 16384:
		return 2
	case v < 2097152:
		return 3
	}
	return 4
}

// c29Encode checks one value; buf is scratch.
func c29Encode(v int, buf *bytes.Buffer, rd *cdcSliceReader) (key, msg string) {
	buf.Reset()
	packets.VerifEncodeLength(buf, int64(v))
	enc := buf.Bytes()
	if len(enc) != cdcMinimalLen(v) {
		return fmt.Sprintf("encode:non-minimal:len%d", len(enc)), fmt.Sprintf("encodeLength(%d) wrote %d bytes [% x], minimum is %d", v, len(enc), enc, cdcMinimalLen(v))
	}
	// independent encoding, computed inline (7 bits per byte, least significant first)
	x := v
	for i := 0; i < len(enc); i++ {
		want := byte(x & 0x7f)
		x >>= 7
		if x > 0 {
			want |= 0x80
		}
		if enc[i] != want {
			return "encode:wrong-bytes", fmt.Sprintf("encodeLength(%d) wrote [% x], expected [% x]", v, enc, ref.EncodeVarint(uint32(v)))
		}
	}
	rd.b, rd.pos = enc, 0
	n, bu, err := packets.DecodeLength(rd)
	if err != nil || n != v {
		return "encode:roundtrip-value", fmt.Sprintf("DecodeLength(encodeLength(%d) = [% x]) returned (%d, %v)", v, enc, n, err)
	}
	if bu != len(enc) || rd.pos != len(enc) {
		return "encode:roundtrip-consumed", fmt.Sprintf("DecodeLength([% x]) reported %d bytes used and consumed %d, expected %d", enc, bu, rd.pos, len(enc))
	}
	return "", ""
}

// c29Decode checks one byte string against the 1.5.5 decoding rule.
func c29Decode(s []byte, rd *cdcSliceReader) (key, msg string, class int) {
	// oracle
	wantErr, wantVal, wantUsed := true, 0, 0
	class = 0 // 1..4 valid length, 5 overlong (>4 continuation), 6 truncated
	for i := 0; i < 4 && i < len(s); i++ {
		wantVal |= int(s[i]&0x7f) << (7 * uint(i))
		if s[i]&0x80 == 0 {
			wantErr, wantUsed, class = false, i+1, i+1
			break
		}
	}
	if wantErr {
		if len(s) >= 4 {
			class = 5
		} else {
			class = 6
		}
	}
	rd.b, rd.pos = s, 0
	var n, bu int
	var err error
	func() {
		defer func() {
			if r := recover(); r != nil {
				key, msg = "decode:panic", fmt.Sprintf("DecodeLength([% x]) panicked: %v", s, r)
			}
		}()
		n, bu, err = packets.DecodeLength(rd)
	}()
	if key != "" {
		return
	}
	switch {
	case wantErr && err == nil && class == 5 && rd.pos <= 4:
		return "decode:accepts-unterminated", fmt.Sprintf("DecodeLength([% x]) returned %d after %d bytes although every one of them has the continuation bit set", s, n, rd.pos), class
	case wantErr && err == nil && class == 5:
		return fmt.Sprintf("decode:accepts-%d-byte-encoding", rd.pos), fmt.Sprintf("DecodeLength([% x]) accepted an encoding of %d bytes (value %d); expected: malformed (at most four bytes)", s, rd.pos, n), class
	case wantErr && err == nil:
		return "decode:accepts-truncated", fmt.Sprintf("DecodeLength([% x]) returned %d although the integer is not terminated", s, n), class
	case wantErr:
		return "", "", class
	case err != nil:
		return fmt.Sprintf("decode:rejects-valid:len%d", wantUsed), fmt.Sprintf("DecodeLength([% x]) = error %v; expected value %d", s, err, wantVal), class
	case n > cdcVarintMax:
		return "decode:accepts-value>max", fmt.Sprintf("DecodeLength([% x]) = %d > 268435455", s, n), class
	case n != wantVal:
		return fmt.Sprintf("decode:wrong-value:len%d", wantUsed), fmt.Sprintf("DecodeLength([% x]) = %d; expected %d", s, n, wantVal), class
	case bu != wantUsed || rd.pos != wantUsed:
		return fmt.Sprintf("decode:wrong-consumed:len%d", wantUsed), fmt.Sprintf("DecodeLength([% x]) reports %d bytes, consumed %d; expected %d", s, bu, rd.pos, wantUsed), class
	}
	return "", "", class
}

func c29Replay(raw json.RawMessage) (bool, []string) {
	var r codecReplay
	if err := json.Unmarshal(raw, &r); err != nil {
		return false, []string{err.Error()}
	}
	rd := &cdcSliceReader{}
	var key, msg string
	switch r.Kind {
	case "varint-encode":
		key, msg = c29Encode(int(r.Value), new(bytes.Buffer), rd)
	case "fixedheader":
		key, msg = c29FixedHeader(int(r.Value))
	case "embedded-subid":
		key, msg = c29Embedded("subid", int(r.Value))
	case "embedded-proplen":
		key, msg = c29Embedded("proplen", int(r.Value))
	case "embedded-overlong":
		key, msg = c29EmbeddedOverlong()
	default:
		b, _ := hex.DecodeString(r.Hex)
		key, msg, _ = c29Decode(b, rd)
	}
	if key == "" {
		return false, []string{"no violation"}
	}
	return true, []string{"key=" + key, msg}
}

// c29Embedded checks the variable byte integers INSIDE packets: kind "subid" puts v into the
// Subscription Identifier of an MQTT 5 SUBSCRIBE and of a PUBLISH; kind "proplen" builds a
// PUBLISH whose property section (user properties) is exactly v bytes long. The broker's
// encoder must write byte for byte what the reference encoder writes (minimal integers),
// and the broker's decoder must give back the same packet.
func c29Embedded(kind string, v int) (key, msg string) {
	var gs []ref.Packet
	switch kind {
	case "subid":
		gs = []ref.Packet{
			{Type: ref.SUBSCRIBE, PacketID: 7, Filters: []ref.Filter{{Filter: "a/b", Opts: 1}}, Props: ref.Props{{ID: ref.PSubscriptionID, Num: uint32(v)}}},
			{Type: ref.PUBLISH, Topic: "a/b", Payload: []byte("p"), Qos: 1, PacketID: 7, Props: ref.Props{{ID: ref.PSubscriptionID, Num: uint32(v)}}},
		}
	case "proplen":
		var ps ref.Props
		left := v
		for left > 0 {
			n := left
			if n > 65541 {
				n = 65541
				if left-n > 0 && left-n < 6 {
					n -= 6
				}
			}
			if n < 6 {
				return "", "" // not constructible from user properties
			}
			ps = append(ps, ref.Prop{ID: ref.PUser, Str: "k", Val: string(bytes.Repeat([]byte{'v'}, n-6))})
			left -= n
		}
		gs = []ref.Packet{{Type: ref.PUBLISH, Topic: "a/b", Payload: []byte("p"), Qos: 1, PacketID: 7, Props: ps}}
	}
	for _, g := range gs {
		want := ref.Encode(g, 5, ref.EncOpts{})
		m := cdcToMochi(g, 5)
		m.ProtocolVersion = 5
		got, err, pn := cdcMEncode(&m)
		name := cdcTname(g.Type)
		if pn != nil || err != nil {
			return "embedded:" + kind + ":" + name + ":encode-fails", fmt.Sprintf("%s with %s %d: encoder failed: %v %v", name, kind, v, err, pn)
		}
		if !bytes.Equal(got, want) {
			return "embedded:" + kind + ":" + name + ":encode-differs", fmt.Sprintf("%s with %s %d: encoder wrote %s, the reference encoder %s", name, kind, v, cdcShort(got), cdcShort(want))
		}
		hdr, _, body, err := cdcSplitFixedHeader(want)
		if err != nil {
			return "internal:c29-embedded", err.Error()
		}
		back, err, pn := cdcSafeDecode(hdr, 5, body)
		if pn != nil || err != nil {
			return "embedded:" + kind + ":" + name + ":decode-rejects", fmt.Sprintf("%s with %s %d (%s): decoder failed: %v %v", name, kind, v, cdcShort(want), err, pn)
		}
		if d := cdcDiffPackets(cdcCanon(g, 5), cdcCanon(cdcFromMochi(back, 5), 5)); d != "" {
			return "embedded:" + kind + ":" + name + ":roundtrip-differs", fmt.Sprintf("%s with %s %d does not decode back to itself: %s", name, kind, v, d)
		}
	}
	return "", ""
}

// c29EmbeddedOverlong: a Subscription Identifier written with five bytes (four continuation
// bytes) inside a SUBSCRIBE must be rejected.
func c29EmbeddedOverlong() (key, msg string) {
	body := []byte{0x00, 0x07, 0x06, 0x0B, 0x80, 0x80, 0x80, 0x80, 0x01, 0x00, 0x03, 'a', '/', 'b', 0x01}
	if _, err, pn := cdcSafeDecode(0x82, 5, body); err == nil && pn == nil {
		return "embedded:subid:SUBSCRIBE:accepts-5-byte-encoding", fmt.Sprintf("SUBSCRIBE body % x (Subscription Identifier in five bytes) was accepted", body)
	}
	return "", ""
}

func c29FixedHeader(v int) (key, msg string) {
	fh := packets.FixedHeader{Type: packets.Publish, Remaining: v}
	var b bytes.Buffer
	fh.Encode(&b)
	want := append([]byte{0x30}, ref.EncodeVarint(uint32(v))...)
	if !bytes.Equal(b.Bytes(), want) {
		return "fixedheader:remaining-length", fmt.Sprintf("FixedHeader{Publish, Remaining:%d}.Encode wrote [% x], expected [% x]", v, b.Bytes(), want)
	}
	return "", ""
}

func init() {
	explore.RegisterReplayer("C29", c29Replay)
	explore.Register("C29", func(c *explore.Ctx) {
		c.Rep.Level = "exploration"
		c.Rep.Set("rule", "distinct (encoded length 1..4) classes on the encoder side plus distinct decoder input classes (terminated after 1,2,3,4 bytes / more than four continuation bytes / truncated) that occurred")
		// ---- encoder: every value
		const chunk = 1 << 16
		nchunks := (cdcVarintMax + 1) / chunk
		var evals int64
		var lens [5]int64
		complete := explore.ParallelRange(nchunks, c.Workers, c.Expired, func(ci int) {
			buf, rd := new(bytes.Buffer), &cdcSliceReader{}
			var l [5]int64
			for v := ci * chunk; v < (ci+1)*chunk; v++ {
				if key, msg := c29Encode(v, buf, rd); key != "" {
					c.Rep.Add(explore.Violation{Key: key, Msg: msg, Replay: codecReplay{Kind: "varint-encode", Value: int64(v)}})
				}
				l[cdcMinimalLen(v)]++
			}
			atomic.AddInt64(&evals, chunk)
			for i := range l {
				atomic.AddInt64(&lens[i], l[i])
			}
		})
		if !complete {
			c.Rep.Capped("encoder range not finished before the deadline")
		}
		c.Rep.Set("encoder_values_checked", evals)
		c.Rep.Set("encoder_exhaustive_0_to_268435455", complete)
		for _, v := range []int{0, 1, 127, 128, 16383, 16384, 2097151, 2097152, cdcVarintMax - 1, cdcVarintMax} {
			if key, msg := c29FixedHeader(v); key != "" {
				c.Rep.Add(explore.Violation{Key: key, Msg: msg, Replay: codecReplay{Kind: "fixedheader", Value: int64(v)}})
			}
			evals++
		}
		// ---- the integers inside packets: Subscription Identifier and property length
		var embedded int64
		seenV := map[int]bool{}
		for k := 0; k <= 28; k++ {
			for _, v := range []int{1<<k - 1, 1 << k, 1<<k + 1, 3 << k, 5 << k} {
				if v < 1 || v > cdcVarintMax || seenV[v] {
					continue
				}
				seenV[v] = true
				if key, msg := c29Embedded("subid", v); key != "" {
					c.Rep.Add(explore.Violation{Key: key, Msg: msg, Replay: codecReplay{Kind: "embedded-subid", Value: int64(v)}})
				}
				embedded++
			}
		}
		for _, v := range []int{6, 127, 128, 129, 16383, 16384, 16385, 65541, 2097151, 2097152, 2097153} {
			if key, msg := c29Embedded("proplen", v); key != "" {
				c.Rep.Add(explore.Violation{Key: key, Msg: msg, Replay: codecReplay{Kind: "embedded-proplen", Value: int64(v)}})
			}
			embedded++
		}
		if key, msg := c29EmbeddedOverlong(); key != "" {
			c.Rep.Add(explore.Violation{Key: key, Msg: msg, Replay: codecReplay{Kind: "embedded-overlong"}})
		}
		c.Rep.Set("embedded_integer_cases", embedded+1)
		// ---- decoder: continuation patterns
		type dom struct {
			alpha  []byte
			minLen int
			maxLen int
		}
		doms := []dom{{[]byte{0x00, 0x01, 0x7F, 0x80, 0x81, 0xFF}, 0, 6}}
		if !c.Quick() {
			full := make([]byte, 256)
			for i := range full {
				full[i] = byte(i)
			}
			doms = append(doms, dom{full, 1, 3},
				dom{[]byte{0x00, 0x01, 0x02, 0x08, 0x10, 0x40, 0x7E, 0x7F, 0x80, 0x81, 0x82, 0x88, 0x90, 0xC0, 0xFE, 0xFF}, 4, 6})
		}
		var classes [7]int64
		var devals int64
		for _, d := range doms {
			for n := d.minLen; n <= d.maxLen; n++ {
				if n == 0 {
					key, msg, cl := c29Decode(nil, &cdcSliceReader{})
					classes[cl]++
					devals++
					if key != "" {
						c.Rep.Add(explore.Violation{Key: key, Msg: msg, Replay: codecReplay{Kind: "varint-decode", Hex: ""}})
					}
					continue
				}
				k := len(d.alpha)
				// shard on the first byte
				ok := explore.ParallelRange(k, c.Workers, c.Expired, func(f int) {
					rd := &cdcSliceReader{}
					s := make([]byte, n)
					idx := make([]int, n)
					s[0] = d.alpha[f]
					for i := 1; i < n; i++ {
						s[i] = d.alpha[0]
					}
					var cls [7]int64
					var cnt int64
					for {
						key, msg, cl := c29Decode(s, rd)
						cls[cl]++
						cnt++
						if key != "" {
							c.Rep.Add(explore.Violation{Key: key, Msg: msg, Replay: codecReplay{Kind: "varint-decode", Hex: hex.EncodeToString(s)}})
						}
						i := n - 1
						for i >= 1 {
							idx[i]++
							if idx[i] < k {
								s[i] = d.alpha[idx[i]]
								break
							}
							idx[i] = 0
							s[i] = d.alpha[0]
							i--
						}
						if i < 1 {
							break
						}
					}
					atomic.AddInt64(&devals, cnt)
					for i := range cls {
						atomic.AddInt64(&classes[i], cls[i])
					}
				})
				if !ok {
					c.Rep.Capped(fmt.Sprintf("decoder patterns of length %d not finished", n))
				}
			}
		}
		c.Rep.Set("decoder_patterns_checked", devals)
		c.Rep.Set("decoder_classes", map[string]int64{"terminated-after-1": classes[1], "terminated-after-2": classes[2], "terminated-after-3": classes[3],
			"terminated-after-4": classes[4], "more-than-4-continuation-bytes": classes[5], "truncated": classes[6]})
		distinct := int64(0)
		for i := 1; i <= 4; i++ {
			if lens[i] > 0 {
				distinct++
			}
		}
		for i := 1; i <= 6; i++ {
			if classes[i] > 0 {
				distinct++
			}
		}
		c.Rep.Count("evaluations", evals+devals)
		c.Rep.Count("distinct_nontrivial", distinct)
		c.Rep.Assumption("DecodeLength is judged through an io.ByteReader over a byte slice (the broker passes a bufio.Reader / bytes.Buffer; the function only calls ReadByte)")
		c.Rep.Sample(map[string]any{"value": 16384, "expect_bytes": "80 80 01", "expect_len": 3})
		c.Rep.Sample(map[string]any{"bytes": "ff ff ff 7f", "expect_value": cdcVarintMax})
		c.Rep.Sample(map[string]any{"bytes": "80 80 80 80 00", "expect": "malformed (five bytes)"})
		c.Rep.Sample(map[string]any{"bytes": "80 80 80 80 80 01", "expect": "malformed (six bytes)"})
	})
}
