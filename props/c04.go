package props

import (
	"fmt"
	"sort"
	"strings"
	"time"

	mqtt "github.com/mochi-mqtt/server/v2"

	"verif/explore"
	"verif/ref"
	"verif/world"
)

// C04: delivered QoS = min(published QoS, highest QoS among the matching subscriptions,
// server maximum QoS); SUBACK grants min(requested, server maximum); a delivery carries
// exactly the subscription identifiers of the matching subscriptions that have one (live
// and retained); the retain flag is cleared on live delivery unless Retain As Published.
//
// E2 scenario "c04", arg "v<4|5>,mq<0|1|2>[,pool<subs><pubs><unsubs>][,ids3]": publisher p (v5), subscriber s
// (v4|v5), fresh broker with Capabilities.MaximumQos = mq. The history BFS chains
//   sub:<i>:<qos>:<id>:<rap>   filter i: 1 = x/+, 2 = x/#; id 0 = none; (re-subscribing replaces)
//   unsub:<i>
//   pub:<topic>:<qos>:<retain> topic x/y matches both filters, x only x/#
// in every order within the pools (subscribes, publishes, unsubscribes), i.e. the full
// product publish QoS x subscription options of one or two overlapping subscriptions x
// {live, retained-on-subscribe} and in addition replacement, removal and retained-then-live
// combinations. Every delivery is acknowledged by the harness client at once.
// With ",lite" the option product is cut down (subscription QoS 1, no Retain As Published,
// publishes x/y and x at QoS 1) to pay for a second publish: sequences in which a publish
// matching both subscriptions is followed by one matching a single subscription (other
// topic, or the other filter unsubscribed) - a delivery must carry the identifiers of the
// subscriptions matching IT, whatever was delivered before.
//
// E2 scenario "c04tx" (every transmission), arg "v<4|5>,rm<0|1>[,full]": the subscriber does
// NOT acknowledge by itself and keeps its session (clean start 0, v5 session expiry; with
// rm1 a v5 Receive Maximum of 1). Ops:
//   sub:<i>:<qos>:<id>:<rap>   as above, QoS 1|2, only before the first publish, x/+ before x/#
//   pub:x/y:<qos>:<retain>     QoS 1|2
//   ack                        s acknowledges its oldest outstanding delivery completely
//                              (PUBACK, or PUBREC + PUBCOMP) - releases a deferred message
//   rc                         s's connection drops and s reconnects, resuming the session
// With ",resub" one SUBSCRIBE replacing x/+ by the same filter with other options is offered
// before the publish, and rc may follow it: the options of the LAST subscribe decide, also
// after the session was resumed.
// QoS, identifiers and retain flag are judged on EVERY PUBLISH packet that carries the
// message: the first transmission (live, or "deferred" when it was held behind Receive
// Maximum and written later from the stored copy) and every retransmission ("resend")
// after the session is resumed. Whether and when a message is (re)transmitted is C09/C11.
//
// Reference model (from MQTT 5 §3.3.1.2/3.3.1.3/3.3.4/3.8.3/3.8.4/3.9.3, not from mochi):
// subs: filter -> (qos, id, rap); retained: topic -> (tag, qos as accepted = min(pub, mq)).
// Three-valued points (DESIGN §3.2): on a retained delivery triggered by SUBSCRIBE f the id
// of f is required (if it has one), ids of other matching subscriptions are optional, all
// others forbidden; its QoS may use f's QoS alone or the highest matching QoS; the live
// retain flag is decided only when all matching subscriptions agree on Retain As Published.

type c04Sub struct {
	qos byte
	id  int
	rap bool
}

type c04Ret struct {
	tag string
	qos byte
}

type c04Model struct {
	subs               map[string]c04Sub
	retained           map[string]c04Ret
	nsub, npub, nunsub int
	common             bool   // an earlier publish matched two subscriptions that both have an identifier
	pubs               string // lite: what was published so far (kept in the state key, see below)
}

var c04Filters = map[string]string{"1": "x/+", "2": "x/#"}

func (m *c04Model) matching(topic string) []string { return c04Matching(m.subs, topic) }

func c04Matching(subs map[string]c04Sub, topic string) []string {
	var out []string
	for _, f := range explore.SortedKeys(subs) {
		if ref.Match(f, topic) {
			out = append(out, f)
		}
	}
	return out
}

// c04Oracle judges one PUBLISH packet delivered to s against the subscriptions subs.
// kind: live | retained | deferred | resend (first three: first transmission). own = filter
// whose SUBSCRIBE triggered a retained delivery ("" otherwise).
type c04Oracle struct {
	h       *H
	cnt     map[string]int
	ver, mq byte
	former  map[int]bool // identifiers of subscriptions s held earlier (replaced or removed)
}

func (o *c04Oracle) judge(subs map[string]c04Sub, p ref.Packet, topic string, pubQos byte, pubRetain bool, own, kind string) {
	h, cnt, ver, mq := o.h, o.cnt, o.ver, o.mq
	M := c04Matching(subs, topic)
	if len(M) == 0 {
		return // not entitled at all: C03/C05 territory
	}
	var hi byte
	allRap, noneRap := true, true
	must, may := map[int]int{}, map[int]int{}
	for _, f := range M {
		s := subs[f]
		if s.qos > hi {
			hi = s.qos
		}
		if s.rap {
			noneRap = false
		} else {
			allRap = false
		}
		if s.id > 0 {
			if own == "" || f == own {
				must[s.id]++
			} else {
				may[s.id]++
			}
		}
	}
	// QoS
	wantHi := minb(pubQos, hi, mq)
	wantLo := wantHi
	if own != "" {
		wantLo = minb(pubQos, subs[own].qos, mq)
	}
	h.count(cnt, kind+"_deliveries", 1)
	if p.Qos < wantLo || p.Qos > wantHi {
		dir := "low"
		if p.Qos > wantHi {
			dir = "high"
		}
		h.violate(fmt.Sprintf("c04:qos:%s:%s:v%d", kind, dir, ver), "%s delivery of %q (published q%d) to s: QoS %d, want %d..%d = min(published, highest matching subscription %d, server maximum %d); subs=%v", kind, topic, pubQos, p.Qos, wantLo, wantHi, hi, mq, subs)
	}
	if wantHi < pubQos {
		h.count(cnt, kind+"_downgraded", 1)
	}
	// identifiers
	got := subIDs(p)
	seen := map[int]int{}
	for _, id := range got {
		seen[id]++
	}
	if len(must) > 0 {
		h.count(cnt, kind+"_with_identifier", 1)
	}
	if len(must) > 1 {
		h.count(cnt, kind+"_with_two_identifiers", 1)
	}
	for id := range must {
		if seen[id] == 0 {
			which := "identifier"
			if own != "" {
				which = "own-identifier"
			}
			h.violate(fmt.Sprintf("c04:%s:missing-%s", kind, which), "%s delivery of %q to s carries identifiers %v, but the matching subscription with identifier %d requires it; subs=%v own=%q", kind, topic, got, id, subs, own)
		}
	}
	for id, n := range seen {
		switch {
		case id == 0:
			h.violate("c04:"+kind+":identifier-zero", "%s delivery of %q carries subscription identifier 0 (%v); subs=%v", kind, topic, got, subs)
		case must[id]+may[id] == 0:
			of := ""
			if o.former[id] {
				of = ":of-removed-subscription"
			}
			for _, s := range subs {
				if s.id == id {
					of = ":of-non-matching-subscription"
				}
			}
			h.violate("c04:"+kind+":foreign-identifier"+of, "%s delivery of %q carries identifier %d of no matching subscription (%v); subs=%v", kind, topic, id, got, subs)
		case n > must[id]+may[id]:
			// one occurrence per matching subscription is the most the text allows
			h.violate("c04:"+kind+":duplicate-identifier", "%s delivery of %q carries identifier %d %d times but only %d matching subscriptions have it", kind, topic, id, n, must[id]+may[id])
		}
	}
	// retain flag (live message only; retained deliveries are C05's). It is a property of
	// the delivered message, so it holds for every packet that transmits it.
	if own == "" {
		switch {
		case !pubRetain || ver < 5 || noneRap:
			if p.Retain {
				why := "not-published-retained"
				if pubRetain {
					why = "no-rap"
				}
				h.violate("c04:"+kind+":retain-set:"+why, "%s delivery of %q (published retain=%v) has retain=1; subs=%v", kind, topic, pubRetain, subs)
			}
		case allRap:
			h.count(cnt, kind+"_rap_kept", 1)
			if !p.Retain {
				h.violate("c04:"+kind+":retain-cleared-despite-rap", "%s delivery of %q published with retain=1 lost the flag although every matching subscription asked for Retain As Published; subs=%v", kind, topic, subs)
			}
		default:
			h.count(cnt, kind+"_rap_mixed_unspecified", 1)
		}
	}
}

func c04Run(arg string) explore.HistFn {
	ver := byte(5)
	if strings.Contains(arg, "v4") {
		ver = 4
	}
	mq := byte(2)
	switch {
	case strings.Contains(arg, "mq0"):
		mq = 0
	case strings.Contains(arg, "mq1"):
		mq = 1
	}
	maxSub, maxPub, maxUnsub := 2, 1, 1
	ids3 := ver == 5 && strings.Contains(arg, "ids3") // a third identifier value shared by both filters
	lite := strings.Contains(arg, "lite")             // reduced option product (see above)
	for _, a := range strings.Split(arg, ",") {
		if strings.HasPrefix(a, "pool") && len(a) == 7 { // pool<subs><pubs><unsubs>
			maxSub, maxPub, maxUnsub = int(a[4]-'0'), int(a[5]-'0'), int(a[6]-'0')
		}
	}
	return func(hist []string) explore.HistResult {
		h := newH(world.Config{Caps: func(c *mqtt.Capabilities) { c.MaximumQos = mq }})
		m := &c04Model{subs: map[string]c04Sub{}, retained: map[string]c04Ret{}}
		cnt := map[string]int{}
		h.connect("p", world.ConnectPacket("p", 5, true))
		h.connect("s", world.ConnectPacket("s", ver, true))
		pid := uint16(100)

		orc := &c04Oracle{h: h, cnt: cnt, ver: ver, mq: mq, former: map[int]bool{}}
		judge := func(p ref.Packet, topic string, pubQos byte, pubRetain bool, own string) {
			kind := "live"
			if own != "" {
				kind = "retained"
			}
			orc.judge(m.subs, p, topic, pubQos, pubRetain, own, kind)
		}

		runHist(h, hist, func(op string) {
			f := fields(op)
			switch f[0] {
			case "sub":
				filter := c04Filters[f[1]]
				q := f[2][0] - '0'
				id := int(f[3][0] - '0')
				rap := f[4] == "1"
				m.nsub++
				pid++
				pk := ref.Packet{Type: ref.SUBSCRIBE, PacketID: pid, Filters: []ref.Filter{{Filter: filter, Opts: ref.SubOpts(q, false, rap, 0)}}}
				if id > 0 {
					pk.Props = ref.Props{{ID: ref.PSubscriptionID, Num: uint32(id)}}
				}
				h.Cl["s"].Send(pk)
				h.logf("s: -> %s", pk)
				h.W.Run()
				got := h.settle(true)["s"]
				if old, ok := m.subs[filter]; ok && old.id != id {
					orc.former[old.id] = true
				}
				m.subs[filter] = c04Sub{q, id, rap}
				if len(got) == 0 || got[0].Type != ref.SUBACK || got[0].PacketID != pid || len(got[0].ReasonCodes) != 1 {
					h.violate("c04:suback:absent", "SUBSCRIBE %s: first packet is not its SUBACK: %v", filter, got)
					return
				}
				h.count(cnt, "subacks", 1)
				if want := minb(q, mq); got[0].ReasonCodes[0] != want {
					h.violate(fmt.Sprintf("c04:suback:granted:v%d", ver), "SUBSCRIBE %s requested QoS %d, server maximum %d: SUBACK %#x, want %#x", filter, q, mq, got[0].ReasonCodes[0], want)
				} else if want < q {
					h.count(cnt, "subacks_capped", 1)
				}
				for _, p := range pubsOf(got[1:]) {
					r, ok := m.retained[p.Topic]
					if !ok || r.tag != string(p.Payload) || !ref.Match(filter, p.Topic) {
						continue // stale or unmatched retained delivery: C05/C02
					}
					judge(p, p.Topic, r.qos, true, filter)
				}
			case "unsub":
				filter := c04Filters[f[1]]
				m.nunsub++
				pid++
				h.do("s", ref.Packet{Type: ref.UNSUBSCRIBE, PacketID: pid, Filters: []ref.Filter{{Filter: filter}}})
				orc.former[m.subs[filter].id] = true
				delete(m.subs, filter)
			case "pub":
				topic := f[1]
				q := f[2][0] - '0'
				retain := f[3] == "1"
				m.npub++
				if lite {
					m.pubs += " " + topic + f[3]
				}
				tag := "m" + itoa(m.npub)
				pk := pub(topic, tag, q, 0)
				if q > 0 {
					pid++
					pk.PacketID = pid
				}
				pk.Retain = retain
				h.Cl["p"].Send(pk)
				h.logf("p: -> %s", pk)
				h.W.Run()
				got := h.settle(true)
				if retain && !h.Cl["p"].Closed() {
					m.retained[topic] = c04Ret{tag, minb(q, mq)}
				}
				n := 0
				for _, p := range pubsOf(got["s"]) {
					if string(p.Payload) != tag {
						continue
					}
					n++
					if p.Topic == topic {
						judge(p, topic, q, retain, "")
					}
				}
				withID := 0
				for _, f := range m.matching(topic) {
					if m.subs[f].id > 0 {
						withID++
					}
				}
				if m.common && n > 0 && withID < 2 {
					// the identifiers must be those of the subscriptions matching THIS message
					h.count(cnt, "live_after_common_match", 1)
				}
				if n > 0 && withID >= 2 {
					m.common = true
				}
				if len(m.matching(topic)) > 0 && n != 1 && q <= mq {
					// a publish above the announced maximum QoS may be refused; otherwise one copy is due
					h.violate("c04:live:copies", "publish %q q%d: s holds %v and received %d copies", topic, q, m.matching(topic), n)
				}
			}
		})

		var next []string
		// a further subscribe can only be observed if a publish can follow or something is retained
		if m.nsub < maxSub && (m.npub < maxPub || len(m.retained) > 0) {
			for _, i := range []string{"1", "2"} {
				for q := 0; q <= 2; q++ {
					if lite && q != 1 {
						continue
					}
					if ver < 5 {
						next = append(next, fmt.Sprintf("sub:%s:%d:0:0", i, q))
						continue
					}
					ids := []string{"0", i}
					if ids3 {
						ids = append(ids, "3")
					}
					for _, id := range ids {
						for _, rap := range []string{"0", "1"} {
							if lite && rap == "1" {
								continue
							}
							next = append(next, fmt.Sprintf("sub:%s:%d:%s:%s", i, q, id, rap))
						}
					}
				}
			}
		}
		if m.npub < maxPub {
			if lite {
				next = append(next, "pub:x/y:1:0", "pub:x:1:0")
				if strings.Contains(arg, "ret") {
					next = append(next, "pub:x/y:0:1") // retained: deliveries on SUBSCRIBE in between
				}
			} else {
				for q := 0; q <= 2; q++ {
					for _, r := range []string{"0", "1"} {
						next = append(next, fmt.Sprintf("pub:x/y:%d:%s", q, r))
					}
				}
				// topic x matches only x/#: identifiers of x/+ must not appear
				next = append(next, "pub:x:1:0", "pub:x:2:1")
			}
		}
		// lite: removing a subscription before anything was published is the main product's business
		if m.nunsub < maxUnsub && (!lite || m.npub > 0) {
			for i, f := range c04Filters {
				if _, ok := m.subs[f]; ok {
					next = append(next, "unsub:"+i)
				}
			}
		}
		sort.Strings(next)
		// lite looks for deliveries that depend on what was delivered before, so histories that
		// differ in the topics published are not merged even if the broker state looks the same
		key := h.W.State() + fmt.Sprintf("|model:%v|%v|%d,%d,%d|%v%s", m.subs, m.retained, m.nsub, m.npub, m.nunsub, m.common, m.pubs)
		r := h.finish(key, next)
		r.Counters = cnt
		return r
	}
}

// ---- c04tx: every transmission of a delivered message ----

// c04Out is a QoS>0 delivery to s that s has not acknowledged completely.
type c04Out struct {
	tag    string
	pubQos byte
	retain bool
	tx     int    // PUBLISH packets seen that carry it
	pid    uint16 // packet id of the last one
	qos    byte   // and its QoS
	conn   int    // connection on which it was last transmitted
}

func c04TxRun(arg string) explore.HistFn {
	ver := byte(5)
	if strings.Contains(arg, "v4") {
		ver = 4
	}
	rm := 0
	if ver == 5 && strings.Contains(arg, "rm1") {
		rm = 1
	}
	full := strings.Contains(arg, "full")   // full option product also for the second filter
	resub := strings.Contains(arg, "resub") // one replacing SUBSCRIBE of x/+ (other options) and a resume before the publish
	maxPub, maxAck, maxRc := 1, 1, 1
	if rm > 0 {
		maxPub, maxAck = 2, 2
	}
	const mq, topic = byte(2), "x/y"
	connectPacket := func() ref.Packet {
		if ver < 5 {
			return world.ConnectPacket("s", ver, false)
		}
		props := []ref.Prop{{ID: ref.PSessionExpiry, Num: 1000000}}
		if rm > 0 {
			props = append(props, ref.Prop{ID: ref.PReceiveMaximum, Num: uint32(rm)})
		}
		return world.ConnectPacket("s", 5, false, props...)
	}
	return func(hist []string) explore.HistResult {
		h := newH(world.Config{Caps: func(c *mqtt.Capabilities) { c.MaximumQos = mq }})
		cnt := map[string]int{}
		orc := &c04Oracle{h: h, cnt: cnt, ver: ver, mq: mq}
		subs := map[string]c04Sub{}
		var out []*c04Out // publish order
		conn, npub, nack, nrc, nresub := 1, 0, 0, 0, 0
		h.connect("p", world.ConnectPacket("p", 5, true))
		h.connect("s", connectPacket())
		pid := uint16(100)

		// settle: p behaves (releases its QoS 2 publishes); s only listens. Every PUBLISH
		// that reaches s is judged. step = the op is the publish of that very message.
		atS := func(pks []ref.Packet, published string) {
			for _, p := range pubsOf(pks) {
				var o *c04Out
				for _, x := range out {
					if x.tag == string(p.Payload) {
						o = x
					}
				}
				if o == nil || p.Topic != topic {
					continue // a message already acknowledged completely (C08/C09), or an aliased topic
				}
				kind := "resend"
				switch {
				case o.tx == 0 && o.tag == published:
					kind = "live"
				case o.tx == 0:
					kind = "deferred"
				}
				o.tx++
				o.pid, o.qos, o.conn = p.PacketID, p.Qos, conn
				orc.judge(subs, p, topic, o.pubQos, o.retain, "", kind)
				if p.Qos == 0 {
					// nothing to acknowledge and nothing to retransmit: a QoS 0 copy is not tracked
					o.conn = -1
				}
			}
		}
		settle := func(published string) {
			for round := 0; round < 8; round++ {
				sent := false
				for _, r := range h.poll("p") {
					if r.Type == ref.PUBREC && r.ReasonCode < 0x80 {
						h.Cl["p"].Send(ref.Packet{Type: ref.PUBREL, PacketID: r.PacketID})
						sent = true
					}
				}
				atS(h.poll("s"), published)
				if !sent {
					break
				}
				h.W.Run()
			}
		}

		runHist(h, hist, func(op string) {
			f := fields(op)
			switch f[0] {
			case "sub":
				filter := c04Filters[f[1]]
				q := f[2][0] - '0'
				id := int(f[3][0] - '0')
				rap := f[4] == "1"
				pid++
				pk := ref.Packet{Type: ref.SUBSCRIBE, PacketID: pid, Filters: []ref.Filter{{Filter: filter, Opts: ref.SubOpts(q, false, rap, 0)}}}
				if id > 0 {
					pk.Props = ref.Props{{ID: ref.PSubscriptionID, Num: uint32(id)}}
				}
				got := h.do("s", pk)
				if _, had := subs[filter]; had {
					nresub++
					h.count(cnt, "replaced_subscriptions", 1)
				}
				subs[filter] = c04Sub{q, id, rap}
				if len(got) != 1 || got[0].Type != ref.SUBACK || len(got[0].ReasonCodes) != 1 || got[0].ReasonCodes[0] != q {
					h.violate(fmt.Sprintf("c04:suback:granted:v%d", ver), "SUBSCRIBE %s requested QoS %d, server maximum %d: got %v", filter, q, mq, got)
				}
			case "pub":
				q := f[2][0] - '0'
				npub++
				if nresub > 0 && nrc > 0 {
					h.count(cnt, "publish_after_replaced_subscription_and_resume", 1)
				}
				o := &c04Out{tag: "m" + itoa(npub), pubQos: q, retain: f[3] == "1"}
				out = append(out, o)
				pid++
				pk := pub(topic, o.tag, q, pid)
				pk.Retain = o.retain
				h.Cl["p"].Send(pk)
				h.logf("p: -> %s", pk)
				h.W.Run()
				settle(o.tag)
			case "ack":
				nack++
				for i, o := range out {
					if o.conn != conn {
						continue
					}
					if o.qos == 1 {
						h.Cl["s"].Send(ref.Packet{Type: ref.PUBACK, PacketID: o.pid})
						h.logf("s: -> PUBACK %d", o.pid)
					} else {
						h.Cl["s"].Send(ref.Packet{Type: ref.PUBREC, PacketID: o.pid})
						h.logf("s: -> PUBREC %d", o.pid)
					}
					h.W.Run()
					// from here on the message is not outstanding any more: a PUBLISH that still
					// carries it is a duplicate, which is C08/C09's business
					out = append(out[:i:i], out[i+1:]...)
					got := h.poll("s")
					atS(got, "") // a message released by the acknowledgement
					for _, r := range got {
						if r.Type == ref.PUBREL {
							h.Cl["s"].Send(ref.Packet{Type: ref.PUBCOMP, PacketID: r.PacketID})
							h.logf("s: -> PUBCOMP %d", r.PacketID)
							h.W.Run()
						}
					}
					settle("")
					break
				}
			case "rc":
				nrc++
				h.Cl["s"].Drop()
				h.logf("s: dropped")
				h.W.Run()
				conn++
				cp := connectPacket()
				cl := h.W.Connect(cp)
				h.Cl["s"] = cl
				h.All = append(h.All, cl)
				h.logf("s: -> %s", cp)
				for _, o := range out {
					if o.tx > 0 && o.qos > 0 {
						h.count(cnt, "resumed_with_unacknowledged", 1)
						break
					}
				}
				settle("")
			}
		})

		var next []string
		if npub == 0 {
			// x/+ before x/#, no replacement (the live product covers it)
			_, has1 := subs[c04Filters["1"]]
			_, has2 := subs[c04Filters["2"]]
			for _, i := range []string{"1", "2"} {
				if has2 || (i == "1" && has1) {
					continue
				}
				for q := 1; q <= 2; q++ {
					if ver < 5 {
						next = append(next, fmt.Sprintf("sub:%s:%d:0:0", i, q))
						continue
					}
					for _, id := range []string{"0", i} {
						for _, rap := range []string{"0", "1"} {
							if i == "2" && !full && (q != 2 || id != "2") {
								continue
							}
							next = append(next, fmt.Sprintf("sub:%s:%d:%s:%s", i, q, id, rap))
						}
					}
				}
			}
		}
		if cur, has1 := subs[c04Filters["1"]]; resub && npub == 0 && nrc == 0 && nresub == 0 && has1 && len(subs) == 1 {
			// replace x/+ by the same filter with other options
			for q := 1; q <= 2; q++ {
				ids, raps := []int{0, 3}, []bool{false, true}
				if ver < 5 {
					ids, raps = []int{0}, []bool{false}
				}
				for _, id := range ids {
					for _, rap := range raps {
						if (c04Sub{byte(q), id, rap}) != cur && (byte(q) != cur.qos || full) {
							next = append(next, fmt.Sprintf("sub:1:%d:%d:%s", q, id, map[bool]string{false: "0", true: "1"}[rap]))
						}
					}
				}
			}
		}
		if npub < maxPub && len(subs) > 0 {
			for q := 1; q <= 2; q++ {
				for _, r := range []string{"0", "1"} {
					next = append(next, fmt.Sprintf("pub:%s:%d:%s", topic, q, r))
				}
			}
		}
		var outs []string
		ackable := false
		for _, o := range out {
			outs = append(outs, fmt.Sprintf("%s/q%d/r%v/tx%d/%d/q%d/%v", o.tag, o.pubQos, o.retain, o.tx, o.pid, o.qos, o.conn == conn))
			if o.conn == conn {
				ackable = true
			}
		}
		if ackable && nack < maxAck {
			next = append(next, "ack")
		}
		if (len(out) > 0 || nresub > 0) && nrc < maxRc {
			next = append(next, "rc")
		}
		sort.Strings(next)
		key := h.W.State() + fmt.Sprintf("|model:%v|%v|%d,%d,%d,%d", subs, outs, npub, nack, nrc, nresub)
		r := h.finish(key, next)
		r.Counters = cnt
		return r
	}
}

func init() {
	explore.RegisterBFS("c04", c04Run)
	explore.RegisterBFS("c04tx", c04TxRun)
	explore.Register("C04", func(c *explore.Ctx) {
		c.Rep.Level = "model_checking"
		c.Rep.Assumption("one operation at a time, broker run to quiescence under the deterministic default schedule (sequential histories); deliveries acknowledged at once (c04) or only by explicit ack operations (c04tx)")
		c.Rep.Assumption("c04tx: subscriptions do not change while a delivery is unacknowledged, so a retransmission is judged against the same subscriptions as the first transmission; whether, when and with which DUP flag a message is retransmitted is not judged here (C09, C11, C12)")
		c.Rep.Assumption("three-valued oracle: identifiers of other matching subscriptions on a retained delivery, the QoS ceiling of a retained delivery (own subscription vs highest matching) and the live retain flag when matching subscriptions disagree on Retain As Published are unspecified")
		c.Rep.Assumption("a publish whose QoS exceeds the server maximum may be refused; if it is delivered its QoS must follow the formula")
		// the small sequence scenarios first, so that a slow machine caps the big product last
		type scen struct{ name, arg string }
		scens := []scen{{"c04tx", "v5,rm0,full"}, {"c04tx", "v5,rm1"}, {"c04tx", "v4,rm0"}, {"c04tx", "v5,rm0,resub"}, {"c04tx", "v4,rm0,resub"}, {"c04", "v5,mq2,pool221,lite,ids3,ret"}}
		args := []string{"v5,mq2,ids3", "v5,mq1,ids3", "v5,mq0,ids3", "v4,mq2", "v4,mq1", "v4,mq0"}
		per := 20 * time.Second
		if !c.Quick() {
			scens = []scen{{"c04tx", "v5,rm0,full"}, {"c04tx", "v5,rm1,full"}, {"c04tx", "v4,rm0"}, {"c04tx", "v5,rm0,resub,full"}, {"c04tx", "v4,rm0,resub"}, {"c04", "v5,mq2,pool232,lite,ids3,ret"}, {"c04", "v5,mq2,pool331,lite,ids3,ret"}, {"c04", "v5,mq1,pool221,lite,ids3,ret"}}
			args = []string{"v5,mq2,pool311,ids3", "v5,mq1,pool311,ids3", "v5,mq0,pool311,ids3", "v4,mq2,pool321", "v4,mq1,pool321", "v4,mq0,pool321"}
			per = 170 * time.Second
		}
		for _, a := range args {
			scens = append(scens, scen{"c04", a})
		}
		tot := map[string]int64{}
		for _, sc := range scens {
			a := sc.arg
			if c.Expired() {
				c.Rep.Capped("scenario " + sc.name + "/" + a + " not started (deadline)")
				continue
			}
			budget := per
			if strings.Contains(a, "v4") {
				budget = per / 3
			}
			st := explore.RunBFS(c, sc.name, a, 0, budget)
			for k, v := range st.Counters {
				tot[k] += v
			}
		}
		for k, v := range tot {
			c.Rep.Count("c04_"+k, v)
		}
		if os := tot["live_deliveries"]; os == 0 || tot["retained_deliveries"] == 0 || tot["live_with_two_identifiers"] == 0 || tot["subacks_capped"] == 0 ||
			tot["resend_deliveries"] == 0 || tot["deferred_deliveries"] == 0 || tot["resend_rap_kept"] == 0 || tot["resend_with_two_identifiers"] == 0 || tot["live_after_common_match"] == 0 {
			if fullRun() && c.Rep.Get("transitions") > 0 {
				c.Rep.Add(explore.Violation{Key: "internal:vacuous", Msg: fmt.Sprintf("C04 judged no live/retained/two-identifier/resent/deferred delivery, no single-match delivery after a common match or no capped SUBACK: %v", tot)})
			}
		}
	})
}
