package props

import (
	"fmt"
	"sort"
	"strings"
	"time"

	mqtt "github.com/mochi-mqtt/server/v2"

	"verif/explore"
	"verif/ref"
	"verif/world"
)

// C04: delivered QoS = min(published QoS, highest QoS among the matching subscriptions,
// server maximum QoS); SUBACK grants min(requested, server maximum); a delivery carries
// exactly the subscription identifiers of the matching subscriptions that have one (live
// and retained); the retain flag is cleared on live delivery unless Retain As Published.
//
// E2 scenario "c04", arg "v<4|5>,mq<0|1|2>[,pool<subs><pubs><unsubs>][,ids3]": publisher p (v5), subscriber s
// (v4|v5), fresh broker with Capabilities.MaximumQos = mq. The history BFS chains
//   sub:<i>:<qos>:<id>:<rap>   filter i: 1 = x/+, 2 = x/#; id 0 = none; (re-subscribing replaces)
//   unsub:<i>
//   pub:<topic>:<qos>:<retain> topic x/y matches both filters, x only x/#
// in every order within the pools (subscribes, publishes, unsubscribes), i.e. the full
// product publish QoS x subscription options of one or two overlapping subscriptions x
// {live, retained-on-subscribe} and in addition replacement, removal and retained-then-live
// combinations. Every delivery is acknowledged by the harness client at once.
//
// Reference model (from MQTT 5 §3.3.1.2/3.3.1.3/3.3.4/3.8.3/3.8.4/3.9.3, not from mochi):
// subs: filter -> (qos, id, rap); retained: topic -> (tag, qos as accepted = min(pub, mq)).
// Three-valued points (DESIGN §3.2): on a retained delivery triggered by SUBSCRIBE f the id
// of f is required (if it has one), ids of other matching subscriptions are optional, all
// others forbidden; its QoS may use f's QoS alone or the highest matching QoS; the live
// retain flag is decided only when all matching subscriptions agree on Retain As Published.

type c04Sub struct {
	qos byte
	id  int
	rap bool
}

type c04Ret struct {
	tag string
	qos byte
}

type c04Model struct {
	subs               map[string]c04Sub
	retained           map[string]c04Ret
	nsub, npub, nunsub int
}

var c04Filters = map[string]string{"1": "x/+", "2": "x/#"}

func (m *c04Model) matching(topic string) []string {
	var out []string
	for _, f := range explore.SortedKeys(m.subs) {
		if ref.Match(f, topic) {
			out = append(out, f)
		}
	}
	return out
}

func c04Run(arg string) explore.HistFn {
	ver := byte(5)
	if strings.Contains(arg, "v4") {
		ver = 4
	}
	mq := byte(2)
	switch {
	case strings.Contains(arg, "mq0"):
		mq = 0
	case strings.Contains(arg, "mq1"):
		mq = 1
	}
	maxSub, maxPub, maxUnsub := 2, 1, 1
	ids3 := ver == 5 && strings.Contains(arg, "ids3") // a third identifier value shared by both filters
	for _, a := range strings.Split(arg, ",") {
		if strings.HasPrefix(a, "pool") && len(a) == 7 { // pool<subs><pubs><unsubs>
			maxSub, maxPub, maxUnsub = int(a[4]-'0'), int(a[5]-'0'), int(a[6]-'0')
		}
	}
	return func(hist []string) explore.HistResult {
		h := newH(world.Config{Caps: func(c *mqtt.Capabilities) { c.MaximumQos = mq }})
		m := &c04Model{subs: map[string]c04Sub{}, retained: map[string]c04Ret{}}
		cnt := map[string]int{}
		h.connect("p", world.ConnectPacket("p", 5, true))
		h.connect("s", world.ConnectPacket("s", ver, true))
		pid := uint16(100)

		// judge one delivered PUBLISH against the model. own = filter whose SUBSCRIBE
		// triggered a retained delivery ("" for live).
		judge := func(p ref.Packet, topic string, pubQos byte, pubRetain bool, own string) {
			kind := "live"
			if own != "" {
				kind = "retained"
			}
			M := m.matching(topic)
			if len(M) == 0 {
				return // not entitled at all: C03/C05 territory
			}
			var hi byte
			allRap, noneRap := true, true
			must, may := map[int]int{}, map[int]int{}
			for _, f := range M {
				s := m.subs[f]
				if s.qos > hi {
					hi = s.qos
				}
				if s.rap {
					noneRap = false
				} else {
					allRap = false
				}
				if s.id > 0 {
					if own == "" || f == own {
						must[s.id]++
					} else {
						may[s.id]++
					}
				}
			}
			// QoS
			wantHi := minb(pubQos, hi, mq)
			wantLo := wantHi
			if own != "" {
				wantLo = minb(pubQos, m.subs[own].qos, mq)
			}
			h.count(cnt, kind+"_deliveries", 1)
			if p.Qos < wantLo || p.Qos > wantHi {
				dir := "low"
				if p.Qos > wantHi {
					dir = "high"
				}
				h.violate(fmt.Sprintf("c04:qos:%s:%s:v%d", kind, dir, ver), "%s delivery of %q (published q%d) to s: QoS %d, want %d..%d = min(published, highest matching subscription %d, server maximum %d); subs=%v", kind, topic, pubQos, p.Qos, wantLo, wantHi, hi, mq, m.subs)
			}
			if wantHi < pubQos {
				h.count(cnt, kind+"_downgraded", 1)
			}
			// identifiers
			got := subIDs(p)
			seen := map[int]int{}
			for _, id := range got {
				seen[id]++
			}
			if len(must) > 0 {
				h.count(cnt, kind+"_with_identifier", 1)
			}
			if len(must) > 1 {
				h.count(cnt, kind+"_with_two_identifiers", 1)
			}
			for id := range must {
				if seen[id] == 0 {
					which := "identifier"
					if own != "" {
						which = "own-identifier"
					}
					h.violate(fmt.Sprintf("c04:%s:missing-%s", kind, which), "%s delivery of %q to s carries identifiers %v, but the matching subscription with identifier %d requires it; subs=%v own=%q", kind, topic, got, id, m.subs, own)
				}
			}
			for id, n := range seen {
				switch {
				case id == 0:
					h.violate("c04:"+kind+":identifier-zero", "%s delivery of %q carries subscription identifier 0 (%v); subs=%v", kind, topic, got, m.subs)
				case must[id]+may[id] == 0:
					h.violate("c04:"+kind+":foreign-identifier", "%s delivery of %q carries identifier %d of no matching subscription (%v); subs=%v", kind, topic, id, got, m.subs)
				case n > must[id]+may[id]:
					// one occurrence per matching subscription is the most the text allows
					h.violate("c04:"+kind+":duplicate-identifier", "%s delivery of %q carries identifier %d %d times but only %d matching subscriptions have it", kind, topic, id, n, must[id]+may[id])
				}
			}
			// retain flag (live only; retained deliveries are C05's)
			if own == "" {
				switch {
				case !pubRetain || ver < 5 || noneRap:
					if p.Retain {
						why := "not-published-retained"
						if pubRetain {
							why = "no-rap"
						}
						h.violate("c04:live:retain-set:"+why, "live delivery of %q (published retain=%v) has retain=1; subs=%v", topic, pubRetain, m.subs)
					}
				case allRap:
					h.count(cnt, "live_rap_kept", 1)
					if !p.Retain {
						h.violate("c04:live:retain-cleared-despite-rap", "live delivery of %q published with retain=1 lost the flag although every matching subscription asked for Retain As Published; subs=%v", topic, m.subs)
					}
				default:
					h.count(cnt, "live_rap_mixed_unspecified", 1)
				}
			}
		}

		runHist(h, hist, func(op string) {
			f := fields(op)
			switch f[0] {
			case "sub":
				filter := c04Filters[f[1]]
				q := f[2][0] - '0'
				id := int(f[3][0] - '0')
				rap := f[4] == "1"
				m.nsub++
				pid++
				pk := ref.Packet{Type: ref.SUBSCRIBE, PacketID: pid, Filters: []ref.Filter{{Filter: filter, Opts: ref.SubOpts(q, false, rap, 0)}}}
				if id > 0 {
					pk.Props = ref.Props{{ID: ref.PSubscriptionID, Num: uint32(id)}}
				}
				h.Cl["s"].Send(pk)
				h.logf("s: -> %s", pk)
				h.W.Run()
				got := h.settle(true)["s"]
				m.subs[filter] = c04Sub{q, id, rap}
				if len(got) == 0 || got[0].Type != ref.SUBACK || got[0].PacketID != pid || len(got[0].ReasonCodes) != 1 {
					h.violate("c04:suback:absent", "SUBSCRIBE %s: first packet is not its SUBACK: %v", filter, got)
					return
				}
				h.count(cnt, "subacks", 1)
				if want := minb(q, mq); got[0].ReasonCodes[0] != want {
					h.violate(fmt.Sprintf("c04:suback:granted:v%d", ver), "SUBSCRIBE %s requested QoS %d, server maximum %d: SUBACK %#x, want %#x", filter, q, mq, got[0].ReasonCodes[0], want)
				} else if want < q {
					h.count(cnt, "subacks_capped", 1)
				}
				for _, p := range pubsOf(got[1:]) {
					r, ok := m.retained[p.Topic]
					if !ok || r.tag != string(p.Payload) || !ref.Match(filter, p.Topic) {
						continue // stale or unmatched retained delivery: C05/C02
					}
					judge(p, p.Topic, r.qos, true, filter)
				}
			case "unsub":
				filter := c04Filters[f[1]]
				m.nunsub++
				pid++
				h.do("s", ref.Packet{Type: ref.UNSUBSCRIBE, PacketID: pid, Filters: []ref.Filter{{Filter: filter}}})
				delete(m.subs, filter)
			case "pub":
				topic := f[1]
				q := f[2][0] - '0'
				retain := f[3] == "1"
				m.npub++
				tag := "m" + itoa(m.npub)
				pk := pub(topic, tag, q, 0)
				if q > 0 {
					pid++
					pk.PacketID = pid
				}
				pk.Retain = retain
				h.Cl["p"].Send(pk)
				h.logf("p: -> %s", pk)
				h.W.Run()
				got := h.settle(true)
				if retain && !h.Cl["p"].Closed() {
					m.retained[topic] = c04Ret{tag, minb(q, mq)}
				}
				n := 0
				for _, p := range pubsOf(got["s"]) {
					if string(p.Payload) != tag {
						continue
					}
					n++
					if p.Topic == topic {
						judge(p, topic, q, retain, "")
					}
				}
				if len(m.matching(topic)) > 0 && n != 1 && q <= mq {
					// a publish above the announced maximum QoS may be refused; otherwise one copy is due
					h.violate("c04:live:copies", "publish %q q%d: s holds %v and received %d copies", topic, q, m.matching(topic), n)
				}
			}
		})

		var next []string
		// a further subscribe can only be observed if a publish can follow or something is retained
		if m.nsub < maxSub && (m.npub < maxPub || len(m.retained) > 0) {
			for _, i := range []string{"1", "2"} {
				for q := 0; q <= 2; q++ {
					if ver < 5 {
						next = append(next, fmt.Sprintf("sub:%s:%d:0:0", i, q))
						continue
					}
					ids := []string{"0", i}
					if ids3 {
						ids = append(ids, "3")
					}
					for _, id := range ids {
						for _, rap := range []string{"0", "1"} {
							next = append(next, fmt.Sprintf("sub:%s:%d:%s:%s", i, q, id, rap))
						}
					}
				}
			}
		}
		if m.npub < maxPub {
			for q := 0; q <= 2; q++ {
				for _, r := range []string{"0", "1"} {
					next = append(next, fmt.Sprintf("pub:x/y:%d:%s", q, r))
				}
			}
			// topic x matches only x/#: identifiers of x/+ must not appear
			next = append(next, "pub:x:1:0", "pub:x:2:1")
		}
		if m.nunsub < maxUnsub {
			for i, f := range c04Filters {
				if _, ok := m.subs[f]; ok {
					next = append(next, "unsub:"+i)
				}
			}
		}
		sort.Strings(next)
		key := h.W.State() + fmt.Sprintf("|model:%v|%v|%d,%d,%d", m.subs, m.retained, m.nsub, m.npub, m.nunsub)
		r := h.finish(key, next)
		r.Counters = cnt
		return r
	}
}

func init() {
	explore.RegisterBFS("c04", c04Run)
	explore.Register("C04", func(c *explore.Ctx) {
		c.Rep.Level = "model_checking"
		c.Rep.Assumption("one operation at a time, broker run to quiescence under the deterministic default schedule (sequential histories); deliveries acknowledged at once")
		c.Rep.Assumption("three-valued oracle: identifiers of other matching subscriptions on a retained delivery, the QoS ceiling of a retained delivery (own subscription vs highest matching) and the live retain flag when matching subscriptions disagree on Retain As Published are unspecified")
		c.Rep.Assumption("a publish whose QoS exceeds the server maximum may be refused; if it is delivered its QoS must follow the formula")
		args := []string{"v5,mq2,ids3", "v5,mq1,ids3", "v5,mq0,ids3", "v4,mq2", "v4,mq1", "v4,mq0"}
		per := 20 * time.Second
		if !c.Quick() {
			args = []string{"v5,mq2,pool311,ids3", "v5,mq1,pool311,ids3", "v5,mq0,pool311,ids3", "v4,mq2,pool321", "v4,mq1,pool321", "v4,mq0,pool321"}
			per = 170 * time.Second
		}
		tot := map[string]int64{}
		for _, a := range args {
			if c.Expired() {
				c.Rep.Capped("scenario c04/" + a + " not started (deadline)")
				continue
			}
			budget := per
			if strings.Contains(a, "v4") {
				budget = per / 3
			}
			st := explore.RunBFS(c, "c04", a, 0, budget)
			for k, v := range st.Counters {
				tot[k] += v
			}
		}
		for k, v := range tot {
			c.Rep.Count("c04_"+k, v)
		}
		if os := tot["live_deliveries"]; os == 0 || tot["retained_deliveries"] == 0 || tot["live_with_two_identifiers"] == 0 || tot["subacks_capped"] == 0 {
			if fullRun() && c.Rep.Get("transitions") > 0 {
				c.Rep.Add(explore.Violation{Key: "internal:vacuous", Msg: fmt.Sprintf("C04 judged no live/retained/two-identifier delivery or no capped SUBACK: %v", tot)})
			}
		}
	})
}
