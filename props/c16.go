package props

import (
	"fmt"
	"strconv"
	"strings"
	"time"

	mqtt "github.com/mochi-mqtt/server/v2"
	"github.com/mochi-mqtt/server/v2/packets"

	"verif/explore"
	"verif/ref"
	"verif/world"
)

// C16: will messages are published exactly when the protocol requires.
//
// E2 scenario "c16" (arg "q=<0|1>,r=<0|1>[,deep]"; virtual time in seconds). Client a
// connects with a will (topic w, payload W, QoS q, retain r); observer o (v5) is
// subscribed to w at QoS 1 with Retain As Published; l (v5) subscribes to w late and
// sees the retained copy.
// Ops:
//   conn:<ver>:<delay>:<exp>:<ka>   first connection of a: v5 with Will Delay 0|2, Session
//                                   Expiry '-' (absent)|0|1|5, keepalive 0|1; or v4 (no delay)
//   disc:00 | disc:00s              DISCONNECT reason 0x00, full (E0 02 00 00) / short (E0 00)
//   disc:04 | disc:04s              DISCONNECT reason 0x04, full (E0 02 04 00) / short (E0 01 04)
//   drop                            network drop
//   perr                            protocol error: a second CONNECT on the connection
//   re:<clean>                      a new connection for a (v5, no will, Session Expiry 5):
//                                   a takeover while the first is live, a reconnect otherwise
//   tick:1000 | hk                  (a keepalive timeout happens by ticking with ka=1)
//   late                            l subscribes to w
// Reference model (Appendix A.6; MQTT 5 §3.1.2.5, §3.1.3.2.2, §3.1.4-3, §3.14.4):
//   connection ends by DISCONNECT 0x00 -> will discarded, must never be published;
//   any other end at time T -> due = T + min(delay, time to session end); the session ends
//   at T when its expiry is 0/absent or when the ending is a takeover with Clean Start 1;
//   a Clean Start 0 connection established before due cancels the will; a Clean Start 1
//   connection before due ends the session: due = that instant;
//   the will must not be published before due, after cancellation, or twice; it must have
//   been published once a housekeeping ran strictly later than due (immediately is also
//   fine when due = now); topic, payload, QoS, retain flag as requested; a retained will is
//   in the retained store afterwards.
//   Unspecified (either, at most once): takeover with Clean Start 0 of a live connection
//   whose session expiry is 0 and will delay > 0 (DESIGN §3.2); a Clean Start 0 reconnect
//   at or after due while the will is still unpublished.

type c16Model struct {
	connected        bool
	ver              byte
	delay, exp       int64 // exp -1 = absent
	ka               int
	state            string // none armed pending cancelled discarded published unspec overdue
	endKind          string
	endMs, dueMs     int64
	cut              string // why due < end+delay ("" if not cut)
	pubCount         int
	pubRetainOK      bool
	re, late         int
	reClean1         string // "" | before-due | at-or-after-due: a Clean Start 1 reconnect met the pending will
	ticks, hks, sinc int
	sessGoneAtPub    bool
}

func c16Run(arg string) explore.HistFn {
	wq, wr := byte(1), true
	deep := false
	for _, kv := range strings.Split(arg, ",") {
		switch kv {
		case "q=0":
			wq = 0
		case "r=0":
			wr = false
		case "deep":
			deep = true
		}
	}
	maxTicks, maxHk := 3, 2
	if deep {
		maxTicks, maxHk = 5, 3
	}
	return func(hist []string) explore.HistResult {
		h := newH(world.Config{})
		m := &c16Model{state: "none"}
		counters := map[string]int{}
		nowMs := func() int64 { return h.W.X.NowMillis() }
		h.connect("o", world.ConnectPacket("o", 5, true))
		h.do("o", ref.Packet{Type: ref.SUBSCRIBE, PacketID: 1, Filters: []ref.Filter{{Filter: "w", Opts: ref.SubOpts(1, false, true, 0)}}})
		h.connect("l", world.ConnectPacket("l", 5, true))
		var first *world.Client

		// observe will publications at o
		observe := func(op string) {
			for _, p := range pubsOf(h.poll("o")) {
				if p.Qos > 0 {
					h.Cl["o"].Send(ref.Packet{Type: ref.PUBACK, PacketID: p.PacketID})
					h.W.Run()
				}
				if string(p.Payload) != "W" || p.Topic != "w" {
					h.violate("c16:will-content:topic-or-payload", "observer received %s, the will is topic w payload W", p)
					continue
				}
				m.pubCount++
				switch m.state {
				case "armed":
					h.violate("c16:will-while-connected", "will published at %dms while a's connection is still up (op %s)", nowMs(), op)
				case "discarded":
					h.violate("c16:will-after-normal-disconnect:"+m.endKind, "will published at %dms after a normal DISCONNECT (%s at %dms)", nowMs(), m.endKind, m.endMs)
				case "cancelled":
					h.violate("c16:will-after-resume:"+m.endKind, "will published at %dms although a Clean Start 0 connection resumed the session before the delay passed (connection ended by %s at %dms, due %dms)", nowMs(), m.endKind, m.endMs, m.dueMs)
				case "published":
					h.violate("c16:will-twice:"+m.endKind, "will published a second time at %dms", nowMs())
				case "pending", "overdue":
					if nowMs() < m.dueMs {
						h.violate("c16:will-early:"+m.endKind, "will published at %dms, before it is due at %dms (connection ended by %s at %dms, delay %ds, session expiry %d)", nowMs(), m.dueMs, m.endKind, m.endMs, m.delay, m.exp)
					} else if h.last {
						if m.delay > 0 && m.dueMs > m.endMs {
							counters["delayed_will_published_on_time"]++
						} else {
							counters["will_published_when_due"]++
						}
					}
				case "none":
					h.violate("c16:will-without-connection", "will published although a never connected with it")
				}
				if m.state != "none" {
					m.state = "published"
				}
				wantQ := wq
				if wantQ > 1 {
					wantQ = 1
				}
				if p.Qos != wantQ {
					h.violate("c16:will-content:qos", "will delivered with QoS %d, requested %d (subscription QoS 1)", p.Qos, wq)
				}
				if p.Retain != wr {
					shape := "live"
					if m.delay > 0 && m.dueMs > m.endMs {
						shape = "delayed"
					}
					h.violate("c16:will-content:retain-flag:"+shape, "will delivered to a Retain-As-Published subscriber with retain=%v, requested %v", p.Retain, wr)
				}
			}
		}

		// end of a's first connection at the current instant
		endConn := func(kind string, normal bool, sessionEndsNow bool) {
			m.connected = false
			m.endKind, m.endMs = kind, nowMs()
			if m.state != "armed" {
				return
			}
			if normal {
				m.state = "discarded"
				return
			}
			m.state = "pending"
			m.cut = ""
			toEnd := int64(1 << 40)
			switch {
			case sessionEndsNow:
				toEnd = 0
				m.cut = "takeover-clean-start"
			case m.ver < 5:
				// v3/v4 wills have no delay at all
			case m.exp <= 0:
				toEnd = 0
				m.cut = "session-expiry-0"
				if m.exp < 0 {
					m.cut = "session-expiry-absent"
				}
			default:
				toEnd = m.exp
				m.cut = "session-expiry-shorter"
			}
			d := m.delay
			if toEnd < d {
				d = toEnd
			} else {
				m.cut = ""
			}
			m.dueMs = m.endMs + d*1000
		}

		runHist(h, hist, func(op string) {
			f := fields(op)
			switch f[0] {
			case "conn":
				v, _ := strconv.Atoi(f[1])
				m.ver = byte(v)
				m.delay, _ = strconv.ParseInt(f[2], 10, 64)
				m.exp = -1
				if f[3] != "-" {
					m.exp, _ = strconv.ParseInt(f[3], 10, 64)
				}
				m.ka, _ = strconv.Atoi(f[4])
				cp := world.ConnectPacket("a", m.ver, true)
				cp.KeepAlive = uint16(m.ka)
				cp.WillFlag, cp.WillTopic, cp.WillPayload, cp.WillQos, cp.WillRetain = true, "w", []byte("W"), wq, wr
				if m.ver == 5 {
					if m.exp >= 0 {
						cp.Props = append(cp.Props, ref.Prop{ID: ref.PSessionExpiry, Num: uint32(m.exp)})
					}
					if m.delay > 0 {
						cp.WillProps = append(cp.WillProps, ref.Prop{ID: ref.PWillDelay, Num: uint32(m.delay)})
					}
				}
				got := h.connect("a", cp)
				if len(got) == 0 || got[0].Type != ref.CONNACK || got[0].ReasonCode != 0 {
					h.violate("c16:connect-refused", "CONNECT with will refused: %v", got)
				}
				first = h.Cl["a"]
				m.connected, m.state = true, "armed"
			case "disc":
				p := ref.Packet{Type: ref.DISCONNECT}
				o := ref.EncOpts{}
				normal := true
				switch f[1] {
				case "00s":
					o.OmitReason = true
				case "04":
					p.ReasonCode, normal = 4, false
				case "04s":
					p.ReasonCode, normal = 4, false
					o.OmitPropLen = true
				}
				raw := ref.Encode(p, m.ver, o)
				first.SendRaw(raw)
				h.W.Run()
				h.logf("a: -> DISCONNECT % x  closed=%v", raw, first.Closed())
				if h.last && !normal {
					counters["disconnect_with_will_0x04"]++
				}
				if !first.Closed() {
					// the client closes after DISCONNECT (MQTT 5 §3.14.4)
					first.Drop()
				}
				endConn("disconnect-"+f[1], normal, false)
			case "drop":
				first.Drop()
				h.logf("a: peer closed")
				endConn("drop", false, false)
			case "perr":
				cp := world.ConnectPacket("a", m.ver, true)
				h.do("a", cp)
				if !first.Closed() {
					h.violate("c16:second-connect-not-fatal", "connection still open after a second CONNECT")
					first.Drop()
				}
				endConn("protocol-error", false, false)
			case "re":
				m.re++
				clean := f[1] == "1"
				takeover := m.connected
				got := h.connect("a", v5connect("a", clean, 0, 5))
				if len(got) == 0 || got[0].Type != ref.CONNACK || got[0].ReasonCode != 0 {
					h.violate("c16:reconnect-refused", "reconnect refused: %v", got)
				}
				if takeover {
					if h.last {
						counters["takeovers"]++
					}
					if !first.Closed() {
						h.violate("c16:old-connection-open-after-takeover", "first connection still open after takeover")
					}
					kind := "takeover-clean0"
					if clean {
						kind = "takeover-clean1"
					}
					wasArmed := m.state == "armed"
					endConn(kind, false, clean)
					if wasArmed && !clean && m.ver == 5 && m.delay > 0 {
						if m.exp <= 0 {
							m.state = "unspec" // DESIGN §3.2: live takeover of an expiry-0 session with Clean Start 0
						} else {
							m.state = "cancelled" // the new connection exists before the delay passed
							if h.last {
								counters["will_cancelled_by_resuming_takeover"]++
							}
						}
					}
				} else if m.state == "pending" || m.state == "overdue" {
					switch {
					case !clean && nowMs() < m.dueMs:
						m.state = "cancelled"
						if h.last {
							counters["will_cancelled_by_reconnect"]++
						}
					case !clean:
						m.state = "unspec"
					case nowMs() < m.dueMs:
						m.dueMs = nowMs() // Clean Start 1 ends the session: the will is due now
						m.reClean1 = "before-due"
					default:
						m.reClean1 = "at-or-after-due" // the delay has passed, nothing cancels the will any more
					}
				}
			case "tick":
				ms, _ := strconv.Atoi(f[1])
				m.ticks++
				m.sinc++
				h.W.Tick(int64(ms))
				if m.connected && first.Closed() {
					if !first.C.TimedOut {
						h.violate("c16:closed-by-tick-without-timeout", "a's connection closed during a tick without a deadline firing")
					}
					if h.last {
						counters["keepalive_timeouts"]++
					}
					endConn("keepalive-timeout", false, false)
				}
			case "hk":
				m.hks++
				m.sinc = 0
				h.W.Housekeep()
			case "late":
				m.late++
				got := h.do("l", sub(7, "w", 1))
				n := 0
				for _, p := range pubsOf(got) {
					if string(p.Payload) == "W" {
						n++
						if !p.Retain {
							h.violate("c16:retained-will-without-retain-flag", "retained copy of the will delivered with retain=0")
						}
					}
				}
				switch {
				case m.state == "published" && wr && n == 0:
					shape := "session-present"
					if m.sessGoneAtPub {
						shape = "session-gone"
					}
					h.violate("c16:will-not-retained:"+shape, "will with retain=1 was published but a later subscriber gets no retained copy (connection ended by %s at %dms, due %dms, delay %d, session expiry %d)", m.endKind, m.endMs, m.dueMs, m.delay, m.exp)
				case n > 0 && (m.state != "published" || !wr):
					h.violate("c16:retained-will-unexpected", "late subscriber received a retained will (state %s, requested retain=%v)", m.state, wr)
				case n > 0 && h.last:
					counters["retained_will_seen_by_late_subscriber"]++
				}
			}
			before := m.state
			observe(op)
			if before != "published" && m.state == "published" {
				// was a's session (of the first connection) already over when the will went out?
				m.sessGoneAtPub = m.re == 0 && m.ver == 5 && (m.exp <= 0 || nowMs() > m.endMs+m.exp*1000)
			}
			// obligation: published once a housekeeping ran strictly later than due
			if f[0] == "hk" && m.state == "pending" && nowMs() > m.dueMs {
				why := m.endKind
				switch {
				case m.reClean1 != "":
					why = "reconnect-clean-start:" + m.reClean1
				case m.cut != "":
					why = "delay-not-cut:" + m.cut
				}
				h.violate("c16:will-missing:"+why, "housekeeping ran at %dms, strictly later than the will's due time %dms, and no will was published (connection ended by %s at %dms, delay %ds, session expiry %d)", nowMs(), m.dueMs, m.endKind, m.endMs, m.delay, m.exp)
				m.state = "overdue"
			}
		})

		var next []string
		switch {
		case m.state == "none":
			for _, d := range []string{"0", "2"} {
				for _, e := range []string{"-", "0", "1", "5"} {
					if d == "0" && (e == "0" || e == "1") && !deep {
						continue // without a delay the session expiry plays no role
					}
					next = append(next, "conn:5:"+d+":"+e+":0")
				}
			}
			next = append(next, "conn:5:0:-:1", "conn:5:2:5:1", "conn:5:2:-:1", "conn:4:0:-:0")
		case m.connected:
			next = append(next, "drop", "perr", "disc:00")
			if m.ver == 5 {
				next = append(next, "disc:00s", "disc:04", "disc:04s")
			}
		}
		if m.state != "none" && m.late == 0 { // the late subscription is the last op of a history
			if m.re < 1 {
				next = append(next, "re:0", "re:1")
			}
			mt := maxTicks
			if m.ka > 0 {
				mt++
			}
			if m.ticks < mt {
				next = append(next, "tick:1000")
			}
			if m.hks < maxHk && m.sinc > 0 {
				next = append(next, "hk")
			}
			if m.late < 1 && !m.connected {
				next = append(next, "late")
			}
		}
		key := h.W.State() + fmt.Sprintf("|now=%d|%+v", nowMs(), *m)
		r := h.finish(key, next)
		r.Counters = counters
		return r
	}
}

func init() {
	explore.RegisterBFS("c16", c16Run)
	explore.RegisterDFS("c16race", c16Race)
	explore.Register("C16", func(c *explore.Ctx) {
		c.Rep.Level = "model_checking"
		c.Rep.Assumption("E2: virtual time in whole seconds; housekeeping runs only when the hk op is applied; one operation at a time, broker run to quiescence")
		c.Rep.Assumption("E3: threads are serialised by the cooperative scheduler (sequentially consistent interleavings), deviation bound as reported per scenario")
		c.Rep.Assumption("publication deadline: a will that is due must have been published once a housekeeping ran strictly later than the due instant; publishing immediately when due = now is equally accepted")
		args := []string{"q=1,r=1", "q=0,r=0"}
		per := 22 * time.Second
		racePer := 6 * time.Second
		bounds := []explore.Bounds{{Preempt: 0}, {Preempt: 1}, {Preempt: 2}}
		if !c.Quick() {
			args = []string{"q=1,r=1,deep", "q=0,r=0,deep", "q=0,r=1", "q=1,r=0"}
			per = 100 * time.Second
			racePer = 40 * time.Second
			bounds = append(bounds, explore.Bounds{Preempt: 3})
		}
		for _, a := range args {
			if c.Expired() {
				c.Rep.Capped(a + " not started (deadline)")
				continue
			}
			st := explore.RunBFS(c, "c16", a, 0, perBudget(per))
			for ck, n := range st.Counters {
				c.Rep.Count(ck, n)
			}
		}
		// non-vacuity of the evidence that separates the two missed-cancellation windows: some
		// explored schedule of a resuming takeover must have the old connection's delayed will
		// registered at the instant the new connection's CONNACK is written
		var atConnack int64
		judged := false
		for _, s := range c16RaceScenarios {
			if c.Expired() {
				c.Rep.Capped("race " + s + " not started (deadline)")
				continue
			}
			done, last := explore.IterateDFS(c, "c16race", s, bounds, perBudget(racePer))
			if last != nil {
				for ck, n := range last.Counters {
					c.Rep.Count("race_"+ck, n)
				}
				if !strings.Contains(s, "takeAc") && done != nil && done.Preempt >= 1 {
					judged = true
					atConnack += last.Counters["delayed_will_registered_when_connack_written"]
				}
			}
		}
		if judged {
			c.Rep.Count("nonvacuity:race_delayed_will_registered_when_connack_written", atConnack)
			if atConnack == 0 {
				c.Rep.Add(explore.Violation{Key: "internal:vacuous:c16race-will-registered-when-connack-written", Msg: "no explored schedule of a Clean Start 0 takeover had the old connection's delayed will registered when the new connection's CONNACK was written: the classifier of missed cancellations was never exercised"})
			}
		}
	})
}

// ---------------- E3: teardown of the old connection vs attach of the new one ----------------
//
// Scenario "c16race" (arg = actions joined by '+', optional ",r=1"): a (v5, Session Expiry 60,
// will w/W with Will Delay 2) is connected, o observes w. The actions run concurrently and
// every interleaving up to the deviation bound is executed:
//   dropA   a's peer closes the connection (Read returns -> sendLWT -> willDelayed.Add)
//   takeA   a new connection for a with Clean Start 0 (attach -> willDelayed.Delete)
//   takeAc  the same with Clean Start 1
//   pingA   a sends PINGREQ first (its handler is busy when the takeover arrives)
// then, deterministically: the new connection must hold a CONNACK, the clock advances 3 s,
// housekeeping runs, 3 s more, housekeeping again. Oracle: with takeA the session was
// resumed at the instant the old connection ended, i.e. before the delay passed: the will
// must never be published. With takeAc the session ended: the will must be published
// exactly once by the housekeeping.
//
// Which cancellation was missed is told apart by evidence, not by the symptom: a passive hook
// (c16Watch) notes, at the instants of the new connection's attach that hooks can see
// (OnSessionEstablish, CONNACK written, OnSessionEstablished), whether a delayed will of a is
// registered, and where the old connection's OnWill / OnDisconnect fall in that order.
// The CONNACK tells the client that its session was resumed; a delayed will that is
// registered at that instant belongs to the connection that has just been replaced and the
// attach must remove it before it completes [MQTT-3.1.3-9]. A will that is there when the
// CONNACK is written, is still there when the race has ended and is then published is
// reported as ...:registered-before-connack-not-cancelled. Only a will that was NOT yet
// registered when the CONNACK was written (the old handler decided to register it before it
// could see the new client and stored it after the attach had cancelled) is the separately
// recorded window ...:late-delayed-registration.

// c16Watch is a passive hook (it changes nothing): it samples the delayed-will registry at
// the hook instants of the connections of one client id.
type c16Watch struct {
	mqtt.HookBase
	w     *world.World
	id    string
	conns []*mqtt.Client // connections of id in the order of their OnSessionEstablish
	marks []c16Mark
}

type c16Mark struct {
	ev      string // establish connack established will disconnect
	conn    int    // index into conns (0 = the first connection of id)
	present bool   // a delayed will of id is registered at this instant
}

func (h *c16Watch) ID() string { return "c16watch" }

func (h *c16Watch) Provides(b byte) bool {
	switch b {
	case mqtt.OnSessionEstablish, mqtt.OnPacketSent, mqtt.OnSessionEstablished, mqtt.OnWill, mqtt.OnDisconnect:
		return true
	}
	return false
}

func (h *c16Watch) mark(ev string, cl *mqtt.Client) {
	if h.w == nil || cl == nil || cl.ID != h.id {
		return
	}
	idx := -1
	for i, c := range h.conns {
		if c == cl {
			idx = i
		}
	}
	if idx < 0 {
		h.conns = append(h.conns, cl)
		idx = len(h.conns) - 1
	}
	_, present := h.w.S.VerifWillDelayed().Get(h.id)
	h.marks = append(h.marks, c16Mark{ev, idx, present})
}

func (h *c16Watch) OnSessionEstablish(cl *mqtt.Client, pk packets.Packet) { h.mark("establish", cl) }
func (h *c16Watch) OnSessionEstablished(cl *mqtt.Client, pk packets.Packet) {
	h.mark("established", cl)
}
func (h *c16Watch) OnDisconnect(cl *mqtt.Client, err error, expire bool) { h.mark("disconnect", cl) }
func (h *c16Watch) OnPacketSent(cl *mqtt.Client, pk packets.Packet, b []byte) {
	if pk.FixedHeader.Type == packets.Connack {
		h.mark("connack", cl)
	}
}
func (h *c16Watch) OnWill(cl *mqtt.Client, will mqtt.Will) (mqtt.Will, error) {
	h.mark("will", cl)
	return will, nil
}

// at returns whether a delayed will was registered at event ev of connection conn
// (seen=false when that instant was never reached).
func (h *c16Watch) at(ev string, conn int) (present, seen bool) {
	for _, m := range h.marks {
		if m.ev == ev && m.conn == conn {
			return m.present, true
		}
	}
	return false, false
}

// order renders the marks of the race (everything after the first connection's own attach)
// as a stable string: o = old connection, n = new connection, '*' = will registered.
func (h *c16Watch) order() string {
	var b []string
	for _, m := range h.marks {
		if m.conn == 0 && (m.ev == "establish" || m.ev == "connack" || m.ev == "established") {
			continue
		}
		who := "n"
		if m.conn == 0 {
			who = "o"
		}
		s := who + "." + m.ev
		if m.present {
			s += "*"
		}
		b = append(b, s)
	}
	return strings.Join(b, ">")
}

var c16RaceScenarios = []string{"takeA", "dropA+takeA", "pingA+takeA", "takeAc", "dropA+takeAc"}

func c16Race(arg string) explore.RunFn {
	acts := splitActs(strings.Split(arg, ",")[0])
	retain := strings.Contains(arg, "r=1")
	cleanTake := false
	for _, a := range acts {
		if a == "takeAc" {
			cleanTake = true
		}
	}
	return func(prefix []int) explore.Outcome {
		watch := &c16Watch{id: "a"}
		w := world.New(prefix, world.Config{Extra: []mqtt.Hook{watch}})
		defer w.End()
		watch.w = w
		e := &concEnv{W: w}
		w.Serve()
		w.Run()
		cp := v5connect("a", false, 0, 60)
		cp.WillFlag, cp.WillTopic, cp.WillPayload, cp.WillQos, cp.WillRetain = true, "w", []byte("W"), 1, retain
		cp.WillProps = ref.Props{{ID: ref.PWillDelay, Num: 2}}
		e.A = e.dial(cp)
		w.Run()
		o := e.dial(world.ConnectPacket("o", 5, true))
		w.Run()
		o.Do(sub(1, "w", 1))
		for _, c := range e.Clients {
			c.Poll()
		}
		for _, a := range acts {
			concActions[a](e)
		}
		w.Explore(true)
		w.Run()
		w.Explore(false)
		out := explore.Outcome{Points: w.X.Points, Divergence: w.X.Divergence(), Steps: w.X.Steps(), StepLog: w.X.StepLog, Counters: map[string]int{}}
		out.Viol = runtimeViolations(w)
		nc := e.Clients[len(e.Clients)-1]
		nc.Poll()
		okConn := len(nc.Recv) > 0 && nc.Recv[0].Type == ref.CONNACK && nc.Recv[0].ReasonCode == 0
		registered := w.S.VerifWillDelayed().Len()
		if registered > 0 {
			out.Counters["delayed_will_registered_after_race"]++
		}
		// evidence: was the will registered when the new connection's CONNACK was written?
		atConnack, sawConnack := watch.at("connack", 1)
		atEstablish, _ := watch.at("establish", 1)
		if atConnack {
			out.Counters["delayed_will_registered_when_connack_written"]++
		}
		switch {
		case !sawConnack:
		case atConnack && registered == 0:
			out.Counters["will_registered_at_connack_cancelled_by_attach"]++
		case atConnack:
			out.Counters["will_registered_at_connack_survived_attach"]++
		case atEstablish:
			out.Counters["will_registered_at_session_establish_gone_at_connack"]++
		}
		w.Tick(3000)
		w.Housekeep()
		w.Tick(3000)
		w.Housekeep()
		o.Poll()
		wills := 0
		for _, p := range pubsOf(o.Recv) {
			if string(p.Payload) == "W" {
				wills++
			}
		}
		out.Viol = append(out.Viol, runtimeViolations(w)...)
		switch {
		case !okConn:
			out.Viol = append(out.Viol, explore.Violation{Key: "c16:race:new-connection-not-accepted", Msg: fmt.Sprintf("new connection got %v", nc.Recv)})
		case !cleanTake && wills > 0:
			key := "c16:will-after-resume:late-delayed-registration"
			switch {
			case registered == 0:
				key = "c16:will-after-resume:published-during-race"
			case atConnack:
				// registered before the client was told that its session is resumed, and the
				// attach completed without cancelling it
				key = "c16:will-after-resume:registered-before-connack-not-cancelled"
			}
			out.Viol = append(out.Viol, explore.Violation{Key: key, Msg: fmt.Sprintf("the Clean Start 0 connection was accepted (session present=%v) at the instant the old connection ended, yet the delayed will was published %d time(s) after housekeeping; delayed wills registered when the race ended: %d; registered when the new connection's CONNACK was written: %v; hook order (o old, n new connection, * = delayed will registered): %s", nc.Recv[0].SessionPresent, wills, registered, atConnack, watch.order())})
		case cleanTake && wills == 0:
			out.Viol = append(out.Viol, explore.Violation{Key: "c16:will-missing:delay-not-cut:takeover-clean-start", Msg: fmt.Sprintf("the Clean Start 1 connection ended the session, the will must be published; none seen after two housekeepings (registered after race: %d)", registered)})
		case cleanTake && wills > 1:
			out.Viol = append(out.Viol, explore.Violation{Key: "c16:will-twice:takeover-clean1", Msg: fmt.Sprintf("will published %d times", wills)})
		}
		out.Obs = fmt.Sprintf("wills=%d registered=%d sp=%v oldclosed=%v at-connack=%v", wills, registered, okConn && nc.Recv[0].SessionPresent, e.A.Closed(), atConnack)
		return out
	}
}
