package props

import (
	"fmt"
	"sort"
	"strings"
	"time"

	mqtt "github.com/mochi-mqtt/server/v2"
	"github.com/mochi-mqtt/server/v2/hooks/auth"
	"github.com/mochi-mqtt/server/v2/packets"
	"github.com/mochi-mqtt/server/v2/zzvrt"

	"verif/explore"
)

// C18: ledger decisions are deterministic (same on every evaluation, i.e. under every map
// iteration order) and use MQTT level semantics; global rules in list order, user rules first.
//
// E1 with explorer-owned map order: hooks/auth is instrumented, so every `range` over
// Users/Filters maps goes through zzvrt.Iter; for each (ledger, client, topic, access) the
// decision is evaluated under EVERY order (all permutations for n<=3) and compared
// (a) across orders, (b) with a reference decision procedure written from the property.

var c18Filters = []string{"a/b", "a/+", "a/#", "+/b", "#", "/a/b"}
var c18Topics = []string{"a", "a/b", "a/b/c", "b", "/a/b"}

// c18Match: level-wise matching as the property states it. defined=false where the
// property leaves room ('#' against zero further levels).
func c18Match(filter, topic string) (match, defined bool) {
	fl, tl := strings.Split(filter, "/"), strings.Split(topic, "/")
	for i, f := range fl {
		if f == "#" && i == len(fl)-1 {
			if i < len(tl) {
				return true, true
			}
			return false, false
		}
		if i >= len(tl) {
			return false, true
		}
		if f != "+" && f != tl[i] {
			return false, true
		}
	}
	return len(fl) == len(tl), true
}

func c18Pattern(p, a string) bool {
	if p == "" || p == "*" || p == a {
		return true
	}
	if i := strings.Index(p, "*"); i > 0 && strings.HasPrefix(a, p[:i]) {
		return true
	}
	return false
}

func c18Allowed(acc auth.Access, write bool) bool {
	if write {
		return acc == auth.WriteOnly || acc == auth.ReadWrite
	}
	return acc == auth.ReadOnly || acc == auth.ReadWrite
}

// c18RefACL: reference decision. defined=false if the property does not determine it
// (conflicting user filters of different access, or an undefined '#' match was decisive).
func c18RefACL(l *auth.Ledger, client, user, topic string, write bool, match func(f, t string) (bool, bool)) (ok, defined bool) {
	if u, has := l.Users[user]; has && len(u.ACL) > 0 {
		verdicts := map[bool]bool{}
		for f, acc := range u.ACL {
			m, d := match(string(f), topic)
			if !d {
				return false, false
			}
			if m {
				verdicts[c18Allowed(acc, write)] = true
			}
		}
		if len(verdicts) == 2 {
			return false, false
		}
		for v := range verdicts {
			return v, true
		}
	}
	for _, r := range l.ACL {
		if !(c18Pattern(string(r.Client), client) && c18Pattern(string(r.Username), user) && c18Pattern(string(r.Remote), "peer")) {
			continue
		}
		if len(r.Filters) == 0 {
			return true, true
		}
		any, good := false, false
		for f, acc := range r.Filters {
			m, d := match(string(f), topic)
			if !d {
				return false, false
			}
			if m {
				any = true
				if c18Allowed(acc, write) {
					good = true
				}
			}
		}
		if good {
			return true, true
		}
		if any {
			return false, true
		}
	}
	return true, true
}

func c18MochiMatch(f, t string) (bool, bool) { return auth.RString(f).FilterMatches(t), true }

// allOrders evaluates eval under every map iteration order of the hooks/auth sites.
func c18AllOrders(eval func() string) (results map[string]int, runs int) {
	results = map[string]int{}
	var rec func(prefix []int)
	rec = func(prefix []int) {
		x := zzvrt.Begin(prefix)
		x.MapSite = func(site string) bool { return strings.HasPrefix(site, "hooks/auth/") }
		r := eval()
		pts := append([]zzvrt.ChoicePoint{}, x.Points...)
		x.End()
		results[r]++
		runs++
		for i := len(prefix); i < len(pts); i++ {
			for alt := 1; alt < pts[i].N; alt++ {
				np := make([]int, i+1)
				for j := 0; j < i; j++ {
					np[j] = pts[j].Chosen
				}
				np[i] = alt
				rec(np)
			}
		}
	}
	rec(nil)
	return
}

type c18Case struct {
	L    *auth.Ledger
	Desc string
}

func c18UserACLs(maxN int) []auth.Filters {
	var out []auth.Filters
	var rec func(start int, cur auth.Filters)
	rec = func(start int, cur auth.Filters) {
		if len(cur) > 0 {
			c := auth.Filters{}
			for k, v := range cur {
				c[k] = v
			}
			out = append(out, c)
		}
		if len(cur) == maxN {
			return
		}
		for i := start; i < len(c18Filters); i++ {
			for acc := auth.Access(0); acc <= 3; acc++ {
				cur[auth.RString(c18Filters[i])] = acc
				rec(i+1, cur)
				delete(cur, auth.RString(c18Filters[i]))
			}
		}
	}
	rec(0, auth.Filters{})
	return out
}

func c18GlobalRules() []auth.ACLRule {
	var out []auth.ACLRule
	fs := []auth.Filters{nil, {"/a/b": auth.ReadOnly, "a/#": auth.Deny}, {"a/b": auth.ReadWrite}, {"a/+": auth.ReadOnly}, {"a/#": auth.WriteOnly}, {"a/b": auth.Deny}, {"a/b": auth.ReadOnly, "a/#": auth.WriteOnly}, {"#": auth.Deny, "a/b": auth.ReadWrite}}
	for _, cp := range []string{"", "c1", "c*", "zz"} {
		for _, f := range fs {
			out = append(out, auth.ACLRule{Client: auth.RString(cp), Filters: f})
		}
	}
	// a filters mapping that is present but empty (filters: {} in YAML/JSON) is as much
	// "no filters" as an absent one (appended last: indices above are used by c18Cases)
	for _, cp := range []string{"", "c1", "c*", "zz"} {
		out = append(out, auth.ACLRule{Client: auth.RString(cp), Filters: auth.Filters{}})
	}
	return out
}

func c18Cases(arg string) []c18Case {
	n := 2
	if strings.Contains(arg, "deep") {
		n = 3
	}
	var cases []c18Case
	globals := c18GlobalRules()
	few := [][]auth.ACLRule{nil, {globals[1]}, {globals[4], globals[0]}, {globals[20], globals[2]}}
	for _, acl := range c18UserACLs(n) {
		for gi, g := range few {
			cases = append(cases, c18Case{L: &auth.Ledger{Users: auth.Users{"u1": {Username: "u1", Password: "pw", ACL: acl}}, ACL: g}, Desc: fmt.Sprintf("user-acl=%v globals#%d", acl, gi)})
		}
	}
	uacls := []auth.Filters{nil, {"a/b": auth.Deny}, {"a/#": auth.ReadOnly}}
	for i, r1 := range globals {
		for _, ua := range uacls {
			cases = append(cases, c18Case{L: &auth.Ledger{Users: auth.Users{"u1": {Username: "u1", Password: "pw", ACL: ua}}, ACL: auth.ACLRules{r1}}, Desc: fmt.Sprintf("globals=[%d] user-acl=%v", i, ua)})
		}
		for j, r2 := range globals {
			cases = append(cases, c18Case{L: &auth.Ledger{ACL: auth.ACLRules{r1, r2}}, Desc: fmt.Sprintf("globals=[%d,%d]", i, j)})
		}
	}
	return cases
}

func c18Set(arg string) explore.CaseSet {
	cases := c18Cases(arg)
	return explore.CaseSet{Total: len(cases), Run: func(i int) explore.CaseResult {
		cs := cases[i]
		var res explore.CaseResult
		res.Counters = map[string]int64{}
		for _, client := range []string{"c1", "zz"} {
			for _, user := range []string{"u1", "u2"} {
				for _, topic := range c18Topics {
					for _, write := range []bool{false, true} {
						cl := &mqtt.Client{ID: client, Properties: mqtt.ClientProperties{Username: []byte(user)}, Net: mqtt.ClientConnection{Remote: "peer"}}
						results, runs := c18AllOrders(func() string {
							_, ok := cs.L.ACLOk(cl, topic, write)
							return fmt.Sprint(ok)
						})
						res.Evals += int64(runs)
						if runs > 1 {
							res.Nontrivial++
							res.Counters["decisions_with_several_orders"]++
						}
						rp := map[string]any{"ledger": cs.Desc, "client": client, "user": user, "topic": topic, "write": write}
						if len(results) > 1 {
							res.Viol = append(res.Viol, explore.Violation{Key: "acl:order-dependent:" + c18Where(cs.L, user), Msg: fmt.Sprintf("ACLOk(%s,%s,%q,write=%v) on %s gives %v depending on map iteration order", client, user, topic, write, cs.Desc, results), Replay: rp})
							continue
						}
						want, def := c18RefACL(cs.L, client, user, topic, write, c18Match)
						if !def {
							res.Counters["decisions_unspecified"]++
							continue
						}
						got := results["true"] > 0
						if got != want {
							cause := "logic"
							if w2, d2 := c18RefACL(cs.L, client, user, topic, write, c18MochiMatch); d2 && w2 == got {
								cause = "matching:" + c18MatchShape(cs.L, topic)
							}
							res.Viol = append(res.Viol, explore.Violation{Key: "acl:decision:" + cause, Msg: fmt.Sprintf("ACLOk(%s,%s,%q,write=%v) on %s = %v, reference = %v", client, user, topic, write, cs.Desc, got, want), Replay: rp})
						}
					}
				}
			}
		}
		if i%97 == 0 {
			res.Sample = map[string]any{"ledger": cs.Desc}
		}
		return res
	}}
}

func c18Where(l *auth.Ledger, user string) string {
	if u, ok := l.Users[user]; ok && len(u.ACL) > 1 {
		return "user-filters"
	}
	return "global-filters"
}

// c18MatchShape names the matching disagreement between mochi's matcher and level semantics.
func c18MatchShape(l *auth.Ledger, topic string) string {
	shapes := map[string]bool{}
	chk := func(fs auth.Filters) {
		for f := range fs {
			m, d := c18Match(string(f), topic)
			if d && m != f.FilterMatches(topic) {
				if !strings.Contains(string(f), "#") && len(strings.Split(string(f), "/")) < len(strings.Split(topic, "/")) {
					shapes["prefix-of-longer-topic"] = true
				} else {
					shapes["other"] = true
				}
			}
		}
	}
	for _, u := range l.Users {
		chk(u.ACL)
	}
	for _, r := range l.ACL {
		chk(r.Filters)
	}
	var s []string
	for k := range shapes {
		s = append(s, k)
	}
	sort.Strings(s)
	return strings.Join(s, "+")
}

// c18AuthSet: connect decisions.
func c18AuthSet(arg string) explore.CaseSet {
	type rule = auth.AuthRule
	var rules []rule
	for _, cp := range []string{"", "*", "c1", "c*", "zz"} {
		for _, up := range []string{"", "u1", "u*"} {
			for _, al := range []bool{true, false} {
				rules = append(rules, rule{Client: auth.RString(cp), Username: auth.RString(up), Allow: al})
			}
		}
	}
	users := []auth.Users{nil, {"u1": {Username: "u1", Password: "pw"}}, {"u1": {Username: "u1", Password: "pw", Disallow: true}}, {"u1": {Username: "u1", Password: "pw"}, "u2": {Username: "u2", Password: "pw", Disallow: true}}}
	total := len(rules) * (len(rules) + 1)
	return explore.CaseSet{Total: total, Run: func(i int) explore.CaseResult {
		var res explore.CaseResult
		r1 := rules[i%len(rules)]
		j := i / len(rules)
		list := auth.AuthRules{r1}
		if j < len(rules) {
			list = append(list, rules[j])
		}
		for ui, us := range users {
			l := &auth.Ledger{Users: us, Auth: list}
			for _, client := range []string{"c1", "zz"} {
				for _, user := range []string{"u1", "u2"} {
					for _, pw := range []string{"pw", "bad"} {
						cl := &mqtt.Client{ID: client, Properties: mqtt.ClientProperties{Username: []byte(user)}, Net: mqtt.ClientConnection{Remote: "peer"}}
						pk := packets.Packet{Connect: packets.ConnectParams{Password: []byte(pw), Username: []byte(user)}}
						results, runs := c18AllOrders(func() string { _, ok := l.AuthOk(cl, pk); return fmt.Sprint(ok) })
						res.Evals += int64(runs)
						want := false
						decided := false
						if u, ok := us[user]; ok && pw == "pw" {
							want, decided = !u.Disallow, true
						}
						if !decided {
							for _, r := range list {
								if c18Pattern(string(r.Client), client) && c18Pattern(string(r.Username), user) && c18Pattern(string(r.Password), pw) && c18Pattern(string(r.Remote), "peer") {
									want, decided = r.Allow, true
									break
								}
							}
						}
						if decided {
							res.Nontrivial++
						}
						rp := map[string]any{"rules": fmt.Sprint(list), "users": ui, "client": client, "user": user, "pw": pw}
						if len(results) > 1 {
							res.Viol = append(res.Viol, explore.Violation{Key: "auth:order-dependent", Msg: fmt.Sprintf("AuthOk varies with map order: %v", results), Replay: rp})
						} else if got := results["true"] > 0; got != want {
							res.Viol = append(res.Viol, explore.Violation{Key: "auth:decision", Msg: fmt.Sprintf("AuthOk(client=%s user=%s pw=%s) rules=%v users#%d = %v, reference (user entry first, then first matching rule) = %v", client, user, pw, list, ui, got, want), Replay: rp})
						}
					}
				}
			}
		}
		return res
	}}
}

func init() {
	explore.RegisterCases("c18acl", c18Set)
	explore.RegisterCases("c18auth", c18AuthSet)
	explore.Register("C18", func(c *explore.Ctx) {
		c.Rep.Level = "exploration"
		// matching semantics, directly
		var ev, nt int64
		for _, f := range c18Filters {
			for _, t := range c18Topics {
				m, d := c18Match(f, t)
				ev++
				if !d {
					continue
				}
				nt++
				if got := auth.RString(f).FilterMatches(t); got != m {
					shape := "other"
					if !strings.Contains(f, "#") && len(strings.Split(f, "/")) < len(strings.Split(t, "/")) {
						shape = "prefix-of-longer-topic"
					}
					c.Rep.Add(explore.Violation{Key: "match:" + shape, Msg: fmt.Sprintf("rule filter %q vs topic %q: FilterMatches=%v, level semantics=%v", f, t, got, m)})
				}
			}
		}
		c.Rep.Count("evaluations", ev)
		c.Rep.Count("distinct_nontrivial", nt)
		arg := "n2"
		if !c.Quick() {
			arg = "deep"
		}
		explore.RunCases(c, "c18acl", arg, 60*time.Second)
		explore.RunCases(c, "c18auth", "", 30*time.Second)
		c.Rep.Set("rule", "every (ledger, client, username, topic, access) of the declared domain is decided under EVERY iteration order of every map involved (all permutations for maps of <=3 entries); evaluations counts single evaluations, non-trivial = decisions that were evaluated under more than one order (ACL) or decided by a user entry/rule (connect)")
		c.Rep.Assumption("rule filters {a/b,a/+,a/#,+/b,#,/a/b}, topics {a,a/b,a/b/c,b,/a/b} (leading empty level included); patterns {'',*,c1,c*,zz}; '#' against zero further levels is unspecified (DESIGN §3.2); conflicting overlapping user filters have no reference verdict, only determinism is required")
	})
}
