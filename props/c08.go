package props

import (
	"fmt"
	"os"
	"sort"
	"strings"
	"time"

	"verif/explore"
	"verif/ref"
	"verif/world"
)

// C08: a QoS 2 message a client publishes is forwarded exactly once, however often the
// PUBLISH is retransmitted before PUBREL (also after a reconnect with session present);
// every retransmission is answered by a PUBREC whose reason code does not signal failure.
//
// E2 scenario "c08" (arg: "v=5|4", "sq=0|2" subscriber QoS, "ids=1|2", "tx=N", "rc=N"):
// publisher p (persistent session), subscriber s on topic t (auto-acknowledging), third
// client o. Ops (pools: tx (re)transmissions, rc reconnects, 1 unrelated publish):
//   pub:<id>   p sends a NEW QoS 2 PUBLISH (DUP 0) with packet id <id>        (id idle)
//   dup:<id>   p retransmits that PUBLISH with DUP 1                          (id held)
//   rel:<id>   p sends PUBREL <id>                                            (id held)
//   drop       p's network connection drops       rc   p reconnects, clean start 0
//   other      o publishes an unrelated QoS 1 message on t
//   hk         (arg "hk=N" pool, "tick=S" seconds, default 2) the virtual clock advances by
//              S seconds and the broker's periodic housekeeping (event loop: expired
//              clients, retained, delayed wills, expired in-flight records) runs once, with
//              the server's DEFAULT capabilities (MaximumMessageExpiryInterval 86400 s,
//              session expiry of p 100000 s or unlimited): N*S stays far below every expiry,
//              so for the reference model housekeeping is a no-op
// Reference model (MQTT 4.3.3, DESIGN A.4): per packet id Idle -> Held(tag) on first
// PUBLISH -> Idle on PUBREL; the state survives reconnection with session present. The
// message must reach s exactly once by the time PUBCOMP is received (at PUBLISH or at
// PUBREL: unspecified which) and never more than once.

type c08Model struct {
	held      map[uint16]string // packet id -> tag of the exchange in progress
	reconn    map[uint16]bool   // a reconnect happened since the first transmission
	swept     map[uint16]bool   // housekeeping ran since the first transmission
	hks       int
	fwd       map[string]int // tag -> copies received by s
	exch      int
	tx        int
	conns     int
	others    int
	connected bool
	done      int
}

func (m *c08Model) String() string {
	var hs []string
	for id, t := range m.held {
		hs = append(hs, fmt.Sprintf("%d=%s/%v/%v", id, t, m.reconn[id], m.swept[id]))
	}
	sort.Strings(hs)
	var fs []string
	for t, n := range m.fwd {
		fs = append(fs, fmt.Sprintf("%s=%d", t, n))
	}
	sort.Strings(fs)
	return fmt.Sprintf("held%v fwd%v e%d tx%d c%d o%d hk%d conn=%v", hs, fs, m.exch, m.tx, m.conns, m.others, m.hks, m.connected)
}

func argInt(arg, name string, def int) int {
	for _, f := range strings.Split(arg, ",") {
		if strings.HasPrefix(f, name+"=") {
			n := 0
			fmt.Sscanf(f[len(name)+1:], "%d", &n)
			return n
		}
	}
	return def
}

// autoAck plays a prompt receiver: it acknowledges every QoS 1/2 delivery in pks (and
// whatever arrives while doing so) and returns all packets seen.
func autoAck(h *H, name string, pks []ref.Packet) []ref.Packet {
	all := append([]ref.Packet{}, pks...)
	for round := 0; round < 16 && len(pks) > 0; round++ {
		var next []ref.Packet
		for _, p := range pks {
			switch {
			case p.Type == ref.PUBLISH && p.Qos == 1:
				next = append(next, h.do(name, ref.Packet{Type: ref.PUBACK, PacketID: p.PacketID})...)
			case p.Type == ref.PUBLISH && p.Qos == 2:
				next = append(next, h.do(name, ref.Packet{Type: ref.PUBREC, PacketID: p.PacketID})...)
			case p.Type == ref.PUBREL:
				next = append(next, h.do(name, ref.Packet{Type: ref.PUBCOMP, PacketID: p.PacketID})...)
			}
		}
		all = append(all, next...)
		pks = next
	}
	return all
}

func c08Run(arg string) explore.HistFn {
	ver := byte(argInt(arg, "v", 5))
	sq := byte(argInt(arg, "sq", 0))
	ids := argInt(arg, "ids", 1)
	maxTx := argInt(arg, "tx", 4)
	maxRc := argInt(arg, "rc", 2)
	maxHk := argInt(arg, "hk", 0)
	tickS := argInt(arg, "tick", 2)
	return func(hist []string) explore.HistResult {
		h := newH(world.Config{})
		cnt := map[string]int{}
		count := func(k string) {
			if h.last {
				cnt[k]++
			}
		}
		m := &c08Model{held: map[uint16]string{}, reconn: map[uint16]bool{}, swept: map[uint16]bool{}, fwd: map[string]int{}, connected: true}
		pconn := func() ref.Packet {
			if ver >= 5 {
				return world.ConnectPacket("p", 5, false, ref.Prop{ID: ref.PSessionExpiry, Num: 100000})
			}
			return world.ConnectPacket("p", ver, false)
		}
		h.connect("p", pconn())
		h.connect("s", world.ConnectPacket("s", 4, true))
		h.connect("o", world.ConnectPacket("o", 4, true))
		h.do("s", ref.Packet{Type: ref.SUBSCRIBE, PacketID: 900, Filters: []ref.Filter{{Filter: "t", Opts: sq}}})

		// collect what s received during the step; returns per-tag increments
		collect := func(shape string) {
			got := autoAck(h, "s", h.poll("s"))
			for _, p := range got {
				if p.Type != ref.PUBLISH || p.Dup {
					continue
				}
				tag := string(p.Payload)
				m.fwd[tag]++
				if strings.HasPrefix(tag, "m") && m.fwd[tag] > 1 {
					h.violate("c08:forwarded-twice:"+shape, "subscriber received %d copies of %s (QoS 2 publish) after %s", m.fwd[tag], tag, shape)
				}
			}
		}
		runHist(h, hist, func(op string) {
			f := fields(op)
			var id uint16
			if len(f) > 1 {
				var n int
				fmt.Sscanf(f[1], "%d", &n)
				id = uint16(n)
			}
			switch f[0] {
			case "pub", "dup":
				shape := "first-transmission"
				if f[0] == "pub" {
					m.exch++
					m.held[id] = fmt.Sprintf("m%d", m.exch)
					m.reconn[id] = false
					m.swept[id] = false
				} else {
					shape = "dup-before-pubrel"
					count("dup_retransmissions")
					if m.swept[id] {
						count("dup_retransmissions_after_housekeeping")
					}
					if m.reconn[id] {
						count("dup_retransmissions_after_reconnect")
					}
				}
				m.tx++
				tag := m.held[id]
				pk := pub("t", tag, 2, id)
				pk.Dup = f[0] == "dup"
				got := h.do("p", pk)
				var rec *ref.Packet
				for i := range got {
					if got[i].Type == ref.PUBREC && got[i].PacketID == id {
						rec = &got[i]
					}
				}
				switch {
				case h.Cl["p"].Closed():
					h.violate("c08:connection-closed:"+shape, "broker closed p's connection on %s of QoS 2 PUBLISH id %d: %v", shape, id, got)
				case rec == nil:
					h.violate("c08:no-pubrec:"+shape, "no PUBREC for %s of QoS 2 PUBLISH id %d (tag %s): got %v", shape, id, tag, got)
				case rec.ReasonCode >= 0x80:
					h.violate("c08:pubrec>=0x80:"+shape, "%s of QoS 2 PUBLISH id %d (tag %s, reconnected since first=%v) answered with PUBREC reason %#x", shape, id, tag, m.reconn[id], rec.ReasonCode)
				}
				if m.reconn[id] && f[0] == "dup" {
					shape = "dup-after-reconnect"
				}
				if m.swept[id] && f[0] == "dup" {
					// the held state must outlive housekeeping that runs long before any expiry
					shape += ":after-housekeeping"
				}
				collect(shape)
			case "rel":
				tag := m.held[id]
				got := h.do("p", ref.Packet{Type: ref.PUBREL, PacketID: id})
				var comp *ref.Packet
				for i := range got {
					if got[i].Type == ref.PUBCOMP && got[i].PacketID == id {
						comp = &got[i]
					}
				}
				collect("pubrel")
				sfx := ""
				if m.swept[id] {
					sfx = ":after-housekeeping"
					count("pubrel_after_housekeeping")
				}
				switch {
				case comp == nil:
					h.violate("c08:no-pubcomp"+sfx, "PUBREL id %d (tag %s) not answered with PUBCOMP: %v", id, tag, got)
				case comp.ReasonCode >= 0x80:
					h.violate("c08:pubcomp>=0x80:exchange-in-progress"+sfx, "PUBREL id %d for the exchange in progress (tag %s) answered with PUBCOMP reason %#x", id, tag, comp.ReasonCode)
				}
				if comp != nil && m.fwd[tag] != 1 {
					h.violate("c08:not-forwarded-once-at-pubcomp", "exchange %s completed (PUBCOMP) but subscriber holds %d copies", tag, m.fwd[tag])
				}
				delete(m.held, id)
				delete(m.reconn, id)
				delete(m.swept, id)
				m.done++
				count("exchanges_completed")
			case "drop":
				h.Cl["p"].Drop()
				h.logf("p: dropped")
				m.connected = false
				collect("drop")
			case "rc":
				m.conns++
				got := h.connect("p", pconn())
				m.connected = true
				if len(got) == 0 || got[0].Type != ref.CONNACK || got[0].ReasonCode != 0 {
					h.violate("c08:reconnect-refused", "reconnect of p refused: %v", got)
					break
				}
				if !got[0].SessionPresent {
					// the session was not resumed: the in-progress exchanges are gone with it (C14's subject)
					count("session_not_present")
					m.held = map[uint16]string{}
					m.reconn = map[uint16]bool{}
					m.swept = map[uint16]bool{}
				}
				for id := range m.held {
					m.reconn[id] = true
				}
				collect("reconnect")
			case "hk":
				m.hks++
				for id := range m.held {
					m.swept[id] = true
				}
				if len(m.held) > 0 {
					count("housekeeping_while_exchange_in_progress")
				}
				h.W.Tick(int64(tickS) * 1000)
				h.W.Housekeep()
				h.logf("clock +%ds, housekeeping at %d", tickS, h.W.Now())
				if m.connected {
					got := h.poll("p")
					if h.Cl["p"].Closed() {
						h.violate("c08:connection-closed:housekeeping", "broker closed p's connection during housekeeping %d s later: %v", tickS, got)
					}
				}
				collect("housekeeping")
			case "other":
				m.others++
				h.do("o", pub("t", fmt.Sprintf("o%d", m.others), 1, 77))
				collect("unrelated-publish")
			}
		})
		var next []string
		if m.connected {
			for id := uint16(1); id <= uint16(ids); id++ {
				if _, ok := m.held[id]; ok {
					if m.tx < maxTx {
						next = append(next, fmt.Sprintf("dup:%d", id))
					}
					next = append(next, fmt.Sprintf("rel:%d", id))
				} else if m.tx < maxTx {
					next = append(next, fmt.Sprintf("pub:%d", id))
				}
			}
			if m.conns < maxRc {
				next = append(next, "drop")
			}
		} else {
			next = append(next, "rc")
		}
		if m.others < 1 {
			next = append(next, "other")
		}
		if m.hks < maxHk {
			next = append(next, "hk")
		}
		key := h.W.State() + "|" + m.String()
		r := h.finish(key, next)
		r.Counters = cnt
		return r
	}
}

func init() {
	explore.RegisterBFS("c08", c08Run)
	explore.Register("C08", func(c *explore.Ctx) {
		c.Rep.Level = "model_checking"
		c.Rep.Assumption("one client action at a time, broker run to quiescence under the deterministic default schedule (sequential histories)")
		c.Rep.Assumption("state = reflective dump of *Server plus reference-model state and pool counters; histories merged only if byte-identical")
		c.Rep.Assumption("housekeeping ops advance the virtual clock by at most 2x3600 s in total: far below the default MaximumMessageExpiryInterval (86400 s) and the session expiry, so the reference model treats them as no-ops")
		c.Rep.Assumption("forwarding may happen at PUBLISH or at PUBREL (unspecified); exactly one copy is required once PUBCOMP was received, more than one copy is never allowed")
		var sts []*explore.BFSStats
		if c.Quick() {
			sts = append(sts, explore.RunBFS(c, "c08", "v=5,sq=0,ids=1,tx=5,rc=2", 0, 25*time.Second))
			sts = append(sts, explore.RunBFS(c, "c08", "v=4,sq=2,ids=1,tx=5,rc=2", 0, 20*time.Second))
			sts = append(sts, explore.RunBFS(c, "c08", "v=5,sq=2,ids=2,tx=5,rc=2", 0, 25*time.Second))
			sts = append(sts, explore.RunBFS(c, "c08", "v=5,sq=0,ids=1,tx=3,rc=1,hk=2", 0, 20*time.Second))
			sts = append(sts, explore.RunBFS(c, "c08", "v=4,sq=2,ids=1,tx=3,rc=1,hk=1,tick=3600", 0, 15*time.Second))
		} else {
			sts = append(sts, explore.RunBFS(c, "c08", "v=5,sq=0,ids=1,tx=6,rc=3", 0, 2*time.Minute))
			sts = append(sts, explore.RunBFS(c, "c08", "v=4,sq=2,ids=1,tx=6,rc=3", 0, 2*time.Minute))
			sts = append(sts, explore.RunBFS(c, "c08", "v=5,sq=2,ids=2,tx=6,rc=2", 0, 4*time.Minute))
			sts = append(sts, explore.RunBFS(c, "c08", "v=3,sq=0,ids=2,tx=5,rc=2", 0, 2*time.Minute))
			sts = append(sts, explore.RunBFS(c, "c08", "v=5,sq=0,ids=1,tx=4,rc=2,hk=2", 0, 2*time.Minute))
			sts = append(sts, explore.RunBFS(c, "c08", "v=4,sq=2,ids=2,tx=4,rc=1,hk=2,tick=3600", 0, 2*time.Minute))
		}
		var dups, dupsRc, dupsHk int64
		for _, st := range sts {
			dups += st.Counters["dup_retransmissions"]
			dupsRc += st.Counters["dup_retransmissions_after_reconnect"]
			dupsHk += st.Counters["dup_retransmissions_after_housekeeping"]
			c.Rep.Count("pubrel_after_housekeeping", st.Counters["pubrel_after_housekeeping"])
			c.Rep.Count("housekeeping_while_exchange_in_progress", st.Counters["housekeeping_while_exchange_in_progress"])
			c.Rep.Count("exchanges_completed", st.Counters["exchanges_completed"])
		}
		c.Rep.Count("dup_retransmissions", dups)
		c.Rep.Count("dup_retransmissions_after_reconnect", dupsRc)
		c.Rep.Count("dup_retransmissions_after_housekeeping", dupsHk)
		if (dups == 0 || dupsRc == 0) && os.Getenv("VERIF_SCEN") == "" {
			c.Rep.Add(explore.Violation{Key: "internal:vacuous", Msg: "no DUP retransmission (or none after a reconnect) was exercised"})
		}
		if dupsHk == 0 && os.Getenv("VERIF_SCEN") == "" {
			c.Rep.Add(explore.Violation{Key: "internal:vacuous:housekeeping", Msg: "no DUP retransmission after a housekeeping run was exercised"})
		}
	})
}
