package props

import (
	"fmt"
	"os"
	"sort"
	"strings"
	"time"

	"verif/explore"
	"verif/ref"
	"verif/world"
)

// C08: a QoS 2 message a client publishes is forwarded exactly once, however often the
// PUBLISH is retransmitted before PUBREL (also after a reconnect with session present);
// every retransmission is answered by a PUBREC whose reason code does not signal failure.
//
// E2 scenario "c08" (arg: "v=5|4", "sq=0|2" subscriber QoS, "ids=1|2", "tx=N", "rc=N"):
// publisher p (persistent session), subscriber s on topic t (auto-acknowledging), third
// client o. Ops (pools: tx (re)transmissions, rc reconnects, 1 unrelated publish):
//   pub:<id>   p sends a NEW QoS 2 PUBLISH (DUP 0) with packet id <id>        (id idle)
//   dup:<id>   p retransmits that PUBLISH with DUP 1                          (id held)
//   rel:<id>   p sends PUBREL <id>                                            (id held)
//   drop       p's network connection drops       rc   p reconnects, clean start 0
//   other      o publishes an unrelated QoS 1 message on t
//   pack       (arg "pack=1", needs pq) p acknowledges every delivery it holds (see below)
// Publisher that is a subscriber at once (arg "pq=1|2"): p itself subscribes to t at QoS pq,
// so the broker delivers QoS 1/2 messages (p's own and o's) to p while p's inbound QoS 2
// exchanges are open: outbound packet identifiers are allocated for p's session while
// identifiers of p's own exchanges are held (both directions share the in-flight store).
// p acknowledges every delivery promptly (same step; PUBACK, PUBREC + PUBCOMP) or, with
// pack=1, only when the op pack is issued (deliveries stay unacknowledged across p's own
// retransmissions, PUBREL and reconnects). p never STARTS an exchange with an identifier
// of a delivery it has not yet acknowledged (client-initiated collisions are C10's
// subject: c10:inbound-qos2-state-deleted-by:outbound-ack-same-id); whether the BROKER
// assigns an identifier p's open exchange is using is up to the broker (independent
// identifier spaces) and must not disturb the exchange: keys ...:held-id-assigned-to-outbound-delivery.
// The copies p receives as a subscriber are counted like those of s (a PUBLISH with DUP 1
// whose identifier and message p already holds unacknowledged is a retransmission).
//   hk         (arg "hk=N" pool, "tick=S" seconds, default 2) the virtual clock advances by
//              S seconds and the broker's periodic housekeeping (event loop: expired
//              clients, retained, delayed wills, expired in-flight records) runs once, with
//              the server's DEFAULT capabilities (MaximumMessageExpiryInterval 86400 s,
//              session expiry of p 100000 s or unlimited): N*S stays far below every expiry,
//              so for the reference model housekeeping is a no-op
// Reference model (MQTT 4.3.3, DESIGN A.4): per packet id Idle -> Held(tag) on first
// PUBLISH -> Idle on PUBREL; the state survives reconnection with session present. The
// message must reach s exactly once by the time PUBCOMP is received (at PUBLISH or at
// PUBREL: unspecified which) and never more than once.

type c08Model struct {
	held      map[uint16]string // packet id -> tag of the exchange in progress
	reconn    map[uint16]bool   // a reconnect happened since the first transmission
	swept     map[uint16]bool   // housekeeping ran since the first transmission
	hks       int
	fwd       map[string]int // tag -> copies received by s
	exch      int
	tx        int
	conns     int
	others    int
	connected bool
	done      int
	// p as a subscriber (pq>0)
	pfwd    map[string]int    // tag -> copies received by p
	pun     map[uint16]string // deliveries to p not yet acknowledged by it: packet id -> tag
	pend    []ref.Packet      // ... received on the current connection (what op pack acknowledges)
	over    map[uint16]bool   // the broker used the held id for an outbound delivery to p during the exchange
	lastOut uint16            // id of the last first transmission to p on this connection
}

func (m *c08Model) String() string {
	var hs []string
	for id, t := range m.held {
		hs = append(hs, fmt.Sprintf("%d=%s/%v/%v", id, t, m.reconn[id], m.swept[id]))
	}
	sort.Strings(hs)
	var fs []string
	for t, n := range m.fwd {
		fs = append(fs, fmt.Sprintf("%s=%d", t, n))
	}
	sort.Strings(fs)
	base := fmt.Sprintf("held%v fwd%v e%d tx%d c%d o%d hk%d conn=%v", hs, fs, m.exch, m.tx, m.conns, m.others, m.hks, m.connected)
	if m.pfwd == nil {
		return base
	}
	var ps, us, ovs []string
	for t, n := range m.pfwd {
		ps = append(ps, fmt.Sprintf("%s=%d", t, n))
	}
	for id, t := range m.pun {
		us = append(us, fmt.Sprintf("%d=%s", id, t))
	}
	for id := range m.over {
		ovs = append(ovs, fmt.Sprint(id))
	}
	sort.Strings(ps)
	sort.Strings(us)
	sort.Strings(ovs)
	return base + fmt.Sprintf(" pfwd%v pun%v pend%d over%v", ps, us, len(m.pend), ovs)
}

func argInt(arg, name string, def int) int {
	for _, f := range strings.Split(arg, ",") {
		if strings.HasPrefix(f, name+"=") {
			n := 0
			fmt.Sscanf(f[len(name)+1:], "%d", &n)
			return n
		}
	}
	return def
}

// autoAck plays a prompt receiver: it acknowledges every QoS 1/2 delivery in pks (and
// whatever arrives while doing so) and returns all packets seen.
func autoAck(h *H, name string, pks []ref.Packet) []ref.Packet {
	all := append([]ref.Packet{}, pks...)
	for round := 0; round < 16 && len(pks) > 0; round++ {
		var next []ref.Packet
		for _, p := range pks {
			switch {
			case p.Type == ref.PUBLISH && p.Qos == 1:
				next = append(next, h.do(name, ref.Packet{Type: ref.PUBACK, PacketID: p.PacketID})...)
			case p.Type == ref.PUBLISH && p.Qos == 2:
				next = append(next, h.do(name, ref.Packet{Type: ref.PUBREC, PacketID: p.PacketID})...)
			case p.Type == ref.PUBREL:
				next = append(next, h.do(name, ref.Packet{Type: ref.PUBCOMP, PacketID: p.PacketID})...)
			}
		}
		all = append(all, next...)
		pks = next
	}
	return all
}

func c08Run(arg string) explore.HistFn {
	ver := byte(argInt(arg, "v", 5))
	sq := byte(argInt(arg, "sq", 0))
	ids := argInt(arg, "ids", 1)
	maxTx := argInt(arg, "tx", 4)
	maxRc := argInt(arg, "rc", 2)
	maxHk := argInt(arg, "hk", 0)
	tickS := argInt(arg, "tick", 2)
	pq := byte(argInt(arg, "pq", 0))
	packOp := argInt(arg, "pack", 0) == 1 && pq > 0
	return func(hist []string) explore.HistResult {
		h := newH(world.Config{})
		cnt := map[string]int{}
		count := func(k string) {
			if h.last {
				cnt[k]++
			}
		}
		m := &c08Model{held: map[uint16]string{}, reconn: map[uint16]bool{}, swept: map[uint16]bool{}, fwd: map[string]int{}, connected: true}
		pconn := func() ref.Packet {
			if ver >= 5 {
				return world.ConnectPacket("p", 5, false, ref.Prop{ID: ref.PSessionExpiry, Num: 100000})
			}
			return world.ConnectPacket("p", ver, false)
		}
		h.connect("p", pconn())
		h.connect("s", world.ConnectPacket("s", 4, true))
		h.connect("o", world.ConnectPacket("o", 4, true))
		h.do("s", ref.Packet{Type: ref.SUBSCRIBE, PacketID: 900, Filters: []ref.Filter{{Filter: "t", Opts: sq}}})
		if pq > 0 {
			m.pfwd, m.pun, m.over = map[string]int{}, map[uint16]string{}, map[uint16]bool{}
			h.do("p", ref.Packet{Type: ref.SUBSCRIBE, PacketID: 901, Filters: []ref.Filter{{Filter: "t", Opts: pq}}})
		}
		// overSfx: the exchange's identifier was (also) given to an outbound delivery to p
		overSfx := func(id uint16) string {
			if m.over[id] {
				return ":held-id-assigned-to-outbound-delivery"
			}
			return ""
		}
		// ackP: p acknowledges the deliveries it holds on this connection
		ackP := func() {
			if len(m.pend) == 0 {
				return
			}
			pend := m.pend
			m.pend = nil
			autoAck(h, "p", pend)
			for _, d := range pend {
				delete(m.pun, d.PacketID)
			}
		}
		// recvP: what p received during the step, as a subscriber
		recvP := func(pks []ref.Packet, shape string) {
			if pq == 0 {
				return
			}
			for _, d := range pks {
				if d.Type != ref.PUBLISH || d.Qos == 0 {
					continue
				}
				tag := string(d.Payload)
				if !(d.Dup && m.pun[d.PacketID] == tag) {
					m.pfwd[tag]++
					if strings.HasPrefix(tag, "m") && m.pfwd[tag] > 1 {
						h.violate("c08:forwarded-twice:"+shape, "the publisher itself (subscribed to t) received %d copies of its QoS 2 publish %s after %s", m.pfwd[tag], tag, shape)
					}
					if len(m.held) > 0 {
						count("deliveries_to_publisher_while_exchange_in_progress")
					}
					for id := range m.held {
						if m.lastOut < id && id < d.PacketID {
							count("outbound_id_allocated_past_held_id")
						}
					}
					m.lastOut = d.PacketID
				}
				m.pun[d.PacketID] = tag
				if _, ok := m.held[d.PacketID]; ok {
					m.over[d.PacketID] = true
					count("outbound_delivery_carrying_held_id")
				}
				m.pend = append(m.pend, d)
			}
			if !packOp {
				ackP()
			}
		}

		// collect what s received during the step; returns per-tag increments
		collect := func(shape string) {
			got := autoAck(h, "s", h.poll("s"))
			for _, p := range got {
				if p.Type != ref.PUBLISH || p.Dup {
					continue
				}
				tag := string(p.Payload)
				m.fwd[tag]++
				if strings.HasPrefix(tag, "m") && m.fwd[tag] > 1 {
					h.violate("c08:forwarded-twice:"+shape, "subscriber received %d copies of %s (QoS 2 publish) after %s", m.fwd[tag], tag, shape)
				}
			}
		}
		runHist(h, hist, func(op string) {
			f := fields(op)
			var id uint16
			if len(f) > 1 {
				var n int
				fmt.Sscanf(f[1], "%d", &n)
				id = uint16(n)
			}
			switch f[0] {
			case "pub", "dup":
				shape := "first-transmission"
				if f[0] == "pub" {
					m.exch++
					m.held[id] = fmt.Sprintf("m%d", m.exch)
					m.reconn[id] = false
					m.swept[id] = false
				} else {
					shape = "dup-before-pubrel"
					count("dup_retransmissions")
					if m.swept[id] {
						count("dup_retransmissions_after_housekeeping")
					}
					if m.reconn[id] {
						count("dup_retransmissions_after_reconnect")
					}
				}
				m.tx++
				tag := m.held[id]
				pk := pub("t", tag, 2, id)
				pk.Dup = f[0] == "dup"
				got := h.do("p", pk)
				var rec *ref.Packet
				for i := range got {
					if got[i].Type == ref.PUBREC && got[i].PacketID == id {
						rec = &got[i]
					}
				}
				switch {
				case h.Cl["p"].Closed():
					h.violate("c08:connection-closed:"+shape, "broker closed p's connection on %s of QoS 2 PUBLISH id %d: %v", shape, id, got)
				case rec == nil:
					h.violate("c08:no-pubrec:"+shape, "no PUBREC for %s of QoS 2 PUBLISH id %d (tag %s): got %v", shape, id, tag, got)
				case rec.ReasonCode >= 0x80:
					h.violate("c08:pubrec>=0x80:"+shape, "%s of QoS 2 PUBLISH id %d (tag %s, reconnected since first=%v) answered with PUBREC reason %#x", shape, id, tag, m.reconn[id], rec.ReasonCode)
				}
				if m.reconn[id] && f[0] == "dup" {
					shape = "dup-after-reconnect"
				}
				if m.swept[id] && f[0] == "dup" {
					// the held state must outlive housekeeping that runs long before any expiry
					shape += ":after-housekeeping"
				}
				if f[0] == "dup" {
					shape += overSfx(id)
					if pq > 0 {
						count("dup_retransmissions_by_subscribed_publisher")
					}
					if len(m.pun) > 0 {
						count("dup_retransmissions_while_delivery_unacknowledged")
					}
				}
				collect(shape)
				recvP(got, shape)
			case "rel":
				tag := m.held[id]
				got := h.do("p", ref.Packet{Type: ref.PUBREL, PacketID: id})
				var comp *ref.Packet
				for i := range got {
					if got[i].Type == ref.PUBCOMP && got[i].PacketID == id {
						comp = &got[i]
					}
				}
				collect("pubrel")
				recvP(got, "pubrel")
				sfx := ""
				if m.swept[id] {
					sfx = ":after-housekeeping"
					count("pubrel_after_housekeeping")
				}
				sfx += overSfx(id)
				switch {
				case comp == nil:
					h.violate("c08:no-pubcomp"+sfx, "PUBREL id %d (tag %s) not answered with PUBCOMP: %v", id, tag, got)
				case comp.ReasonCode >= 0x80:
					h.violate("c08:pubcomp>=0x80:exchange-in-progress"+sfx, "PUBREL id %d for the exchange in progress (tag %s) answered with PUBCOMP reason %#x", id, tag, comp.ReasonCode)
				}
				if comp != nil && m.fwd[tag] != 1 {
					h.violate("c08:not-forwarded-once-at-pubcomp"+overSfx(id), "exchange %s completed (PUBCOMP) but subscriber holds %d copies", tag, m.fwd[tag])
				}
				if comp != nil && pq > 0 && m.pfwd[tag] != 1 {
					h.violate("c08:not-forwarded-once-at-pubcomp"+overSfx(id), "exchange %s completed (PUBCOMP) but the publisher itself (subscribed to t, connected) holds %d copies", tag, m.pfwd[tag])
				}
				delete(m.held, id)
				delete(m.reconn, id)
				delete(m.swept, id)
				delete(m.over, id)
				m.done++
				count("exchanges_completed")
			case "drop":
				h.Cl["p"].Drop()
				h.logf("p: dropped")
				m.connected = false
				m.pend = nil
				m.lastOut = 0
				collect("drop")
			case "rc":
				m.conns++
				got := h.connect("p", pconn())
				m.connected = true
				if len(got) == 0 || got[0].Type != ref.CONNACK || got[0].ReasonCode != 0 {
					h.violate("c08:reconnect-refused", "reconnect of p refused: %v", got)
					break
				}
				if !got[0].SessionPresent {
					// the session was not resumed: the in-progress exchanges are gone with it (C14's subject)
					count("session_not_present")
					m.held = map[uint16]string{}
					m.reconn = map[uint16]bool{}
					m.swept = map[uint16]bool{}
					if pq > 0 {
						m.pun, m.over = map[uint16]string{}, map[uint16]bool{}
						h.do("p", ref.Packet{Type: ref.SUBSCRIBE, PacketID: 901, Filters: []ref.Filter{{Filter: "t", Opts: pq}}})
					}
				}
				for id := range m.held {
					m.reconn[id] = true
				}
				collect("reconnect")
				recvP(got[1:], "reconnect")
			case "hk":
				m.hks++
				for id := range m.held {
					m.swept[id] = true
				}
				if len(m.held) > 0 {
					count("housekeeping_while_exchange_in_progress")
				}
				h.W.Tick(int64(tickS) * 1000)
				h.W.Housekeep()
				h.logf("clock +%ds, housekeeping at %d", tickS, h.W.Now())
				var pgot []ref.Packet
				if m.connected {
					pgot = h.poll("p")
					if h.Cl["p"].Closed() {
						h.violate("c08:connection-closed:housekeeping", "broker closed p's connection during housekeeping %d s later: %v", tickS, pgot)
					}
				}
				collect("housekeeping")
				recvP(pgot, "housekeeping")
			case "other":
				m.others++
				h.do("o", pub("t", fmt.Sprintf("o%d", m.others), 1, 77))
				collect("unrelated-publish")
				if m.connected {
					recvP(h.poll("p"), "unrelated-publish")
				}
			case "pack":
				count("deferred_acknowledgements_by_publisher")
				ackP()
				collect("publisher-acknowledges-deliveries")
			}
		})
		var next []string
		if m.connected {
			for id := uint16(1); id <= uint16(ids); id++ {
				if _, ok := m.held[id]; ok {
					if m.tx < maxTx {
						next = append(next, fmt.Sprintf("dup:%d", id))
					}
					next = append(next, fmt.Sprintf("rel:%d", id))
				} else if _, out := m.pun[id]; m.tx < maxTx && !out {
					next = append(next, fmt.Sprintf("pub:%d", id))
				}
			}
			if packOp && len(m.pend) > 0 {
				next = append(next, "pack")
			}
			if m.conns < maxRc {
				next = append(next, "drop")
			}
		} else {
			next = append(next, "rc")
		}
		if m.others < 1 {
			next = append(next, "other")
		}
		if m.hks < maxHk {
			next = append(next, "hk")
		}
		key := h.W.State() + "|" + m.String()
		r := h.finish(key, next)
		r.Counters = cnt
		return r
	}
}

func init() {
	explore.RegisterBFS("c08", c08Run)
	explore.Register("C08", func(c *explore.Ctx) {
		c.Rep.Level = "model_checking"
		c.Rep.Assumption("one client action at a time, broker run to quiescence under the deterministic default schedule (sequential histories)")
		c.Rep.Assumption("state = reflective dump of *Server plus reference-model state and pool counters; histories merged only if byte-identical")
		c.Rep.Assumption("housekeeping ops advance the virtual clock by at most 2x3600 s in total: far below the default MaximumMessageExpiryInterval (86400 s) and the session expiry, so the reference model treats them as no-ops")
		c.Rep.Assumption("a publisher that is also a subscriber never starts an exchange with the packet identifier of a delivery it has not yet acknowledged (client-initiated identifier collisions are C10's subject); identifiers the broker chooses are unconstrained")
		c.Rep.Assumption("forwarding may happen at PUBLISH or at PUBREL (unspecified); exactly one copy is required once PUBCOMP was received, more than one copy is never allowed")
		var sts []*explore.BFSStats
		if c.Quick() {
			// publisher that is also a subscriber: small spaces, first (the budgets add up to more than the tier's deadline on a loaded machine)
			sts = append(sts, explore.RunBFS(c, "c08", "v=5,sq=0,pq=1,ids=2,tx=4,rc=1", 0, 15*time.Second))
			sts = append(sts, explore.RunBFS(c, "c08", "v=4,sq=0,pq=2,pack=1,ids=2,tx=3,rc=1", 0, 15*time.Second))
			sts = append(sts, explore.RunBFS(c, "c08", "v=5,sq=0,ids=1,tx=5,rc=2", 0, 25*time.Second))
			sts = append(sts, explore.RunBFS(c, "c08", "v=4,sq=2,ids=1,tx=5,rc=2", 0, 20*time.Second))
			sts = append(sts, explore.RunBFS(c, "c08", "v=5,sq=2,ids=2,tx=5,rc=2", 0, 25*time.Second))
			sts = append(sts, explore.RunBFS(c, "c08", "v=5,sq=0,ids=1,tx=3,rc=1,hk=2", 0, 20*time.Second))
			sts = append(sts, explore.RunBFS(c, "c08", "v=4,sq=2,ids=1,tx=3,rc=1,hk=1,tick=3600", 0, 15*time.Second))
		} else {
			sts = append(sts, explore.RunBFS(c, "c08", "v=5,sq=0,ids=1,tx=6,rc=3", 0, 2*time.Minute))
			sts = append(sts, explore.RunBFS(c, "c08", "v=4,sq=2,ids=1,tx=6,rc=3", 0, 2*time.Minute))
			sts = append(sts, explore.RunBFS(c, "c08", "v=5,sq=2,ids=2,tx=6,rc=2", 0, 4*time.Minute))
			sts = append(sts, explore.RunBFS(c, "c08", "v=3,sq=0,ids=2,tx=5,rc=2", 0, 2*time.Minute))
			sts = append(sts, explore.RunBFS(c, "c08", "v=5,sq=0,ids=1,tx=4,rc=2,hk=2", 0, 2*time.Minute))
			sts = append(sts, explore.RunBFS(c, "c08", "v=4,sq=2,ids=2,tx=4,rc=1,hk=2,tick=3600", 0, 2*time.Minute))
			sts = append(sts, explore.RunBFS(c, "c08", "v=5,sq=2,pq=2,ids=2,tx=5,rc=2", 0, 2*time.Minute))
			sts = append(sts, explore.RunBFS(c, "c08", "v=5,sq=0,pq=1,pack=1,ids=3,tx=5,rc=2", 0, 2*time.Minute))
			sts = append(sts, explore.RunBFS(c, "c08", "v=4,sq=0,pq=2,pack=1,ids=2,tx=4,rc=1,hk=1", 0, 2*time.Minute))
		}
		var dups, dupsRc, dupsHk int64
		self := map[string]int64{}
		for _, st := range sts {
			for _, k := range []string{"deliveries_to_publisher_while_exchange_in_progress", "outbound_id_allocated_past_held_id", "outbound_delivery_carrying_held_id", "dup_retransmissions_by_subscribed_publisher", "dup_retransmissions_while_delivery_unacknowledged", "deferred_acknowledgements_by_publisher"} {
				self[k] += st.Counters[k]
			}
			dups += st.Counters["dup_retransmissions"]
			dupsRc += st.Counters["dup_retransmissions_after_reconnect"]
			dupsHk += st.Counters["dup_retransmissions_after_housekeeping"]
			c.Rep.Count("pubrel_after_housekeeping", st.Counters["pubrel_after_housekeeping"])
			c.Rep.Count("housekeeping_while_exchange_in_progress", st.Counters["housekeeping_while_exchange_in_progress"])
			c.Rep.Count("exchanges_completed", st.Counters["exchanges_completed"])
		}
		c.Rep.Count("dup_retransmissions", dups)
		c.Rep.Count("dup_retransmissions_after_reconnect", dupsRc)
		c.Rep.Count("dup_retransmissions_after_housekeeping", dupsHk)
		if (dups == 0 || dupsRc == 0) && os.Getenv("VERIF_SCEN") == "" {
			c.Rep.Add(explore.Violation{Key: "internal:vacuous", Msg: "no DUP retransmission (or none after a reconnect) was exercised"})
		}
		for k, v := range self {
			c.Rep.Count(k, v)
		}
		for _, k := range []string{"outbound_id_allocated_past_held_id", "dup_retransmissions_by_subscribed_publisher", "dup_retransmissions_while_delivery_unacknowledged"} {
			if self[k] == 0 && os.Getenv("VERIF_SCEN") == "" {
				c.Rep.Add(explore.Violation{Key: "internal:vacuous:" + k, Msg: "the scenarios with a publisher that is also a subscriber never produced the case '" + k + "'"})
			}
		}
		if dupsHk == 0 && os.Getenv("VERIF_SCEN") == "" {
			c.Rep.Add(explore.Violation{Key: "internal:vacuous:housekeeping", Msg: "no DUP retransmission after a housekeeping run was exercised"})
		}
	})
}
