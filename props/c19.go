package props

import (
	"errors"
	"fmt"
	"strings"
	"time"

	mqtt "github.com/mochi-mqtt/server/v2"
	"github.com/mochi-mqtt/server/v2/packets"

	"verif/explore"
	"verif/ref"
	"verif/world"
)

// C19: hook chain results are honoured consistently.
//
// E2 over a product of short histories (BFS depth 1: the root enumerates the cases, every
// case is one fresh broker execution in a worker process). Four families, stacks of 1..3
// scripted hooks registered after the allow-all recording hook (family auth/acl: instead
// of it):
//
//   pub:<ver>:<qos>:<retain>:<b1,b2,b3>     OnPublish behaviour per hook:
//        pass | tag (append "+i" to the payload it received) | top (append "/r<i>" to the topic it
//        received) | reject (packets.ErrRejectPacket) | ignore (packets.CodeSuccessIgnore) |
//        flag (marks the publish as ignored through the packet: sets Ignore on the packet it
//        returns, nil error; the chain goes on) |
//        code (packets.ErrPayloadFormatInvalid, a reason code >= 0x80) | plain (errors.New)
//     history: s subscribes '#' QoS2, p (protocol <ver>) publishes x/"m" at <qos> (PUBREL sent if a
//     successful PUBREC arrives), then t subscribes '#' (retained replay).
//     model: walk the stack in registration order; the first non-pass result that is an error ends
//     the chain: the message must be neither delivered nor retained; the same holds when no hook
//     ended the chain but some hook marked the packet as ignored (flag), whatever the later hooks
//     (which see the marked packet) modify. Otherwise s must receive exactly
//     one message whose payload/topic are the composition of all modifications in registration order.
//   read:<ver>:<kind>:<b1,b2,b3>            OnPacketRead behaviour per hook for packet <kind> in
//        {pub,sub,con}: pass | mod (pub: append "+i" to payload; sub: append "/i" to the filter) |
//        reject (ErrRejectPacket) | err (errors.New, packet returned unchanged)
//     model: any reject => the packet has no effect (no delivery/retention, no subscription, no
//     session). Otherwise, if no hook errs, the packet is processed with the modifications composed in
//     registration order; with an erring hook the property does not say whether processing continues:
//     either no effect or the composed effect is accepted.
//   auth:<ver>:<a1,a2,a3>                   OnConnectAuthenticate per hook: allow | deny | none (not provided)
//     model: admitted (CONNACK 0) iff some hook allows.
//   acl:<ver>:<c1,c2,c3>                    OnACLCheck per hook: all | deny | w (write only) | r (read only) | none
//     model: read permitted iff some hook allows read; write likewise. SUBACK success iff read;
//     a QoS1 publish by p is delivered to s iff read and write; retained iff write.
//
// Invocation order is recorded by the scripted hooks themselves: for every chain call the
// sequence of hook indices must be ascending.

type c19Hook struct {
	mqtt.HookBase
	n        int
	pub      string
	read     string
	readKind string
	auth     string
	acl      string
	calls    *[]string
}

func (h *c19Hook) ID() string { return fmt.Sprintf("c19-%d", h.n) }

func (h *c19Hook) Provides(b byte) bool {
	switch b {
	case mqtt.OnPublish:
		return h.pub != ""
	case mqtt.OnPacketRead:
		return h.read != ""
	case mqtt.OnConnectAuthenticate:
		return h.auth != "" && h.auth != "none"
	case mqtt.OnACLCheck:
		return h.acl != "" && h.acl != "none"
	}
	return false
}

func (h *c19Hook) note(what string) { *h.calls = append(*h.calls, fmt.Sprintf("%s%d", what, h.n)) }

var errC19Plain = errors.New("c19: plain hook error")

func (h *c19Hook) OnPublish(cl *mqtt.Client, pk packets.Packet) (packets.Packet, error) {
	h.note("P")
	switch h.pub {
	case "tag":
		pk.Payload = append(append([]byte{}, pk.Payload...), []byte(fmt.Sprintf("+%d", h.n))...)
	case "top":
		pk.TopicName += fmt.Sprintf("/r%d", h.n)
	case "flag":
		pk.Ignore = true
	case "reject":
		return pk, packets.ErrRejectPacket
	case "ignore":
		return pk, packets.CodeSuccessIgnore
	case "code":
		return pk, packets.ErrPayloadFormatInvalid
	case "plain":
		return pk, errC19Plain
	}
	return pk, nil
}

func (h *c19Hook) OnPacketRead(cl *mqtt.Client, pk packets.Packet) (packets.Packet, error) {
	var t byte
	switch h.readKind {
	case "pub":
		t = packets.Publish
	case "sub":
		t = packets.Subscribe
	case "con":
		t = packets.Connect
	}
	if pk.FixedHeader.Type != t || (t == packets.Publish && string(pk.Payload) == "probe") {
		return pk, nil
	}
	h.note("R")
	switch h.read {
	case "mod":
		switch t {
		case packets.Publish:
			pk.Payload = append(append([]byte{}, pk.Payload...), []byte(fmt.Sprintf("+%d", h.n))...)
		case packets.Subscribe:
			fs := append(packets.Subscriptions{}, pk.Filters...)
			for i := range fs {
				fs[i].Filter += fmt.Sprintf("/%d", h.n)
			}
			pk.Filters = fs
		}
	case "reject":
		return pk, packets.ErrRejectPacket
	case "err":
		return pk, errC19Plain
	}
	return pk, nil
}

func (h *c19Hook) OnConnectAuthenticate(cl *mqtt.Client, pk packets.Packet) bool {
	h.note("A")
	return h.auth == "allow"
}

func (h *c19Hook) OnACLCheck(cl *mqtt.Client, topic string, write bool) bool {
	if write {
		h.note("Cw")
	} else {
		h.note("Cr")
	}
	switch h.acl {
	case "all":
		return true
	case "w":
		return write
	case "r":
		return !write
	}
	return false
}

func c19Stacks(alpha []string, max int) []string {
	var out []string
	var rec func(cur []string)
	rec = func(cur []string) {
		if len(cur) > 0 {
			out = append(out, strings.Join(cur, ","))
		}
		if len(cur) == max {
			return
		}
		for _, a := range alpha {
			rec(append(append([]string{}, cur...), a))
		}
	}
	rec(nil)
	return out
}

func c19Cases(arg string) []string {
	var out []string
	max := 3
	vers := []string{"4", "5"}
	if strings.Contains(arg, "v3") {
		vers = []string{"3", "4", "5"}
	}
	fam := func(f string) bool { return strings.Contains(arg, f) || strings.Contains(arg, "all") }
	if fam("pub") {
		for _, st := range c19Stacks([]string{"pass", "tag", "top", "reject", "ignore", "flag", "code", "plain"}, max) {
			for _, v := range vers {
				for _, q := range []string{"0", "1", "2"} {
					for _, r := range []string{"0", "1"} {
						out = append(out, "pub:"+v+":"+q+":"+r+":"+st)
					}
				}
			}
		}
	}
	if fam("read") {
		for _, v := range vers {
			for _, st := range c19Stacks([]string{"pass", "mod", "reject", "err"}, max) {
				out = append(out, "read:"+v+":pub:"+st, "read:"+v+":sub:"+st)
			}
			for _, st := range c19Stacks([]string{"pass", "reject", "err"}, max) {
				out = append(out, "read:"+v+":con:"+st)
			}
		}
	}
	if fam("auth") {
		for _, v := range vers {
			for _, st := range c19Stacks([]string{"allow", "deny", "none"}, max) {
				out = append(out, "auth:"+v+":"+st)
			}
		}
	}
	if fam("acl") {
		for _, v := range vers {
			for _, st := range c19Stacks([]string{"all", "deny", "w", "r", "none"}, max) {
				out = append(out, "acl:"+v+":"+st)
			}
		}
	}
	return out
}

func c19Ascending(calls []string, prefix string) bool {
	last := 0
	for _, c := range calls {
		if !strings.HasPrefix(c, prefix) {
			continue
		}
		n := int(c[len(c)-1] - '0')
		if n <= last {
			return false
		}
		last = n
	}
	return true
}

func c19ErrClass(b string, ver byte, qos byte) string {
	switch b {
	case "code":
		if ver == 5 && qos > 0 {
			return "onpublish-code-error:v5-qos>0"
		}
		return "onpublish-code-error:not-v5-qos>0"
	case "plain":
		return "onpublish-plain-error"
	}
	return "onpublish-" + b
}

func c19Run(arg string) explore.HistFn {
	cases := c19Cases(arg)
	return func(hist []string) explore.HistResult {
		if len(hist) == 0 {
			return explore.HistResult{Key: "root:" + arg, Next: cases}
		}
		op := hist[0]
		f := fields(op)
		ver := byte(f[1][0] - '0')
		var calls []string
		counters := map[string]int{}
		mk := func(beh []string, set func(h *c19Hook, b string)) []mqtt.Hook {
			var hs []mqtt.Hook
			for i, b := range beh {
				hk := &c19Hook{n: i + 1, calls: &calls}
				set(hk, b)
				hs = append(hs, hk)
			}
			return hs
		}
		var h *H
		switch f[0] {
		case "pub":
			qos := byte(f[2][0] - '0')
			retain := f[3] == "1"
			beh := strings.Split(f[4], ",")
			h = newH(world.Config{Extra: mk(beh, func(hk *c19Hook, b string) { hk.pub = b })})
			h.last = true
			h.connect("s", world.ConnectPacket("s", 5, true))
			h.do("s", sub(1, "#", 2))
			h.connect("p", world.ConnectPacket("p", ver, true))
			calls = nil
			pk := pub("x", "m", qos, 0)
			if qos > 0 {
				pk.PacketID = 7
			}
			pk.Retain = retain
			got := h.do("p", pk)
			for _, g := range got {
				if g.Type == ref.PUBREC && g.ReasonCode < 0x80 {
					h.do("p", ref.Packet{Type: ref.PUBREL, PacketID: 7})
				}
			}
			// model
			wantPayload, wantTopic, failed, flagged := "m", "x", "", false
			for i, b := range beh {
				switch b {
				case "tag":
					wantPayload += fmt.Sprintf("+%d", i+1)
				case "top":
					wantTopic += fmt.Sprintf("/r%d", i+1)
				case "flag":
					flagged = true
				case "reject", "ignore", "code", "plain":
					failed = b
				}
				if failed != "" {
					break
				}
			}
			if failed == "" && flagged {
				// no hook ended the chain with an error, but one marked the packet as ignored
				failed = "ignore-flag"
				if wantPayload != "m" || wantTopic != "x" {
					failed = "ignore-flag-and-modified"
				}
				counters["publish-ignored-through-packet-flag"]++
			}
			var expCalls []string
			for i, b := range beh {
				expCalls = append(expCalls, fmt.Sprintf("P%d", i+1))
				if b == "reject" || b == "ignore" || b == "code" || b == "plain" {
					break
				}
			}
			if !c19Ascending(calls, "P") || (len(calls) > 0 && !c19Repeats(calls, "P", expCalls)) {
				h.violate("order:onpublish-not-in-registration-order", "%s: OnPublish invocations %v, model %v", op, calls, expCalls)
			}
			live := pubsOf(h.poll("s"))
			h.connect("t", world.ConnectPacket("t", 5, true))
			ret := pubsOf(h.do("t", sub(1, "#", 2)))
			if failed != "" {
				cls := c19ErrClass(failed, ver, qos)
				counters["publish-failed-in-chain"]++
				if len(live) > 0 {
					h.violate("forwarded:"+cls, "%s: hook chain ended with %q but subscriber received %v (publisher got %v)", op, failed, live, got)
				}
				if len(ret) > 0 {
					h.violate("retained:"+cls, "%s: hook chain ended with %q but a later subscriber received retained %v", op, failed, ret)
				}
			} else {
				counters["publish-passed-chain"]++
				if wantPayload != "m" || wantTopic != "x" {
					counters["publish-modified-by-chain"]++
				}
				switch {
				case len(live) == 0:
					h.violate("lost:all-hooks-pass", "%s: every hook passed the publish but the subscriber received nothing (publisher got %v, closed=%v)", op, got, h.Cl["p"].Closed())
				case len(live) > 1:
					h.violate("duplicate:all-hooks-pass", "%s: subscriber received %v", op, live)
				case string(live[0].Payload) != wantPayload || live[0].Topic != wantTopic:
					h.violate("passthrough:onpublish-modifications-not-composed", "%s: delivered %q/%q, model %q/%q (each hook must see the previous hook's output)", op, live[0].Topic, live[0].Payload, wantTopic, wantPayload)
				}
				for _, r := range ret {
					if string(r.Payload) != wantPayload || r.Topic != wantTopic {
						h.violate("passthrough:retained-copy-differs", "%s: retained copy %q/%q, model %q/%q", op, r.Topic, r.Payload, wantTopic, wantPayload)
					}
				}
			}
		case "read":
			kind := f[2]
			beh := strings.Split(f[3], ",")
			h = newH(world.Config{Extra: mk(beh, func(hk *c19Hook, b string) { hk.read = b; hk.readKind = kind })})
			h.last = true
			rejected, erring := false, false
			suffix := ""
			for i, b := range beh {
				switch b {
				case "reject":
					rejected = true
				case "err":
					erring = true
				case "mod":
					if kind == "pub" {
						suffix += fmt.Sprintf("+%d", i+1)
					} else {
						suffix += fmt.Sprintf("/%d", i+1)
					}
				}
			}
			// registration order only observable up to the first reject
			checkOrder := func() {
				if !c19Ascending(calls, "R") {
					h.violate("order:onpacketread-not-in-registration-order", "%s: OnPacketRead invocations %v", op, calls)
				}
			}
			if rejected {
				counters["read-rejected"]++
			} else if suffix != "" {
				counters["read-modified"]++
			}
			switch kind {
			case "pub":
				h.connect("s", world.ConnectPacket("s", 5, true))
				h.do("s", sub(1, "#", 1))
				h.connect("p", world.ConnectPacket("p", ver, true))
				pk := pub("x", "m", 1, 7)
				pk.Retain = true
				got := h.do("p", pk)
				checkOrder()
				live := pubsOf(h.poll("s"))
				h.connect("t", world.ConnectPacket("t", 5, true))
				ret := pubsOf(h.do("t", sub(1, "#", 1)))
				switch {
				case rejected:
					if len(live) > 0 || len(ret) > 0 {
						h.violate("processed:publish-rejected-on-read", "%s: rejected PUBLISH delivered %v retained %v", op, live, ret)
					}
					for _, g := range got {
						if g.Type == ref.PUBACK && g.ReasonCode < 0x80 {
							h.violate("processed:publish-rejected-on-read-acked-success", "%s: rejected PUBLISH acknowledged with success %v", op, g)
						}
					}
				case len(live) == 0 && erring:
					// unspecified
				case len(live) != 1:
					h.violate("lost:publish-passed-on-read", "%s: subscriber received %v (publisher got %v)", op, live, got)
				case string(live[0].Payload) != "m"+suffix:
					h.violate("passthrough:onpacketread-modifications-not-composed", "%s: delivered payload %q, model %q", op, live[0].Payload, "m"+suffix)
				}
			case "sub":
				h.connect("p", world.ConnectPacket("p", 4, true))
				h.connect("s", world.ConnectPacket("s", ver, true))
				got := h.do("s", sub(1, "x", 1))
				checkOrder()
				// probes: topics x, x/1, x/1/2 ... every composed prefix
				topics := []string{"x"}
				cur := "x"
				for i := range beh {
					for _, t := range append([]string{}, topics...) {
						topics = append(topics, fmt.Sprintf("%s/%d", t, i+1))
					}
					_ = cur
				}
				recv := map[string]bool{}
				for _, t := range topics {
					h.do("p", pub(t, "probe", 0, 0))
					for _, d := range pubsOf(h.poll("s")) {
						recv[d.Topic] = true
					}
				}
				want := "x" + suffix
				switch {
				case rejected:
					if len(recv) > 0 {
						h.violate("processed:subscribe-rejected-on-read", "%s: rejected SUBSCRIBE created a subscription: deliveries on %v", op, explore.SortedKeys(recv))
					}
					for _, g := range got {
						if g.Type == ref.SUBACK && len(g.ReasonCodes) > 0 && g.ReasonCodes[0] < 0x80 {
							h.violate("processed:subscribe-rejected-on-read-acked-success", "%s: rejected SUBSCRIBE got %v", op, g)
						}
					}
				case len(recv) == 0 && erring:
				case len(recv) != 1 || !recv[want]:
					h.violate("passthrough:onpacketread-modifications-not-composed", "%s: subscription effective for %v, model %q", op, explore.SortedKeys(recv), want)
				}
			case "con":
				got := h.connect("c", world.ConnectPacket("c", ver, true))
				checkOrder()
				ok := len(got) > 0 && got[0].Type == ref.CONNACK && got[0].ReasonCode == 0
				_, has := h.W.S.Clients.Get("c")
				switch {
				case rejected:
					if ok || has {
						h.violate("processed:connect-rejected-on-read", "%s: rejected CONNECT got %v, session exists=%v", op, got, has)
					}
				case !ok && !erring:
					h.violate("lost:connect-passed-on-read", "%s: CONNECT passed by every hook got %v", op, got)
				}
			}
		case "auth":
			beh := strings.Split(f[2], ",")
			h = newH(world.Config{NoHook: true, Extra: mk(beh, func(hk *c19Hook, b string) { hk.auth = b })})
			h.last = true
			allow := false
			for _, b := range beh {
				if b == "allow" {
					allow = true
				}
			}
			got := h.connect("c", world.ConnectPacket("c", ver, true))
			ok := len(got) > 0 && got[0].Type == ref.CONNACK && got[0].ReasonCode == 0
			_, has := h.W.S.Clients.Get("c")
			if allow {
				counters["auth-admitted"]++
			} else {
				counters["auth-refused"]++
			}
			if !c19Ascending(calls, "A") {
				h.violate("order:onconnectauthenticate-not-in-registration-order", "%s: invocations %v", op, calls)
			}
			switch {
			case allow && !ok:
				h.violate("auth:refused-although-a-hook-allows", "%s: got %v", op, got)
			case !allow && (ok || has):
				h.violate("auth:admitted-although-no-hook-allows", "%s: got %v session=%v", op, got, has)
			case !allow && !h.Cl["c"].Closed():
				h.violate("auth:refused-connection-left-open", "%s: got %v", op, got)
			}
		case "acl":
			beh := strings.Split(f[2], ",")
			hooks := mk(beh, func(hk *c19Hook, b string) { hk.acl = b })
			hooks[0].(*c19Hook).auth = "allow"
			h = newH(world.Config{NoHook: true, Extra: hooks})
			h.last = true
			read, write := false, false
			for _, b := range beh {
				read = read || b == "all" || b == "r"
				write = write || b == "all" || b == "w"
			}
			counters[fmt.Sprintf("acl-read=%v-write=%v", read, write)]++
			h.connect("s", world.ConnectPacket("s", ver, true))
			h.connect("p", world.ConnectPacket("p", ver, true))
			got := h.do("s", sub(1, "x", 1))
			granted := false
			for _, g := range got {
				if g.Type == ref.SUBACK && len(g.ReasonCodes) == 1 && g.ReasonCodes[0] < 0x80 {
					granted = true
				}
			}
			pk := pub("x", "m", 1, 7)
			pk.Retain = true
			pgot := h.do("p", pk)
			live := pubsOf(h.poll("s"))
			// a reader that certainly may read: only meaningful when read is permitted
			var ret []ref.Packet
			if read {
				h.connect("t", world.ConnectPacket("t", ver, true))
				ret = pubsOf(h.do("t", sub(1, "x", 1)))
			}
			for _, w := range []bool{true, false} {
				pre := "Cr"
				if w {
					pre = "Cw"
				}
				var exp []string
				for i, b := range beh {
					if b == "none" {
						continue
					}
					exp = append(exp, fmt.Sprintf("%s%d", pre, i+1))
					if b == "all" || (w && b == "w") || (!w && b == "r") {
						break
					}
				}
				if !c19Repeats(calls, pre, exp) {
					h.violate("order:onaclcheck-not-in-registration-order", "%s: invocations %v are not repetitions of %v", op, calls, exp)
				}
			}
			switch {
			case read && !granted:
				h.violate("acl:subscribe-refused-although-a-hook-allows-read", "%s: SUBSCRIBE got %v", op, got)
			case !read && granted:
				h.violate("acl:subscribe-granted-although-no-hook-allows-read", "%s: SUBSCRIBE got %v", op, got)
			}
			switch {
			case read && write && len(live) != 1:
				h.violate("acl:not-delivered-although-read-and-write-allowed", "%s: subscriber received %v (publisher got %v)", op, live, pgot)
			case !(read && write) && len(live) > 0:
				h.violate("acl:delivered-although-no-hook-allows", "%s: read=%v write=%v subscriber received %v", op, read, write, live)
			}
			if !write && len(ret) > 0 {
				h.violate("acl:retained-although-no-hook-allows-write", "%s: retained replay %v", op, ret)
			}
			if write && read && len(ret) != 1 {
				h.violate("acl:not-retained-although-write-allowed", "%s: retained replay %v", op, ret)
			}
		}
		res := h.finish("case:"+op, nil)
		res.Counters = counters
		return res
	}
}

// c19Repeats reports whether the calls with the prefix are a concatenation of copies of exp.
func c19Repeats(calls []string, prefix string, exp []string) bool {
	var got []string
	for _, c := range calls {
		if strings.HasPrefix(c, prefix) {
			got = append(got, c)
		}
	}
	if len(exp) == 0 {
		return len(got) == 0
	}
	if len(got)%len(exp) != 0 {
		return false
	}
	for i, g := range got {
		if g != exp[i%len(exp)] {
			return false
		}
	}
	return true
}

func init() {
	explore.RegisterBFS("c19", c19Run)
	explore.Register("C19", func(c *explore.Ctx) {
		c.Rep.Level = "model_checking"
		c.Rep.Assumption("each case is one sequential history on a fresh broker, run to quiescence under the deterministic default schedule")
		c.Rep.Assumption("hook behaviours are scripted test hooks (embedding mqtt.HookBase); error kinds: ErrRejectPacket, CodeSuccessIgnore, a reason code >= 0x80 (ErrPayloadFormatInvalid), a plain Go error")
		if c.Quick() {
			explore.RunBFS(c, "c19", "all", 1, 70*time.Second)
		} else {
			explore.RunBFS(c, "c19", "all,v3", 1, 10*time.Minute)
		}
	})
}
