package props

import (
	"time"

	"verif/explore"
)

// C12: two messages published by the same client to the same topic and delivered to the
// same non-shared subscriber at the same QoS have their FIRST transmissions in publish
// order, including messages held back by flow control and messages resent after a
// reconnection.
//
// Engine E2 with map-order exploration, scenario "c12" (alphabet and model:
// qos_helpers.go). p publishes m1..m3 on one topic to a (Receive Maximum 1 => flow-control
// deferral; undeclared => only offline queueing), a acknowledges step by step, drops,
// reconnects (clean start 0), takes over. The iteration order of the in-flight map inside
// Inflight.GetAll (used by the reconnect resend and by NextImmediate) is an explicit
// choice: every execution reports the GetAll choice points of its last op and all
// alternative orders (n! for n<=3 entries, 2n rotations/reversals beyond) are executed as
// "!alt" successors, each leading to its own successor states. Monitor: when a message is
// transmitted for the first time, no earlier-published message of the same QoS may still
// be untransmitted. All messages share one Created second (virtual clock), the common
// case in production; "tick" ops (thorough) also let Created differ and wrap uint16; one
// configuration lowers the maximum packet id to 3 so that identifiers wrap around.
//
// Backlog in the subscriber's outbound queue: "burst" ops let p send several PUBLISH
// packets (QoS 0 | 1 | 2; small and large payloads in the patterns sls, ssls, ...) in ONE
// network segment, so that under the sequential default schedule they are all queued for a
// before its writer runs; Options.ClientNetWriteBufferSize is 64 and a large payload
// exceeds it (buffered / direct-write paths of Client.WritePacket). QoS 0 messages are
// judged too: whichever of them arrive, arrive in publish order. Keys
// order:<how>:...:same-segment-burst[:large-overtakes-small], order:qos0:...
//
// Full outbound queue: "wpend=N" sets Capabilities.MaximumClientWritesPending to N, so that a
// same-segment burst longer than N finds a's outbound queue full (a's write loop lags behind
// the publisher's reader): the overflowing QoS 1/2 messages are reported as dropped
// (OnPublishDropped). A message may be missing, but if the broker transmits it later after
// all (deferred release, resend on session resumption, takeover), that is its first
// transmission and must not come after the first transmission of a message published after
// it. Key order:<how>:...:late-first-transmission-after-reported-drop:<write-queue-full |
// packet-ids-exhausted>. Non-vacuity: resumptions_after_write_queue_overflow_and_later_delivery.

func init() {
	explore.RegisterBFS("c12", qosRun("c12"))
	explore.Register("C12", func(c *explore.Ctx) {
		c.Rep.Level = "model_checking"
		c.Rep.Assumption("one client action at a time, broker run to quiescence under the deterministic default schedule; the iteration order of the in-flight map in Inflight.GetAll is enumerated (all permutations up to 3 entries, rotations and reversals beyond)")
		c.Rep.Assumption("state = reflective dump of *Server plus reference-model state and pool counters (plus the pre-state for ops with a map-order choice); histories merged only if byte-identical")
		var sts []*explore.BFSStats
		if c.Quick() {
			sts = append(sts, explore.RunBFS(c, "c12", "v=5,rm=0,pubs=4,qos=1,conns=1,wpend=2,bursts=sss", 0, 10*time.Second))
			sts = append(sts, explore.RunBFS(c, "c12", "v=4,pubs=3,qos=2,conns=1,wpend=1,bursts=ss", 0, 10*time.Second))
			sts = append(sts, explore.RunBFS(c, "c12", "v=5,rm=1,pubs=3,qos=1,conns=1,maps=1", 0, 25*time.Second))
			sts = append(sts, explore.RunBFS(c, "c12", "v=5,rm=0,pubs=3,qos=2,conns=1,take=1,maps=1", 0, 25*time.Second))
			sts = append(sts, explore.RunBFS(c, "c12", "v=4,pubs=3,qos=12,conns=1,maps=1", 0, 15*time.Second))
			sts = append(sts, explore.RunBFS(c, "c12", "v=5,rm=0,maxpid=3,pubs=4,qos=1,conns=1,maps=1", 0, 10*time.Second))
			sts = append(sts, explore.RunBFS(c, "c12", "v=5,rm=0,pubs=4,qos=01,conns=0,wbuf=64,bursts=sls.ssls", 0, 20*time.Second))
		} else {
			sts = append(sts, explore.RunBFS(c, "c12", "v=5,rm=1,pubs=3,qos=12,conns=2,take=1,maps=1", 0, 210*time.Second))
			sts = append(sts, explore.RunBFS(c, "c12", "v=5,rm=0,pubs=4,qos=12,conns=1,take=1,maps=1", 0, 150*time.Second))
			sts = append(sts, explore.RunBFS(c, "c12", "v=5,rm=2,pubs=4,qos=1,conns=1,maps=1,ticks=1", 0, 2*time.Minute))
			sts = append(sts, explore.RunBFS(c, "c12", "v=4,pubs=3,qos=12,conns=2,maps=1,ticks=1", 0, 2*time.Minute))
			sts = append(sts, explore.RunBFS(c, "c12", "v=5,rm=0,maxpid=3,pubs=5,qos=1,conns=1,maps=1", 0, 90*time.Second))
			sts = append(sts, explore.RunBFS(c, "c12", "v=5,rm=0,pubs=6,qos=012,conns=1,wbuf=64,bursts=sls.ssls.lsl.ls.sl,nbursts=2", 0, 90*time.Second))
			sts = append(sts, explore.RunBFS(c, "c12", "v=5,rm=1,pubs=4,qos=1,conns=1,wbuf=64,bursts=sls.ls,maps=1", 0, 60*time.Second))
			sts = append(sts, explore.RunBFS(c, "c12", "v=4,pubs=4,qos=01,conns=0,wbuf=64,bursts=sls.ssls", 0, 30*time.Second))
			sts = append(sts, explore.RunBFS(c, "c12", "v=5,rm=0,pubs=5,qos=1,conns=1,take=1,wpend=2,bursts=sss.ssss", 0, 60*time.Second))
			sts = append(sts, explore.RunBFS(c, "c12", "v=4,pubs=4,qos=2,conns=1,wpend=1,bursts=ss.sss,maps=1", 0, 45*time.Second))
			sts = append(sts, explore.RunBFS(c, "c12", "v=5,rm=2,pubs=4,qos=1,conns=1,wpend=1,bursts=ss.sss,maps=1", 0, 45*time.Second))
		}
		qosFold(c, sts, "first_tx_release", "first_tx_reconnect", "nondefault_getall_orders_executed", "bursts_backlogged_large_behind_small", "first_tx_qos0", "resumptions_after_write_queue_overflow_and_later_delivery")
	})
}
