package props

import (
	"fmt"
	"sort"
	"strings"
	"time"

	mqtt "github.com/mochi-mqtt/server/v2"
	"github.com/mochi-mqtt/server/v2/packets"

	"verif/explore"
	"verif/ref"
	"verif/world"
)

// C40: the inline client API (Server.Subscribe / Unsubscribe / Publish) behaves like a
// regular subscriber and publisher: an inline publish reaches every matching client and
// inline subscription (a trailing '#' matches the parent level); each client gets it at
// min(requested QoS, subscription QoS); an inline subscription first receives the matching
// retained messages, then live ones; unsubscribing one inline subscription stops delivery
// for that identifier only.
//
// E2 scenario "c40" (arg: pools "i<isubs>n<iunsubs>p<ipubs>s<subs>c<client pubs>", "full" = all QoS/retain combinations),
// Options.InlineClient = true, clients a (v5) and b (v3.1.1):
//   isub:<k>:<id>   Server.Subscribe(filter k, id, handler)    k: 1 x/#  2 x/+  3 x ; id 1|2
//   iunsub:<k>:<id> Server.Unsubscribe(filter k, id)           (also for an id that does not hold k)
//   ipub:<topic>:<retain>:<qos>  Server.Publish                 topic x | x/y, QoS 0..2
//   sub:<client>:<k>:<qos>       SUBSCRIBE by a or b
//   pub:<topic>:<retain>         PUBLISH QoS 1 by b
// API calls run as a broker thread to quiescence. Every handler is a distinct closure that
// records (its own filter and id, its generation = the number of the Subscribe call that
// registered it, the subscription passed, topic, payload). Server.Subscribe for a (filter, id)
// that is already subscribed REPLACES the subscription, as a client re-sending SUBSCRIBE does
// [MQTT-3.8.4-3]: the subscription made by the latest call (its handler) is the one that
// "first receives the matching retained messages and then live messages"; the handler of the
// replaced call must not be invoked any more.
//
// Reference model: inline subscriptions = set of (filter, id); client subscriptions
// (client, filter) -> QoS; retained topic -> (tag, QoS). An identifier plays the role a
// client id plays for ordinary subscriptions: if several subscriptions of one identifier
// match, at least one and at most each of them is invoked once (unspecified how many);
// different identifiers are independent.

type c40Call struct {
	own     string // "filter|id" of the handler that ran
	gen     int    // number of the Subscribe call that registered the handler that ran
	passed  string // "filter|id" of the subscription argument
	topic   string
	payload string
}

type c40Ret struct {
	tag string
	qos byte
}

type c40Model struct {
	isubs                              map[string]int  // "filter|id" -> generation of the current handler
	replaced                           map[string]bool // "filter|id" whose current handler replaced an earlier one (Subscribe while subscribed)
	subs                               map[string]byte // "client|filter" -> qos
	retained                           map[string]c40Ret
	nisub, niunsub, nipub, nsub, ncpub int
}

var c40Filters = map[string]string{"1": "x/#", "2": "x/+", "3": "x"}

func c40Run(arg string) explore.HistFn {
	lim := map[byte]int{'i': 2, 'n': 1, 'p': 1, 's': 1, 'c': 1}
	full := strings.Contains(arg, "full") // full QoS / retain alphabet
	for _, a := range strings.Split(arg, ",") {
		if len(a) == 10 && a[0] == 'i' {
			for j := 0; j < 10; j += 2 {
				lim[a[j]] = int(a[j+1] - '0')
			}
		}
	}
	return func(hist []string) explore.HistResult {
		h := newH(world.Config{Opts: func(o *mqtt.Options) { o.InlineClient = true }})
		m := &c40Model{isubs: map[string]int{}, replaced: map[string]bool{}, subs: map[string]byte{}, retained: map[string]c40Ret{}}
		cnt := map[string]int{}
		h.connect("a", world.ConnectPacket("a", 5, true))
		h.connect("b", world.ConnectPacket("b", 4, true))
		var calls []c40Call
		handler := func(filter string, id, gen int) mqtt.InlineSubFn {
			own := filter + "|" + itoa(id)
			return func(cl *mqtt.Client, sub packets.Subscription, pk packets.Packet) {
				calls = append(calls, c40Call{own, gen, sub.Filter + "|" + itoa(sub.Identifier), pk.TopicName, string(pk.Payload)})
			}
		}
		api := func(name string, fn func() error) {
			var err error
			done := false
			h.W.Spawn(name, func() { err = fn(); done = true })
			h.W.Run()
			if !done {
				h.violate("c40:api-call-blocked:"+name, "%s did not return", name)
			} else if err != nil {
				h.violate("c40:api-error:"+name, "%s returned %v", name, err)
			}
		}
		pid := uint16(100)

		// judgeLive checks the deliveries of one live message to inline subscriptions and clients.
		judgeLive := func(topic, tag string, q byte, via string, got map[string][]ref.Packet) {
			perID := map[int]int{}
			perSub := map[string]int{}
			for _, c := range calls {
				if c.payload != tag || c.topic != topic {
					h.violate("c40:inline-stray-invocation", "handler %s invoked with %q on %q while %s was published on %q", c.own, c.payload, c.topic, tag, topic)
					continue
				}
				if c.own != c.passed {
					h.violate("c40:inline-wrong-subscription-argument", "handler of %s invoked with subscription %s", c.own, c.passed)
				}
				if cur, ok := m.isubs[c.own]; ok && cur != c.gen {
					// the subscription exists, but this handler belongs to a Subscribe call that a later one replaced
					h.violate("c40:inline-replaced-handler-invoked:"+via, "%s on %q (%s): the handler registered by Subscribe call #%d for %s was invoked, but call #%d replaced it", tag, topic, via, c.gen, c.own, cur)
					continue
				}
				perSub[c.own]++
				var id int
				fmt.Sscan(c.own[strings.IndexByte(c.own, '|')+1:], &id)
				perID[id]++
			}
			for id := 1; id <= 2; id++ {
				var M []string
				for _, s := range explore.SortedKeys(m.isubs) {
					f := s[:strings.IndexByte(s, '|')]
					if strings.HasSuffix(s, "|"+itoa(id)) && ref.Match(f, topic) {
						M = append(M, s)
					}
				}
				n := perID[id]
				switch {
				case len(M) == 0 && n > 0:
					h.violate("c40:inline-unentitled:"+via, "identifier %d has no matching inline subscription for %q but was invoked %d times (inline subscriptions %v)", id, topic, n, explore.SortedKeys(m.isubs))
				case len(M) > 0 && n == 0:
					shape := filterShape(M[0][:strings.IndexByte(M[0], '|')], topic)
					for _, s := range M[1:] {
						if x := filterShape(s[:strings.IndexByte(s, '|')], topic); x != shape {
							shape = "overlap"
						}
					}
					for _, s := range M {
						if m.replaced[s] {
							shape = "resubscribed" // the current handler was registered over an existing subscription
						}
					}
					h.violate("c40:inline-missed:"+shape+":"+via, "%s on %q (%s): inline subscriptions %v of identifier %d match but no handler was invoked (all inline subscriptions %v)", tag, topic, via, M, id, explore.SortedKeys(m.isubs))
				case n > len(M):
					h.violate("c40:inline-duplicate:"+via, "identifier %d: %d invocations for %d matching subscriptions %v", id, n, len(M), M)
				}
				if len(M) > 0 {
					h.count(cnt, "inline_entitled", 1)
					if len(M) > 1 {
						h.count(cnt, "inline_same_id_overlap", 1)
					}
					for _, s := range M {
						if m.replaced[s] {
							h.count(cnt, "inline_entitled_resubscribed", 1)
							break
						}
					}
				}
			}
			for s, n := range perSub {
				if n > 1 {
					h.violate("c40:inline-duplicate:"+via, "handler of %s invoked %d times for %s", s, n, tag)
				}
				if _, ok := m.isubs[s]; !ok {
					h.violate("c40:inline-after-unsubscribe:"+via, "handler of %s invoked for %s although it is not subscribed (inline subscriptions %v)", s, tag, explore.SortedKeys(m.isubs))
				}
			}
			for _, cl := range []string{"a", "b"} {
				var M []string
				var hi byte
				for _, s := range explore.SortedKeys(m.subs) {
					if strings.HasPrefix(s, cl+"|") && ref.Match(s[2:], topic) {
						M = append(M, s[2:])
						if m.subs[s] > hi {
							hi = m.subs[s]
						}
					}
				}
				var mine []ref.Packet
				for _, p := range pubsOf(got[cl]) {
					if string(p.Payload) == tag {
						mine = append(mine, p)
					} else {
						h.violate("c40:client-stray-publish", "%s received %q while %s was published", cl, p.Payload, tag)
					}
				}
				if via == "client" && cl == "b" && len(M) > 0 {
					h.count(cnt, "client_own_message", 1)
				}
				switch {
				case len(M) == 0 && len(mine) > 0:
					h.violate("c40:client-unentitled:"+via, "%s received %s on %q without a matching subscription", cl, tag, topic)
				case len(M) > 0 && len(mine) == 0:
					h.violate("c40:client-missed:"+filterShape(M[0], topic)+":"+via, "%s on %q (%s): %s holds %v and received nothing", tag, topic, via, cl, M)
				case len(mine) > 1:
					h.violate("c40:client-duplicate:"+via, "%s received %s %d times", cl, tag, len(mine))
				case len(M) > 0:
					h.count(cnt, "client_deliveries", 1)
					if want := minb(q, hi); mine[0].Qos != want {
						dir := "low"
						if mine[0].Qos > want {
							dir = "high"
						}
						h.violate("c40:client-qos:"+dir+":"+via, "%s on %q requested QoS %d, %s subscribed at %d: delivered QoS %d, want %d", tag, topic, q, cl, hi, mine[0].Qos, want)
					} else if want < q {
						h.count(cnt, "client_deliveries_downgraded", 1)
					}
					if mine[0].Topic != topic {
						h.violate("c40:client-altered-topic", "%s delivered on %q", tag, mine[0].Topic)
					}
				}
			}
		}

		runHist(h, hist, func(op string) {
			f := fields(op)
			calls = nil
			switch f[0] {
			case "isub":
				filter := c40Filters[f[1]]
				id := int(f[2][0] - '0')
				m.nisub++
				gen := m.nisub
				api("Subscribe", func() error { return h.W.S.Subscribe(filter, id, handler(filter, id, gen)) })
				h.logf("Subscribe(%s,%d) #%d -> calls %v", filter, id, gen, calls)
				own := filter + "|" + itoa(id)
				if _, held := m.isubs[own]; held {
					m.replaced[own] = true
					h.count(cnt, "inline_resubscribed", 1)
				}
				m.isubs[own] = gen
				seen := map[string]int{}
				for _, c := range calls {
					if c.own != own {
						h.violate("c40:inline-retained-to-other-handler", "Subscribe(%s,%d) invoked the handler of %s", filter, id, c.own)
						continue
					}
					if c.gen != gen {
						h.violate("c40:inline-retained-to-replaced-handler", "Subscribe(%s,%d) call #%d handed %s on %q to the handler registered by call #%d", filter, id, gen, c.payload, c.topic, c.gen)
						continue
					}
					seen[c.topic+"="+c.payload]++
				}
				for t, r := range m.retained {
					if !ref.Match(filter, t) {
						continue
					}
					h.count(cnt, "inline_retained_due", 1)
					k := t + "=" + r.tag
					if seen[k] == 0 {
						h.violate("c40:inline-retained-missed:"+filterShape(filter, t), "Subscribe(%s,%d): retained %s on %q was not handed to the handler (retained %v, calls %v)", filter, id, r.tag, t, m.retained, calls)
					} else if seen[k] > 1 {
						h.violate("c40:inline-retained-duplicate", "Subscribe(%s,%d): retained %s handed over %d times", filter, id, r.tag, seen[k])
					}
					delete(seen, k)
				}
				for k := range seen {
					h.violate("c40:inline-retained-unexpected", "Subscribe(%s,%d): handler received %s which is not a matching retained message (retained %v)", filter, id, k, m.retained)
				}
				for cl, g := range h.settle(true) {
					if len(pubsOf(g)) > 0 {
						h.violate("c40:client-stray-publish", "%s received %v during Server.Subscribe", cl, g)
					}
				}
			case "iunsub":
				filter := c40Filters[f[1]]
				id := int(f[2][0] - '0')
				m.niunsub++
				api("Unsubscribe", func() error { return h.W.S.Unsubscribe(filter, id) })
				h.logf("Unsubscribe(%s,%d)", filter, id)
				if _, ok := m.isubs[filter+"|"+itoa(id)]; ok {
					h.count(cnt, "inline_unsubscribed", 1)
				} else {
					h.count(cnt, "inline_unsubscribe_of_other_id", 1)
				}
				delete(m.isubs, filter+"|"+itoa(id))
				delete(m.replaced, filter+"|"+itoa(id))
				if len(calls) > 0 {
					h.violate("c40:inline-stray-invocation", "Unsubscribe(%s,%d) invoked handlers: %v", filter, id, calls)
				}
			case "ipub":
				topic, retain := f[1], f[2] == "1"
				q := f[3][0] - '0'
				m.nipub++
				tag := "i" + itoa(m.nipub)
				api("Publish", func() error { return h.W.S.Publish(topic, []byte(tag), retain, q) })
				h.logf("Publish(%s,%s,retain=%v,q%d) -> calls %v", topic, tag, retain, q, calls)
				got := h.settle(true)
				if retain {
					m.retained[topic] = c40Ret{tag, q}
				}
				judgeLive(topic, tag, q, "inline", got)
			case "pub":
				topic, retain := f[1], f[2] == "1"
				m.ncpub++
				tag := "c" + itoa(m.ncpub)
				pid++
				pk := pub(topic, tag, 1, pid)
				pk.Retain = retain
				h.Cl["b"].Send(pk)
				h.logf("b: -> %s", pk)
				h.W.Run()
				h.logf("calls %v", calls)
				got := h.settle(true)
				if retain {
					m.retained[topic] = c40Ret{tag, 1}
				}
				judgeLive(topic, tag, 1, "client", got)
			case "sub":
				cl, filter := f[1], c40Filters[f[2]]
				q := f[3][0] - '0'
				m.nsub++
				pid++
				h.Cl[cl].Send(sub(pid, filter, q))
				h.W.Run()
				got := h.settle(true)[cl]
				m.subs[cl+"|"+filter] = q
				if len(got) == 0 || got[0].Type != ref.SUBACK || len(got[0].ReasonCodes) != 1 || got[0].ReasonCodes[0] != q {
					h.violate("c40:subscribe-not-granted", "SUBSCRIBE %s q%d by %s: %v", filter, q, cl, got)
					return
				}
				seen := map[string]ref.Packet{}
				dup := false
				for _, p := range pubsOf(got[1:]) {
					k := p.Topic + "=" + string(p.Payload)
					if _, ok := seen[k]; ok {
						dup = true
					}
					seen[k] = p
				}
				if dup {
					h.violate("c40:client-retained-duplicate", "SUBSCRIBE %s by %s: %v", filter, cl, got)
				}
				for t, r := range m.retained {
					if !ref.Match(filter, t) {
						continue
					}
					k := t + "=" + r.tag
					p, ok := seen[k]
					delete(seen, k)
					origin := "inline"
					if r.tag[0] == 'c' {
						origin = "client"
					}
					if !ok {
						h.violate("c40:client-retained-missed:"+filterShape(filter, t)+":"+origin, "SUBSCRIBE %s by %s: retained %s on %q (published by %s) not delivered; retained %v got %v", filter, cl, r.tag, t, origin, m.retained, got)
						continue
					}
					h.count(cnt, "client_retained_deliveries_"+origin, 1)
					if want := minb(r.qos, q); p.Qos != want {
						h.violate("c40:client-retained-qos:"+origin, "retained %s (QoS %d) to %s subscribed at %d: delivered QoS %d, want %d", r.tag, r.qos, cl, q, p.Qos, want)
					}
				}
				for k := range seen {
					h.violate("c40:client-retained-unexpected", "SUBSCRIBE %s by %s: received %s which is not a matching retained message (retained %v)", filter, cl, k, m.retained)
				}
				if len(calls) > 0 {
					h.violate("c40:inline-stray-invocation", "client SUBSCRIBE invoked inline handlers: %v", calls)
				}
			}
		})

		var next []string
		pubsLeft := m.nipub < lim['p'] || m.ncpub < lim['c']
		if m.nipub < lim['p'] {
			for _, t := range []string{"x", "x/y"} {
				next = append(next, "ipub:"+t+":0:1", "ipub:"+t+":0:2", "ipub:"+t+":1:1")
			}
			if full {
				next = append(next, "ipub:x:0:0", "ipub:x/y:0:0", "ipub:x:1:2", "ipub:x/y:1:2")
			}
		}
		if m.ncpub < lim['c'] {
			next = append(next, "pub:x:0", "pub:x/y:1", "pub:x:1")
			if full {
				next = append(next, "pub:x/y:0")
			}
		}
		observable := pubsLeft || len(m.retained) > 0
		if m.nisub < lim['i'] && observable {
			for _, k := range []string{"1", "2", "3"} {
				next = append(next, "isub:"+k+":1", "isub:"+k+":2")
			}
		}
		if m.niunsub < lim['n'] && pubsLeft {
			for _, k := range []string{"1", "2", "3"} {
				f := c40Filters[k]
				if m.isubs[f+"|1"] > 0 || m.isubs[f+"|2"] > 0 {
					next = append(next, "iunsub:"+k+":1", "iunsub:"+k+":2")
				}
			}
		}
		if m.nsub < lim['s'] && observable {
			for _, k := range []string{"1", "2", "3"} {
				next = append(next, "sub:a:"+k+":0", "sub:a:"+k+":2", "sub:b:"+k+":1")
				if full {
					next = append(next, "sub:a:"+k+":1")
				}
			}
		}
		sort.Strings(next)
		key := h.W.State() + fmt.Sprintf("|model:%v|repl%v|%v|%v|%d,%d,%d,%d,%d", explore.SortedKeys(m.isubs), explore.SortedKeys(m.replaced), m.subs, m.retained, m.nisub, m.niunsub, m.nipub, m.nsub, m.ncpub)
		r := h.finish(key, next)
		r.Counters = cnt
		return r
	}
}

// E3 scenario "c40race" (arg "<publisher>:<qos>[:old]"): Server.Subscribe("x/#", 1, h) runs
// concurrently with ONE retained publish "new" on x/y (by client b or by Server.Publish);
// with ":old" a retained message on x/z is stored beforehand, so that the replay has
// something to hand over. Whatever the order, the handler must be given "new" at least
// once: as a live message if the subscription came first, as a retained replay if the
// publish came first - there is no serial order in which it is lost. A probe published
// after quiescence must reach the handler exactly once. (Order between the replay of
// "old" and a live "new" is not judged: they are different topics.)
func c40Race(arg string) explore.RunFn {
	f := strings.Split(arg, ":")
	who, qos := f[0], byte(f[1][0]-'0')
	return func(prefix []int) explore.Outcome {
		w := world.New(prefix, world.Config{Opts: func(o *mqtt.Options) { o.InlineClient = true }})
		defer w.End()
		b := w.Connect(world.ConnectPacket("b", 4, true))
		if len(f) > 2 {
			old := pub("x/z", "old", 1, 1)
			old.Retain = true
			b.Do(old)
			b.Poll()
		}
		var got []string
		handler := func(cl *mqtt.Client, sub packets.Subscription, pk packets.Packet) {
			got = append(got, fmt.Sprintf("%s=%s(ret=%v)", pk.TopicName, pk.Payload, pk.FixedHeader.Retain))
		}
		var subErr, pubErr error
		w.Spawn("api-subscribe", func() { subErr = w.S.Subscribe("x/#", 1, handler) })
		if who == "inline" {
			w.Spawn("api-publish", func() { pubErr = w.S.Publish("x/y", []byte("new"), true, qos) })
		} else {
			nw := pub("x/y", "new", qos, 2)
			nw.Retain = true
			b.Send(nw)
		}
		w.Explore(true)
		w.Run()
		w.Explore(false)
		b.Poll()
		o := explore.Outcome{Points: w.X.Points, Divergence: w.X.Divergence(), Steps: w.X.Steps(), Counters: map[string]int{}}
		o.Viol = runtimeViolations(w)
		if subErr != nil || pubErr != nil {
			o.Viol = append(o.Viol, explore.Violation{Key: "c40:race:api-error", Msg: fmt.Sprintf("Subscribe: %v, Publish: %v", subErr, pubErr)})
		}
		n, live, replay := 0, 0, 0
		for _, g := range got {
			if strings.HasPrefix(g, "x/y=new") {
				n++
				if strings.HasSuffix(g, "(ret=true)") {
					replay++
				} else {
					live++
				}
			}
		}
		switch {
		case n == 0:
			o.Viol = append(o.Viol, explore.Violation{Key: "c40:race:retained-publish-concurrent-with-subscribe-never-delivered", Msg: fmt.Sprintf("Server.Subscribe(x/#) concurrent with a retained publish on x/y (%s): the handler got neither the live message nor its retained replay: %v", arg, got)})
		case n == 1:
			o.Counters["race_new_delivered_once"]++
		default:
			o.Counters["race_new_delivered_live_and_replayed"]++
		}
		if len(f) > 2 {
			olds := 0
			for _, g := range got {
				if strings.HasPrefix(g, "x/z=old") {
					olds++
				}
			}
			if olds != 1 {
				o.Viol = append(o.Viol, explore.Violation{Key: "c40:race:stored-retained-not-replayed-once", Msg: fmt.Sprintf("retained x/z=old stored before Subscribe was handed over %d times: %v", olds, got)})
			}
		}
		base := len(got)
		b.Do(pub("x/y", "probe", 0, 0))
		if len(got)-base != 1 {
			o.Viol = append(o.Viol, explore.Violation{Key: "c40:race:probe-after-quiescence", Msg: fmt.Sprintf("probe published after Subscribe returned was delivered %d times: %v", len(got)-base, got[base:])})
		}
		o.Obs = strings.Join(got, " ")
		return o
	}
}

func init() {
	explore.RegisterBFS("c40", c40Run)
	explore.RegisterDFS("c40race", c40Race)
	explore.Register("C40", func(c *explore.Ctx) {
		c.Rep.Level = "model_checking"
		c.Rep.Assumption("one API call or client packet at a time, broker run to quiescence under the deterministic default schedule; API calls run as a broker thread")
		c.Rep.Assumption("several inline subscriptions under one identifier that match the same message: between one and all of them are invoked (the identifier plays the role of a client id); different identifiers are independent")
		type sc struct {
			arg    string
			budget time.Duration
		}
		scen := []sc{{"i2n1p1s0c1", 15 * time.Second}, {"i1n0p1s1c0,full", 10 * time.Second}, {"i2n1p1s1c0", 40 * time.Second}}
		if !c.Quick() {
			scen = []sc{{"i2n1p1s1c1", 4 * time.Minute}, {"i3n1p2s0c1", 3 * time.Minute}, {"i1n1p1s2c0,full", 3 * time.Minute}}
		}
		bounds := []explore.Bounds{{Preempt: 0}, {Preempt: 1}, {Preempt: 2}}
		if !c.Quick() {
			bounds = append(bounds, explore.Bounds{Preempt: 3})
		}
		for _, ra := range []string{"client:0", "client:1:old", "inline:0:old", "inline:1"} {
			explore.IterateDFS(c, "c40race", ra, bounds, 10*time.Second)
		}
		c.Rep.Assumption("c40race: Server.Subscribe concurrent with one retained publish, all interleavings up to the delay bound; only 'delivered at least once' and 'stored retained replayed exactly once' are judged, not the relative order of replay and live delivery")
		tot := map[string]int64{}
		for _, s := range scen {
			if c.Expired() {
				c.Rep.Capped("scenario c40/" + s.arg + " not started (deadline)")
				continue
			}
			st := explore.RunBFS(c, "c40", s.arg, 0, s.budget)
			for k, v := range st.Counters {
				tot[k] += v
			}
		}
		for k, v := range tot {
			c.Rep.Count("c40_"+k, v)
		}
		if fullRun() && c.Rep.Get("transitions") > 0 {
			for _, k := range []string{"inline_entitled", "client_deliveries", "client_deliveries_downgraded", "inline_retained_due", "inline_unsubscribed", "inline_unsubscribe_of_other_id", "inline_resubscribed", "inline_entitled_resubscribed"} {
				if tot[k] == 0 {
					c.Rep.Add(explore.Violation{Key: "internal:vacuous:" + k, Msg: fmt.Sprintf("C40 never exercised %s: %v", k, tot)})
				}
			}
		}
	})
}
