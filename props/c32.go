package props

import (
	"strings"
	"time"

	"verif/explore"
	"verif/world"
)

// C32: the broker never deadlocks; no code path re-acquires a read lock it holds.
//
// Scenario "c32": the standard base (a holds one unacknowledged QoS 1 message, send quota
// left) then the actions named in arg run concurrently; every interleaving up to the
// preemption bound is executed. Oracle: scheduler deadlock predicate, the RWMutex
// re-entrancy monitor, panics, and a post-run service probe.

func c32Run(arg string) explore.RunFn {
	acts := splitActs(arg)
	return func(prefix []int) explore.Outcome {
		e := concSetup(prefix, world.Config{})
		w := e.W
		defer w.End()
		for _, a := range acts {
			concActions[a](e)
		}
		w.Explore(true)
		w.Run()
		w.Explore(false)
		o := explore.Outcome{Points: w.X.Points, Divergence: w.X.Divergence(), Steps: w.X.Steps(), StepLog: w.X.StepLog}
		o.Viol = runtimeViolations(w)
		o.Viol = append(o.Viol, e.shutdownViolations()...)
		if e.Closed {
			o.Counters = map[string]int{"close_returned": 0, "close_blocked": 0}
			if e.CloseReturned {
				o.Counters["close_returned"] = 1
			} else {
				o.Counters["close_blocked"] = 1
			}
		}
		if len(o.Viol) == 0 {
			o.Viol = append(o.Viol, e.probe()...)
			o.Viol = append(o.Viol, runtimeViolations(w)...)
		}
		o.Obs = e.obs()
		return o
	}
}

var c32Pairs = []string{
	"pingA+pubB", "close+connC", "ackA+pubB", "pubB+subA", "pubB+takeA", "pubB+takeAc", "pubB+hk", "pubB+close",
	"subA+takeA", "takeA+hk", "takeA+close", "hk+close", "discA+pubB", "dropA+pubB", "unsubA+pubB", "pubA2+pubB",
	"discA+takeA", "dropA+takeA", "subA+close", "sys+pubB", "sys+subA", "connC+pubB", "pingA+ackA", "dropA+hk",
}

var c32Triples = []string{
	"pingA+pubB+ackA", "pubB+takeA+hk", "pubB+subA+close", "takeA+connC+close", "pubB+dropA+takeA", "pubA2+pubB+ackA", "discA+takeA+pubB", "hk+sys+pubB",
	"close+connD", "close+connC+connD", "close+takeAc",
}

// c32Fault: the sequential write-fault / refused-packet histories of C34 judged only by the
// lock monitors (a lock leaked on an error path blocks every later user of that client).
func c32Fault(arg string) explore.HistFn {
	inner := c34Run(arg)
	return func(hist []string) explore.HistResult {
		r := inner(hist)
		var keep []explore.Violation
		for _, v := range r.Viol {
			if strings.HasPrefix(v.Key, "deadlock:") || strings.HasPrefix(v.Key, "reentrant-rlock:") || strings.HasPrefix(v.Key, "unlock-unlocked") {
				keep = append(keep, v)
			}
		}
		r.Viol = keep
		return r
	}
}

func init() {
	explore.RegisterBFS("c32fault", c32Fault)
	explore.RegisterDFS("c32", c32Run)
	explore.Register("C32", func(c *explore.Ctx) {
		c.Rep.Level = "model_checking"
		c.Rep.Assumption("threads are serialised by the cooperative scheduler (sequentially consistent interleavings only); sync.RWMutex modelled with writer preference as in the Go runtime")
		c.Rep.Assumption("scheduling points: every Lock/RLock, atomic operation on non-statistics fields, Once, WaitGroup, channel statement, goroutine start, connection Read/Write/Close/Accept")
		scen := append([]string{}, c32Pairs...)
		// the first bound is always run to its budget; bound 1 contains the default schedule, a
		// separate pass for bound 0 only costs a round of worker start-ups on a loaded machine
		bounds := []explore.Bounds{{Preempt: 1}, {Preempt: 2}}
		per := 4 * time.Second
		if !c.Quick() {
			scen = append(scen, c32Triples...)
			bounds = append(bounds, explore.Bounds{Preempt: 3})
			per = 20 * time.Second
		}
		explore.RunBFS(c, "c32fault", "wb=64,pend=8,mps=48", 4, 12*time.Second)
		for _, s := range scen {
			if c.Expired() {
				c.Rep.Capped("scenario " + s + " not started (deadline)")
				continue
			}
			explore.IterateDFS(c, "c32", s, bounds, per)
		}
	})
}
