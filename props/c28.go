package props

import (
	"fmt"
	"sort"
	"strings"
	"time"

	mqtt "github.com/mochi-mqtt/server/v2"
	"github.com/mochi-mqtt/server/v2/packets"

	"verif/explore"
	"verif/ref"
	"verif/world"
)

// C28: no client byte stream crashes the broker or disturbs other clients; oversize
// packets are refused before their body is processed.
//
// E1 through live connections: each case is one broker execution with a reference
// client r (subscribed to x, one message before and after) and an attacker connection
// that sends {nothing | CONNECT v4 | CONNECT v5} followed by one byte stream of the domain:
//  (i)  every first byte 0..255 × 10 remaining-length encodings × bodies over {00,01,FF}
//       (complete, truncated) — MaximumPacketSize 64 puts declared lengths on both sides;
//  (ii) every vector of packets.TPacketData: every truncation and every single-byte
//       substitution from a byte alphabet at every offset.
//  (iv) well-formed PUBLISH (retained) / SUBSCRIBE / UNSUBSCRIBE sequences whose topic names
//       and filters have boundary shapes (empty levels, $-levels, wildcards everywhere).
// Threads run under the scheduler, so a panic in a connection goroutine is caught and attributed.

type c28Input struct {
	Prelude byte // 0 none, 4, 5, 6 (v5 with a huge client Maximum Packet Size)
	Bytes   []byte
	Desc    string
	RefID   bool // the stream is a CONNECT with the reference client's identifier
}

var c28RLs = [][]byte{{0x00}, {0x01}, {0x02}, {0x03}, {0x3f}, {0x40}, {0x7f}, {0x80, 0x01}, {0xff, 0xff, 0xff, 0x7f}, {0x80, 0x80, 0x80, 0x80, 0x01}}

func c28RLValue(b []byte) int {
	v, m := 0, 1
	for _, c := range b {
		v += int(c&0x7f) * m
		m *= 128
	}
	return v
}

func c28DomainI() []c28Input {
	var out []c28Input
	fills := []byte{0x00, 0x01, 0xff}
	for h := 0; h < 256; h++ {
		for _, rl := range c28RLs {
			n := c28RLValue(rl)
			var bodies [][]byte
			switch {
			case n == 0:
				bodies = [][]byte{{}}
			case n <= 2:
				var rec func(cur []byte)
				rec = func(cur []byte) {
					if len(cur) == n {
						bodies = append(bodies, append([]byte{}, cur...))
						return
					}
					for _, f := range fills {
						rec(append(cur, f))
					}
				}
				rec(nil)
				bodies = append(bodies, []byte{}) // truncated
			default:
				m := n
				if m > 200 {
					m = 200 // never send more than 200 body bytes; the declared length stays
				}
				for _, f := range fills {
					bodies = append(bodies, bytesOf(f, m), bytesOf(f, m/2))
				}
			}
			for _, b := range bodies {
				in := append(append([]byte{byte(h)}, rl...), b...)
				for _, pre := range []byte{0, 4, 5} {
					out = append(out, c28Input{Prelude: pre, Bytes: in, Desc: fmt.Sprintf("hdr=%02x rl=%x body=%d", h, rl, len(b))})
				}
				if n > 64 && len(b) > 0 && b[0] == 0 {
					out = append(out, c28Input{Prelude: 6, Bytes: in, Desc: fmt.Sprintf("hdr=%02x rl=%x body=%d after CONNECT with client max packet size 2^24", h, rl, len(b))})
				}
			}
		}
	}
	return out
}

func bytesOf(f byte, n int) []byte {
	b := make([]byte, n)
	for i := range b {
		b[i] = f
	}
	return b
}

func c28DomainII(deep bool) []c28Input {
	alpha := []byte{0x00, 0x7f, 0x80, 0xff}
	if deep {
		alpha = []byte{0x00, 0x01, 0x02, 0x04, 0x0b, 0x21, 0x26, 0x7f, 0x80, 0xc2, 0xff, 0x10}
	}
	var out []c28Input
	var types []int
	for t := range packets.TPacketData {
		types = append(types, int(t))
	}
	sort.Ints(types)
	for _, t := range types {
		for _, tc := range packets.TPacketData[byte(t)] {
			raw := tc.RawBytes
			if len(raw) == 0 || len(raw) > 120 {
				continue
			}
			pre := byte(4)
			if tc.Packet != nil && tc.Packet.ProtocolVersion == 5 {
				pre = 5
			}
			if byte(t) == packets.Connect {
				pre = 0
			}
			name := fmt.Sprintf("%s#%d", packets.PacketNames[byte(t)], tc.Case)
			out = append(out, c28Input{Prelude: pre, Bytes: raw, Desc: name + " verbatim"})
			for k := 1; k < len(raw); k++ {
				out = append(out, c28Input{Prelude: pre, Bytes: raw[:k], Desc: fmt.Sprintf("%s trunc@%d", name, k)})
				if k >= 2 && raw[1] < 0x80 {
					// truncated body with a matching remaining length: a complete, shorter packet
					m := append([]byte{}, raw[:k]...)
					m[1] = byte(k - 2)
					out = append(out, c28Input{Prelude: pre, Bytes: m, Desc: fmt.Sprintf("%s cut@%d", name, k)})
				}
			}
			for off := 0; off < len(raw); off++ {
				for _, a := range alpha {
					if raw[off] == a {
						continue
					}
					m := append([]byte{}, raw...)
					m[off] = a
					out = append(out, c28Input{Prelude: pre, Bytes: m, Desc: fmt.Sprintf("%s subst@%d=%02x", name, off, a)})
				}
			}
		}
	}
	return out
}

// c28DomainIII: first packets that are CONNECTs carrying the identifier of the connected
// reference client "r": all 256 flag bytes x protocol versions 3..6 x payload sections
// consistent with the flags / cut short. A refused CONNECT must not disturb r.
func c28DomainIII() []c28Input {
	var out []c28Input
	for ver := byte(3); ver <= 6; ver++ {
		for fl := 0; fl < 256; fl++ {
			f := byte(fl)
			p := world.ConnectPacket("r", ver, f&2 != 0)
			p.WillFlag = f&4 != 0
			p.WillTopic, p.WillPayload = "w", []byte("wp")
			p.UserFlag, p.PassFlag = f&0x80 != 0, f&0x40 != 0
			p.Username, p.Password = []byte("u"), []byte("p")
			enc := ver
			if enc > 5 {
				enc = 5
			}
			full := ref.Encode(p, enc, ref.EncOpts{RawConnectFlags: &f})
			out = append(out, c28Input{Prelude: 0, Bytes: full, Desc: fmt.Sprintf("CONNECT id=r v%d flags=%02x", ver, f), RefID: true})
			if len(full) > 16 && fl%8 == 0 {
				cut := append([]byte{}, full[:len(full)-2]...)
				cut[1] = byte(len(cut) - 2)
				out = append(out, c28Input{Prelude: 0, Bytes: cut, Desc: fmt.Sprintf("CONNECT id=r v%d flags=%02x cut", ver, f), RefID: true})
			}
		}
	}
	return out
}

// c28DomainIV: WELL-FORMED packets whose topic names and filters have boundary shapes (empty
// levels, leading/trailing separators, $-prefixed levels, wildcards in every position): a
// retained PUBLISH to T followed by SUBSCRIBE F (+UNSUBSCRIBE F), and SUBSCRIBE F followed
// by PUBLISH T, for every T over {x,”,$s} and F over {x,”,+,#,$s} to depth 2 (T to depth 3).
// Valid traffic must not crash the broker either.
func c28DomainIV() []c28Input {
	var topics, filters []string
	var gen func(tokens []string, depth int, cur []string, out *[]string)
	gen = func(tokens []string, depth int, cur []string, out *[]string) {
		if len(cur) > 0 {
			*out = append(*out, strings.Join(cur, "/"))
		}
		if len(cur) == depth {
			return
		}
		for _, t := range tokens {
			gen(tokens, depth, append(append([]string{}, cur...), t), out)
		}
	}
	gen([]string{"x", "", "$s"}, 3, nil, &topics)
	gen([]string{"x", "", "+", "#", "$s"}, 2, nil, &filters)
	filters = append(filters, "+/x/#", "#/x", "+/+/+", "x/+/#", "/+/#", "$share/g/#", "$share/g/+/x", "$share//x", "$share/g/")
	var out []c28Input
	for _, ver := range []byte{4, 5} {
		for _, t := range topics {
			p := pub(t, "m", 0, 0)
			p.Retain = true
			pb := ref.Encode(p, ver, ref.EncOpts{})
			for _, f := range filters {
				sb := ref.Encode(sub(9, f, 1), ver, ref.EncOpts{})
				ub := ref.Encode(ref.Packet{Type: ref.UNSUBSCRIBE, PacketID: 10, Filters: []ref.Filter{{Filter: f}}}, ver, ref.EncOpts{})
				out = append(out, c28Input{Prelude: ver, Bytes: append(append(append([]byte{}, pb...), sb...), ub...), Desc: fmt.Sprintf("retained PUBLISH %q, SUBSCRIBE %q, UNSUBSCRIBE", t, f)})
				out = append(out, c28Input{Prelude: ver, Bytes: append(append([]byte{}, sb...), pb...), Desc: fmt.Sprintf("SUBSCRIBE %q, retained PUBLISH %q", f, t)})
			}
		}
	}
	return out
}

func c28RunOne(in c28Input) (viol []explore.Violation, closed bool) {
	w := world.New(nil, world.Config{Caps: func(c *mqtt.Capabilities) { c.MaximumPacketSize = 64 }})
	defer w.End()
	add := func(key, f string, a ...any) {
		viol = append(viol, explore.Violation{Key: key, Msg: fmt.Sprintf("input %s (prelude v%d, % x): ", in.Desc, in.Prelude, in.Bytes) + fmt.Sprintf(f, a...), Replay: map[string]any{"prelude": in.Prelude, "bytes": in.Bytes}})
	}
	r := w.Connect(world.ConnectPacket("r", 4, true))
	r.Do(sub(1, "x", 1))
	r.Do(pub("x", "before", 1, 2))
	r.Poll()
	nBefore := len(r.Recv)
	c := w.Open()
	if in.Prelude == 6 {
		// v5 CONNECT announcing a huge client-side Maximum Packet Size: it limits what the
		// broker may SEND, never what the broker accepts
		c.Send(ref.Encode(world.ConnectPacket("att", 5, true, ref.Prop{ID: ref.PMaximumPacketSize, Num: 1 << 24}), 5, ref.EncOpts{}))
		w.Run()
	} else if in.Prelude != 0 {
		c.Send(ref.Encode(world.ConnectPacket("att", in.Prelude, true), in.Prelude, ref.EncOpts{}))
		w.Run()
	}
	reads0 := countEvents(w, "OnPacketProcessed")
	c.Send(in.Bytes)
	w.Run()
	for _, v := range runtimeViolations(w) {
		v.Msg = fmt.Sprintf("input %s (prelude v%d, % x): %s", in.Desc, in.Prelude, in.Bytes, v.Msg)
		v.Replay = map[string]any{"prelude": in.Prelude, "bytes": in.Bytes}
		viol = append(viol, v)
	}
	// served or closed: at quiescence the attacker's bytes are consumed or its connection is closed
	if !c.Closed && c.Pending() > 0 {
		add("stuck:unread-input", "connection neither closed nor reading: %d bytes pending", c.Pending())
	}
	// oversize refusal: a declared packet larger than the maximum must not be processed
	if len(in.Bytes) >= 2 {
		rl, n, ok := c28ParseRL(in.Bytes[1:])
		_ = n
		if ok && rl+1 > 64 && (in.Prelude != 0) && !in.RefID {
			if !c.Closed {
				add("oversize:not-refused", "declared packet of %d bytes exceeds MaximumPacketSize 64 but the connection stays open", rl+1)
			}
			if countEvents(w, "OnPacketProcessed") != reads0 {
				add("oversize:processed", "oversize packet reached the packet handler")
			}
		}
	}
	if in.RefID {
		// a CONNECT with r's identifier that the broker ACCEPTS is a legitimate takeover of r;
		// only a refused one must leave r alone
		for _, dv := range []byte{4, 5} {
			pks, _, _, _ := ref.DecodeStream(c.Out, dv)
			for _, pk := range pks {
				if pk.Type == ref.CONNACK && pk.ReasonCode == 0 {
					return viol, c.Closed
				}
			}
		}
	}
	// the reference client still gets correct service
	r.Do(pub("x", "after", 1, 3))
	r.Poll()
	var gotAck, gotMsg bool
	for _, p := range r.Recv[nBefore:] {
		if p.Type == ref.PUBACK && p.PacketID == 3 {
			gotAck = true
		}
		if p.Type == ref.PUBLISH && string(p.Payload) == "after" && p.Topic == "x" {
			gotMsg = true
		}
	}
	if !gotAck || !gotMsg || r.Closed() || r.Err != nil {
		add("reference-client-disturbed", "reference client after the traffic: ack=%v delivery=%v closed=%v err=%v recv=%v", gotAck, gotMsg, r.Closed(), r.Err, r.Recv[nBefore:])
	}
	for _, v := range runtimeViolations(w) {
		dup := false
		for _, o := range viol {
			if o.Key == v.Key {
				dup = true
			}
		}
		if !dup {
			v.Replay = map[string]any{"prelude": in.Prelude, "bytes": in.Bytes}
			viol = append(viol, v)
		}
	}
	return viol, c.Closed
}

func c28ParseRL(b []byte) (v, n int, ok bool) {
	m := 1
	for i := 0; i < len(b) && i < 4; i++ {
		v += int(b[i]&0x7f) * m
		m *= 128
		if b[i]&0x80 == 0 {
			return v, i + 1, true
		}
	}
	return 0, 0, false
}

func countEvents(w *world.World, name string) int {
	n := 0
	for _, e := range w.Events {
		if e.Name == name {
			n++
		}
	}
	return n
}

func c28Set(arg string) explore.CaseSet {
	var dom []c28Input
	if strings.Contains(arg, "iv") {
		dom = c28DomainIV()
	} else if strings.Contains(arg, "iii") {
		dom = c28DomainIII()
	} else if strings.Contains(arg, "ii") {
		dom = c28DomainII(strings.Contains(arg, "deep"))
	} else {
		dom = c28DomainI()
	}
	return explore.CaseSet{Total: len(dom), Run: func(i int) explore.CaseResult {
		v, closed := c28RunOne(dom[i])
		res := explore.CaseResult{Evals: 1, Viol: v, Counters: map[string]int64{}}
		if closed {
			res.Counters["attacker_closed"] = 1
			res.Nontrivial = 1
		} else {
			res.Counters["attacker_served"] = 1
		}
		if i%5003 == 0 {
			res.Sample = map[string]any{"input": dom[i].Desc, "prelude": dom[i].Prelude, "bytes": fmt.Sprintf("% x", dom[i].Bytes), "closed": closed}
		}
		return res
	}}
}

func init() {
	explore.RegisterCases("c28", c28Set)
	explore.Register("C28", func(c *explore.Ctx) {
		c.Rep.Level = "exploration"
		if c.Quick() {
			explore.RunCases(c, "c28", "i", 30*time.Second)
			explore.RunCases(c, "c28", "ii", 30*time.Second)
			explore.RunCases(c, "c28", "iii", 15*time.Second)
			explore.RunCases(c, "c28", "iv", 15*time.Second)
		} else {
			explore.RunCases(c, "c28", "i", 4*time.Minute)
			explore.RunCases(c, "c28", "ii,deep", 6*time.Minute)
			explore.RunCases(c, "c28", "iii", 1*time.Minute)
			explore.RunCases(c, "c28", "iv", 1*time.Minute)
		}
		c.Rep.Set("rule", "each case = one byte stream sent by an attacker connection (after no/v4/v5 CONNECT) to a live broker with a reference client; evaluations = broker executions; non-trivial = streams that made the broker close the attacker connection (the rest were served as valid traffic)")
		c.Rep.Assumption("default schedule (one connection acts at a time); concurrency of handlers is covered by C32/C33")
	})
}
