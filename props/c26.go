package props

// C26: the packet codec round-trips every well-formed packet.
//
// First half (E1 over generated packets, codec_gen.go): each well-formed packet g (reference
// representation, all 15 types x MQIsdp/3, MQTT/4, MQTT/5) is converted to mochi's Packet,
// encoded by mochi (Mods.AllowResponseInfo = true, as WritePacket sets for everything but
// CONNACK), and the bytes are (a) checked for "remaining length == number of bytes that
// follow" with a minimal length field, (b) decoded by mochi, (c) decoded by the strict
// reference decoder; both results must be equivalent to g. Packets carrying suppressible
// properties are additionally encoded under each documented suppression (no response
// information; no problem information; Maximum Packet Size) and everything except the
// suppressible properties must survive; a suppressible property is either dropped entirely
// or preserved exactly.
// Second half (over C27's byte-string domain): every body mochi's decoder accepts is
// re-encoded by mochi and decoded again; the two decoded packets must be equivalent, and if
// the input was well-formed for the strict reference decoder the re-encoded bytes must be
// well-formed too and mean, to the reference decoder, what mochi decoded.
// Equivalence: cdcCanon() — property order between different identifiers is irrelevant, a
// present property carrying its specified default equals an omitted one.
//
// Violation keys (both halves share them: same defect, same key):
//   <TYPE>:v<ver>:<field>            field as in cdcDiffPackets, reason codes refined by cdcFieldShape
//   encode-error:<TYPE>:v<ver>       encoder refused a well-formed packet
//   encode-panic / decode-panic:<TYPE>:v<ver>:<site>
//   remaining-length:<TYPE>          fixed header does not describe the bytes that follow
//   own-encoding-rejected:<TYPE>:v<ver>          mochi's decoder rejects mochi's encoding
//   encoding-malformed:<TYPE>:v<ver>             strict reference decoder rejects mochi's encoding
//   suppression:<TYPE>:v<ver>:<mods>:<field>     something other than the documented properties changed

import (
	"encoding/hex"
	"encoding/json"
	"errors"
	"fmt"
	"sort"
	"strings"
	"sync/atomic"

	"github.com/mochi-mqtt/server/v2/packets"

	"verif/explore"
	"verif/ref"
)

type cdcModsCase struct {
	name string
	mods packets.Mods
	drop map[byte]bool // identifiers the documented suppression may remove
}

var cdcPlainMods = cdcModsCase{name: "plain", mods: packets.Mods{AllowResponseInfo: true}}

var cdcSuppressions = []cdcModsCase{
	{"no-response-info", packets.Mods{}, map[byte]bool{ref.PResponseTopic: true, ref.PCorrelationData: true, ref.PResponseInfo: true}},
	{"no-problem-info", packets.Mods{AllowResponseInfo: true, DisallowProblemInfo: true}, map[byte]bool{ref.PReasonString: true, ref.PUser: true}},
	{"max-size-1", packets.Mods{AllowResponseInfo: true, MaxSize: 1}, map[byte]bool{ref.PReasonString: true, ref.PUser: true}},
	{"max-size-64", packets.Mods{AllowResponseInfo: true, MaxSize: 64}, map[byte]bool{ref.PReasonString: true, ref.PUser: true}},
}

func cdcModsByName(n string) cdcModsCase {
	for _, m := range cdcSuppressions {
		if m.name == n {
			return m
		}
	}
	return cdcPlainMods
}

func cdcSplitProps(ps ref.Props, drop map[byte]bool) (keep, sup ref.Props) {
	for _, p := range ps {
		if drop[p.ID] {
			sup = append(sup, p)
		} else {
			keep = append(keep, p)
		}
	}
	return
}

// cdcSuppressedOK: got's suppressible properties, per identifier, are either all gone or exactly want's.
func cdcSuppressedOK(want, got ref.Props) string {
	ids := map[byte]bool{}
	for _, p := range want {
		ids[p.ID] = true
	}
	for _, p := range got {
		ids[p.ID] = true
	}
	for id := range ids {
		g := got.All(id)
		if len(g) == 0 {
			continue
		}
		if d := cdcPropsDiff(ref.Props(want.All(id)), ref.Props(g)); d != "" {
			return "property-" + d
		}
	}
	return ""
}

// cdcCompareUnder compares want (generated) with got (decoded) under a suppression case.
func cdcCompareUnder(want, got ref.Packet, mc cdcModsCase) string {
	if mc.drop == nil {
		return cdcDiffPackets(want, got)
	}
	var ws, gs, wws, gws ref.Props
	want.Props, ws = cdcSplitProps(want.Props, mc.drop)
	got.Props, gs = cdcSplitProps(got.Props, mc.drop)
	want.WillProps, wws = cdcSplitProps(want.WillProps, mc.drop)
	got.WillProps, gws = cdcSplitProps(got.WillProps, mc.drop)
	if d := cdcDiffPackets(want, got); d != "" {
		return d
	}
	if d := cdcSuppressedOK(ws, gs); d != "" {
		return d
	}
	if d := cdcSuppressedOK(wws, gws); d != "" {
		return "will-" + d
	}
	return ""
}

func cdcHasSuppressible(g ref.Packet) bool {
	for _, mc := range cdcSuppressions {
		for _, p := range g.Props {
			if mc.drop[p.ID] {
				return true
			}
		}
		for _, p := range g.WillProps {
			if mc.drop[p.ID] {
				return true
			}
		}
	}
	return false
}

// c26RoundTrip runs the first-half check on one generated packet.
func c26RoundTrip(g ref.Packet, ver byte, mc cdcModsCase) (key, msg string) {
	T := cdcTname(g.Type)
	mk := func(kind, field string) string {
		if kind != "" {
			return fmt.Sprintf("%s:%s:v%d", kind, T, ver)
		}
		if mc.drop != nil {
			return fmt.Sprintf("suppression:%s:v%d:%s:%s", T, ver, mc.name, field)
		}
		return fmt.Sprintf("%s:v%d:%s", T, ver, field)
	}
	m := cdcToMochi(g, ver)
	m.Mods = mc.mods
	enc, err, pn := cdcMEncode(&m)
	if pn != nil {
		return fmt.Sprintf("encode-panic:%s:v%d:%s", T, ver, pn.Site), fmt.Sprintf("encoding %s panicked in %s: %s", cdcShortPacket(g), pn.Site, pn.Msg)
	}
	if err != nil {
		return mk("encode-error", ""), fmt.Sprintf("encoder refused the well-formed packet %s (version %d): %v", cdcShortPacket(g), ver, err)
	}
	enc = append([]byte{}, enc...)
	hdr, rl, body, herr := cdcSplitFixedHeader(enc)
	if herr != nil || rl != len(body) {
		return "remaining-length:" + T, fmt.Sprintf("%s encoded as [%s]: fixed header declares remaining length %d (%v) but %d bytes follow", cdcShortPacket(g), cdcShort(enc), rl, herr, len(body))
	}
	want := cdcCanon(g, ver)
	pk, derr, pn := cdcSafeDecode(hdr, ver, body)
	if pn != nil {
		return fmt.Sprintf("decode-panic:%s:v%d:%s", T, ver, pn.Site), fmt.Sprintf("decoding mochi's own encoding [%s] of %s panicked: %s", cdcShort(enc), cdcShortPacket(g), pn.Msg)
	}
	if derr != nil {
		return mk("own-encoding-rejected", ""), fmt.Sprintf("mochi's decoder rejects mochi's encoding [%s] of %s (version %d): %v", cdcShort(enc), cdcShortPacket(g), ver, derr)
	}
	got := cdcCanon(cdcFromMochi(pk, ver), ver)
	if d := cdcCompareUnder(want, got, mc); d != "" {
		if d == "reason" { // judged by what was actually encoded next to the reason code
			w2 := want
			w2.Props = got.Props
			return fmt.Sprintf("%s:v%d:%s", T, ver, cdcFieldShape(d, w2)), fmt.Sprintf("round trip (%s) lost the reason code: sent %s, mochi encoded [%s], mochi decoded %s", mc.name, cdcShortPacket(want), cdcShort(enc), cdcShortPacket(got))
		}
		return mk("", cdcFieldShape(d, want)), fmt.Sprintf("round trip (%s) changed %s: sent %s, mochi encoded [%s], mochi decoded %s", mc.name, d, cdcShortPacket(want), cdcShort(enc), cdcShortPacket(got))
	}
	rp, n, rerr := ref.DecodeOne(enc, ver)
	if rerr != nil || n != len(enc) {
		return mk("encoding-malformed", ""), fmt.Sprintf("mochi's encoding [%s] of %s (version %d) is rejected by the strict reference decoder: %v", cdcShort(enc), cdcShortPacket(g), ver, rerr)
	}
	rgot := cdcCanon(rp, ver)
	if d := cdcCompareUnder(want, rgot, mc); d != "" {
		return mk("", cdcFieldShape(d, want)), fmt.Sprintf("encoding (%s) changed %s: sent %s, mochi encoded [%s], which means %s", mc.name, d, cdcShortPacket(want), cdcShort(enc), cdcShortPacket(rgot))
	}
	return "", ""
}

type c26State struct {
	evals, accepted, wellFormed, encRefused int64
	shapes                                  map[string]struct{}
}

// c26Reencode runs the second-half check on one input of C27's domain.
func c26Reencode(in *codecInput, st *c26State) (key, msg string) {
	typ := in.Hdr >> 4
	T := cdcTname(typ)
	p1, err, pn := cdcSafeDecode(in.Hdr, in.Ver, in.Body)
	st.evals++
	if pn != nil || err != nil {
		return "", "" // C27's business
	}
	st.accepted++
	ver := in.Ver
	if typ == ref.CONNECT {
		ver = p1.ProtocolVersion
	}
	whole := append([]byte{in.Hdr}, ref.EncodeVarint(uint32(len(in.Body)))...)
	whole = append(whole, in.Body...)
	r1, _, r1err := ref.DecodeOne(whole, ver)
	if r1err == nil && typ == ref.CONNECT && !(r1.ProtoName == cdcProtoName(r1.ProtoVer) && r1.ProtoVer >= 3 && r1.ProtoVer <= 5) {
		r1err = errors.New("unknown protocol name / level: layout undefined, not a well-formed CONNECT")
	}
	g1 := cdcCanon(cdcFromMochi(p1, ver), ver)
	m := p1
	m.Mods = packets.Mods{AllowResponseInfo: true}
	enc, eerr, pn := cdcMEncode(&m)
	if pn != nil {
		return fmt.Sprintf("encode-panic:%s:v%d:%s", T, ver, pn.Site), fmt.Sprintf("re-encoding the packet decoded from %s body [% x] panicked in %s: %s", T, in.Body, pn.Site, pn.Msg)
	}
	if eerr != nil {
		if r1err != nil {
			st.encRefused++ // not well-formed for the specification: refusing to re-encode it is not judged
			return "", ""
		}
		return fmt.Sprintf("encode-error:%s:v%d", T, ver), fmt.Sprintf("%s body [% x] (version %d) is well-formed and accepted, but re-encoding the decoded packet fails: %v", T, in.Body, ver, eerr)
	}
	enc = append([]byte{}, enc...)
	hdr2, rl, body2, herr := cdcSplitFixedHeader(enc)
	if herr != nil || rl != len(body2) {
		return fmt.Sprintf("remaining-length:%s", T), fmt.Sprintf("re-encoding of accepted %s body [% x] gives [%s]: remaining length %d (%v), %d bytes follow", T, in.Body, cdcShort(enc), rl, herr, len(body2))
	}
	p2, derr, pn := cdcSafeDecode(hdr2, ver, body2)
	if pn != nil {
		return fmt.Sprintf("decode-panic:%s:v%d:%s", T, ver, pn.Site), fmt.Sprintf("decoding the re-encoding [%s] panicked: %s", cdcShort(enc), pn.Msg)
	}
	if derr != nil {
		return fmt.Sprintf("own-encoding-rejected:%s:v%d", T, ver), fmt.Sprintf("accepted %s body [% x] re-encodes to [%s], which mochi's decoder rejects: %v", T, in.Body, cdcShort(enc), derr)
	}
	g2 := cdcCanon(cdcFromMochi(p2, ver), ver)
	if d := cdcDiffPackets(g1, g2); d != "" {
		return fmt.Sprintf("%s:v%d:%s", T, ver, cdcFieldShape(d, g1)),
			fmt.Sprintf("accepted %s body [% x] (header %#02x, version %d) decodes to %s; re-encoded as [%s] it decodes to %s: %s differs (%s)", T, in.Body, in.Hdr, ver, cdcShortPacket(g1), cdcShort(enc), cdcShortPacket(g2), d, in.Src)
	}
	if r1err == nil {
		st.wellFormed++
		st.shapes[cdcShapeOf(cdcCanon(r1, ver), ver)] = struct{}{}
		r2, n, r2err := ref.DecodeOne(enc, ver)
		if r2err != nil || n != len(enc) {
			return fmt.Sprintf("encoding-malformed:%s:v%d", T, ver), fmt.Sprintf("well-formed %s body [% x] re-encodes to [%s], rejected by the strict reference decoder: %v", T, in.Body, cdcShort(enc), r2err)
		}
		if d := cdcDiffPackets(g1, cdcCanon(r2, ver)); d != "" {
			return fmt.Sprintf("%s:v%d:%s", T, ver, cdcFieldShape(d, g1)),
				fmt.Sprintf("well-formed %s body [% x] (version %d) decodes to %s; re-encoded as [%s] it means %s: %s differs", T, in.Body, ver, cdcShortPacket(g1), cdcShort(enc), cdcShortPacket(cdcCanon(r2, ver)), d)
		}
	}
	return "", ""
}

// cdcShapeOf is the non-triviality class of a packet: type, version, flag/QoS shape, reason
// class, number of filters / reason codes (capped), set of property identifiers.
func cdcShapeOf(g ref.Packet, ver byte) string {
	var b strings.Builder
	fmt.Fprintf(&b, "%d/%d/q%d%v%v/c%v/w%v%d%v/u%v%v/sp%v/", g.Type, ver, g.Qos, g.Dup, g.Retain, g.CleanStart, g.WillFlag, g.WillQos, g.WillRetain, g.UserFlag, g.PassFlag, g.SessionPresent)
	switch {
	case g.ReasonCode == 0:
		b.WriteString("r0")
	case g.ReasonCode < 0x80:
		b.WriteString("r<80")
	default:
		b.WriteString("r>=80")
	}
	n := len(g.Filters) + len(g.ReasonCodes)
	if n > 3 {
		n = 3
	}
	fmt.Fprintf(&b, "/n%d/", n)
	ids := []int{}
	for _, p := range g.Props {
		ids = append(ids, int(p.ID))
	}
	for _, p := range g.WillProps {
		ids = append(ids, 256+int(p.ID))
	}
	sort.Ints(ids)
	fmt.Fprint(&b, ids)
	return b.String()
}

type c26Replay struct {
	Kind   string     `json:"kind"` // roundtrip | reencode
	Ver    byte       `json:"ver"`
	Mods   string     `json:"mods,omitempty"`
	Packet ref.Packet `json:"packet"`
	Hdr    byte       `json:"hdr,omitempty"`
	Hex    string     `json:"hex,omitempty"`
}

func c26Replayer(raw json.RawMessage) (bool, []string) {
	var r c26Replay
	if err := json.Unmarshal(raw, &r); err != nil {
		return false, []string{err.Error()}
	}
	var key, msg string
	var tr []string
	if r.Kind == "roundtrip" {
		tr = append(tr, fmt.Sprintf("round trip of %s under version %d, mods %s", cdcShortPacket(r.Packet), r.Ver, r.Mods))
		key, msg = c26RoundTrip(r.Packet, r.Ver, cdcModsByName(r.Mods))
	} else {
		body, _ := hex.DecodeString(r.Hex)
		tr = append(tr, fmt.Sprintf("decode / re-encode / decode of %s header=%#02x version=%d body=[% x]", cdcTname(r.Hdr>>4), r.Hdr, r.Ver, body))
		in := codecInput{Hdr: r.Hdr, Ver: r.Ver, Body: body, Src: "replay"}
		key, msg = c26Reencode(&in, &c26State{shapes: map[string]struct{}{}})
	}
	if key == "" {
		return false, append(tr, "no violation")
	}
	return true, append(tr, "key="+key, msg)
}

func init() {
	explore.RegisterReplayer("C26", c26Replayer)
	explore.Register("C26", func(c *explore.Ctx) {
		c.Rep.Level = "exploration"
		c.Rep.Set("rule", "distinct (packet type, version, flag/QoS shape, reason class, list length, set of property identifiers) classes among the well-formed packets that were round-tripped")
		c.Rep.Assumption("equivalence: property order between different identifiers is irrelevant; a present property carrying its specified default (MQTT 5 sections 3.1.2.11, 3.2.2.3, 3.3.2.3.2, 3.1.3.2.2) equals an omitted one")
		c.Rep.Assumption("not judged: zero / empty values of properties for which mochi's Properties struct has no presence flag and the specification no default (Message Expiry Interval 0, empty Content Type / Response Topic / Correlation Data / Reason String / ..., and the protocol errors Receive Maximum 0, Maximum Packet Size 0, Topic Alias 0, Subscription Identifier 0, Maximum QoS >= 2); they are never generated and are dropped from both sides in the second half")
		c.Rep.Assumption("mochi's calling conventions are followed: FixedHeader.Qos = 1 for PUBREL / SUBSCRIBE / UNSUBSCRIBE, Mods.AllowResponseInfo = true unless the suppression is the subject")
		// ---------- first half
		type job struct {
			g   ref.Packet
			ver byte
		}
		var jobs []job
		for _, ver := range []byte{3, 4, 5} {
			for _, t := range cdcAllTypes {
				for _, g := range cdcGenPackets(t, ver, !c.Quick() || t != ref.CONNECT) {
					jobs = append(jobs, job{g, ver})
				}
			}
		}
		// packets without properties first, acknowledgements foremost and sequentially, so
		// that the example recorded for a reason-code key is the minimal one
		sort.SliceStable(jobs, func(a, b int) bool {
			ra := len(jobs[a].g.Props) + len(jobs[a].g.WillProps)
			rb := len(jobs[b].g.Props) + len(jobs[b].g.WillProps)
			if (ra == 0) != (rb == 0) {
				return ra == 0
			}
			aa := jobs[a].g.Type >= ref.PUBACK && jobs[a].g.Type <= ref.PUBCOMP
			ab := jobs[b].g.Type >= ref.PUBACK && jobs[b].g.Type <= ref.PUBCOMP
			return ra == 0 && aa && !ab
		})
		var evals, supp int64
		var shapes cdcStrSet
		const chunk = 256
		nch := (len(jobs) + chunk - 1) / chunk
		first := true
		doChunk := func(ci int) {
			if ci == 0 && !first {
				return
			}
			local := map[string]struct{}{}
			var n, ns int64
			for i := ci * chunk; i < (ci+1)*chunk && i < len(jobs); i++ {
				j := jobs[i]
				cases := []cdcModsCase{cdcPlainMods}
				if j.ver >= 5 && cdcHasSuppressible(j.g) {
					cases = append(cases, cdcSuppressions...)
				}
				for _, mc := range cases {
					n++
					if mc.drop != nil {
						ns++
					}
					if key, msg := c26RoundTrip(j.g, j.ver, mc); key != "" {
						rep := any(c26Replay{Kind: "roundtrip", Ver: j.ver, Mods: mc.name, Packet: j.g})
						c.Rep.Add(explore.Violation{Key: key, Msg: msg, Replay: rep})
						if mc.drop == nil {
							break // already broken without suppression: the suppression cases would only repeat it
						}
					}
				}
				local[cdcShapeOf(cdcCanon(j.g, j.ver), j.ver)] = struct{}{}
			}
			atomic.AddInt64(&evals, n)
			atomic.AddInt64(&supp, ns)
			shapes.addAll(local)
		}
		doChunk(0)
		first = false
		complete := explore.ParallelRange(nch, c.Workers, c.Expired, doChunk)
		if !complete {
			c.Rep.Capped("generated packets not all round-tripped before the deadline")
		}
		c.Rep.Set("generated_packets", int64(len(jobs)))
		perType := map[string]int64{}
		for _, j := range jobs {
			perType[fmt.Sprintf("%s/v%d", cdcTname(j.g.Type), j.ver)]++
		}
		c.Rep.Set("generated_packets_by_type", perType)
		c.Rep.Set("round_trips", evals)
		c.Rep.Set("round_trips_under_suppression", supp)
		// ---------- second half
		maxLen, pairs := 4, false
		if !c.Quick() {
			maxLen, pairs = 5, true
		}
		var evals2, accepted, wf, refused int64
		complete = forEachCodecInput(c, maxLen, pairs,
			func(in *codecInput, s any) {
				st := s.(*c26State)
				if key, msg := c26Reencode(in, st); key != "" {
					c.Rep.Add(explore.Violation{Key: key, Msg: msg, Replay: c26Replay{Kind: "reencode", Ver: in.Ver, Hdr: in.Hdr, Hex: hex.EncodeToString(in.Body)}})
				}
			},
			func() any { return &c26State{shapes: map[string]struct{}{}} },
			func(s any) {
				st := s.(*c26State)
				atomic.AddInt64(&evals2, st.evals)
				atomic.AddInt64(&accepted, st.accepted)
				atomic.AddInt64(&wf, st.wellFormed)
				atomic.AddInt64(&refused, st.encRefused)
				shapes.addAll(st.shapes)
			})
		if !complete {
			c.Rep.Capped("second half (re-encoding accepted byte strings) not finished before the deadline")
		}
		c.Rep.Set("second_half_inputs_decoded", evals2)
		c.Rep.Set("second_half_accepted_and_reencoded", accepted)
		c.Rep.Set("second_half_accepted_well_formed", wf)
		c.Rep.Set("second_half_reencode_refused_for_malformed_input", refused)
		c.Rep.Set("second_half_domain", fmt.Sprintf("C27's domain with enumerated bodies of length <= %d, catalogue mutations%s", maxLen, map[bool]string{true: " incl. pair substitutions", false: ""}[pairs]))
		c.Rep.Count("evaluations", evals+accepted)
		c.Rep.Count("distinct_nontrivial", shapes.size())
		c.Rep.Sample(map[string]any{"packet": "PUBACK v5 id=7 reason=0x10 (no matching subscribers), no properties", "expect_bytes": "40 03 00 07 10 (or 40 04 00 07 10 00)", "expect_decoded_reason": "0x10"})
		c.Rep.Sample(map[string]any{"packet": "PUBLISH v5 q1 id=7 topic t, user properties (k,v),(,),(ü,ü)", "expect": "same three pairs in the same order"})
		c.Rep.Sample(map[string]any{"packet": "CONNECT MQTT/5 will q1 with Will Delay 70000, 65535-byte client id", "expect": "all fields identical, remaining length field 3 bytes"})
		c.Rep.Sample(map[string]any{"bytes": "SUBACK v5 body 00 01 00 00 80 (catalogue mutation)", "expect": "re-encodes to bytes that decode to id=1 codes [00 80]"})
	})
}
