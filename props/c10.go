package props

import (
	"time"

	"verif/explore"
)

// C10: every outbound QoS 1/2 PUBLISH carries a packet identifier in 1..65535 that no
// other unacknowledged outbound message to that client is using; identifiers the client
// chooses for its own publishes never complete, replace or delete the broker's outbound
// messages, and vice versa (two independent identifier spaces).
//
// Engine E2, scenario "c10" (alphabet and model: qos_helpers.go). a subscribes t at QoS 2
// and also publishes on u (subscriber s); Capabilities.maximumPacketID is lowered to 3
// (VerifSetMaxPacketID) so that wrap-around and exhaustion are reachable; a's own QoS 1/2
// publishes use client-chosen ids 1..3, i.e. they collide with outstanding outbound ids;
// a retransmits / releases its own QoS 2 publishes and acknowledges outbound messages
// with equal ids in every order; network drop + reconnect. After EVERY reached state the
// closure "drop + reconnect clean start 0" checks that every unacknowledged outbound
// message is still redelivered (PUBLISH or PUBREL).
// Monitor: (1) id of a first transmission in range and different from the ids of all
// Sent/Recd messages of the session; (2) an outbound message is never lost after a
// colliding inbound id (redelivery on reconnect, PUBREL for its PUBREC); (3) a's own QoS 2
// exchange survives outbound acknowledgements with the same id: no second forward on DUP,
// PUBCOMP without failure, exactly one copy at s.

func init() {
	explore.RegisterBFS("c10", qosRun("c10"))
	explore.Register("C10", func(c *explore.Ctx) {
		c.Rep.Level = "model_checking"
		c.Rep.Assumption("one client action at a time, broker run to quiescence under the deterministic default schedule (sequential histories)")
		c.Rep.Assumption("state = reflective dump of *Server plus reference-model state and pool counters; histories merged only if byte-identical")
		c.Rep.Assumption("maximum packet id lowered to 3 through the verif-only setter so that identifier wrap-around is reachable within the pools")
		var sts []*explore.BFSStats
		if c.Quick() {
			sts = append(sts, explore.RunBFS(c, "c10", "v=5,maxpid=3,pubs=3,qos=12,conns=1,apubs=2,aids=2,aqos=12,adup=1,closure=reconnect", 0, 40*time.Second))
			sts = append(sts, explore.RunBFS(c, "c10", "v=5,maxpid=3,pubs=5,qos=1,conns=1,apubs=0,closure=reconnect", 0, 15*time.Second))
			sts = append(sts, explore.RunBFS(c, "c10", "v=4,maxpid=3,pubs=2,qos=12,conns=1,apubs=2,aids=2,aqos=2,adup=1,closure=reconnect", 0, 15*time.Second))
		} else {
			sts = append(sts, explore.RunBFS(c, "c10", "v=5,maxpid=3,pubs=3,qos=12,conns=2,apubs=3,aids=3,aqos=12,adup=1,closure=reconnect", 0, 6*time.Minute))
			sts = append(sts, explore.RunBFS(c, "c10", "v=5,maxpid=3,pubs=6,qos=12,conns=1,apubs=0,closure=reconnect", 0, 2*time.Minute))
			sts = append(sts, explore.RunBFS(c, "c10", "v=4,maxpid=3,pubs=3,qos=12,conns=1,apubs=2,aids=3,aqos=12,adup=1,closure=reconnect", 0, 3*time.Minute))
		}
		qosFold(c, sts, "client_id_collides_with_outstanding_outbound_id", "outbound_ack_while_same_inbound_id_held", "reported_drops")
	})
}
