package props

import (
	"fmt"
	"os"
	"strings"
	"time"

	"verif/explore"
	"verif/ref"
	"verif/world"
)

// C10: every outbound QoS 1/2 PUBLISH carries a packet identifier in 1..65535 that no
// other unacknowledged outbound message to that client is using; identifiers the client
// chooses for its own publishes never complete, replace or delete the broker's outbound
// messages, and vice versa (two independent identifier spaces).
//
// Engine E2, scenario "c10" (alphabet and model: qos_helpers.go). a subscribes t at QoS 2
// and also publishes on u (subscriber s); Capabilities.maximumPacketID is lowered to 3
// (VerifSetMaxPacketID) so that wrap-around and exhaustion are reachable; a's own QoS 1/2
// publishes use client-chosen ids 1..3, i.e. they collide with outstanding outbound ids;
// a retransmits / releases its own QoS 2 publishes and acknowledges outbound messages
// with equal ids in every order; network drop + reconnect. After EVERY reached state the
// closure "drop + reconnect clean start 0" checks that every unacknowledged outbound
// message is still redelivered (PUBLISH or PUBREL).
// Monitor: (1) id of a first transmission in range and different from the ids of all
// Sent/Recd messages of the session; (2) an outbound message is never lost after a
// colliding inbound id (redelivery on reconnect, PUBREL for its PUBREC); (3) a's own QoS 2
// exchange survives outbound acknowledgements with the same id: no second forward on DUP,
// PUBCOMP without failure, exactly one copy at s.

// Engine E3, scenario "c10conc": identifiers allocated by deliveries that run AT THE SAME
// TIME on different broker threads. Subscriber a (v5, persistent) subscribes t at QoS sq
// and (held=1) already holds one unacknowledged message (id 1). Then the deliveries named
// by k=<letters> start together and every interleaving of the broker threads up to the
// preemption bound is executed (scheduling points: every lock, atomic, channel operation):
//
//	p  one more publisher p<i> sends a QoS pq PUBLISH on t          (its read loop delivers)
//	r  a subscribes r/# (QoS 1) where a retained QoS 1 message waits (a's read loop delivers)
//	w  client w (will: topic t, QoS 1) loses its connection         (w's read loop delivers the will)
//
// a acknowledges nothing while they run. Monitor (same rule as the sequential model): all
// QoS>0 PUBLISH packets a holds unacknowledged carry pairwise different identifiers in
// 1..65535; key c10:outbound-pid-in-use:concurrent-deliveries. Then a acknowledges the
// FIRST message it received and resumes the session: every other message is unacknowledged
// and must be redelivered (one acknowledgement never completes two messages); key
// c10:outbound-completed-by:acknowledgement-of-other-message.
func c10Conc(arg string) explore.RunFn {
	kind := argStr(arg, "k", "pp")
	sq := byte(argInt(arg, "sq", 1))
	pq := byte(argInt(arg, "pq", 1))
	held := argInt(arg, "held", 0) == 1
	return func(prefix []int) (o explore.Outcome) {
		w := world.New(prefix, world.Config{})
		defer w.End()
		a := w.Connect(v5connect("a", false, 0, 600))
		a.Do(sub(1, "t", sq))
		var ps []*world.Client
		for i := 0; i < strings.Count(kind, "p")+1; i++ {
			ps = append(ps, w.Connect(world.ConnectPacket(fmt.Sprintf("p%d", i), 4, true)))
		}
		var wc *world.Client
		if strings.Contains(kind, "w") {
			cp := world.ConnectPacket("w", 4, true)
			cp.WillFlag, cp.WillTopic, cp.WillPayload, cp.WillQos = true, "t", []byte("will"), 1
			wc = w.Connect(cp)
		}
		if strings.Contains(kind, "r") {
			rp := pub("r/x", "ret", 1, 40)
			rp.Retain = true
			ps[0].Do(rp)
		}
		type dl struct {
			tag string
			id  uint16
			qos byte
		}
		var have []dl
		if held {
			ps[0].Do(pub("t", "m0", 1, 41))
			for _, pk := range a.Poll() {
				if pk.Type == ref.PUBLISH && pk.Qos > 0 {
					have = append(have, dl{string(pk.Payload), pk.PacketID, pk.Qos})
				}
			}
		}
		for _, c := range ps {
			c.Poll()
		}
		a.Poll()
		base := len(a.Recv)
		want := len(have)
		np := 0
		for _, k := range kind {
			want++
			switch k {
			case 'p':
				np++
				ps[np].Send(pub("t", fmt.Sprintf("m%d", np), pq, uint16(10+np)))
			case 'r':
				a.Send(sub(2, "r/#", 1))
			case 'w':
				wc.C.PeerClose()
			}
		}
		w.Explore(true)
		w.Run()
		w.Explore(false)
		a.Poll()
		o = explore.Outcome{Points: w.X.Points, Divergence: w.X.Divergence(), Steps: w.X.Steps(), Counters: map[string]int{}}
		defer func() { o.Viol = append(o.Viol, runtimeViolations(w)...) }()
		var seq []string
		for _, pk := range a.Recv[base:] {
			if pk.Type != ref.PUBLISH || pk.Qos == 0 {
				continue
			}
			d := dl{string(pk.Payload), pk.PacketID, pk.Qos}
			seq = append(seq, fmt.Sprintf("%s=%d", d.tag, d.id))
			if d.id == 0 {
				o.Viol = append(o.Viol, explore.Violation{Key: "c10:outbound-pid-out-of-range:concurrent-deliveries", Msg: fmt.Sprintf("PUBLISH of %s carries packet id 0", d.tag)})
			}
			for _, e := range have {
				if e.id == d.id {
					o.Viol = append(o.Viol, explore.Violation{Key: "c10:outbound-pid-in-use:concurrent-deliveries", Msg: fmt.Sprintf("PUBLISH of %s uses packet id %d which the unacknowledged message %s is using (deliveries %q started together; a received %v)", d.tag, d.id, e.tag, kind, seq)})
				}
			}
			have = append(have, d)
		}
		o.Obs = strings.Join(seq, " ")
		if len(have) == want {
			o.Counters["all_concurrent_deliveries_received"]++
			if len(seq) > 1 && !sortedTags(seq) {
				o.Counters["deliveries_overtook_each_other"]++
			}
		}
		// a acknowledges the first message only and resumes the session
		if len(have) > 1 && !a.Closed() {
			f := have[0]
			if f.qos == 1 {
				a.Do(ref.Packet{Type: ref.PUBACK, PacketID: f.id})
			} else {
				a.Do(ref.Packet{Type: ref.PUBREC, PacketID: f.id})
				a.Do(ref.Packet{Type: ref.PUBCOMP, PacketID: f.id})
			}
			a.Drop()
			a2 := w.Connect(v5connect("a", false, 0, 600))
			got := a2.Poll()
			if len(got) > 0 && got[0].Type == ref.CONNACK && got[0].SessionPresent {
				o.Counters["resumptions_after_one_acknowledgement"]++
				for _, e := range have[1:] {
					n := 0
					for _, pk := range got[1:] {
						if pk.Type == ref.PUBLISH && string(pk.Payload) == e.tag {
							n++
						}
					}
					if n == 0 {
						shape := "other"
						for _, x := range have {
							if x != e && x.id == e.id {
								shape = "same-id"
							}
						}
						o.Viol = append(o.Viol, explore.Violation{Key: "c10:outbound-completed-by:acknowledgement-of-other-message:" + shape, Msg: fmt.Sprintf("a acknowledged only %s (id %d); after the session was resumed %s (id %d, unacknowledged) is not redelivered: %v", f.tag, f.id, e.tag, e.id, got)})
					}
				}
			}
		}
		return o
	}
}

// sortedTags: the deliveries arrived in the order in which the scenario lists them.
func sortedTags(seq []string) bool {
	for i := 1; i < len(seq); i++ {
		if seq[i-1] > seq[i] {
			return false
		}
	}
	return true
}

func init() {
	explore.RegisterDFS("c10conc", c10Conc)
	explore.RegisterBFS("c10", qosRun("c10"))
	explore.Register("C10", func(c *explore.Ctx) {
		c.Rep.Level = "model_checking"
		c.Rep.Assumption("one client action at a time, broker run to quiescence under the deterministic default schedule (sequential histories)")
		c.Rep.Assumption("state = reflective dump of *Server plus reference-model state and pool counters; histories merged only if byte-identical")
		c.Rep.Assumption("maximum packet id lowered to 3 through the verif-only setter so that identifier wrap-around is reachable within the pools")
		c.Rep.Assumption("concurrent deliveries (c10conc): threads serialised by the cooperative scheduler (sequentially consistent interleavings), all interleavings up to the stated preemption bound; the subscriber acknowledges nothing while the deliveries run")
		// concurrent allocation first: few, short executions
		conc := map[string]int64{}
		runConc := func(arg string, bounds []explore.Bounds, per time.Duration) {
			if c.Expired() {
				c.Rep.Capped("c10conc " + arg + " not started (deadline)")
				return
			}
			if _, last := explore.IterateDFS(c, "c10conc", arg, bounds, per); last != nil {
				for k, v := range last.Counters {
					conc[k] += v
				}
			}
		}
		if c.Quick() {
			b := []explore.Bounds{{Preempt: 0}, {Preempt: 1}, {Preempt: 2}}
			runConc("k=pp,sq=1,held=1", b, 9*time.Second)
			runConc("k=pr,sq=2,pq=2", b, 5*time.Second)
			runConc("k=pw,sq=1", b, 5*time.Second)
		} else {
			b := []explore.Bounds{{Preempt: 0}, {Preempt: 1}, {Preempt: 2}, {Preempt: 3}}
			runConc("k=pp,sq=1,held=1", b, 60*time.Second)
			runConc("k=pp,sq=2,pq=2", b, 60*time.Second)
			runConc("k=ppp,sq=1", b, 60*time.Second)
			runConc("k=pr,sq=2,pq=2,held=1", b, 45*time.Second)
			runConc("k=pw,sq=1,held=1", b, 45*time.Second)
			runConc("k=prw,sq=1", b, 60*time.Second)
		}
		for k, v := range conc {
			c.Rep.Count("conc_"+k, v)
		}
		if os.Getenv("VERIF_SCEN") == "" {
			for _, k := range []string{"all_concurrent_deliveries_received", "deliveries_overtook_each_other", "resumptions_after_one_acknowledgement"} {
				if conc[k] == 0 {
					c.Rep.Add(explore.Violation{Key: "internal:vacuous:conc_" + k, Msg: "the concurrent-delivery scenarios never produced the case '" + k + "'"})
				}
			}
		}
		var sts []*explore.BFSStats
		if c.Quick() {
			sts = append(sts, explore.RunBFS(c, "c10", "v=5,maxpid=3,pubs=3,qos=12,conns=1,apubs=2,aids=2,aqos=12,adup=1,closure=reconnect", 0, 32*time.Second))
			sts = append(sts, explore.RunBFS(c, "c10", "v=5,maxpid=3,pubs=5,qos=1,conns=1,apubs=0,closure=reconnect", 0, 12*time.Second))
			sts = append(sts, explore.RunBFS(c, "c10", "v=4,maxpid=3,pubs=2,qos=12,conns=1,apubs=2,aids=2,aqos=2,adup=1,closure=reconnect", 0, 11*time.Second))
		} else {
			sts = append(sts, explore.RunBFS(c, "c10", "v=5,maxpid=3,pubs=3,qos=12,conns=2,apubs=3,aids=3,aqos=12,adup=1,closure=reconnect", 0, 6*time.Minute))
			sts = append(sts, explore.RunBFS(c, "c10", "v=5,maxpid=3,pubs=6,qos=12,conns=1,apubs=0,closure=reconnect", 0, 2*time.Minute))
			sts = append(sts, explore.RunBFS(c, "c10", "v=4,maxpid=3,pubs=3,qos=12,conns=1,apubs=2,aids=3,aqos=12,adup=1,closure=reconnect", 0, 3*time.Minute))
		}
		qosFold(c, sts, "client_id_collides_with_outstanding_outbound_id", "outbound_ack_while_same_inbound_id_held", "reported_drops")
	})
}
