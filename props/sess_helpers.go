package props

import (
	"os"
	"strconv"
	"time"
)

// perBudget returns the per-scenario budget; VERIF_PER_S overrides it (used to measure the
// full size of a scenario's state space while developing a check).
func perBudget(def time.Duration) time.Duration {
	if s := os.Getenv("VERIF_PER_S"); s != "" {
		if n, err := strconv.Atoi(s); err == nil && n > 0 {
			return time.Duration(n) * time.Second
		}
	}
	return def
}
