package props

import (
	"fmt"
	"strconv"
	"strings"
	"time"

	mqtt "github.com/mochi-mqtt/server/v2"
	"github.com/mochi-mqtt/server/v2/hooks/auth"

	"verif/explore"
	"verif/ref"
	"verif/world"
)

// C13: connections start with exactly one CONNACK first; success only if an authentication
// hook allows; an invalid first packet / CONNECT never yields a session.
//
// Part 1 (E1 through the live attach path; BFS engine with depth 1 so that the cases are
// sharded over worker processes, one broker execution per case):
//   c:<hook>:<name>:<ver>:<flags>:<cid>:<pv>
//     hook  none (no hook installed) | noauth (a hook is installed but provides no authentication) | allow (allow-all) | ledger (real hooks/auth ledger: user u /
//           password p allowed) | ledgerq (ledger expects password q: nobody in the domain is allowed)
//     name  MQTT | MQIsdp | MQTX | E (empty)        ver 3|4|5|6
//     flags all 256 CONNECT flag bytes (two hex digits), written raw
//     cid   a | E (empty client id)
//     pv    payload variant: ok (sections exactly as the flags announce: will topic w / payload wp,
//           user name u, password p) | short (last announced section missing) | none (all announced
//           sections missing) | extra (one surplus field after the announced sections)
//   f:<type>   a first packet that is not CONNECT (types 0,2..15, well-formed v4 encodings), allow-all hook
// Reference verdict (from MQTT 3.1/3.1.1/5.0 and the property): the CONNECT is invalid iff
// protocol name/version are not (MQIsdp,3) (MQTT,4) (MQTT,5); reserved flag set; will QoS or will
// retain without will flag; will QoS 3; v3/v4 password flag without user name flag; payload sections
// missing or surplus; v4 empty client id with clean session 0. It is authenticated iff a hook allows.
// must-not (invalid or not authenticated): success CONNACK, entry in Clients, connection left open,
// anything on the wire other than at most one failure CONNACK. Always: if anything is sent the first
// packet is CONNACK and there is exactly one CONNACK. A success CONNACK requires validity and
// authentication; refusing a valid CONNECT is not a violation of this property (v3 empty client id: unspecified).
//
// Part 2 (E3): scenario "c13race" - a (v5, persistent session subscribed to x QoS1) reconnects with
// Clean Start 0 while b publishes to x (QoS 0 or 1; variant "inflight": a also holds an unacknowledged
// message that is resent on resumption); all interleavings up to the deviation bound
// (0,1,2): on the new connection the first packet must be CONNACK, sent exactly once.
// Variant "big": the broker runs with ClientNetWriteBufferSize = 64 and b's payloads are 100 bytes,
// so that every PUBLISH for a is at least as large as the write buffer (the size-dependent branches
// of Client.WritePacket: direct write past the buffer / flush when the buffer fills) while the
// CONNACK and the acknowledgements are smaller. The whole byte stream of the new connection must
// frame into packets (a direct write that overtakes or splits buffered bytes shows up here).

type c13Raw struct {
	typ   byte
	flags byte
	body  []byte
}

// c13Split frames raw broker output into control packets (no content validation: C23's subject).
func c13Split(b []byte) (out []c13Raw, rest []byte) {
	for len(b) >= 2 {
		n, mul, i := 0, 1, 1
		for ; i < len(b) && i <= 4; i++ {
			n += int(b[i]&0x7f) * mul
			mul *= 128
			if b[i]&0x80 == 0 {
				break
			}
		}
		if i >= len(b) || i > 4 || len(b) < i+1+n {
			return out, b
		}
		out = append(out, c13Raw{typ: b[0] >> 4, flags: b[0] & 15, body: b[i+1 : i+1+n]})
		b = b[i+1+n:]
	}
	return out, b
}

func c13Reframe(pkt []byte, extra []byte, cut int) []byte {
	// strip fixed header
	i := 1
	for pkt[i]&0x80 != 0 {
		i++
	}
	body := append([]byte{}, pkt[i+1:]...)
	body = body[:len(body)-cut]
	body = append(body, extra...)
	out := []byte{pkt[0]}
	out = append(out, ref.EncodeVarint(uint32(len(body)))...)
	return append(out, body...)
}

type c13Case struct {
	hook, name    string
	ver, flags    byte
	cid, pv       string
	will, us, pw  bool
	invalid       string // first reason the CONNECT violates the protocol ("" = valid)
	unspecified   bool
	authenticated bool
}

func c13ParseCase(op string) c13Case {
	f := fields(op)
	c := c13Case{hook: f[1], name: f[2], cid: f[5], pv: f[6]}
	if c.name == "E" {
		c.name = ""
	}
	if c.cid == "E" {
		c.cid = ""
	}
	c.ver = byte(f[3][0] - '0')
	fl, _ := strconv.ParseUint(f[4], 16, 8)
	c.flags = byte(fl)
	c.will, c.pw, c.us = c.flags&4 != 0, c.flags&0x40 != 0, c.flags&0x80 != 0
	wq := (c.flags >> 3) & 3
	switch {
	case !(c.name == "MQTT" || c.name == "MQIsdp"):
		c.invalid = "bad-protocol-name"
	case !((c.name == "MQIsdp" && c.ver == 3) || (c.name == "MQTT" && (c.ver == 4 || c.ver == 5))):
		c.invalid = "bad-protocol-version"
	case c.flags&1 != 0:
		c.invalid = "reserved-flag-set"
	case c.will && wq == 3:
		c.invalid = "will-qos-3"
	case !c.will && wq != 0:
		c.invalid = "will-qos-without-will-flag"
	case !c.will && c.flags&0x20 != 0:
		c.invalid = "will-retain-without-will-flag"
	case c.ver < 5 && c.pw && !c.us:
		c.invalid = "v3v4-password-flag-without-username-flag"
	case c.pv == "short" || c.pv == "none":
		c.invalid = "missing-payload-section"
	case c.pv == "extra":
		c.invalid = "surplus-payload-bytes"
	case c.ver == 4 && c.cid == "" && c.flags&2 == 0:
		c.invalid = "v4-empty-client-id-with-clean-session-0"
	}
	c.unspecified = c.invalid == "" && c.ver == 3 && c.cid == ""
	switch c.hook {
	case "allow":
		c.authenticated = true
	case "ledger":
		c.authenticated = c.us && c.pw && (c.pv == "ok" || c.pv == "ok4") // user name u and password p are presented
	}
	return c
}

func (c c13Case) bytes() []byte {
	p := ref.Packet{Type: ref.CONNECT, ProtoName: c.name, ProtoVer: c.ver, ClientID: c.cid,
		WillFlag: c.will, WillTopic: "w", WillPayload: []byte("wp"), UserFlag: c.us, Username: []byte("u"), PassFlag: c.pw, Password: []byte("p")}
	fl := c.flags
	if c.pv == "none" {
		p.WillFlag, p.UserFlag, p.PassFlag = false, false, false
	}
	layout := c.ver
	if c.pv == "ok4" {
		layout = 4 // a version the broker does not know, in the MQTT 3.1.1 layout (no property sections)
	}
	b := ref.Encode(p, layout, ref.EncOpts{RawConnectFlags: &fl})
	switch c.pv {
	case "short":
		// remove the last announced section
		cut := 0
		switch {
		case c.pw:
			cut = 2 + 1
		case c.us:
			cut = 2 + 1
		case c.will:
			cut = 2 + 2 // will payload (the will topic stays)
		}
		b = c13Reframe(b, nil, cut)
	case "extra":
		b = c13Reframe(b, []byte{0, 1, 'z'}, 0)
	}
	return b
}

func c13Cases(arg string) []string {
	var out []string
	full := strings.Contains(arg, "full")
	names := []string{"MQTT", "MQIsdp", "MQTX", "E"}
	for _, hook := range []string{"none", "noauth", "allow", "ledger", "ledgerq"} {
		for _, name := range names {
			for ver := 3; ver <= 7; ver++ {
				okNV := (name == "MQIsdp" && ver == 3) || (name == "MQTT" && (ver == 4 || ver == 5))
				for fl := 0; fl < 256; fl++ {
					n := 0
					for _, bit := range []int{4, 0x40, 0x80} {
						if fl&bit != 0 {
							n++
						}
					}
					for _, cid := range []string{"a", "E"} {
						for _, pv := range []string{"ok", "short", "none", "extra", "ok4"} {
							if (pv == "short" && n == 0) || (pv == "none" && n < 2) {
								continue // identical to ok / short
							}
							if pv == "ok4" && (okNV || ver < 5) {
								continue // the 3.1.1 layout with a version byte of 5 or 6: only for unknown name/version pairs
							}
							if !full && !okNV && !(hook == "allow" && cid == "a" && (pv == "ok" || pv == "ok4")) {
								continue // quick: wrong name/version only in their plainest form
							}
							out = append(out, fmt.Sprintf("c:%s:%s:%d:%02x:%s:%s", hook, name, ver, fl, cid, pv))
						}
					}
				}
			}
		}
	}
	for _, t := range []int{0, 2, 3, 4, 5, 6, 7, 8, 9, 10, 11, 12, 13, 14, 15} {
		out = append(out, fmt.Sprintf("f:%d", t))
	}
	return out
}

func c13FirstPacket(t int) []byte {
	switch t {
	case 0:
		return []byte{0x00, 0x00}
	case ref.CONNACK:
		return ref.Encode(ref.Packet{Type: ref.CONNACK}, 4, ref.EncOpts{})
	case ref.PUBLISH:
		return ref.Encode(pub("x", "m", 0, 0), 4, ref.EncOpts{})
	case ref.SUBSCRIBE:
		return ref.Encode(sub(1, "x", 0), 4, ref.EncOpts{})
	case ref.UNSUBSCRIBE:
		return ref.Encode(ref.Packet{Type: ref.UNSUBSCRIBE, PacketID: 1, Filters: []ref.Filter{{Filter: "x"}}}, 4, ref.EncOpts{})
	case ref.SUBACK:
		return ref.Encode(ref.Packet{Type: ref.SUBACK, PacketID: 1, ReasonCodes: []byte{0}}, 4, ref.EncOpts{})
	case ref.AUTH:
		return ref.Encode(ref.Packet{Type: ref.AUTH}, 5, ref.EncOpts{})
	}
	return ref.Encode(ref.Packet{Type: byte(t), PacketID: 1}, 4, ref.EncOpts{})
}

func c13E1Run(arg string) explore.HistFn {
	cases := c13Cases(arg)
	return func(hist []string) explore.HistResult {
		if len(hist) == 0 {
			return explore.HistResult{Key: "root:" + arg, Next: cases}
		}
		op := hist[0]
		counters := map[string]int{}
		var cfg world.Config
		var raw []byte
		c := c13Case{hook: "allow", invalid: "first-packet-not-connect"}
		if strings.HasPrefix(op, "f:") {
			t, _ := strconv.Atoi(op[2:])
			raw = c13FirstPacket(t)
		} else {
			c = c13ParseCase(op)
			raw = c.bytes()
		}
		switch c.hook {
		case "none":
			cfg.NoHook = true
		case "noauth":
			cfg.Hook = func(rh *world.RecHook) { rh.NoAuth = true }
		case "ledger", "ledgerq":
			pw := "p"
			if c.hook == "ledgerq" {
				pw = "q"
			}
			cfg.NoHook = true
			cfg.Extra = []mqtt.Hook{new(auth.Hook)}
			cfg.ExtraCfg = []any{&auth.Options{Ledger: &auth.Ledger{Auth: auth.AuthRules{{Username: "u", Password: auth.RString(pw), Allow: true}}}}}
		}
		h := newH(cfg)
		h.last = true
		conn := h.W.Open()
		conn.Send(raw)
		h.W.Run()
		h.logf("-> % x", raw)
		h.logf("<- % x closed=%v", conn.Out, conn.Closed)
		pks, rest := c13Split(conn.Out)
		nConnack := 0
		for _, p := range pks {
			if p.typ == ref.CONNACK {
				nConnack++
			}
		}
		success := len(pks) > 0 && pks[0].typ == ref.CONNACK && len(pks[0].body) >= 2 && pks[0].body[1] == 0
		sessions := h.W.S.Clients.Len()
		must := c.invalid != "" || !c.authenticated // must be refused
		why := c.invalid
		if why == "" && !c.authenticated {
			why = "not-authenticated:hook-" + c.hook
		}
		if len(rest) > 0 {
			h.violate("output:unframed-bytes", "%s: output % x does not frame into packets", op, conn.Out)
		}
		if len(pks) > 0 && pks[0].typ != ref.CONNACK {
			h.violate("output:first-packet-not-connack", "%s: first packet sent has type %d: % x", op, pks[0].typ, conn.Out)
		}
		if nConnack > 1 {
			h.violate("output:more-than-one-connack", "%s: %d CONNACKs: % x", op, nConnack, conn.Out)
		}
		switch {
		case must:
			counters["must-refuse:"+why]++
			if success {
				h.violate("admitted:"+why, "%s (% x): CONNACK reports success although the CONNECT is %s", op, raw, why)
			}
			if sessions > 0 && !success {
				h.violate("session:"+why, "%s (% x): %d client(s) registered although the CONNECT is %s; output % x", op, raw, sessions, why, conn.Out)
			}
			if !conn.Closed && !success {
				h.violate("open-after-refusal:"+why, "%s (% x): connection not closed; output % x", op, raw, conn.Out)
			}
			if len(pks) > 1 {
				h.violate("output:more-than-a-failure-connack:"+why, "%s: output % x", op, conn.Out)
			}
		case c.unspecified:
			counters["unspecified:v3-empty-client-id"]++
		default:
			counters["valid-and-authenticated"]++
			if success {
				counters["admitted"]++
				if sessions != 1 {
					h.violate("success-connack-without-session", "%s: success CONNACK but %d clients registered", op, sessions)
				}
			} else {
				counters["refused-although-valid"]++
				if sessions > 0 {
					h.violate("session-without-success-connack", "%s: output % x but %d clients registered", op, conn.Out, sessions)
				}
			}
		}
		res := h.finish("case:"+op, nil)
		res.Counters = counters
		return res
	}
}

// ---------- part 2: E3 ----------

const (
	c13SmallWriteBuffer = 64  // ClientNetWriteBufferSize of the "big" variants
	c13BigPayload       = 100 // payload bytes of b's publishes in the "big" variants
)

func c13RaceRun(arg string) explore.RunFn {
	qos := byte(0)
	if strings.Contains(arg, "q1") {
		qos = 1
	}
	two := strings.Contains(arg, "two")
	big := strings.Contains(arg, "big")
	pad := ""
	if big {
		pad = strings.Repeat(".", c13BigPayload-2)
	}
	return func(prefix []int) explore.Outcome {
		var cfg world.Config
		if big {
			cfg.Opts = func(o *mqtt.Options) { o.ClientNetWriteBufferSize = c13SmallWriteBuffer }
		}
		w := world.New(prefix, cfg)
		defer w.End()
		e := &concEnv{W: w}
		w.Serve()
		w.Run()
		e.A = e.dial(v5connect("a", false, 8, 60))
		w.Run()
		// the second connection of a is accepted now (its handler waits for the CONNECT bytes), so
		// that its threads are older than b's: the explorer then needs one deviation less to let b's
		// publish overtake the CONNACK (thread ids only fix the default order, not the reachable set)
		c2 := w.Dial()
		a2 := e.add(&world.Client{W: w, C: c2, Ver: 5, ID: "a"})
		w.Run()
		e.B = e.dial(world.ConnectPacket("b", 4, true))
		w.Run()
		e.A.Do(sub(1, "x", 1))
		if strings.Contains(arg, "inflight") {
			e.B.Do(pub("x", "m0"+pad, 1, 9)) // a holds an unacknowledged message: it is resent after the CONNACK
		}
		if strings.Contains(arg, "dropfirst") {
			e.A.Drop() // the old connection is already gone: plain resume instead of takeover
		}
		for _, c := range e.Clients {
			c.Poll()
		}
		// concurrent part: a reconnects (clean start 0) while b publishes to x
		a2.Send(v5connect("a", false, 8, 60))
		e.B.Send(pub("x", "m1"+pad, qos, uint16(qos)))
		if two {
			e.B.Send(pub("x", "m2"+pad, qos, uint16(qos)*2))
		}
		w.Explore(true)
		w.Run()
		w.Explore(false)
		o := explore.Outcome{Points: w.X.Points, Divergence: w.X.Divergence(), Steps: w.X.Steps(), StepLog: w.X.StepLog, Counters: map[string]int{}}
		o.Viol = runtimeViolations(w)
		pks, rest := c13Split(a2.C.Out)
		if len(rest) > 0 {
			o.Viol = append(o.Viol, explore.Violation{Key: "output:unframed-bytes", Msg: fmt.Sprintf("output of a's new connection does not frame into packets: % x", a2.C.Out)})
		}
		var types []string
		nConnack, firstPub, firstConnack := 0, -1, -1
		for i, p := range pks {
			types = append(types, ref.TypeNames[p.typ&15])
			if p.typ == ref.CONNACK {
				nConnack++
				if firstConnack < 0 {
					firstConnack = i
				}
			}
			if p.typ == ref.PUBLISH && firstPub < 0 {
				firstPub = i
			}
		}
		if firstPub >= 0 {
			o.Counters["new-connection-received-publish"]++
		}
		if len(pks) > 0 && pks[0].typ != ref.CONNACK {
			key := "pre-connack:" + strings.ToLower(ref.TypeNames[pks[0].typ&15])
			if pks[0].typ == ref.PUBLISH {
				key = "pre-connack:publish-after-Clients.Add"
				if pks[0].flags&8 != 0 {
					key = "pre-connack:resent-inflight-message"
				}
				if big && len(pks[0].body)+2 >= c13SmallWriteBuffer {
					// the shape of the size-dependent write path: a packet not smaller than the
					// client write buffer reached the connection before the CONNACK
					key += ":packet-not-smaller-than-write-buffer"
				}
			}
			o.Viol = append(o.Viol, explore.Violation{Key: key, Msg: fmt.Sprintf("new connection of a received %v: the first packet is not CONNACK (raw % x)", types, a2.C.Out)})
			o.Counters["pre-connack-deliveries"]++
		}
		if nConnack > 1 {
			o.Viol = append(o.Viol, explore.Violation{Key: "output:more-than-one-connack", Msg: fmt.Sprintf("new connection of a received %v", types)})
		}
		if nConnack == 0 && len(pks) > 0 {
			o.Viol = append(o.Viol, explore.Violation{Key: "output:no-connack", Msg: fmt.Sprintf("new connection of a received %v", types)})
		}
		o.Obs = "a2:" + strings.Join(types, ",") + " | " + e.obs()
		return o
	}
}

func init() {
	explore.RegisterBFS("c13e1", c13E1Run)
	explore.RegisterDFS("c13race", c13RaceRun)
	// Part 3 (E3): scenario "c13limit" - concurrent CONNECTs against a connected-client limit
	// (C35's scenario and wire-level timeline), judged for this property only: on every
	// connection the first packet is a CONNACK, there is never a second one, a refused
	// connection is written nothing else and is closed.
	explore.RegisterDFS("c13limit", func(arg string) explore.RunFn {
		run := c35Run(arg)
		return func(prefix []int) explore.Outcome {
			o := run(prefix)
			var keep []explore.Violation
			for _, v := range o.Viol {
				switch {
				case strings.HasPrefix(v.Key, "first-packet-"), v.Key == "second-connack", v.Key == "packet-after-refusal", v.Key == "refused-left-open", v.Key == "no-connack":
					v.Key = "limit-race:" + v.Key
					keep = append(keep, v)
				case strings.HasPrefix(v.Key, "exceeded:"), strings.HasPrefix(v.Key, "refusal-code:"):
					// C35's subject
				default:
					keep = append(keep, v) // panics, deadlocks, divergence
				}
			}
			o.Viol = keep
			return o
		}
	})
	explore.Register("C13", func(c *explore.Ctx) {
		c.Rep.Level = "model_checking"
		c.Rep.Assumption("part 1: every first packet is fed to a fresh broker through EstablishConnection over an in-memory connection and run to quiescence (one execution per case)")
		c.Rep.Assumption("part 3: concurrent CONNECTs against Capabilities.MaximumClients, every interleaving up to the deviation bound, judged on the bytes the broker writes to each connection")
		c.Rep.Assumption("part 2: threads serialised by the cooperative scheduler; every interleaving of the reconnecting client's attach, the publisher's handler and the write loops up to the deviation bound")
		bounds := []explore.Bounds{{Preempt: 0}, {Preempt: 1}, {Preempt: 2}}
		if c.Quick() {
			for _, s := range []string{"1::b4+c5", "1:a5:b5+c4"} {
				explore.IterateDFS(c, "c13limit", s, bounds, 8*time.Second)
			}
			explore.RunBFS(c, "c13e1", "quick", 1, 45*time.Second)
			for _, s := range []string{"q0,big", "q1,big", "q0", "q1,inflight"} {
				explore.IterateDFS(c, "c13race", s, bounds, 40*time.Second)
			}
		} else {
			for _, s := range []string{"1::b4+c5", "1::b5+c5+d4", "2:a5:b5+c4", "1:a5:a5+b4"} {
				explore.IterateDFS(c, "c13limit", s, append(bounds, explore.Bounds{Preempt: 3}), 40*time.Second)
			}
			explore.RunBFS(c, "c13e1", "full", 1, 7*time.Minute)
			bounds = append(bounds, explore.Bounds{Preempt: 3})
			for _, s := range []string{"q0", "q1", "q1,inflight", "q0,two", "q1,two", "q0,dropfirst", "q1,inflight,dropfirst",
				"q0,big", "q1,big", "q1,inflight,big", "q0,two,big", "q1,two,big", "q1,inflight,dropfirst,big"} {
				explore.IterateDFS(c, "c13race", s, bounds, 45*time.Second)
			}
		}
	})
}
