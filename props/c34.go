package props

import (
	"fmt"
	"strings"
	"time"

	mqtt "github.com/mochi-mqtt/server/v2"

	"verif/explore"
	"verif/ref"
	"verif/world"
)

// C34: at quiescence everything reported as sent has been written to the connection
// (nothing stranded in the client's write buffer because a later write failed or was
// refused), and every message dropped without being written is reported to the hooks.
//
// E2 scenario "c34" (arg: wb=<ClientNetWriteBufferSize>,pend=<MaximumClientWritesPending>):
// client a (v5, Maximum Packet Size 48), publisher p (v4). Ops:
//   ret:<topic>:<S|L>        p retains a small / large (oversize for a) message
//   pub:<topic>:<S|L>:<qos>  p publishes live
//   a:sub  a:ping  a:sub+ping  a:sub+ping+ping   (several packets in one segment: direct writes while the queue is non-empty)
//   a:pub:<S|L>              a publishes QoS 1 to x/a (self delivery + direct PUBACK)
//   a:ack                    a acknowledges everything outstanding
//   fault:<k>                the k-th next conn.Write on a's connection fails (E4: every k)
//
// E3 scenario "c34conc" (arg: <act>+<act>...;wb=..,pend=..,mps=..): p (v4), q (v4) and a (v5,
// subscribed to x/# at QoS 1) are connected, then the actions run concurrently and every
// interleaving of the connection goroutines and a's write loop up to the deviation bound is
// executed: publishes queued for a by other connections (one or two per segment, oversize,
// QoS 0/1) against packets written directly by a's own connection goroutine (PINGRESP,
// SUBACK + retained replay, PUBACK + self delivery). The same two monitors are evaluated at
// the first quiescence (nothing is sent afterwards: a later write would flush the buffer).

func c34Payload(sz, tag string) string {
	if sz == "L" {
		return tag + strings.Repeat("L", 60)
	}
	return tag
}

// c34ReportedVsWritten compares, for one connection, the packets reported through
// OnPacketSent with the packets that reached the connection. OnPacketSent's byte slice is
// empty on the direct-write path (the buffer was drained by WriteTo), so packets are
// compared by (type, packet id, payload tag). Every reported packet must have been written
// (written may contain more: a packet whose write returned an error is not reported but may
// still leave the buffer later; the property does not forbid that). ordered (sequential
// histories): the reported packets are a subsequence of the written ones, missing lists the
// reported packets from the first one that is not on the connection. Unordered (concurrent
// schedules: OnPacketSent runs outside the client lock, so two writers may report in the
// opposite order of their writes, which the property does not forbid): multiset inclusion.
func c34ReportedVsWritten(events []world.HookEvent, cl *world.Client, ordered bool) (rep, wr, missing []string) {
	for _, e := range events {
		if e.Name == "OnPacketSent" && e.Client == cl.ID {
			rep = append(rep, c34PacketName(e.Type&15, e.PID, e.Tag, ordered))
		}
	}
	cl.Poll()
	for _, p := range cl.Recv {
		wr = append(wr, c34PacketName(p.Type, p.PacketID, string(p.Payload), ordered))
	}
	if !ordered {
		left := map[string]int{}
		for _, w := range wr {
			left[w]++
		}
		for _, r := range rep {
			if left[r] > 0 {
				left[r]--
			} else {
				missing = append(missing, r)
			}
		}
		return rep, wr, missing
	}
	j := 0
	for _, w := range wr {
		if j < len(rep) && rep[j] == w {
			j++
		}
	}
	return rep, wr, rep[j:]
}

func c34PacketName(typ byte, pid uint16, payload string, plain bool) string {
	if typ == ref.PUBLISH && !plain {
		return fmt.Sprintf("PUBLISH#%d(%s)", pid, c34Tag(payload))
	}
	return fmt.Sprintf("%s#%d", ref.TypeNames[typ], pid)
}

func c34Tag(payload string) string {
	if i := strings.IndexByte(payload, 'L'); i > 0 {
		return payload[:i]
	}
	return payload
}

func c34Run(arg string) explore.HistFn {
	wb, pend, mps := 64, 8, 48
	fmt.Sscanf(arg, "wb=%d,pend=%d,mps=%d", &wb, &pend, &mps)
	maxOps := 4
	if strings.Contains(arg, "deep") {
		maxOps = 5
	}
	return func(hist []string) explore.HistResult {
		h := newH(world.Config{
			Caps: func(c *mqtt.Capabilities) { c.MaximumClientWritesPending = int32(pend) },
			Opts: func(o *mqtt.Options) { o.ClientNetWriteBufferSize = wb },
		})
		h.connect("p", world.ConnectPacket("p", 4, true))
		h.connect("a", world.ConnectPacket("a", 5, true, ref.Prop{ID: ref.PMaximumPacketSize, Num: uint32(mps)}))
		a := h.Cl["a"]
		subscribed := false
		faulted := false
		oversizeSeen := false
		type msg struct {
			tag      string
			qos      byte
			oversize bool
		}
		var entitled []msg
		retainedNow := map[string]msg{} // topic -> retained message (QoS 0)
		big := func(sz string) bool { return sz == "L" && mps < 80 }
		n := 0
		pid := uint16(30)
		var outstanding []ref.Packet
		runHist(h, hist, func(op string) {
			f := fields(op)
			n++
			pid++
			tag := fmt.Sprintf("m%d", n)
			switch {
			case f[0] == "ret":
				pk := pub(f[1], c34Payload(f[2], tag), 0, 0)
				pk.Retain = true
				h.do("p", pk)
				if big(f[2]) {
					oversizeSeen = true
				}
				retainedNow[f[1]] = msg{tag, 0, big(f[2])}
				if subscribed {
					entitled = append(entitled, msg{tag, 0, big(f[2])})
				}
			case f[0] == "pub":
				q := byte(f[3][0] - '0')
				h.do("p", pub(f[1], c34Payload(f[2], tag), q, pid))
				if subscribed {
					entitled = append(entitled, msg{tag, q, big(f[2])})
				}
				if big(f[2]) {
					oversizeSeen = true
				}
			case f[0] == "fault":
				k := int(f[1][0] - '0')
				a.C.FailWriteAt = a.C.Writes + k
				faulted = true
			case op == "a:ack":
				for _, p := range outstanding {
					a.Send(ref.Packet{Type: ref.PUBACK, PacketID: p.PacketID})
				}
				outstanding = nil
				h.W.Run()
			case f[0] == "a" && f[1] == "pub":
				h.do("a", pub("x/a", c34Payload(f[2], tag), 1, pid))
				if subscribed {
					entitled = append(entitled, msg{tag, 1, big(f[2])})
				}
				if big(f[2]) {
					oversizeSeen = true
				}
			case f[0] == "a":
				for _, part := range strings.Split(f[1], "+") {
					switch part {
					case "sub":
						a.Send(sub(pid, "x/#", 1))
						subscribed = true
						// Retain Handling 0: every SUBSCRIBE is owed the current retained messages
						for _, k := range explore.SortedKeys(retainedNow) {
							entitled = append(entitled, retainedNow[k])
						}
					case "ping":
						a.Send(ref.Packet{Type: ref.PINGREQ})
					}
				}
				h.W.Run()
			}
			got := h.poll("a")
			h.poll("p")
			for _, p := range got {
				if p.Type == ref.PUBLISH && p.Qos > 0 {
					outstanding = append(outstanding, p)
				}
			}
			if !h.last {
				return
			}
			// (1) reported-as-sent == written, per connection
			for _, cl := range h.All {
				rep, wr, missing := c34ReportedVsWritten(h.W.Events, cl, true)
				if len(missing) > 0 || cl.Leftover() > 0 {
					cause := "other"
					switch {
					case faulted:
						cause = "write-fault"
					case oversizeSeen:
						cause = "oversize-refused"
					}
					h.violate("stranded:"+cause, "client %s: packets reported as sent (OnPacketSent) %v but packets written to the connection at quiescence %v (+%d partial bytes) (wb=%d pend=%d)", cl.ID, rep, wr, cl.Leftover(), wb, pend)
				}
			}
			// (2) every entitled message was delivered, is still owed (QoS>0 in flight) or its drop was reported
			have := map[string]bool{}
			for _, p := range a.Recv {
				if p.Type == ref.PUBLISH {
					t := string(p.Payload)
					if i := strings.IndexByte(t, 'L'); i > 0 {
						t = t[:i]
					}
					have[t] = true
				}
			}
			reportedSent := map[string]bool{}
			dropped := map[string]bool{}
			for _, e := range h.W.Events {
				t := e.Tag
				if i := strings.IndexByte(t, 'L'); i > 0 {
					t = t[:i]
				}
				if e.Client == "a" && e.Name == "OnPublishDropped" {
					dropped[t] = true
				}
				if e.Client == "a" && e.Name == "OnPacketSent" && e.Type == ref.PUBLISH {
					reportedSent[t] = true
				}
			}
			if !faulted {
				for _, m := range entitled {
					if have[m.tag] || dropped[m.tag] || reportedSent[m.tag] {
						continue
					}
					if m.qos > 0 {
						continue // still held in the session for redelivery: not dropped
					}
					why := "other"
					if m.oversize {
						why = "oversize-qos0"
					}
					h.violate("drop-unreported:"+why, "message %s (qos %d, oversize=%v) was neither written to a nor reported as dropped to the hooks (wb=%d pend=%d)", m.tag, m.qos, m.oversize, wb, pend)
				}
			}
		})
		var next []string
		if len(hist) < maxOps {
			next = append(next, "ret:x/a:S", "ret:x/b:L", "ret:x/b:S", "ret:x/0:L", "pub:x/a:S:0", "pub:x/a:S:1", "pub:x/b:L:0", "pub:x/b:L:1",
				"a:sub", "a:ping", "a:sub+ping", "a:sub+ping+ping", "a:pub:S", "a:pub:L", "a:ack")
			if !faulted {
				next = append(next, "fault:1", "fault:2", "fault:3")
			}
		}
		key := h.W.State() + fmt.Sprintf("|sub=%v fault=%v@%d/%d over=%v ent=%v", subscribed, faulted, a.C.FailWriteAt, a.C.Writes, oversizeSeen, entitled)
		return h.finish(key, next)
	}
}

// ---- E3: direct writes of a connection goroutine against the write loop draining the queue ----

type c34Msg struct {
	tag      string
	qos      byte
	oversize bool
}

type c34ConcEnv struct {
	w       *world.World
	a, p, q *world.Client
	mps     int
}

type c34ConcAct struct {
	do       func(e *c34ConcEnv)
	entitled []c34Msg // what a is owed because of the action (a is subscribed to x/# throughout)
}

func c34Segment(ver byte, pks ...ref.Packet) []byte {
	var b []byte
	for _, pk := range pks {
		b = append(b, ref.Encode(pk, ver, ref.EncOpts{})...)
	}
	return b
}

var c34ConcActs = map[string]c34ConcAct{
	// other connections queue publishes for a
	"pubP1": {func(e *c34ConcEnv) { e.p.Send(pub("x/a", "m1", 0, 0)) }, []c34Msg{{"m1", 0, false}}},
	"pubP2": {func(e *c34ConcEnv) { // two publishes in one segment: the queue holds one while the other is written
		e.p.SendRaw(c34Segment(4, pub("x/a", "m1", 0, 0), pub("x/b", "m2", 0, 0)))
	}, []c34Msg{{"m1", 0, false}, {"m2", 0, false}}},
	"pubP3": {func(e *c34ConcEnv) {
		e.p.SendRaw(c34Segment(4, pub("x/a", "m1", 0, 0), pub("x/b", "m2", 0, 0), pub("x/c", "m3", 0, 0)))
	}, []c34Msg{{"m1", 0, false}, {"m2", 0, false}, {"m3", 0, false}}},
	"pubP2q1": {func(e *c34ConcEnv) { // QoS 1: p's own connection goroutine writes PUBACKs directly as well
		e.p.SendRaw(c34Segment(4, pub("x/a", "n1", 1, 11), pub("x/b", "n2", 1, 12)))
	}, []c34Msg{{"n1", 1, false}, {"n2", 1, false}}},
	"pubPburst": {func(e *c34ConcEnv) { // the last queued packet is refused (larger than a's Maximum Packet Size)
		e.p.SendRaw(c34Segment(4, pub("x/a", "m1", 0, 0), pub("x/b", c34Payload("L", "m2"), 0, 0)))
	}, []c34Msg{{"m1", 0, false}, {"m2", 0, true}}},
	"pubPburstQ1": {func(e *c34ConcEnv) { // as pubPburst, but the refused last packet is a QoS 1 PUBLISH (no drop report is owed; the buffered m1 still must be flushed)
		e.p.SendRaw(c34Segment(4, pub("x/a", "m1", 0, 0), pub("x/b", c34Payload("L", "m2"), 1, 12)))
	}, []c34Msg{{"m1", 0, false}, {"m2", 1, true}}},
	"pubQ1": {func(e *c34ConcEnv) { e.q.Send(pub("x/q", "q1", 0, 0)) }, []c34Msg{{"q1", 0, false}}},
	// a's own connection goroutine writes directly
	"pingA": {func(e *c34ConcEnv) { e.a.Send(ref.Packet{Type: ref.PINGREQ}) }, nil},
	"ping2A": {func(e *c34ConcEnv) {
		e.a.SendRaw(c34Segment(5, ref.Packet{Type: ref.PINGREQ}, ref.Packet{Type: ref.PINGREQ}))
	}, nil},
	"pubA1": {func(e *c34ConcEnv) { e.a.Send(pub("x/s", "s1", 1, 7)) }, []c34Msg{{"s1", 1, false}}}, // PUBACK + self delivery
	"pubA2": {func(e *c34ConcEnv) { e.a.Send(pub("y/s", "s2", 2, 8)) }, nil},                        // PUBREC, no delivery
	"subA":  {func(e *c34ConcEnv) { e.a.Send(sub(3, "r/#", 1)) }, []c34Msg{{"r1", 0, false}}},       // SUBACK + retained r/1
	"unsubA": {func(e *c34ConcEnv) {
		e.a.Send(ref.Packet{Type: ref.UNSUBSCRIBE, PacketID: 4, Filters: []ref.Filter{{Filter: "z"}}})
	}, nil},
}

func c34ConcRun(arg string) explore.RunFn {
	actsArg, cfgArg, _ := strings.Cut(arg, ";")
	acts := splitActs(actsArg)
	wb, pend, mps := 64, 8, 0
	fmt.Sscanf(cfgArg, "wb=%d,pend=%d,mps=%d", &wb, &pend, &mps)
	return func(prefix []int) explore.Outcome {
		w := world.New(prefix, world.Config{
			Caps: func(c *mqtt.Capabilities) { c.MaximumClientWritesPending = int32(pend) },
			Opts: func(o *mqtt.Options) { o.ClientNetWriteBufferSize = wb },
		})
		defer w.End()
		e := &c34ConcEnv{w: w, mps: mps}
		e.p = w.Connect(world.ConnectPacket("p", 4, true))
		e.q = w.Connect(world.ConnectPacket("q", 4, true))
		ca := world.ConnectPacket("a", 5, true)
		if mps > 0 {
			ca.Props = append(ca.Props, ref.Prop{ID: ref.PMaximumPacketSize, Num: uint32(mps)})
		}
		e.a = w.Connect(ca)
		all := []*world.Client{e.p, e.q, e.a}
		rp := pub("r/1", "r1", 0, 0)
		rp.Retain = true
		e.q.Do(rp)
		e.a.Do(sub(1, "x/#", 1))
		for _, c := range all {
			c.Poll()
		}
		before := len(e.a.Recv)
		var entitled []c34Msg
		for _, a := range acts {
			act := c34ConcActs[a]
			act.do(e)
			for _, m := range act.entitled {
				m.oversize = m.oversize && mps > 0 && mps < 80
				entitled = append(entitled, m)
			}
		}
		w.Explore(true)
		w.Run()
		w.Explore(false)
		o := explore.Outcome{Points: w.X.Points, Divergence: w.X.Divergence(), Steps: w.X.Steps(), StepLog: w.X.StepLog, Counters: map[string]int{}}
		o.Viol = runtimeViolations(w)
		// (1) the broker is quiescent: everything reported as sent is on the connection
		for _, cl := range all {
			if cl.Closed() {
				continue
			}
			rep, wr, missing := c34ReportedVsWritten(w.Events, cl, false)
			if len(missing) > 0 || cl.Leftover() > 0 {
				shape := "queued-publish"
				for _, m := range missing {
					if !strings.HasPrefix(m, "PUBLISH#") {
						shape = "direct-write"
					}
				}
				if len(missing) == 0 {
					shape = "partial-packet"
				}
				o.Viol = append(o.Viol, explore.Violation{Key: "stranded:concurrent:" + shape, Msg: fmt.Sprintf("client %s, no write fault: packets reported as sent (OnPacketSent) %v but packets written to the connection at quiescence %v (+%d partial bytes); not written: %v (%s)", cl.ID, rep, wr, cl.Leftover(), missing, arg)})
			}
		}
		// (2) every QoS 0 message a is owed was written, reported as sent or reported as dropped
		have, reportedSent, dropped := map[string]bool{}, map[string]bool{}, map[string]bool{}
		for _, p := range e.a.Recv {
			if p.Type == ref.PUBLISH {
				have[c34Tag(string(p.Payload))] = true
			}
		}
		for _, ev := range w.Events {
			if ev.Client != "a" {
				continue
			}
			switch {
			case ev.Name == "OnPublishDropped":
				dropped[c34Tag(ev.Tag)] = true
				o.Counters["drops_reported"]++
			case ev.Name == "OnPacketSent" && ev.Type == ref.PUBLISH:
				reportedSent[c34Tag(ev.Tag)] = true
			}
		}
		for _, m := range entitled {
			if have[m.tag] || dropped[m.tag] || reportedSent[m.tag] || m.qos > 0 {
				continue // QoS > 0: still held in the session for redelivery, not dropped
			}
			why := "concurrent"
			if m.oversize {
				why = "concurrent-oversize-qos0"
			}
			o.Viol = append(o.Viol, explore.Violation{Key: "drop-unreported:" + why, Msg: fmt.Sprintf("message %s (qos %d, oversize=%v) was neither written to a nor reported as dropped to the hooks (%s)", m.tag, m.qos, m.oversize, arg)})
		}
		// non-vacuity: where the directly written packets landed relative to the queued publishes
		var obs strings.Builder
		npub, pubsBefore := 0, 0
		for _, p := range e.a.Recv[before:] {
			if p.Type == ref.PUBLISH {
				npub++
			}
		}
		for _, p := range e.a.Recv[before:] {
			fmt.Fprintf(&obs, "%s#%d ", ref.TypeNames[p.Type], p.PacketID)
			if p.Type == ref.PUBLISH {
				obs.WriteString(c34Tag(string(p.Payload)) + " ")
				pubsBefore++
				continue
			}
			switch {
			case npub == 0:
			case pubsBefore == 0:
				o.Counters["direct_before_queued"]++
			case pubsBefore < npub:
				o.Counters["direct_between_queued"]++
			default:
				o.Counters["direct_after_queued"]++
			}
		}
		fmt.Fprintf(&obs, "| dropped=%v | p:", explore.SortedKeys(dropped))
		for _, p := range e.p.Recv {
			fmt.Fprintf(&obs, " %s#%d", ref.TypeNames[p.Type], p.PacketID)
		}
		o.Obs = obs.String()
		return o
	}
}

func init() {
	explore.RegisterBFS("c34", c34Run)
	explore.RegisterDFS("c34conc", c34ConcRun)
	explore.Register("C34", func(c *explore.Ctx) {
		c.Rep.Level = "model_checking"
		c.Rep.Assumption("sequential histories under the default schedule; a client may send several packets in one segment so that direct writes happen while its outbound queue is non-empty")
		cfgs := []string{"wb=64,pend=8,mps=48", "wb=8,pend=2,mps=48", "wb=64,pend=1,mps=48", "wb=64,pend=8,mps=200"}
		per := 18 * time.Second
		depth := 4
		if !c.Quick() {
			cfgs = []string{"wb=64,pend=8,mps=48,deep", "wb=8,pend=2,mps=48,deep", "wb=64,pend=1,mps=48,deep", "wb=8,pend=1,mps=48,deep", "wb=2048,pend=2,mps=48,deep", "wb=64,pend=8,mps=200,deep", "wb=32,pend=2,mps=200,deep"}
			per = 2 * time.Minute
			depth = 5
		}
		c.Rep.Assumption("E3: threads serialised by the cooperative scheduler; every departure from the default scheduler costs one deviation; judged at the first quiescence after the concurrent actions")
		// the cheap decisive scenarios first: a direct write against the write loop taking the last queued publish
		type cs struct {
			arg string
			pb  int
		}
		conc := []cs{{"pubP2+pingA;wb=64,pend=8", 2}, {"pubP2+pingA;wb=8,pend=8", 2}, {"pubPburst+pingA;wb=64,pend=8,mps=48", 2}, {"pubPburstQ1+pingA;wb=64,pend=8,mps=48", 2}, {"pubP2+pubA1;wb=8,pend=8", 1}, {"pubP2+subA;wb=64,pend=2", 1}}
		cper := 7 * time.Second
		if !c.Quick() {
			conc = []cs{{"pubP2+pingA;wb=64,pend=8", 3}, {"pubP2+pingA;wb=8,pend=8", 3}, {"pubPburst+pingA;wb=64,pend=8,mps=48", 3}, {"pubPburstQ1+pingA;wb=64,pend=8,mps=48", 3}, {"pubP2+pubA1;wb=8,pend=8", 2}, {"pubP2+subA;wb=64,pend=2", 2},
				{"pubP3+ping2A;wb=8,pend=8", 2}, {"pubP3+ping2A;wb=64,pend=2", 2}, {"pubP2q1+pingA;wb=64,pend=8", 2}, {"pubP2q1+pubA1;wb=64,pend=8", 2}, {"pubP2+pubQ1+pingA;wb=8,pend=8", 2}, {"pubP2+pubQ1+pingA;wb=64,pend=1", 2},
				{"pubPburst+pubA1;wb=8,pend=8,mps=48", 2}, {"pubPburst+subA;wb=64,pend=8,mps=48", 2}, {"pubP2+pubA2;wb=8,pend=2", 3}, {"pubP2+unsubA;wb=64,pend=8", 3}, {"pubP1+pubQ1+subA;wb=8,pend=1", 2}}
			cper = 20 * time.Second
		}
		tot := map[string]int64{}
		for _, s := range conc {
			if c.Expired() {
				c.Rep.Capped("scenario c34conc/" + s.arg + " not started (deadline)")
				continue
			}
			var bounds []explore.Bounds
			for pb := 0; pb <= s.pb; pb++ {
				bounds = append(bounds, explore.Bounds{Preempt: pb})
			}
			if _, st := explore.IterateDFS(c, "c34conc", s.arg, bounds, cper); st != nil {
				for k, v := range st.Counters {
					tot[k] += v
				}
			}
		}
		for k, v := range tot {
			c.Rep.Count("c34conc_"+k, v)
		}
		if fullRun() && len(tot) > 0 {
			for _, k := range []string{"direct_before_queued", "direct_between_queued", "direct_after_queued", "drops_reported"} {
				if tot[k] == 0 {
					c.Rep.Add(explore.Violation{Key: "internal:vacuous:c34conc_" + k, Msg: fmt.Sprintf("C34 never exercised %s: %v", k, tot)})
				}
			}
		}
		for _, cf := range cfgs {
			explore.RunBFS(c, "c34", cf, depth, per)
		}
	})
}
