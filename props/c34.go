package props

import (
	"fmt"
	"strings"
	"time"

	mqtt "github.com/mochi-mqtt/server/v2"

	"verif/explore"
	"verif/ref"
	"verif/world"
)

// C34: at quiescence everything reported as sent has been written to the connection
// (nothing stranded in the client's write buffer because a later write failed or was
// refused), and every message dropped without being written is reported to the hooks.
//
// E2 scenario "c34" (arg: wb=<ClientNetWriteBufferSize>,pend=<MaximumClientWritesPending>):
// client a (v5, Maximum Packet Size 48), publisher p (v4). Ops:
//   ret:<topic>:<S|L>        p retains a small / large (oversize for a) message
//   pub:<topic>:<S|L>:<qos>  p publishes live
//   a:sub  a:ping  a:sub+ping  a:sub+ping+ping   (several packets in one segment: direct writes while the queue is non-empty)
//   a:pub:<S|L>              a publishes QoS 1 to x/a (self delivery + direct PUBACK)
//   a:ack                    a acknowledges everything outstanding
//   fault:<k>                the k-th next conn.Write on a's connection fails (E4: every k)

func c34Payload(sz, tag string) string {
	if sz == "L" {
		return tag + strings.Repeat("L", 60)
	}
	return tag
}

func c34Run(arg string) explore.HistFn {
	wb, pend, mps := 64, 8, 48
	fmt.Sscanf(arg, "wb=%d,pend=%d,mps=%d", &wb, &pend, &mps)
	maxOps := 4
	if strings.Contains(arg, "deep") {
		maxOps = 5
	}
	return func(hist []string) explore.HistResult {
		h := newH(world.Config{
			Caps: func(c *mqtt.Capabilities) { c.MaximumClientWritesPending = int32(pend) },
			Opts: func(o *mqtt.Options) { o.ClientNetWriteBufferSize = wb },
		})
		h.connect("p", world.ConnectPacket("p", 4, true))
		h.connect("a", world.ConnectPacket("a", 5, true, ref.Prop{ID: ref.PMaximumPacketSize, Num: uint32(mps)}))
		a := h.Cl["a"]
		subscribed := false
		faulted := false
		oversizeSeen := false
		type msg struct {
			tag      string
			qos      byte
			oversize bool
		}
		var entitled []msg
		retainedNow := map[string]msg{} // topic -> retained message (QoS 0)
		big := func(sz string) bool { return sz == "L" && mps < 80 }
		n := 0
		pid := uint16(30)
		var outstanding []ref.Packet
		runHist(h, hist, func(op string) {
			f := fields(op)
			n++
			pid++
			tag := fmt.Sprintf("m%d", n)
			switch {
			case f[0] == "ret":
				pk := pub(f[1], c34Payload(f[2], tag), 0, 0)
				pk.Retain = true
				h.do("p", pk)
				if big(f[2]) {
					oversizeSeen = true
				}
				retainedNow[f[1]] = msg{tag, 0, big(f[2])}
				if subscribed {
					entitled = append(entitled, msg{tag, 0, big(f[2])})
				}
			case f[0] == "pub":
				q := byte(f[3][0] - '0')
				h.do("p", pub(f[1], c34Payload(f[2], tag), q, pid))
				if subscribed {
					entitled = append(entitled, msg{tag, q, big(f[2])})
				}
				if big(f[2]) {
					oversizeSeen = true
				}
			case f[0] == "fault":
				k := int(f[1][0] - '0')
				a.C.FailWriteAt = a.C.Writes + k
				faulted = true
			case op == "a:ack":
				for _, p := range outstanding {
					a.Send(ref.Packet{Type: ref.PUBACK, PacketID: p.PacketID})
				}
				outstanding = nil
				h.W.Run()
			case f[0] == "a" && f[1] == "pub":
				h.do("a", pub("x/a", c34Payload(f[2], tag), 1, pid))
				if subscribed {
					entitled = append(entitled, msg{tag, 1, big(f[2])})
				}
				if big(f[2]) {
					oversizeSeen = true
				}
			case f[0] == "a":
				for _, part := range strings.Split(f[1], "+") {
					switch part {
					case "sub":
						a.Send(sub(pid, "x/#", 1))
						subscribed = true
						// Retain Handling 0: every SUBSCRIBE is owed the current retained messages
						for _, k := range explore.SortedKeys(retainedNow) {
							entitled = append(entitled, retainedNow[k])
						}
					case "ping":
						a.Send(ref.Packet{Type: ref.PINGREQ})
					}
				}
				h.W.Run()
			}
			got := h.poll("a")
			h.poll("p")
			for _, p := range got {
				if p.Type == ref.PUBLISH && p.Qos > 0 {
					outstanding = append(outstanding, p)
				}
			}
			if !h.last {
				return
			}
			// (1) reported-as-sent == written, per connection
			for _, cl := range h.All {
				// OnPacketSent's byte slice is empty on the direct-write path (the buffer was
				// drained by WriteTo), so packets are compared by (type, packet id) sequence.
				var rep, wr []string
				for _, e := range h.W.Events {
					if e.Name == "OnPacketSent" && e.Client == cl.ID {
						rep = append(rep, fmt.Sprintf("%s#%d", ref.TypeNames[e.Type&15], e.PID))
					}
				}
				cl.Poll()
				for _, p := range cl.Recv {
					wr = append(wr, fmt.Sprintf("%s#%d", ref.TypeNames[p.Type], p.PacketID))
				}
				// every reported packet must have been written, in order (written may contain
				// more: a packet whose write returned an error is not reported but may still
				// leave the buffer later; the property does not forbid that)
				j := 0
				for _, w := range wr {
					if j < len(rep) && rep[j] == w {
						j++
					}
				}
				if j < len(rep) || cl.Leftover() > 0 {
					cause := "other"
					switch {
					case faulted:
						cause = "write-fault"
					case oversizeSeen:
						cause = "oversize-refused"
					}
					h.violate("stranded:"+cause, "client %s: packets reported as sent (OnPacketSent) %v but packets written to the connection at quiescence %v (+%d partial bytes) (wb=%d pend=%d)", cl.ID, rep, wr, cl.Leftover(), wb, pend)
				}
			}
			// (2) every entitled message was delivered, is still owed (QoS>0 in flight) or its drop was reported
			have := map[string]bool{}
			for _, p := range a.Recv {
				if p.Type == ref.PUBLISH {
					t := string(p.Payload)
					if i := strings.IndexByte(t, 'L'); i > 0 {
						t = t[:i]
					}
					have[t] = true
				}
			}
			reportedSent := map[string]bool{}
			dropped := map[string]bool{}
			for _, e := range h.W.Events {
				t := e.Tag
				if i := strings.IndexByte(t, 'L'); i > 0 {
					t = t[:i]
				}
				if e.Client == "a" && e.Name == "OnPublishDropped" {
					dropped[t] = true
				}
				if e.Client == "a" && e.Name == "OnPacketSent" && e.Type == ref.PUBLISH {
					reportedSent[t] = true
				}
			}
			if !faulted {
				for _, m := range entitled {
					if have[m.tag] || dropped[m.tag] || reportedSent[m.tag] {
						continue
					}
					if m.qos > 0 {
						continue // still held in the session for redelivery: not dropped
					}
					why := "other"
					if m.oversize {
						why = "oversize-qos0"
					}
					h.violate("drop-unreported:"+why, "message %s (qos %d, oversize=%v) was neither written to a nor reported as dropped to the hooks (wb=%d pend=%d)", m.tag, m.qos, m.oversize, wb, pend)
				}
			}
		})
		var next []string
		if len(hist) < maxOps {
			next = append(next, "ret:x/a:S", "ret:x/b:L", "ret:x/b:S", "ret:x/0:L", "pub:x/a:S:0", "pub:x/a:S:1", "pub:x/b:L:0", "pub:x/b:L:1",
				"a:sub", "a:ping", "a:sub+ping", "a:sub+ping+ping", "a:pub:S", "a:pub:L", "a:ack")
			if !faulted {
				next = append(next, "fault:1", "fault:2", "fault:3")
			}
		}
		key := h.W.State() + fmt.Sprintf("|sub=%v fault=%v@%d/%d over=%v ent=%v", subscribed, faulted, a.C.FailWriteAt, a.C.Writes, oversizeSeen, entitled)
		return h.finish(key, next)
	}
}

func init() {
	explore.RegisterBFS("c34", c34Run)
	explore.Register("C34", func(c *explore.Ctx) {
		c.Rep.Level = "model_checking"
		c.Rep.Assumption("sequential histories under the default schedule; a client may send several packets in one segment so that direct writes happen while its outbound queue is non-empty")
		cfgs := []string{"wb=64,pend=8,mps=48", "wb=8,pend=2,mps=48", "wb=64,pend=1,mps=48", "wb=64,pend=8,mps=200"}
		per := 18 * time.Second
		depth := 4
		if !c.Quick() {
			cfgs = []string{"wb=64,pend=8,mps=48,deep", "wb=8,pend=2,mps=48,deep", "wb=64,pend=1,mps=48,deep", "wb=8,pend=1,mps=48,deep", "wb=2048,pend=2,mps=48,deep", "wb=64,pend=8,mps=200,deep", "wb=32,pend=2,mps=200,deep"}
			per = 2 * time.Minute
			depth = 5
		}
		for _, cf := range cfgs {
			explore.RunBFS(c, "c34", cf, depth, per)
		}
	})
}
