// Package props holds one check per property: alphabet, bounds per tier, monitor, classifier.
package props

import (
	"fmt"
	"sort"
	"strings"

	mqtt "github.com/mochi-mqtt/server/v2"
	"github.com/mochi-mqtt/server/v2/zzvrt"

	"verif/explore"
	"verif/ref"
	"verif/world"
)

// concEnv is the shared concurrent-scenario skeleton used by the schedule-exploring
// checks (C32, C13, C14, C16, C35, C36, C03, C23): a deterministic setup phase, a set of
// concurrent actions whose interleavings are explored, a deterministic drain and probe.
type concEnv struct {
	W             *world.World
	A, B          *world.Client
	D             *world.Client   // second publisher (only in setups that create one, e.g. C33's tam variants)
	Clients       []*world.Client // every client in creation order
	Closed        bool            // Server.Close was one of the actions
	CloseReturned bool
	Notes         []string
}

func (e *concEnv) add(c *world.Client) *world.Client {
	e.Clients = append(e.Clients, c)
	return c
}

func v5connect(id string, clean bool, rm uint32, expiry uint32) ref.Packet {
	p := world.ConnectPacket(id, 5, clean)
	if rm > 0 {
		p.Props = append(p.Props, ref.Prop{ID: ref.PReceiveMaximum, Num: rm})
	}
	if expiry > 0 {
		p.Props = append(p.Props, ref.Prop{ID: ref.PSessionExpiry, Num: expiry})
	}
	return p
}

func sub(id uint16, filter string, qos byte) ref.Packet {
	return ref.Packet{Type: ref.SUBSCRIBE, PacketID: id, Filters: []ref.Filter{{Filter: filter, Opts: qos}}}
}

func pub(topic, payload string, qos byte, id uint16) ref.Packet {
	return ref.Packet{Type: ref.PUBLISH, Topic: topic, Payload: []byte(payload), Qos: qos, PacketID: id}
}

// dialClient connects through the in-memory listener (real listeners.Net accept loop).
func (e *concEnv) dial(p ref.Packet) *world.Client {
	c := e.W.Dial()
	cl := &world.Client{W: e.W, C: c, Ver: p.ProtoVer, ID: p.ClientID}
	c.Send(ref.Encode(p, p.ProtoVer, ref.EncOpts{}))
	return e.add(cl)
}

type concAction func(e *concEnv)

var concActions = map[string]concAction{
	"pingA": func(e *concEnv) { e.A.Send(ref.Packet{Type: ref.PINGREQ}) },
	"pubB":  func(e *concEnv) { e.B.Send(pub("x", "m2", 1, 2)) },
	"pubBburst": func(e *concEnv) { // one segment: a small QoS 0 publish followed by one too large for a's Maximum Packet Size (variant mps)
		e.B.SendRaw(append(ref.Encode(pub("x", "s1", 0, 0), 4, ref.EncOpts{}), ref.Encode(pub("x", strings.Repeat("L", 200), 0, 0), 4, ref.EncOpts{})...))
	},
	"pubB0": func(e *concEnv) { e.B.Send(pub("x", "m2", 0, 0)) },
	// publishes on further topics and from a second publisher d (setups with e.D: a is
	// additionally subscribed to y and z)
	"pubBy0": func(e *concEnv) { e.B.Send(pub("y", "by", 0, 0)) },
	"pubBy":  func(e *concEnv) { e.B.Send(pub("y", "by", 1, 2)) },
	"pubDx0": func(e *concEnv) { e.D.Send(pub("x", "dx", 0, 0)) },
	"pubDy0": func(e *concEnv) { e.D.Send(pub("y", "dy", 0, 0)) },
	"pubDz0": func(e *concEnv) { e.D.Send(pub("z", "dz", 0, 0)) },
	"pubDz":  func(e *concEnv) { e.D.Send(pub("z", "dz", 1, 3)) },
	"inlz": func(e *concEnv) { // Server.Publish caller (needs Options.InlineClient)
		e.W.Spawn("inline-publish", func() { _ = e.W.S.Publish("z", []byte("iz"), false, 0) })
	},
	"pubA2": func(e *concEnv) { e.A.Send(pub("x", "n1", 2, 9)) },
	"ackA":  func(e *concEnv) { e.A.Send(ref.Packet{Type: ref.PUBACK, PacketID: 1}) },
	"subA":  func(e *concEnv) { e.A.Send(sub(3, "y/#", 1)) },
	"subB":  func(e *concEnv) { e.B.Send(sub(3, "x", 0)) },
	"unsubA": func(e *concEnv) {
		e.A.Send(ref.Packet{Type: ref.UNSUBSCRIBE, PacketID: 4, Filters: []ref.Filter{{Filter: "x"}}})
	},
	"discA": func(e *concEnv) { e.A.Send(ref.Packet{Type: ref.DISCONNECT}) },
	"discAx": func(e *concEnv) {
		e.A.Send(ref.Packet{Type: ref.DISCONNECT, Props: ref.Props{{ID: ref.PSessionExpiry, Num: 5}}})
	},
	"discAw": func(e *concEnv) { e.A.Send(ref.Packet{Type: ref.DISCONNECT, ReasonCode: 4, Props: ref.Props{}}) },
	"dropA":  func(e *concEnv) { e.A.C.PeerClose() },
	"dropB":  func(e *concEnv) { e.B.C.PeerClose() },
	"takeA":  func(e *concEnv) { e.dial(v5connect("a", false, 2, 60)) },
	"takeAc": func(e *concEnv) { e.dial(v5connect("a", true, 2, 60)) },
	"connC":  func(e *concEnv) { e.dial(world.ConnectPacket("c", 4, true)) },
	"connD":  func(e *concEnv) { e.dial(v5connect("d", false, 0, 60)) },
	"hk": func(e *concEnv) {
		e.W.X.Advance(2000)
		now := e.W.Now()
		e.W.Spawn("housekeeping", func() {
			e.W.S.VerifClearExpiredClients(now)
			e.W.S.VerifClearExpiredRetained(now)
			e.W.S.VerifSendDelayedLWT(now)
			e.W.S.VerifClearExpiredInflights(now)
		})
	},
	"sys": func(e *concEnv) { e.W.Spawn("systopics", func() { e.W.S.VerifPublishSysTopics() }) },
	"close": func(e *concEnv) {
		e.Closed = true
		e.W.Spawn("close", func() { _ = e.W.S.Close(); e.CloseReturned = true })
	},
}

// concSetup builds the standard base: listener, a (v5, persistent, Receive Maximum 2,
// subscribed to x at QoS 1) holding one unacknowledged message m1, b (v4).
func concSetup(prefix []int, cfg world.Config) *concEnv {
	return concSetupWill(prefix, cfg, false)
}

// concSetupWill: as concSetup; with will=true client a carries a will (topic w, delay 1 s).
func concSetupWill(prefix []int, cfg world.Config, will bool) *concEnv {
	return concSetupWith(prefix, cfg, will, nil)
}

// concSetupWith: as concSetupWill; mod may change a's CONNECT.
func concSetupWith(prefix []int, cfg world.Config, will bool, mod func(ca *ref.Packet)) *concEnv {
	w := world.New(prefix, cfg)
	e := &concEnv{W: w}
	w.Serve()
	w.Run()
	ca := v5connect("a", false, 2, 60)
	if will {
		ca.WillFlag, ca.WillTopic, ca.WillPayload, ca.WillQos = true, "w", []byte("will-a"), 1
		ca.WillProps = ref.Props{{ID: ref.PWillDelay, Num: 1}}
	}
	if mod != nil {
		mod(&ca)
	}
	e.A = e.dial(ca)
	w.Run()
	e.B = e.dial(world.ConnectPacket("b", 4, true))
	w.Run()
	e.A.Do(sub(1, "x", 1))
	e.B.Do(pub("x", "m1", 1, 1))
	for _, c := range e.Clients {
		c.Poll()
	}
	return e
}

func (e *concEnv) obs() string {
	var b strings.Builder
	for i, c := range e.Clients {
		c.Poll()
		fmt.Fprintf(&b, "c%d(%s v%d closed=%v):", i, c.ID, c.Ver, c.Closed())
		for _, p := range c.Recv {
			b.WriteString(" " + p.String())
		}
		if c.Err != nil {
			fmt.Fprintf(&b, " DECODE-ERROR(%v)", c.Err)
		}
		b.WriteString("; ")
	}
	if e.Closed {
		fmt.Fprintf(&b, "closeReturned=%v", e.CloseReturned)
	}
	return b.String()
}

// shutdownViolations judges a run in which Server.Close was one of the actions, at
// quiescence (no thread is enabled and nothing the peers sent is unread). Close must not be
// left waiting on the broker's own synchronisation (Listeners.ClientsWg, a channel) for a
// handler that nothing inside the broker will ever end: a client that holds a success
// CONNACK, whose connection is open, has no read deadline (keepalive 0) and whose peer is
// idle can only be ended by the shutdown itself - if Close waits for it instead of
// disconnecting it, the shutdown path is blocked forever. Lock waits are reported by
// runtimeViolations (deadlock:*) and are not repeated here. A handler that is still waiting
// for its peer's CONNECT is not judged (must-not only for established clients).
func (e *concEnv) shutdownViolations() []explore.Violation {
	if !e.Closed || e.CloseReturned {
		return nil
	}
	if d, _ := e.W.X.Deadlocked(); d {
		return nil
	}
	kind, what, found := zzvrt.BlockNone, "", false
	for _, t := range e.W.X.Threads() {
		if strings.HasPrefix(t.Name, "close#") && !t.Done {
			kind, what, found = t.Blocked, t.What, true
		}
	}
	if !found || (kind != zzvrt.BlockWG && kind != zzvrt.BlockChan) {
		return nil
	}
	var out []explore.Violation
	for _, c := range e.Clients {
		c.Poll()
		established := len(c.Recv) > 0 && c.Recv[0].Type == ref.CONNACK && c.Recv[0].ReasonCode == 0
		if established && !c.Closed() && c.C.Pending() == 0 && !c.C.PeerClosed() && c.C.Deadline().IsZero() {
			out = append(out, explore.Violation{Key: "close-blocked:established-client-never-disconnected",
				Msg: fmt.Sprintf("Server.Close is blocked forever in %s (%s): client %s (conn%d) holds a success CONNACK, its connection is open and idle with no keepalive deadline, nobody disconnects it and Close waits for its handler; %s", what, kind, c.ID, c.C.ID, e.obs())})
			break
		}
	}
	if len(out) == 0 {
		waitsForConnect := false
		for _, c := range e.Clients {
			if len(c.Recv) == 0 && !c.Closed() {
				waitsForConnect = true // a handler may still be reading this peer's CONNECT: not judged
			}
		}
		if !waitsForConnect {
			out = append(out, explore.Violation{Key: "close-blocked:other:" + kind.String(),
				Msg: fmt.Sprintf("Server.Close did not return at quiescence (blocked in %s) although no connection is left that it could be waiting for; threads alive: %v; %s", what, e.W.X.Alive(), e.obs())})
		}
	}
	return out
}

// runtimeViolations turns scheduler-level findings into violations with narrow keys.
func runtimeViolations(w *world.World) []explore.Violation {
	var out []explore.Violation
	for _, ev := range w.X.Events {
		switch ev.Kind {
		case "rlock-reentry":
			out = append(out, explore.Violation{Key: "reentrant-rlock:" + ev.Detail, Msg: "thread " + ev.Thread + " acquires a read lock it already holds: " + ev.Detail})
		case "panic":
			first := strings.SplitN(ev.Detail, "\n", 2)[0]
			out = append(out, explore.Violation{Key: "panic:" + panicSite(ev.Detail), Msg: "panic in " + ev.Thread + ": " + first, Trace: strings.Split(ev.Detail, "\n")})
		default:
			out = append(out, explore.Violation{Key: ev.Kind, Msg: ev.Thread + ": " + ev.Detail})
		}
	}
	if d, what := w.X.Deadlocked(); d {
		out = append(out, explore.Violation{Key: "deadlock:" + deadlockKey(w), Msg: "no thread enabled while threads wait for locks: " + what})
	}
	return out
}

func deadlockKey(w *world.World) string {
	var parts []string
	for _, t := range w.X.Threads() {
		if t.Blocked == zzvrt.BlockLock || t.Blocked == zzvrt.BlockOnce {
			parts = append(parts, t.What)
		}
	}
	sort.Strings(parts)
	return strings.Join(parts, "|")
}

// panicSite extracts the innermost mochi function of a panic stack (no line numbers).
func panicSite(detail string) string {
	lines := strings.Split(detail, "\n")
	for i, l := range lines {
		if strings.Contains(l, ".build/mochi/") && !strings.Contains(l, "/zzvrt/") && i > 0 {
			fn := strings.TrimSpace(lines[i-1])
			if j := strings.LastIndex(fn, "("); j > 0 {
				fn = fn[:j]
			}
			if j := strings.LastIndex(fn, "/"); j >= 0 {
				fn = fn[j+1:]
			}
			return fn
		}
	}
	return "unknown"
}

// probe checks that the broker still serves: a fresh client connects, pings and publishes.
func (e *concEnv) probe() []explore.Violation {
	if e.Closed {
		return nil
	}
	w := e.W
	p := e.dial(world.ConnectPacket("probe", 4, true))
	w.Run()
	p.Send(ref.Packet{Type: ref.PINGREQ})
	p.Send(pub("x", "probe", 1, 5))
	w.Run()
	p.Poll()
	got := map[byte]bool{}
	for _, r := range p.Recv {
		got[r.Type] = true
	}
	if !(got[ref.CONNACK] && got[ref.PINGRESP] && got[ref.PUBACK]) {
		return []explore.Violation{{Key: "not-serving-after", Msg: fmt.Sprintf("probe client got %v, want CONNACK, PINGRESP, PUBACK", p.Recv)}}
	}
	return nil
}

func splitActs(arg string) []string {
	if arg == "" {
		return nil
	}
	return strings.Split(arg, "+")
}

var _ = mqtt.Version
