package props

import (
	"fmt"
	"strconv"
	"strings"
	"time"

	mqtt "github.com/mochi-mqtt/server/v2"
	"github.com/mochi-mqtt/server/v2/packets"

	"verif/explore"
	"verif/ref"
	"verif/world"
)

// C14: Session Present = (a session existed) AND (Clean Start 0); a resumed session keeps
// every subscription and unacknowledged message; after Clean Start 1 nothing of the
// previous session survives; a taken-over connection receives nothing after its DISCONNECT
// (0x8E for MQTT 5) and is closed.
//
// E2 scenario "c14" (arg "first=<ver>.<clean>.<exp>[,deep]"): client a opens up to 3
// connections (after a drop / DISCONNECT, or while the previous one is live = takeover),
// b (v4) publishes QoS 1 to x. No time passes (session expiry 30 never elapses; C15 covers
// expiry). Ops:
//   conn:<ver>:<clean>:<exp>   ver 4|5, clean 0|1, exp 0|30 (v5)
//   sub                        a subscribes x QoS 1
//   pub                        b publishes the next tagged message to x QoS 1
//   ack                        a acknowledges its oldest unacknowledged delivery
//   drop | disc                a's connection ends (network drop / DISCONNECT 0x00)
// Reference model (Appendix A.2/A.3; MQTT 5 §3.1.2.4, §3.2.2.1.1, §4.1, §3.1.4-3; MQTT
// 3.1.1 §3.1.2.4): the session outlives a connection iff v5 expiry > 0 or v3/v4 clean
// session 0; it ends at a CONNECT with Clean Start 1. Session Present must equal
// exists && !clean. Unspecified (DESIGN §3.2, the model follows the CONNACK): Clean Start 0
// takeover of a LIVE connection whose session would end with that connection (v5 expiry 0;
// likewise v3/v4 clean session 1). On resume every unacknowledged QoS 1 message (sent and
// not acknowledged, or queued while away) must be transmitted on the new connection and
// the subscription must still route; on a new session no old message may arrive and no
// old subscription may route.

type c14Model struct {
	exists                        bool // a session for "a" exists (live or stored)
	subbed                        bool
	unacked                       []string // tags owed to the session, oldest first
	began                         string   // how the current session began: new | clean-start | resumed
	connected                     bool
	ver                           byte
	persist                       bool // the session outlives the current connection
	conns, pubs, subs, acks, ends int
}

func c14Run(arg string) explore.HistFn {
	first := "5:0:30"
	deep := false
	for _, kv := range strings.Split(arg, ",") {
		switch {
		case strings.HasPrefix(kv, "first="):
			first = strings.ReplaceAll(kv[6:], ".", ":")
		case kv == "deep":
			deep = true
		}
	}
	maxConns, maxPubs, maxSubs, maxAcks := 3, 2, 2, 1
	if deep {
		maxPubs, maxAcks = 3, 2
	}
	shapes := []string{"4:0:-", "4:1:-", "5:0:0", "5:0:30", "5:1:0", "5:1:30"}
	return func(hist []string) explore.HistResult {
		h := newH(world.Config{})
		m := &c14Model{}
		counters := map[string]int{}
		h.connect("b", world.ConnectPacket("b", 4, true))
		pids := map[string]uint16{} // tag -> packet id on a's current connection
		bpid, spid := uint16(100), uint16(1)

		take := func(got []ref.Packet) (tags []string) {
			for _, p := range pubsOf(got) {
				tags = append(tags, string(p.Payload))
				pids[string(p.Payload)] = p.PacketID
			}
			return
		}
		owed := func(tag string) bool {
			for _, t := range m.unacked {
				if t == tag {
					return true
				}
			}
			return false
		}
		endSession := func() { m.exists, m.subbed, m.unacked = false, false, nil }

		runHist(h, hist, func(op string) {
			f := fields(op)
			switch f[0] {
			case "conn":
				ver, _ := strconv.Atoi(f[1])
				clean := f[2] == "1"
				exp := int64(0)
				if f[3] != "-" {
					exp, _ = strconv.ParseInt(f[3], 10, 64)
				}
				m.conns++
				takeover := m.connected
				old := h.Cl["a"]
				oldSeen := 0
				if old != nil {
					old.Poll()
					oldSeen = len(old.Recv)
				}
				existed := m.exists
				unspecified := takeover && !m.persist && !clean
				how := "reconnect"
				if takeover {
					how = "takeover"
				}
				got := h.connect("a", v5orv4("a", byte(ver), clean, uint32(exp)))
				pids = map[string]uint16{}
				if len(got) == 0 || got[0].Type != ref.CONNACK || got[0].ReasonCode != 0 {
					h.violate("c14:connect-refused", "CONNECT %s refused: %v", op, got)
					return
				}
				sp := got[0].SessionPresent
				want := existed && !clean
				if h.last {
					counters[fmt.Sprintf("connect_%s_existed=%v_clean=%v", how, existed, clean)]++
				}
				if !unspecified && sp != want {
					h.violate(fmt.Sprintf("c14:session-present:%v-want-%v:%s:clean%s", sp, want, how, f[2]), "CONNECT %s (%s): Session Present=%v, reference says %v (session existed=%v, outlives its connection=%v): model=%+v", op, how, sp, want, existed, m.persist, *m)
				}
				if unspecified && h.last {
					counters["session_present_unspecified_case"]++
				}
				// the old connection of a takeover
				if takeover {
					old.Poll()
					news := old.Recv[oldSeen:]
					if h.last {
						counters["takeovers"]++
					}
					if !old.Closed() {
						h.violate("c14:takeover:old-connection-not-closed", "old connection still open after takeover")
					}
					di := -1
					for i, p := range news {
						if p.Type == ref.DISCONNECT && di < 0 {
							di = i
						}
					}
					if old.Ver == 5 && (di < 0 || news[di].ReasonCode != 0x8E) {
						h.violate("c14:takeover:no-disconnect-0x8e", "old MQTT 5 connection received %v during the takeover, want DISCONNECT 0x8E last", news)
					}
					if di >= 0 && di != len(news)-1 {
						h.violate("c14:takeover:packet-after-disconnect:"+ref.TypeNames[news[di+1].Type], "old connection received %v after its DISCONNECT", news[di+1:])
					}
				}
				resumed := sp && !clean && existed
				delivered := take(got[1:])
				if resumed {
					if h.last {
						counters["resumed_sessions"]++
						if len(m.unacked) > 0 {
							counters["resumed_with_unacknowledged_messages"]++
						}
					}
					for _, t := range m.unacked {
						n := 0
						for _, d := range delivered {
							if d == t {
								n++
							}
						}
						if n == 0 {
							h.violate("c14:resumed-session-lost-message:"+how, "session resumed (%s, CONNECT %s) but unacknowledged message %s was not transmitted on the new connection: got %v; model=%+v", how, op, t, got, *m)
						}
					}
					for _, d := range delivered {
						if !owed(d) {
							h.violate("c14:resumed-session-extra-message:"+how, "resumed session delivered %s which is not owed (owed %v)", d, m.unacked)
						}
					}
					m.began = "resumed"
				} else {
					if len(delivered) > 0 {
						why := "new-session"
						if clean {
							why = "clean-start"
						}
						h.violate("c14:old-message-after-"+why+":"+how, "CONNECT %s started a new session (Session Present=%v) but old messages %v were delivered", op, sp, delivered)
					}
					if clean && existed && h.last {
						counters["clean_start_over_existing_session"]++
					}
					endSession()
					m.began = "new"
					if clean {
						m.began = "clean-start"
					}
				}
				m.exists, m.connected, m.ver = true, true, byte(ver)
				m.persist = (ver == 5 && exp > 0) || (ver < 5 && !clean)
			case "sub":
				m.subs++
				spid++
				got := h.do("a", sub(spid, "x", 1))
				m.subbed = true
				if len(pubsOf(got)) > 0 {
					h.violate("c14:delivery-on-subscribe", "SUBSCRIBE produced deliveries %v (nothing is retained here)", pubsOf(got))
				}
			case "pub":
				m.pubs++
				bpid++
				tag := fmt.Sprintf("m%d", m.pubs)
				h.do("b", pub("x", tag, 1, bpid))
				var got []string
				if m.connected {
					got = take(h.poll("a"))
				}
				has := false
				for _, g := range got {
					if g == tag {
						has = true
					} else {
						h.violate("c14:unexpected-delivery", "a received %s while b published %s", g, tag)
					}
				}
				switch {
				case m.connected && m.subbed && !has:
					h.violate("c14:subscription-lost:session-"+m.began, "a is connected and its session (%s) holds a subscription to x, but %s was not delivered: model=%+v", m.began, tag, *m)
				case m.connected && !m.subbed && has:
					h.violate("c14:subscription-survived:session-"+m.began, "a's current session (%s) has no subscription, but %s was delivered: model=%+v", m.began, tag, *m)
				}
				if m.connected && m.subbed && has && m.began == "resumed" && h.last {
					counters["delivery_through_resumed_subscription"]++
				}
				if m.exists && m.subbed {
					m.unacked = append(m.unacked, tag)
				}
			case "ack":
				m.acks++
				tag := m.unacked[0]
				m.unacked = m.unacked[1:]
				h.do("a", ref.Packet{Type: ref.PUBACK, PacketID: pids[tag]})
			case "drop", "disc":
				m.ends++
				if f[0] == "drop" {
					h.Cl["a"].Drop()
					h.logf("a: peer closed")
				} else {
					h.do("a", ref.Packet{Type: ref.DISCONNECT})
				}
				m.connected = false
				if !m.persist {
					endSession()
				}
			}
		})

		var next []string
		if m.conns == 0 {
			next = append(next, "conn:"+first)
		} else if m.conns < maxConns {
			for _, s := range shapes {
				next = append(next, "conn:"+s)
			}
		}
		if m.connected {
			if !m.subbed && m.subs < maxSubs {
				next = append(next, "sub")
			}
			if m.conns < maxConns {
				next = append(next, "drop", "disc")
			}
			if m.acks < maxAcks && len(m.unacked) > 0 {
				if _, ok := pids[m.unacked[0]]; ok {
					next = append(next, "ack")
				}
			}
		}
		if m.pubs < maxPubs && m.conns > 0 && m.subs > 0 {
			next = append(next, "pub")
		}
		key := h.W.State() + fmt.Sprintf("|%+v|%v", *m, pids)
		r := h.finish(key, next)
		r.Counters = counters
		return r
	}
}

func v5orv4(id string, ver byte, clean bool, exp uint32) ref.Packet {
	if ver == 5 {
		return v5connect(id, clean, 0, exp)
	}
	return world.ConnectPacket(id, ver, clean)
}

// ---------------- E3: takeover while traffic for the old connection is in flight ----------------
//
// Scenario "c14race": the standard concurrent base (a: v5, Session Expiry 60, Receive
// Maximum 2, subscribed x QoS 1, one unacknowledged message; b: v4; real listener) and
// then concurrently the actions of arg, e.g. "pubB+takeA": b publishes to a while a second
// connection takes a's client id over and a's write loop is live. Every interleaving up to
// the deviation bound runs. Oracle on the OLD connection's byte stream (world.Conn.Out):
// decoded strictly, nothing may follow the DISCONNECT, an MQTT 5 connection must have got
// DISCONNECT 0x8E, and the connection must be closed. The new connection must hold a
// CONNACK whose Session Present is 1 (Clean Start 0) / 0 (Clean Start 1).
//
// Variant ",early" (e.g. "pubB+takeA,early"): the second connection of a is accepted before b
// connects (its handler waits for the CONNECT bytes, which takeA sends), so that its threads
// are older than b's and the default schedule attaches the new connection BEFORE b's publish
// is processed; one deviation then places the whole publish anywhere inside the attach
// (thread ids only fix the default order, not the reachable set).
//
// Oracle for the RESUMED session (Clean Start 0 takeover answered with Session Present 1;
// client a never acknowledges anything during the explored phase), "a resumed session keeps
// every subscription and unacknowledged message" (MQTT 5 §4.1, [MQTT-4.4.0-1]). After the
// explored phase, deterministically: the new connection is dropped, a reconnects once more
// with Clean Start 0 (third connection), acknowledges what it got there, and b publishes m3.
//   - every QoS 1 message b published to x and the broker acknowledged to b (m2 of pubB) must
//     have been transmitted to a at least once: on the old connection before its DISCONNECT,
//     on the new connection, or at the latest on the third connection;
//   - m1 (transmitted on the old connection during setup, never acknowledged) must be
//     retransmitted on the new or at the latest on the third connection;
//   - the third CONNACK must report Session Present 1 and m3 must be delivered there.
// A lost concurrent publish is classified by WHEN the broker started to process it (hook
// event OnPacketRead of b's PUBLISH) relative to the CONNACK of the new connection (hook
// event OnPacketSent): "published-after-connack" = the CONNECT was already answered, the
// resumed session is established for the outside world; "published-during-takeover" = the
// publish and the attach overlapped before the CONNACK.

var c14RaceScenarios = []string{"pubB+takeA,early", "pubB+takeA", "pubB0+takeA", "pubB+takeAc", "pubB+pubB0+takeA", "pingA+pubB+takeA"}

// c14RaceThorough: further scenarios of the thorough tier.
var c14RaceThorough = []string{"pubB+pubB0+takeA,early", "pingA+pubB+takeA,early", "pubB+takeAc,early"}

// c14EarlySetup is concSetup with a's second connection accepted before b connects.
func c14EarlySetup(prefix []int, cfg world.Config) (*concEnv, *world.Client) {
	w := world.New(prefix, cfg)
	e := &concEnv{W: w}
	w.Serve()
	w.Run()
	e.A = e.dial(v5connect("a", false, 2, 60))
	w.Run()
	a2 := e.add(&world.Client{W: w, C: w.Dial(), Ver: 5, ID: "a"})
	w.Run()
	e.B = e.dial(world.ConnectPacket("b", 4, true))
	w.Run()
	e.A.Do(sub(1, "x", 1))
	e.B.Do(pub("x", "m1", 1, 1))
	for _, c := range e.Clients {
		c.Poll()
	}
	return e, a2
}

func c14Race(arg string) explore.RunFn {
	parts := strings.Split(arg, ",")
	acts := splitActs(parts[0])
	early := false
	for _, o := range parts[1:] {
		early = early || o == "early"
	}
	clean := strings.Contains(arg, "takeAc")
	qos1 := false // b publishes m2 at QoS 1 (packet id 2) concurrently
	for _, a := range acts {
		qos1 = qos1 || a == "pubB"
	}
	return func(prefix []int) explore.Outcome {
		cfg := world.Config{Hook: func(rh *world.RecHook) {
			// pass-through: marks the moment the broker starts to process a packet
			rh.PacketRead = func(cl *mqtt.Client, pk packets.Packet) (packets.Packet, error) {
				rh.W.Events = append(rh.W.Events, world.HookEvent{Name: "OnPacketRead", Client: cl.ID, Topic: pk.TopicName, Tag: string(pk.Payload), PID: pk.PacketID, Type: pk.FixedHeader.Type, ClientPtr: cl})
				return pk, nil
			}
		}}
		var e *concEnv
		var a2 *world.Client
		if early {
			e, a2 = c14EarlySetup(prefix, cfg)
		} else {
			e = concSetup(prefix, cfg)
		}
		w := e.W
		defer w.End()
		evStart := len(w.Events)
		for _, a := range acts {
			if early && (a == "takeA" || a == "takeAc") {
				a2.Send(v5connect("a", a == "takeAc", 2, 60))
				continue
			}
			concActions[a](e)
		}
		if a2 == nil {
			a2 = e.Clients[len(e.Clients)-1]
		}
		w.Explore(true)
		w.Run()
		w.Explore(false)
		out := explore.Outcome{Points: w.X.Points, Divergence: w.X.Divergence(), Steps: w.X.Steps(), StepLog: w.X.StepLog, Counters: map[string]int{}}
		out.Viol = runtimeViolations(w)
		old := e.A
		nc := a2
		nc.Poll()
		pks, _, rest, err := ref.DecodeStream(old.C.Out, 5)
		di := -1
		for i, p := range pks {
			if p.Type == ref.DISCONNECT && di < 0 {
				di = i
			}
		}
		var after []string
		if di >= 0 {
			for _, p := range pks[di+1:] {
				after = append(after, ref.TypeNames[p.Type])
			}
		}
		beforeDisc := 0
		if di >= 0 {
			for _, p := range pks[:di] {
				if p.Type == ref.PUBLISH && string(p.Payload) == "m2" {
					beforeDisc++
				}
			}
		}
		if beforeDisc > 0 {
			out.Counters["concurrent_publish_written_to_old_connection_before_disconnect"]++
		}
		switch {
		case err != nil || len(rest) > 0:
			out.Viol = append(out.Viol, explore.Violation{Key: "c14:takeover:old-connection-stream-undecodable", Msg: fmt.Sprintf("old connection output does not decode: %v rest=% x", err, rest)})
		case !old.C.Closed:
			out.Viol = append(out.Viol, explore.Violation{Key: "c14:takeover:old-connection-not-closed", Msg: "old connection still open after the takeover"})
		case di < 0 || pks[di].ReasonCode != 0x8E:
			out.Viol = append(out.Viol, explore.Violation{Key: "c14:takeover:no-disconnect-0x8e", Msg: fmt.Sprintf("old MQTT 5 connection output %v holds no DISCONNECT 0x8E", pks)})
		case len(after) > 0:
			out.Viol = append(out.Viol, explore.Violation{Key: "c14:takeover:packet-after-disconnect:" + after[0], Msg: fmt.Sprintf("old connection received %v after its DISCONNECT 0x8E: %v", after, pks[di+1:])})
		}
		if len(nc.Recv) == 0 || nc.Recv[0].Type != ref.CONNACK || nc.Recv[0].ReasonCode != 0 {
			out.Viol = append(out.Viol, explore.Violation{Key: "c14:takeover:new-connection-not-accepted", Msg: fmt.Sprintf("new connection got %v", nc.Recv)})
		} else if nc.Recv[0].SessionPresent == clean {
			out.Viol = append(out.Viol, explore.Violation{Key: fmt.Sprintf("c14:session-present:%v-want-%v:takeover-race", nc.Recv[0].SessionPresent, !clean), Msg: fmt.Sprintf("takeover with Clean Start %v of a live persistent session answered Session Present=%v", clean, nc.Recv[0].SessionPresent)})
		}
		out.Obs = fmt.Sprintf("old=%v after=%v | new=%v", pks, after, nc.Recv)
		resumed := !clean && len(nc.Recv) > 0 && nc.Recv[0].Type == ref.CONNACK && nc.Recv[0].ReasonCode == 0 && nc.Recv[0].SessionPresent
		if resumed && err == nil && c14OnlyKnownTakeoverKeys(out.Viol) {
			out.Viol = append(out.Viol, c14ResumedOracle(e, old, nc, pks, di, qos1, evStart, &out)...)
		}
		return out
	}
}

// c14OnlyKnownTakeoverKeys: the resumed-session oracle runs when the takeover itself was in order
// or showed only the packet-after-disconnect shapes (they do not disturb the session's content).
func c14OnlyKnownTakeoverKeys(vs []explore.Violation) bool {
	for _, v := range vs {
		if !strings.HasPrefix(v.Key, "c14:takeover:packet-after-disconnect:") {
			return false
		}
	}
	return true
}

// c14ResumedOracle: deterministic epilogue and the oracle for the resumed session (see above).
func c14ResumedOracle(e *concEnv, old, nc *world.Client, oldPks []ref.Packet, di int, qos1 bool, evStart int, out *explore.Outcome) (viol []explore.Violation) {
	w := e.W
	add := func(key, f string, a ...any) {
		viol = append(viol, explore.Violation{Key: key, Msg: fmt.Sprintf(f, a...)})
	}
	// where was a QoS 1 PUBLISH with this payload transmitted to a
	if di < 0 {
		di = len(oldPks)
	}
	where := func(tag string, third *world.Client) (at []string) {
		has := func(pks []ref.Packet) bool {
			for _, p := range pks {
				if p.Type == ref.PUBLISH && p.Qos == 1 && string(p.Payload) == tag {
					return true
				}
			}
			return false
		}
		if has(oldPks[:di]) {
			at = append(at, "old")
		}
		if has(nc.Recv) {
			at = append(at, "new")
		}
		if third != nil && has(third.Recv) {
			at = append(at, "third")
		}
		return
	}
	e.B.Poll()
	acked := false // the broker acknowledged m2 (QoS 1, packet id 2) to b
	for _, p := range e.B.Recv {
		if p.Type == ref.PUBACK && p.PacketID == 2 {
			acked = true
		}
	}
	// the explored phase is over: drop the new connection, resume once more
	nc.Drop()
	a3 := e.dial(v5connect("a", false, 2, 60))
	w.Run()
	a3.Poll()
	out.Obs += fmt.Sprintf(" | third=%v", a3.Recv)
	if len(a3.Recv) == 0 || a3.Recv[0].Type != ref.CONNACK || a3.Recv[0].ReasonCode != 0 {
		add("c14:reconnect-after-takeover-race:not-accepted", "third connection of a got %v", a3.Recv)
		return
	}
	if !a3.Recv[0].SessionPresent {
		add("c14:session-present:false-want-true:reconnect-after-takeover-race", "the session was resumed by the takeover (Session Present 1, expiry 60 s, no time passed) but the next CONNECT with Clean Start 0 got Session Present 0: %v", a3.Recv)
	}
	if got := where("m1", a3); !(len(got) > 1 || len(got) == 1 && got[0] != "old") {
		add("c14:resumed-session-lost-message:unacknowledged-before-takeover", "m1 was sent on the old connection and never acknowledged; the resumed session did not retransmit it (seen on %v): new=%v third=%v", got, nc.Recv, a3.Recv)
	}
	if qos1 && acked {
		out.Counters["resumed_session_with_concurrent_qos1_publish"]++
		got := where("m2", a3)
		// when did the broker start to process b's PUBLISH relative to the new connection's CONNACK
		iRead, iAck := -1, -1
		for i := evStart; i < len(w.Events); i++ {
			ev := w.Events[i]
			if ev.Name == "OnPacketRead" && ev.Client == "b" && ev.Type == ref.PUBLISH && ev.PID == 2 && iRead < 0 {
				iRead = i
			}
			if ev.Name == "OnPacketSent" && ev.Client == "a" && ev.Type == ref.CONNACK && iAck < 0 {
				iAck = i
			}
		}
		when := "published-during-takeover"
		switch {
		case iRead < 0 || iAck < 0:
			when = "unclassified"
		case iRead > iAck:
			when = "published-after-connack"
		}
		out.Counters["concurrent_publish_"+when]++
		if len(got) == 0 {
			add("c14:resumed-session-lost-message:"+when, "b's QoS 1 message m2 was acknowledged to b and a's session was resumed (Session Present 1), but m2 was never transmitted to a: not on the old connection before its DISCONNECT, not on the new connection, not after one more reconnect with Clean Start 0 (%s: OnPacketRead of the PUBLISH is event %d, OnPacketSent of the new CONNACK is event %d): new=%v third=%v", when, iRead, iAck, nc.Recv, a3.Recv)
		} else {
			out.Counters["concurrent_publish_first_seen_on_"+got[0]]++
		}
	}
	// the subscription: acknowledge everything, then one more message
	for _, p := range a3.Recv {
		if p.Type == ref.PUBLISH && p.Qos == 1 {
			a3.Send(ref.Packet{Type: ref.PUBACK, PacketID: p.PacketID})
		}
	}
	w.Run()
	a3.Poll()
	e.B.Do(pub("x", "m3", 1, 3))
	a3.Poll()
	if got := where("m3", a3); len(got) == 0 {
		add("c14:subscription-lost:after-takeover-race", "the resumed session lost its subscription to x: m3 not delivered on the third connection: %v", a3.Recv)
	}
	return
}

func init() {
	explore.RegisterBFS("c14", c14Run)
	explore.RegisterDFS("c14race", c14Race)
	explore.Register("C14", func(c *explore.Ctx) {
		c.Rep.Level = "model_checking"
		c.Rep.Assumption("E2: one operation at a time, broker run to quiescence (sequential histories); no time passes, session expiry 30 never elapses")
		c.Rep.Assumption("E3: threads are serialised by the cooperative scheduler (sequentially consistent interleavings), deviation bound as reported per scenario")
		c.Rep.Assumption("Session Present is not judged for a Clean Start 0 takeover of a live connection whose session ends with that connection (v5 expiry 0, v3/v4 clean session): DESIGN §3.2")
		firsts := []string{"5.0.30", "4.0.-", "5.0.0", "4.1.-"}
		per := 11 * time.Second
		racePer := 6 * time.Second
		bounds := []explore.Bounds{{Preempt: 0}, {Preempt: 1}, {Preempt: 2}}
		extra := ""
		if !c.Quick() {
			firsts = []string{"5.0.30", "4.0.-", "5.0.0", "4.1.-", "5.1.30", "5.1.0"}
			per = 70 * time.Second
			racePer = 40 * time.Second
			extra = ",deep"
			bounds = append(bounds, explore.Bounds{Preempt: 3})
		}
		for _, f := range firsts {
			if c.Expired() {
				c.Rep.Capped("first=" + f + " not started (deadline)")
				continue
			}
			st := explore.RunBFS(c, "c14", "first="+f+extra, 0, perBudget(per))
			for ck, n := range st.Counters {
				c.Rep.Count(ck, n)
			}
		}
		scen := c14RaceScenarios
		if !c.Quick() {
			scen = append(append([]string{}, scen...), c14RaceThorough...)
		}
		for _, s := range scen {
			if c.Expired() {
				c.Rep.Capped("race " + s + " not started (deadline)")
				continue
			}
			bs, bud := bounds, racePer
			if c.Quick() && strings.HasSuffix(s, ",early") {
				// quick: the early variant up to one deviation, with room to complete that bound on a busy machine
				bs, bud = bounds[:2], 20*time.Second
			}
			_, last := explore.IterateDFS(c, "c14race", s, bs, perBudget(bud))
			if last != nil {
				for ck, n := range last.Counters {
					c.Rep.Count("race_"+ck, n)
				}
			}
		}
	})
}
