package props

import (
	"fmt"
	"strings"
	"time"

	mqtt "github.com/mochi-mqtt/server/v2"

	"verif/explore"
	"verif/ref"
	"verif/world"
)

// C05: the retained store reflects the latest retained publish per topic; Retain Handling
// 0/1/2; shared subscriptions get no retained messages; nothing retained while unavailable.
//
// E2 scenario "c05" (arg "ra=1" | "ra=0"): publisher p (v4), subscribers s (v5), t (v4).
// Ops (pools: P publishes, S subscribes, 1 unsubscribe):
//   pub:<topic>:<payload>:<retain>   topic ∈ {x, x/y}, payload ∈ {p1,p2,""}, retain ∈ {0,1}
//   sub:s:<filter>:<rh>              filter ∈ {x/#, x, $share/g/x}, rh ∈ {0,1,2}
//   sub:t:x/#:0
//   unsub:s:<filter>
// Reference model: map topic -> latest retained payload; set of (client, filter).

type c05Model struct {
	retained map[string]string
	subs     map[string]bool // "client|filter"
	pubs     int
	nsubs    int
	unsubs   int
}

func c05Run(arg string) explore.HistFn {
	ra := !strings.Contains(arg, "ra=0")
	maxP, maxS := 3, 3
	if strings.Contains(arg, "deep") {
		maxP, maxS = 4, 4
	}
	// "ct": the publisher speaks MQTT 5 and numbers its publishes per topic in the Content
	// Type; the v5 subscriber must be sent the properties of the LATEST retained publish,
	// also when payload and QoS did not change (pools: publishes as above, one subscribe)
	ct := strings.Contains(arg, "ct")
	if ct {
		maxS = 1
	}
	return func(hist []string) explore.HistResult {
		h := newH(world.Config{Caps: func(c *mqtt.Capabilities) {
			if !ra {
				c.RetainAvailable = 0
			}
		}})
		m := &c05Model{retained: map[string]string{}, subs: map[string]bool{}}
		cnt := map[string]int{}
		pver := byte(4)
		if ct {
			pver = 5
		}
		perTopic := map[string]int{}
		h.connect("p", world.ConnectPacket("p", pver, true))
		h.connect("s", world.ConnectPacket("s", 5, true))
		h.connect("t", world.ConnectPacket("t", 4, true))
		pid := uint16(10)
		runHist(h, hist, func(op string) {
			f := fields(op)
			switch f[0] {
			case "pub":
				topic, payload, retain := f[1], f[2], f[3] == "1"
				m.pubs++
				pk := pub(topic, payload, 0, 0)
				pk.Retain = retain
				val := payload
				if ct {
					perTopic[topic]++
					c := fmt.Sprintf("c%d", perTopic[topic]%3)
					pk.Props = ref.Props{{ID: ref.PContentType, Str: c}}
					val += "|" + c
				}
				h.do("p", pk)
				h.poll("s")
				h.poll("t")
				if retain && ra {
					if payload == "" {
						delete(m.retained, topic)
					} else {
						if old, ok := m.retained[topic]; ok && ct && strings.HasPrefix(old, payload+"|") {
							h.count(cnt, "retained_republished_with_same_payload_other_properties", 1)
						}
						m.retained[topic] = val
					}
				}
			case "sub":
				who, filter := f[1], f[2]
				rh := byte(f[3][0] - '0')
				m.nsubs++
				pid++
				opts := ref.SubOpts(0, false, false, rh)
				if who == "t" {
					opts = 0
				}
				got := h.do(who, ref.Packet{Type: ref.SUBSCRIBE, PacketID: pid, Filters: []ref.Filter{{Filter: filter, Opts: opts}}})
				existed := m.subs[who+"|"+filter]
				m.subs[who+"|"+filter] = true
				// expected retained deliveries
				want := map[string]int{}
				if !ref.IsShare(filter) && (rh == 0 || (rh == 1 && !existed)) {
					for t, p := range m.retained {
						if ref.Match(filter, t) {
							if who == "t" && ct {
								p = p[:strings.IndexByte(p, '|')] // an MQTT 3 subscriber sees no properties
							}
							want[t+"="+p]++
						}
					}
				}
				if len(got) == 0 || got[0].Type != ref.SUBACK || got[0].PacketID != pid {
					h.violate("c05:no-suback-first", "SUBSCRIBE %s by %s: first packet received is not its SUBACK: %v", filter, who, got)
					break
				}
				have := map[string]int{}
				for _, p := range got[1:] {
					if p.Type != ref.PUBLISH {
						continue
					}
					k := p.Topic + "=" + string(p.Payload)
					if ct && who == "s" {
						c := ""
						for _, pr := range p.Props {
							if pr.ID == ref.PContentType {
								c = pr.Str
							}
						}
						k += "|" + c
					}
					have[k]++
					if !p.Retain {
						h.violate("c05:retained-delivery-without-retain-flag", "retained delivery of %q on SUBSCRIBE %s has retain=0", p.Topic, filter)
					}
				}
				for k, n := range want {
					if have[k] != n {
						kind := "missing"
						if have[k] > n {
							kind = "duplicate"
						}
						h.violate(fmt.Sprintf("c05:%s:rh%d:%s", kind, rh, c05Shape(filter, k)), "SUBSCRIBE %s (rh=%d existed=%v) by %s: retained %s delivered %d times, want %d; model=%v got=%v", filter, rh, existed, who, k, have[k], n, m.retained, got)
					}
				}
				for k, n := range have {
					if want[k] == 0 {
						why := "stale-or-unmatched"
						switch {
						case !ra:
							why = "retain-unavailable"
						case ref.IsShare(filter):
							why = "shared"
						case rh == 2:
							why = "rh2"
						case rh == 1 && existed:
							why = "rh1-existing"
						}
						h.violate("c05:unexpected:"+why, "SUBSCRIBE %s (rh=%d existed=%v) by %s: unexpected retained delivery %s x%d; model=%v", filter, rh, existed, who, k, n, m.retained)
					}
				}
			case "unsub":
				who, filter := f[1], f[2]
				m.unsubs++
				pid++
				h.do(who, ref.Packet{Type: ref.UNSUBSCRIBE, PacketID: pid, Filters: []ref.Filter{{Filter: filter}}})
				delete(m.subs, who+"|"+filter)
			}
		})
		// enabled ops
		var next []string
		if m.pubs < maxP {
			for _, t := range []string{"x", "x/y"} {
				for _, p := range []string{"p1", "p2", ""} {
					for _, r := range []string{"1", "0"} {
						if r == "0" && p != "p1" {
							continue // one non-retained publish shape is enough
						}
						next = append(next, "pub:"+t+":"+p+":"+r)
					}
				}
			}
		}
		if m.nsubs < maxS {
			for _, f := range []string{"x/#", "x", "$share/g/x"} {
				for _, rh := range []string{"0", "1", "2"} {
					next = append(next, "sub:s:"+f+":"+rh)
				}
			}
			next = append(next, "sub:t:x/#:0")
		}
		if m.unsubs < 1 {
			for k := range m.subs {
				if strings.HasPrefix(k, "s|") {
					next = append(next, "unsub:s:"+k[2:])
				}
			}
			next = sortedStrings(next)
		}
		key := h.W.State() + fmt.Sprintf("|model:%v|%v|%d,%d,%d|%v", m.retained, explore.SortedKeys(m.subs), m.pubs, m.nsubs, m.unsubs, perTopic)
		r := h.finish(key, next)
		r.Counters = cnt
		return r
	}
}

func c05Shape(filter, k string) string {
	topic := k[:strings.IndexByte(k, '=')]
	if strings.HasSuffix(filter, "/#") && topic == strings.TrimSuffix(filter, "/#") {
		return "hash~parent"
	}
	return "other"
}

// c05Race: E3. A new subscription racing a retained publish on a matching topic: whatever
// the interleaving, the subscriber must never be sent a SUPERSEDED retained message after it
// has already been sent the newer one (the retained copy sent for a subscription is the
// latest retained publish at the time it is sent).
func c05Race(arg string) explore.RunFn {
	return func(prefix []int) explore.Outcome {
		w := world.New(prefix, world.Config{})
		defer w.End()
		p := w.Connect(world.ConnectPacket("p", 4, true))
		s := w.Connect(world.ConnectPacket("s", 5, true))
		old := pub("x", "old", 0, 0)
		old.Retain = true
		p.Do(old)
		if arg == "presub" {
			s.Do(sub(1, "x", 0)) // already subscribed with another filter: live copies arrive too
		}
		p.Poll()
		s.Poll()
		base := len(s.Recv)
		nw := pub("x", "new", 0, 0)
		nw.Retain = true
		s.Send(sub(2, "x/#", 0))
		p.Send(nw)
		w.Explore(true)
		w.Run()
		w.Explore(false)
		s.Poll()
		o := explore.Outcome{Points: w.X.Points, Divergence: w.X.Divergence(), Steps: w.X.Steps(), Counters: map[string]int{}}
		o.Viol = runtimeViolations(w)
		seenNew := false
		var seq []string
		for _, pk := range s.Recv[base:] {
			if pk.Type != ref.PUBLISH {
				seq = append(seq, ref.TypeNames[pk.Type])
				continue
			}
			seq = append(seq, fmt.Sprintf("%s(ret=%v)", pk.Payload, pk.Retain))
			if string(pk.Payload) == "new" {
				seenNew = true
			}
			if string(pk.Payload) == "old" {
				o.Counters["old_retained_delivered"]++
				if seenNew {
					// when was the old message superseded relative to the SUBACK?
					iRet, iAck := -1, -1
					for i, ev := range w.Events {
						if ev.Name == "OnRetainMessage" && ev.Tag == "new" && iRet < 0 {
							iRet = i
						}
						if ev.Name == "OnPacketSent" && ev.Client == "s" && ev.Type == ref.SUBACK && ev.PID == 2 {
							iAck = i
						}
					}
					when := "between-scan-and-send"
					if iRet >= 0 && iAck >= 0 && iRet < iAck {
						when = "before-suback-was-written"
					}
					o.Viol = append(o.Viol, explore.Violation{Key: "c05:stale-retained-after-newer:superseded-" + when, Msg: fmt.Sprintf("subscriber was sent the superseded retained message (retain flag set) after the newer one: %v", seq)})
				}
			}
		}
		if seenNew {
			o.Counters["new_delivered"]++
		}
		o.Obs = strings.Join(seq, " ")
		return o
	}
}

func init() {
	explore.RegisterDFS("c05race", c05Race)
	explore.RegisterBFS("c05", c05Run)
	explore.Register("C05", func(c *explore.Ctx) {
		c.Rep.Level = "model_checking"
		c.Rep.Assumption("one operation at a time, broker run to quiescence under the deterministic default schedule (sequential histories)")
		c.Rep.Assumption("state = reflective dump of *Server plus reference-model state; two histories are merged only if byte-identical")
		bounds := []explore.Bounds{{Preempt: 0}, {Preempt: 1}, {Preempt: 2}}
		if !c.Quick() {
			bounds = append(bounds, explore.Bounds{Preempt: 3})
		}
		explore.IterateDFS(c, "c05race", "", bounds, 12*time.Second)
		explore.IterateDFS(c, "c05race", "presub", bounds, 12*time.Second)
		if c.Quick() {
			if st := explore.RunBFS(c, "c05", "ra=1,ct", 0, 20*time.Second); st != nil {
				for k, v := range st.Counters {
					c.Rep.Count("c05_"+k, v)
				}
			}
			explore.RunBFS(c, "c05", "ra=1", 0, 50*time.Second)
			explore.RunBFS(c, "c05", "ra=0", 4, 15*time.Second)
		} else {
			explore.RunBFS(c, "c05", "ra=1,deep", 0, 8*time.Minute)
			explore.RunBFS(c, "c05", "ra=1,deep,ct", 0, 2*time.Minute)
			explore.RunBFS(c, "c05", "ra=0", 0, 3*time.Minute)
		}
	})
}
