package props

import (
	"encoding/json"
	"fmt"
	"os"
	"sort"
	"strings"
	"sync"
	"time"

	mqtt "github.com/mochi-mqtt/server/v2"
	"github.com/mochi-mqtt/server/v2/packets"
	"github.com/mochi-mqtt/server/v2/system"

	"verif/explore"
)

// C22: for any sequence of storage hook events the badger, pebble, bolt and redis back
// ends return the same clients, subscriptions, retained messages, in-flight messages and
// system info when the stored state is read back, up to ordering.
//
// E1: every sequence of length <= 3 (quick) / <= 4 (thorough) over the 39 event symbols
// below is applied DIRECTLY to the four real hook objects (no broker); after every event
// the five Stored*() results of the four back ends are normalised (sorted; empty == nil;
// the storage-key field ID compared modulo the back end's own key prefix) and compared.
// A difference is reported for the sequence whose LAST event introduced it (every prefix
// is itself an enumerated sequence), keyed by record kind, differing fields, the event
// kind that introduced it and the partition of the back ends.
//
// Reopen comparison: after a selected subset of the sequences (c22ReopenClass: every
// sequence of length <= 2, every sequence whose events all touch one store record, and the
// sequences of length 3 in which a record is touched more than once) every hook is
// stopped, a NEW hook instance is opened on the same store (bolt file, badger directory,
// pebble file system, redis server) and the five Stored*() results of the four new
// instances are compared in the same way; a difference that was not there before reopening
// is reported as c22:reopen:<kind>:<fields>:<partition>. A repeated write symbol writes
// distinguishable content (see c22Apply), e.g. qpub|a|1 qpub|a|1 = PUBLISH then PUBREL
// under one in-flight key, so stale versions that resurface (log replay, flush,
// compaction) or overwrites that are lost are visible.
//
// Symbols (client ids {a, a:b} x filters/topics {c, b:c} x packet ids {1, 11}):
//   est:<id> disc1:<id> (expire) disc0:<id> (keep) sub:<id>:<f> unsub:<id>:<f>
//   rset:<t> rclr:<t> rnop:<t> qpub:<id>:<pid> qcomp:<id>:<pid> qdrop:<id>:<pid>
//   cexp:<id> rexp:<t> will:<id> tick
// The three retain symbols are the three results of TopicsIndex.RetainMessage the broker
// passes to OnRetainMessage: rset = payload, r=1 (retained message set); rclr = empty
// payload, r=-1 (an existing retained message cleared); rnop = empty payload, r=0 (empty
// retained publish to a topic that holds no retained message: nothing was cleared).

var c22IDs = []string{"a", "a:b"}
var c22Names = []string{"c", "b:c"}
var c22PIDs = []string{"1", "11"}

func c22Symbols() []string {
	var out []string
	for _, k := range []string{"est", "disc1", "disc0", "cexp", "will"} {
		for _, id := range c22IDs {
			out = append(out, k+"|"+id)
		}
	}
	for _, k := range []string{"sub", "unsub"} {
		for _, id := range c22IDs {
			for _, f := range c22Names {
				out = append(out, k+"|"+id+"|"+f)
			}
		}
	}
	for _, k := range []string{"rset", "rclr", "rnop", "rexp"} {
		for _, t := range c22Names {
			out = append(out, k+"|"+t)
		}
	}
	for _, k := range []string{"qpub", "qcomp", "qdrop"} {
		for _, id := range c22IDs {
			for _, p := range c22PIDs {
				out = append(out, k+"|"+id+"|"+p)
			}
		}
	}
	out = append(out, "tick")
	return out
}

// c22Clients are the fixed client objects the events refer to (one per id; v5,
// persistent, with user name, expiry and a will so that every persisted field is set).
func c22Client(id string) *mqtt.Client {
	return &mqtt.Client{
		ID:  id,
		Net: mqtt.ClientConnection{Remote: "peer:" + id, Listener: "t1"},
		Properties: mqtt.ClientProperties{
			Username:        []byte("u" + id),
			ProtocolVersion: 5,
			Props: packets.Properties{SessionExpiryInterval: 60, SessionExpiryIntervalFlag: true, ReceiveMaximum: 7,
				User: []packets.UserProperty{{Key: "k", Val: "v"}}},
			Will: mqtt.Will{TopicName: "w/" + id, Payload: []byte("bye"), Flag: 1, Qos: 1},
		},
	}
}

type c22Env struct {
	stores  []*stStore
	hooks   []mqtt.Hook
	cl      map[string]*mqtt.Client
	used    int
	spent   [4]time.Duration // per back end: apply + read + wipe
	respent [4]time.Duration // per back end: stop + open of the reopen phase
}

func c22NewEnv() *c22Env {
	e := &c22Env{cl: map[string]*mqtt.Client{}}
	for _, k := range stBackends {
		s := stNewStore(k)
		s.Tiny = true
		e.stores = append(e.stores, s)
		e.hooks = append(e.hooks, s.Open())
	}
	for _, id := range c22IDs {
		e.cl[id] = c22Client(id)
	}
	return e
}

func (e *c22Env) close() {
	for i, h := range e.hooks {
		stStop(h)
		e.stores[i].Destroy()
	}
}

// reopen stops the hook of back end i and opens a NEW hook instance on the same store
// (same bolt file / badger directory / pebble file system / redis server), as a broker
// restart does. Pebble's Stop reports its never-closed iterators (see stStop).
func (e *c22Env) reopen(i int) {
	t0 := time.Now()
	stStop(e.hooks[i])
	e.hooks[i] = e.stores[i].Open()
	e.respent[i] += time.Since(t0)
}

func (e *c22Env) reset() error {
	for i, h := range e.hooks {
		t0 := time.Now()
		if err := stWipe(e.stores[i], h); err != nil {
			return fmt.Errorf("wipe %s: %v", e.stores[i].Kind, err)
		}
		if d := stRead(h); !d.Empty() {
			return fmt.Errorf("wipe %s left %s", e.stores[i].Kind, d)
		}
		e.spent[i] += time.Since(t0)
	}
	return nil
}

// c22Apply applies one event to one hook. n = number of earlier occurrences of the same
// symbol in the sequence: the n-th repetition of a WRITE (sub, rset, rnop, qpub) carries other
// content than the first (subscription identifier 3+n; retained payload (rset) / content type
// suffixed with n; in-flight: the first write is the PUBLISH, every later write of the same
// client:packet-id key is the PUBREL of the QoS 2 outbound flow with Sent advanced by n),
// so that the versions of a record written several times are distinguishable when read back.
func c22Apply(h mqtt.Hook, cl map[string]*mqtt.Client, sym string, n int) {
	f := strings.Split(sym, "|")
	switch f[0] {
	case "est":
		h.OnSessionEstablished(cl[f[1]], packets.Packet{})
	case "disc1":
		h.OnDisconnect(cl[f[1]], nil, true)
	case "disc0":
		h.OnDisconnect(cl[f[1]], nil, false)
	case "cexp":
		h.OnClientExpired(cl[f[1]])
	case "will":
		h.OnWillSent(cl[f[1]], packets.Packet{})
	case "sub":
		h.OnSubscribed(cl[f[1]], packets.Packet{Filters: packets.Subscriptions{{Filter: f[2], Qos: 2, Identifier: 3 + n, RetainHandling: 1, RetainAsPublished: true, NoLocal: true}}}, []byte{1})
	case "unsub":
		h.OnUnsubscribed(cl[f[1]], packets.Packet{Filters: packets.Subscriptions{{Filter: f[2]}}})
	case "rset", "rclr", "rnop":
		r := int64(1)
		pk := packets.Packet{FixedHeader: packets.FixedHeader{Type: packets.Publish, Retain: true, Qos: 1}, TopicName: f[1], Payload: []byte("p-" + f[1]), Created: 1000, Origin: "a",
			Properties: packets.Properties{MessageExpiryInterval: 30, ContentType: "ct", ResponseTopic: "rt", CorrelationData: []byte("cd"), PayloadFormat: 1, PayloadFormatFlag: true,
				User: []packets.UserProperty{{Key: "k", Val: "v"}}}}
		if f[0] == "rclr" {
			r = -1
			pk.Payload = nil
		} else if f[0] == "rnop" {
			r = 0
			pk.Payload = nil
			if n > 0 {
				pk.Properties.ContentType = fmt.Sprintf("ct%d", n)
			}
		} else if n > 0 {
			pk.Payload = []byte(fmt.Sprintf("p-%s-%d", f[1], n))
			pk.Properties.ContentType = fmt.Sprintf("ct%d", n)
		}
		h.OnRetainMessage(cl["a"], pk, r)
	case "rexp":
		h.OnRetainedExpired(f[1])
	case "qpub", "qcomp", "qdrop":
		var pid uint16
		fmt.Sscan(f[2], &pid)
		pk := packets.Packet{FixedHeader: packets.FixedHeader{Type: packets.Publish, Qos: 1}, PacketID: pid, TopicName: "c", Payload: []byte("m" + f[2]), Created: 1000, Origin: "p",
			Properties: packets.Properties{MessageExpiryInterval: 30, SubscriptionIdentifier: []int{3}}}
		switch f[0] {
		case "qpub":
			if n > 0 {
				pk = packets.Packet{FixedHeader: packets.FixedHeader{Type: packets.Pubrel, Qos: 1}, PacketID: pid, Created: 1000 + int64(n), Origin: "p"}
			}
			h.OnQosPublish(cl[f[1]], pk, 1001+int64(n), 0)
		case "qcomp":
			h.OnQosComplete(cl[f[1]], pk)
		default:
			h.OnQosDropped(cl[f[1]], pk)
		}
	case "tick":
		h.OnSysInfoTick(&system.Info{Version: "v", Started: 5, Time: 6, Uptime: 1, BytesReceived: 10, ClientsConnected: 2, MessagesReceived: 3, Retained: 1, Inflight: 2, Subscriptions: 4})
	default:
		panic("c22: unknown symbol " + sym)
	}
}

type c22Sig struct {
	kind, fields, partition string
}

// c22Compare groups the back ends by the normalised content of each record kind.
func c22Compare(d []stDump) map[string]c22Sig {
	out := map[string]c22Sig{}
	kinds := []string{"clients", "subscriptions", "retained", "inflight", "sysinfo", "error"}
	for _, kind := range kinds {
		text := make([]string, len(d))
		for i := range d {
			one := stDump{}
			switch kind {
			case "clients":
				one.Clients = d[i].Clients
			case "subscriptions":
				one.Subs = d[i].Subs
			case "retained":
				one.Retained = d[i].Retained
			case "inflight":
				one.Inflight = d[i].Inflight
			case "sysinfo":
				one.Sys = d[i].Sys
			case "error":
				one.Errs = d[i].Errs
			}
			text[i] = one.String()
		}
		classes := map[string][]string{}
		var order []string
		for i, t := range text {
			if _, ok := classes[t]; !ok {
				order = append(order, t)
			}
			classes[t] = append(classes[t], stBackends[i])
		}
		if len(order) < 2 {
			continue
		}
		var parts []string
		for _, t := range order {
			parts = append(parts, strings.Join(classes[t], "="))
		}
		sort.Strings(parts)
		// fields: union of the field differences between the first class and each other one
		fset := map[string]bool{}
		first := -1
		for i, t := range text {
			if first < 0 {
				first = i
				continue
			}
			if t != text[first] {
				for _, f := range stDiff(d[first], d[i]) {
					if strings.HasPrefix(f, kind+":") {
						fset[strings.TrimPrefix(f, kind+":")] = true
					}
				}
			}
		}
		out[kind] = c22Sig{kind, strings.Join(explore_sortedKeys(fset), ","), strings.Join(parts, "|")}
	}
	return out
}

// c22Run applies seq to the four hooks of env (assumed empty) and returns the violations
// introduced by the last event, the final dump of each back end and a trace. With reopen,
// every hook is then stopped, a NEW hook instance is opened on the same store and the five
// Stored* results of the new instances are compared as well: a difference between the back
// ends that was not there (in the same form) before reopening is reported under c22:reopen:.
func c22Run(e *c22Env, seq []string, trace, reopen bool) (viol []explore.Violation, final []stDump, tr []string) {
	prev := map[string]c22Sig{}
	dumpLines := func(d []stDump) string {
		var lines []string
		for i := range d {
			lines = append(lines, stBackends[i]+": "+d[i].String())
		}
		return strings.Join(lines, "\n")
	}
	for step, sym := range seq {
		n := 0
		for _, x := range seq[:step] {
			if x == sym {
				n++
			}
		}
		d := make([]stDump, len(e.hooks))
		for i, h := range e.hooks {
			t0 := time.Now()
			c22Apply(h, e.cl, sym, n)
			if step >= len(seq)-2 { // only the last event's effect is judged (against the state before it)
				d[i] = stRead(h)
			}
			e.spent[i] += time.Since(t0)
		}
		if step < len(seq)-2 {
			continue
		}
		final = d
		cur := c22Compare(d)
		if trace {
			tr = append(tr, fmt.Sprintf("--- event %d: %s", step, sym))
			for i := range d {
				tr = append(tr, fmt.Sprintf("%-7s %s", stBackends[i], d[i]))
			}
		}
		if step == len(seq)-1 {
			for kind, s := range cur {
				if p, ok := prev[kind]; ok && p == s {
					continue
				}
				ek := sym
				if i := strings.IndexByte(sym, '|'); i >= 0 {
					ek = sym[:i]
				}
				viol = append(viol, explore.Violation{
					Key:    fmt.Sprintf("c22:%s:%s:after-%s:%s", kind, s.fields, ek, s.partition),
					Msg:    fmt.Sprintf("event sequence %v: stored %s differ between back ends (%s) in %s after the last event\n%s", seq, kind, s.partition, s.fields, dumpLines(d)),
					Replay: map[string]any{"seq": seq},
				})
			}
		}
		prev = cur
	}
	if !reopen || len(seq) == 0 {
		return
	}
	// ---- reopen: the same stores read back through new hook instances
	d := make([]stDump, len(e.hooks))
	var changed []string
	for i := range e.hooks {
		e.reopen(i)
		t0 := time.Now()
		d[i] = stRead(e.hooks[i])
		e.spent[i] += time.Since(t0)
		if d[i].String() != final[i].String() {
			changed = append(changed, stBackends[i])
		}
	}
	if trace {
		tr = append(tr, "--- every hook stopped, new hook instances opened on the same stores")
		for i := range d {
			tr = append(tr, fmt.Sprintf("%-7s %s", stBackends[i], d[i]))
		}
	}
	for kind, s := range c22Compare(d) {
		if p, ok := prev[kind]; ok && p == s {
			continue // the same difference was there before reopening (reported by the sequence that introduced it)
		}
		viol = append(viol, explore.Violation{
			Key: fmt.Sprintf("c22:reopen:%s:%s:%s", kind, s.fields, s.partition),
			Msg: fmt.Sprintf("event sequence %v, then every hook stopped and a new hook instance opened on the same store: stored %s differ between back ends (%s) in %s; back ends whose content changed by reopening: %v\nbefore reopening:\n%s\nafter reopening:\n%s",
				seq, kind, s.partition, s.fields, changed, dumpLines(final), dumpLines(d)),
			Replay: map[string]any{"seq": seq, "reopen": true},
		})
	}
	final = d
	return
}

// c22Key is the store record an event symbol touches (back-end independent spelling).
func c22Key(sym string) string {
	f := strings.Split(sym, "|")
	switch f[0] {
	case "est", "disc1", "disc0", "cexp", "will":
		return "client/" + f[1]
	case "sub", "unsub":
		return "sub/" + f[1] + ":" + f[2] // as the hooks spell it: ("a:b","c") and ("a","b:c") are one record
	case "rset", "rclr", "rnop", "rexp":
		return "retained/" + f[1]
	case "qpub", "qcomp", "qdrop":
		return "inflight/" + f[1] + ":" + f[2]
	}
	return "sysinfo"
}

// c22ReopenClass says whether, and how early, the stores are reopened after seq:
//
//	0 (core):     every sequence of length <= 2 (all pairs of records, among them the keys that
//	              are prefixes of one another) and every longer sequence whose events all touch
//	              ONE store record (write-write-delete, write-delete-write, ...: what a reopened
//	              store shows depends on the whole write history of the key)
//	1 (extended): the other sequences of length 3 in which some record is touched more than
//	              once and all three events concern the same kind of record
//	2 (thorough): the remaining sequences of length 3 in which some record is touched more than once
//	-1:           not reopened
func c22ReopenClass(seq []string) int {
	if len(seq) <= 2 {
		return 0
	}
	seen := map[string]bool{}
	kinds := map[string]bool{}
	collide := false
	for _, x := range seq {
		k := c22Key(x)
		collide = collide || seen[k]
		seen[k] = true
		kinds[k[:strings.IndexByte(k+"/", '/')]] = true
	}
	switch {
	case len(seen) == 1:
		return 0
	case len(seq) == 3 && collide && len(kinds) == 1:
		return 1
	case len(seq) == 3 && collide:
		return 2
	}
	return -1
}

func init() {
	explore.RegisterReplayer("C22", func(raw json.RawMessage) (bool, []string) {
		var r struct {
			Seq    []string `json:"seq"`
			Reopen bool     `json:"reopen"`
		}
		if json.Unmarshal(raw, &r) != nil {
			return false, []string{"bad replay data"}
		}
		e := c22NewEnv()
		defer e.close()
		v, _, tr := c22Run(e, r.Seq, true, r.Reopen)
		for _, x := range v {
			tr = append(tr, "violation key="+x.Key)
		}
		return len(v) > 0, tr
	})
	explore.Register("C22", func(c *explore.Ctx) {
		c.Rep.Level = "exploration"
		maxLen := 3
		if !c.Quick() {
			maxLen = 4
		}
		syms := c22Symbols()
		base := len(syms)
		// index ranges per length
		var counts []int
		total := 0
		n := 1
		for l := 1; l <= maxLen; l++ {
			n *= base
			counts = append(counts, n)
			total += n
		}
		decode := func(i int) []string {
			l := 1
			for _, cnt := range counts {
				if i < cnt {
					break
				}
				i -= cnt
				l++
			}
			seq := make([]string, l)
			for p := l - 1; p >= 0; p-- {
				seq[p] = syms[i%base]
				i /= base
			}
			return seq
		}
		workers := c.Workers
		if workers > 16 {
			workers = 16
		}
		pool := make(chan *c22Env, workers)
		for i := 0; i < workers; i++ {
			pool <- c22NewEnv()
		}
		// Work list. Phases, in this order (so that an early deadline cuts the least important part):
		//   P0 reopen class 0 (live comparison + reopen comparison)
		//   P1 every other sequence of length <= 3, live comparison only
		//   P2 reopen class 1 (thorough: and 2), run again with the reopen comparison (live differences were reported in P1)
		//   P3 (thorough) the other sequences of length 4, live comparison only
		type work struct {
			idx    int
			reopen bool
			second bool // the sequence was already judged live in an earlier phase
		}
		var phases [4][]work
		only := os.Getenv("VERIF_SCEN") // e.g. VERIF_SCEN=rnop: only the sequences that contain that text
		for i := 0; i < total; i++ {
			seq := decode(i)
			if only != "" && !strings.Contains(strings.Join(seq, " "), only) {
				continue
			}
			cl := c22ReopenClass(seq)
			switch {
			case cl == 0:
				phases[0] = append(phases[0], work{i, true, false})
			case len(seq) <= 3:
				phases[1] = append(phases[1], work{i, false, false})
				if cl == 1 || (cl == 2 && !c.Quick()) {
					phases[2] = append(phases[2], work{i, true, true})
				}
			default:
				phases[3] = append(phases[3], work{i, false, false})
			}
		}
		var todo []work
		for _, ph := range phases {
			todo = append(todo, ph...)
		}
		var mu sync.Mutex
		distinct := map[string]bool{}
		var evals, steps, internal, reopened, collisions int64
		done := explore.ParallelRange(len(todo), workers, c.Expired, func(wi int) {
			wk := todo[wi]
			seq := decode(wk.idx)
			e := <-pool
			if e.used >= 4000 { // bound what pebble's never-closed iterators pin
				sp, rsp := e.spent, e.respent
				e.close()
				e = c22NewEnv()
				e.spent, e.respent = sp, rsp
			}
			e.used++
			re := wk.reopen
			v, final, _ := c22Run(e, seq, false, re)
			err := e.reset()
			pool <- e
			// a difference seen after reopening the pooled (wiped and reused) stores is
			// confirmed on fresh stores, which is also what the replay uses
			var cand []string
			for _, x := range v {
				if strings.HasPrefix(x.Key, "c22:reopen:") {
					cand = append(cand, x.Key)
				}
			}
			if wk.second { // live differences of this sequence were reported when it was run without reopening
				var keep []explore.Violation
				for _, x := range v {
					if strings.HasPrefix(x.Key, "c22:reopen:") {
						keep = append(keep, x)
					}
				}
				v = keep
			}
			if len(cand) > 0 {
				fe := c22NewEnv()
				v2, _, _ := c22Run(fe, seq, false, true)
				fe.close()
				var conf []string
				for _, x := range v2 {
					if strings.HasPrefix(x.Key, "c22:reopen:") {
						conf = append(conf, x.Key)
					}
				}
				sort.Strings(cand)
				sort.Strings(conf)
				if wk.second {
					var keep []explore.Violation
					for _, x := range v2 {
						if strings.HasPrefix(x.Key, "c22:reopen:") {
							keep = append(keep, x)
						}
					}
					v2 = keep
				}
				if fmt.Sprint(cand) != fmt.Sprint(conf) {
					v2 = append(v2, explore.Violation{Key: "internal:c22-reopen-differs-on-fresh-stores", Msg: fmt.Sprintf("sequence %v: reused stores gave %v, fresh stores %v", seq, cand, conf), Replay: map[string]any{"seq": seq, "reopen": true}})
				}
				v = v2
			}
			mu.Lock()
			if !wk.second {
				evals++
			}
			steps += int64(len(seq))
			if re {
				reopened++
				twice := map[string]int{}
				for _, x := range seq {
					if strings.HasPrefix(x, "qpub|") {
						twice[x]++
					}
				}
				for _, n := range twice {
					if n > 1 {
						collisions++ // the same in-flight key written more than once, then reopened
						break
					}
				}
			}
			if len(final) > 0 && !final[0].Empty() {
				distinct[final[0].String()] = true
			}
			if err != nil {
				internal++
			}
			mu.Unlock()
			for _, x := range v {
				c.Rep.Add(x)
			}
			if err != nil {
				c.Rep.Add(explore.Violation{Key: "internal:c22-reset-failed", Msg: err.Error(), Replay: map[string]any{"seq": seq}})
			}
		})
		var spent, respent [4]time.Duration
		for i := 0; i < workers; i++ {
			e := <-pool
			for j := range spent {
				spent[j] += e.spent[j]
				respent[j] += e.respent[j]
			}
			e.close()
		}
		for j, k := range stBackends {
			c.Rep.Set("cpu_ms_"+k, spent[j].Milliseconds())
			c.Rep.Set("cpu_ms_reopen_"+k, respent[j].Milliseconds())
		}
		c.Rep.Count("sequences_followed_by_reopen_of_all_stores", reopened)
		c.Rep.Count("reopened_with_inflight_key_written_more_than_once", collisions)
		if reopened > 0 && collisions == 0 && done && fullRun() {
			c.Rep.Add(explore.Violation{Key: "internal:c22-vacuous-reopen", Msg: "no reopened sequence wrote an in-flight key twice"})
		}
		c.Rep.Count("evaluations", evals)
		c.Rep.Count("events_applied_per_backend", steps)
		c.Rep.Count("distinct_nontrivial", int64(len(distinct)))
		c.Rep.Count("comparisons", steps*6*5)
		c.Rep.Set("rule", "distinct non-empty normalised store contents (five Stored* results as returned by bolt) reached at the end of an enumerated event sequence")
		c.Rep.Set("alphabet", syms)
		c.Rep.Set("max_sequence_length", maxLen)
		c.Rep.Set("reopen_phases", map[string]int{"P0_core_reopened": len(phases[0]), "P1_live_len_le_3": len(phases[1]), "P2_extended_reopened": len(phases[2]), "P3_live_len_4": len(phases[3])})
		c.Rep.Sample(map[string]any{"sequence": decode(0)})
		c.Rep.Sample(map[string]any{"sequence": decode(total / 2)})
		c.Rep.Sample(map[string]any{"sequence": decode(total - 1)})
		c.Rep.Assumption("events are applied directly to the four hook objects with fixed *mqtt.Client objects (one per id); reads go through the same hook instance that was written and, for the reopened sequences, additionally through a NEW hook instance opened on the same store after the old one was stopped (hook level only; restart fidelity of the broker is C20)")
		c.Rep.Assumption("the n-th repetition of a write symbol in a sequence writes distinguishable content (subscription identifier, retained payload/content type, in-flight PUBLISH then PUBREL with later Sent), the same for all four back ends")
		c.Rep.Assumption("reopen comparisons run on pooled stores (wiped between sequences); a difference found there is re-run on fresh stores and reported from that run")
		c.Rep.Assumption("the storage-key field ID is compared modulo each back end's own key prefix (redis uses none); nil and empty lists are equal; order is ignored")
		c.Rep.Assumption("bolt runs with NoSync, badger with its smallest buffers (256 KiB memtable/base table) and SyncWrites=false, pebble on its in-memory FS, redis against an in-process miniredis server")
		if !done {
			c.Rep.Capped(fmt.Sprintf("deadline reached after %d of %d sequences, %d of %d reopen runs (order: reopen core, live length <= 3, reopen extended, live length 4; each lexicographic)", evals, total, reopened, len(phases[0])+len(phases[2])))
		}
	})
}
