package props

import (
	"encoding/json"
	"fmt"
	"sort"
	"strings"
	"sync"
	"time"

	mqtt "github.com/mochi-mqtt/server/v2"
	"github.com/mochi-mqtt/server/v2/packets"
	"github.com/mochi-mqtt/server/v2/system"

	"verif/explore"
)

// C22: for any sequence of storage hook events the badger, pebble, bolt and redis back
// ends return the same clients, subscriptions, retained messages, in-flight messages and
// system info when the stored state is read back, up to ordering.
//
// E1: every sequence of length <= 3 (quick) / <= 4 (thorough) over the 37 event symbols
// below is applied DIRECTLY to the four real hook objects (no broker); after every event
// the five Stored*() results of the four back ends are normalised (sorted; empty == nil;
// the storage-key field ID compared modulo the back end's own key prefix) and compared.
// A difference is reported for the sequence whose LAST event introduced it (every prefix
// is itself an enumerated sequence), keyed by record kind, differing fields, the event
// kind that introduced it and the partition of the back ends.
//
// Symbols (client ids {a, a:b} x filters/topics {c, b:c} x packet ids {1, 11}):
//   est:<id> disc1:<id> (expire) disc0:<id> (keep) sub:<id>:<f> unsub:<id>:<f>
//   rset:<t> rclr:<t> qpub:<id>:<pid> qcomp:<id>:<pid> qdrop:<id>:<pid>
//   cexp:<id> rexp:<t> will:<id> tick

var c22IDs = []string{"a", "a:b"}
var c22Names = []string{"c", "b:c"}
var c22PIDs = []string{"1", "11"}

func c22Symbols() []string {
	var out []string
	for _, k := range []string{"est", "disc1", "disc0", "cexp", "will"} {
		for _, id := range c22IDs {
			out = append(out, k+"|"+id)
		}
	}
	for _, k := range []string{"sub", "unsub"} {
		for _, id := range c22IDs {
			for _, f := range c22Names {
				out = append(out, k+"|"+id+"|"+f)
			}
		}
	}
	for _, k := range []string{"rset", "rclr", "rexp"} {
		for _, t := range c22Names {
			out = append(out, k+"|"+t)
		}
	}
	for _, k := range []string{"qpub", "qcomp", "qdrop"} {
		for _, id := range c22IDs {
			for _, p := range c22PIDs {
				out = append(out, k+"|"+id+"|"+p)
			}
		}
	}
	out = append(out, "tick")
	return out
}

// c22Clients are the fixed client objects the events refer to (one per id; v5,
// persistent, with user name, expiry and a will so that every persisted field is set).
func c22Client(id string) *mqtt.Client {
	return &mqtt.Client{
		ID:  id,
		Net: mqtt.ClientConnection{Remote: "peer:" + id, Listener: "t1"},
		Properties: mqtt.ClientProperties{
			Username:        []byte("u" + id),
			ProtocolVersion: 5,
			Props: packets.Properties{SessionExpiryInterval: 60, SessionExpiryIntervalFlag: true, ReceiveMaximum: 7,
				User: []packets.UserProperty{{Key: "k", Val: "v"}}},
			Will: mqtt.Will{TopicName: "w/" + id, Payload: []byte("bye"), Flag: 1, Qos: 1},
		},
	}
}

type c22Env struct {
	stores []*stStore
	hooks  []mqtt.Hook
	cl     map[string]*mqtt.Client
	used   int
	spent  [4]time.Duration // per back end: apply + read + wipe
}

func c22NewEnv() *c22Env {
	e := &c22Env{cl: map[string]*mqtt.Client{}}
	for _, k := range stBackends {
		s := stNewStore(k)
		e.stores = append(e.stores, s)
		e.hooks = append(e.hooks, s.Open())
	}
	for _, id := range c22IDs {
		e.cl[id] = c22Client(id)
	}
	return e
}

func (e *c22Env) close() {
	for i, h := range e.hooks {
		stStop(h)
		e.stores[i].Destroy()
	}
}

func (e *c22Env) reset() error {
	for i, h := range e.hooks {
		t0 := time.Now()
		if err := stWipe(e.stores[i], h); err != nil {
			return fmt.Errorf("wipe %s: %v", e.stores[i].Kind, err)
		}
		if d := stRead(h); !d.Empty() {
			return fmt.Errorf("wipe %s left %s", e.stores[i].Kind, d)
		}
		e.spent[i] += time.Since(t0)
	}
	return nil
}

func c22Apply(h mqtt.Hook, cl map[string]*mqtt.Client, sym string) {
	f := strings.Split(sym, "|")
	switch f[0] {
	case "est":
		h.OnSessionEstablished(cl[f[1]], packets.Packet{})
	case "disc1":
		h.OnDisconnect(cl[f[1]], nil, true)
	case "disc0":
		h.OnDisconnect(cl[f[1]], nil, false)
	case "cexp":
		h.OnClientExpired(cl[f[1]])
	case "will":
		h.OnWillSent(cl[f[1]], packets.Packet{})
	case "sub":
		h.OnSubscribed(cl[f[1]], packets.Packet{Filters: packets.Subscriptions{{Filter: f[2], Qos: 2, Identifier: 3, RetainHandling: 1, RetainAsPublished: true, NoLocal: true}}}, []byte{1})
	case "unsub":
		h.OnUnsubscribed(cl[f[1]], packets.Packet{Filters: packets.Subscriptions{{Filter: f[2]}}})
	case "rset", "rclr":
		r := int64(1)
		pk := packets.Packet{FixedHeader: packets.FixedHeader{Type: packets.Publish, Retain: true, Qos: 1}, TopicName: f[1], Payload: []byte("p-" + f[1]), Created: 1000, Origin: "a",
			Properties: packets.Properties{MessageExpiryInterval: 30, ContentType: "ct", ResponseTopic: "rt", CorrelationData: []byte("cd"), PayloadFormat: 1, PayloadFormatFlag: true,
				User: []packets.UserProperty{{Key: "k", Val: "v"}}}}
		if f[0] == "rclr" {
			r = -1
			pk.Payload = nil
		}
		h.OnRetainMessage(cl["a"], pk, r)
	case "rexp":
		h.OnRetainedExpired(f[1])
	case "qpub", "qcomp", "qdrop":
		var pid uint16
		fmt.Sscan(f[2], &pid)
		pk := packets.Packet{FixedHeader: packets.FixedHeader{Type: packets.Publish, Qos: 1}, PacketID: pid, TopicName: "c", Payload: []byte("m" + f[2]), Created: 1000, Origin: "p",
			Properties: packets.Properties{MessageExpiryInterval: 30, SubscriptionIdentifier: []int{3}}}
		switch f[0] {
		case "qpub":
			h.OnQosPublish(cl[f[1]], pk, 1001, 0)
		case "qcomp":
			h.OnQosComplete(cl[f[1]], pk)
		default:
			h.OnQosDropped(cl[f[1]], pk)
		}
	case "tick":
		h.OnSysInfoTick(&system.Info{Version: "v", Started: 5, Time: 6, Uptime: 1, BytesReceived: 10, ClientsConnected: 2, MessagesReceived: 3, Retained: 1, Inflight: 2, Subscriptions: 4})
	default:
		panic("c22: unknown symbol " + sym)
	}
}

type c22Sig struct {
	kind, fields, partition string
}

// c22Compare groups the back ends by the normalised content of each record kind.
func c22Compare(d []stDump) map[string]c22Sig {
	out := map[string]c22Sig{}
	kinds := []string{"clients", "subscriptions", "retained", "inflight", "sysinfo", "error"}
	for _, kind := range kinds {
		text := make([]string, len(d))
		for i := range d {
			one := stDump{}
			switch kind {
			case "clients":
				one.Clients = d[i].Clients
			case "subscriptions":
				one.Subs = d[i].Subs
			case "retained":
				one.Retained = d[i].Retained
			case "inflight":
				one.Inflight = d[i].Inflight
			case "sysinfo":
				one.Sys = d[i].Sys
			case "error":
				one.Errs = d[i].Errs
			}
			text[i] = one.String()
		}
		classes := map[string][]string{}
		var order []string
		for i, t := range text {
			if _, ok := classes[t]; !ok {
				order = append(order, t)
			}
			classes[t] = append(classes[t], stBackends[i])
		}
		if len(order) < 2 {
			continue
		}
		var parts []string
		for _, t := range order {
			parts = append(parts, strings.Join(classes[t], "="))
		}
		sort.Strings(parts)
		// fields: union of the field differences between the first class and each other one
		fset := map[string]bool{}
		first := -1
		for i, t := range text {
			if first < 0 {
				first = i
				continue
			}
			if t != text[first] {
				for _, f := range stDiff(d[first], d[i]) {
					if strings.HasPrefix(f, kind+":") {
						fset[strings.TrimPrefix(f, kind+":")] = true
					}
				}
			}
		}
		out[kind] = c22Sig{kind, strings.Join(explore_sortedKeys(fset), ","), strings.Join(parts, "|")}
	}
	return out
}

// c22Run applies seq to the four hooks of env (assumed empty) and returns the violations
// introduced by the last event, the final dump of each back end and a trace.
func c22Run(e *c22Env, seq []string, trace bool) (viol []explore.Violation, final []stDump, tr []string) {
	prev := map[string]c22Sig{}
	for step, sym := range seq {
		d := make([]stDump, len(e.hooks))
		for i, h := range e.hooks {
			t0 := time.Now()
			c22Apply(h, e.cl, sym)
			if step >= len(seq)-2 { // only the last event's effect is judged (against the state before it)
				d[i] = stRead(h)
			}
			e.spent[i] += time.Since(t0)
		}
		if step < len(seq)-2 {
			continue
		}
		final = d
		cur := c22Compare(d)
		if trace {
			tr = append(tr, fmt.Sprintf("--- event %d: %s", step, sym))
			for i := range d {
				tr = append(tr, fmt.Sprintf("%-7s %s", stBackends[i], d[i]))
			}
		}
		if step == len(seq)-1 {
			for kind, s := range cur {
				if p, ok := prev[kind]; ok && p == s {
					continue
				}
				ek := sym
				if i := strings.IndexByte(sym, '|'); i >= 0 {
					ek = sym[:i]
				}
				var lines []string
				for i := range d {
					lines = append(lines, stBackends[i]+": "+d[i].String())
				}
				viol = append(viol, explore.Violation{
					Key:    fmt.Sprintf("c22:%s:%s:after-%s:%s", kind, s.fields, ek, s.partition),
					Msg:    fmt.Sprintf("event sequence %v: stored %s differ between back ends (%s) in %s after the last event\n%s", seq, kind, s.partition, s.fields, strings.Join(lines, "\n")),
					Replay: map[string]any{"seq": seq},
				})
			}
		}
		prev = cur
	}
	return
}

func init() {
	explore.RegisterReplayer("C22", func(raw json.RawMessage) (bool, []string) {
		var r struct {
			Seq []string `json:"seq"`
		}
		if json.Unmarshal(raw, &r) != nil {
			return false, []string{"bad replay data"}
		}
		e := c22NewEnv()
		defer e.close()
		v, _, tr := c22Run(e, r.Seq, true)
		for _, x := range v {
			tr = append(tr, "violation key="+x.Key)
		}
		return len(v) > 0, tr
	})
	explore.Register("C22", func(c *explore.Ctx) {
		c.Rep.Level = "exploration"
		maxLen := 3
		if !c.Quick() {
			maxLen = 4
		}
		syms := c22Symbols()
		base := len(syms)
		// index ranges per length
		var counts []int
		total := 0
		n := 1
		for l := 1; l <= maxLen; l++ {
			n *= base
			counts = append(counts, n)
			total += n
		}
		decode := func(i int) []string {
			l := 1
			for _, cnt := range counts {
				if i < cnt {
					break
				}
				i -= cnt
				l++
			}
			seq := make([]string, l)
			for p := l - 1; p >= 0; p-- {
				seq[p] = syms[i%base]
				i /= base
			}
			return seq
		}
		workers := c.Workers
		if workers > 16 {
			workers = 16
		}
		pool := make(chan *c22Env, workers)
		for i := 0; i < workers; i++ {
			pool <- c22NewEnv()
		}
		var mu sync.Mutex
		distinct := map[string]bool{}
		var evals, steps, internal int64
		done := explore.ParallelRange(total, workers, c.Expired, func(i int) {
			seq := decode(i)
			e := <-pool
			if e.used >= 4000 { // bound what pebble's never-closed iterators pin
				sp := e.spent
				e.close()
				e = c22NewEnv()
				e.spent = sp
			}
			e.used++
			v, final, _ := c22Run(e, seq, false)
			err := e.reset()
			pool <- e
			mu.Lock()
			evals++
			steps += int64(len(seq))
			if len(final) > 0 && !final[0].Empty() {
				distinct[final[0].String()] = true
			}
			if err != nil {
				internal++
			}
			mu.Unlock()
			for _, x := range v {
				c.Rep.Add(x)
			}
			if err != nil {
				c.Rep.Add(explore.Violation{Key: "internal:c22-reset-failed", Msg: err.Error(), Replay: map[string]any{"seq": seq}})
			}
		})
		var spent [4]time.Duration
		for i := 0; i < workers; i++ {
			e := <-pool
			for j := range spent {
				spent[j] += e.spent[j]
			}
			e.close()
		}
		for j, k := range stBackends {
			c.Rep.Set("cpu_ms_"+k, spent[j].Milliseconds())
		}
		c.Rep.Count("evaluations", evals)
		c.Rep.Count("events_applied_per_backend", steps)
		c.Rep.Count("distinct_nontrivial", int64(len(distinct)))
		c.Rep.Count("comparisons", steps*6*5)
		c.Rep.Set("rule", "distinct non-empty normalised store contents (five Stored* results as returned by bolt) reached at the end of an enumerated event sequence")
		c.Rep.Set("alphabet", syms)
		c.Rep.Set("max_sequence_length", maxLen)
		c.Rep.Sample(map[string]any{"sequence": decode(0)})
		c.Rep.Sample(map[string]any{"sequence": decode(total / 2)})
		c.Rep.Sample(map[string]any{"sequence": decode(total - 1)})
		c.Rep.Assumption("events are applied directly to the four hook objects with fixed *mqtt.Client objects (one per id); reads go through the same hook instance that was written (restart fidelity is C20)")
		c.Rep.Assumption("the storage-key field ID is compared modulo each back end's own key prefix (redis uses none); nil and empty lists are equal; order is ignored")
		c.Rep.Assumption("bolt runs with NoSync, badger with small tables and SyncWrites=false, pebble on its in-memory FS, redis against an in-process miniredis server")
		if !done {
			c.Rep.Capped(fmt.Sprintf("deadline reached after %d of %d sequences (enumeration order: by length, then lexicographic)", evals, total))
		}
	})
}
