package props

import (
	"bytes"
	"fmt"
	"go/ast"
	"go/parser"
	"go/token"
	"os"
	"path/filepath"
	"sort"
	"strconv"
	"strings"
	"sync"

	"github.com/mochi-mqtt/server/v2/zzvrt"

	"verif/explore"
	"verif/ref"
)

// Helpers shared by the delivery checks C03, C04, C06, C40.

// settle polls every named client until nothing new arrives. When ack is set the harness
// client behaves like a well-behaved MQTT client: it acknowledges every delivery at once
// (PUBACK for QoS 1, PUBREC/PUBCOMP for QoS 2) and releases its own QoS 2 publishes
// (PUBREL after PUBREC). Returns the packets each client received since the last poll.
func (h *H) settle(ack bool) map[string][]ref.Packet {
	out := map[string][]ref.Packet{}
	names := explore.SortedKeys(h.Cl)
	for round := 0; round < 16; round++ {
		sent := false
		for _, n := range names {
			cl := h.Cl[n]
			got := cl.Poll()
			if len(got) == 0 {
				continue
			}
			h.logf("%s: <- %v", n, got)
			out[n] = append(out[n], got...)
			if !ack || cl.Closed() {
				continue
			}
			for _, p := range got {
				var r ref.Packet
				switch {
				case p.Type == ref.PUBLISH && p.Qos == 1:
					r = ref.Packet{Type: ref.PUBACK, PacketID: p.PacketID}
				case p.Type == ref.PUBLISH && p.Qos == 2:
					r = ref.Packet{Type: ref.PUBREC, PacketID: p.PacketID}
				case p.Type == ref.PUBREL:
					r = ref.Packet{Type: ref.PUBCOMP, PacketID: p.PacketID}
				case p.Type == ref.PUBREC && p.ReasonCode < 0x80:
					r = ref.Packet{Type: ref.PUBREL, PacketID: p.PacketID}
				default:
					continue
				}
				cl.Send(r)
				sent = true
			}
		}
		if !sent {
			break
		}
		h.W.Run()
	}
	return out
}

// connectSettle opens a connection for name (replacing its current one) and returns what
// it received, acknowledging deliveries when ack is set.
func (h *H) connectSettle(name string, p ref.Packet, ack bool) []ref.Packet {
	cl := h.W.Connect(p)
	h.Cl[name] = cl
	h.All = append(h.All, cl)
	h.logf("%s: -> %s", name, p)
	return h.settle(ack)[name]
}

// count adds to a per-history counter, only on the last step (earlier steps were counted
// when their own prefix was executed).
func (h *H) count(c map[string]int, key string, n int) {
	if h.last {
		c[key] += n
	}
}

// msgProps are the application properties a v5 publisher attaches (C03: content type,
// correlation data, response topic, two user properties).
func msgProps(tag string) ref.Props {
	return ref.Props{
		{ID: ref.PContentType, Str: "ct/" + tag},
		{ID: ref.PResponseTopic, Str: "re/" + tag},
		{ID: ref.PCorrelationData, Data: []byte{0, 0xff, tag[len(tag)-1]}},
		{ID: ref.PUser, Str: "k1", Val: "v-" + tag},
		{ID: ref.PUser, Str: "k1", Val: "w-" + tag},
	}
}

// appPropsDiff compares the four application property kinds of a delivered PUBLISH with
// the published ones (user properties in order). Returns "" when equal, else the kind.
func appPropsDiff(want, got ref.Props) string {
	for _, id := range []byte{ref.PContentType, ref.PResponseTopic} {
		w, wok := want.Get(id)
		g, gok := got.Get(id)
		if wok != gok || w.Str != g.Str || len(got.All(id)) > 1 {
			return map[byte]string{ref.PContentType: "content-type", ref.PResponseTopic: "response-topic"}[id]
		}
	}
	w, wok := want.Get(ref.PCorrelationData)
	g, gok := got.Get(ref.PCorrelationData)
	if wok != gok || !bytes.Equal(w.Data, g.Data) {
		return "correlation-data"
	}
	wu, gu := want.All(ref.PUser), got.All(ref.PUser)
	if len(wu) != len(gu) {
		return "user-properties"
	}
	for i := range wu {
		if wu[i].Str != gu[i].Str || wu[i].Val != gu[i].Val {
			return "user-properties"
		}
	}
	return ""
}

func subIDs(p ref.Packet) []int {
	var out []int
	for _, x := range p.Props.All(ref.PSubscriptionID) {
		out = append(out, int(x.Num))
	}
	sort.Ints(out)
	return out
}

func minb(a ...byte) byte {
	m := a[0]
	for _, x := range a[1:] {
		if x < m {
			m = x
		}
	}
	return m
}

// fullRun reports whether every scenario of the check runs (no VERIF_SCEN filter), so
// that the non-vacuity self-checks are meaningful.
func fullRun() bool { return os.Getenv("VERIF_SCEN") == "" }

func itoa(i int) string { return fmt.Sprint(i) }

// filterShape names a (filter, topic) pair for violation keys without leaking data.
func filterShape(filter, topic string) string {
	inner := filter
	if _, in, ok := ref.SplitShare(filter); ok {
		inner = in
	}
	switch {
	case strings.HasSuffix(inner, "+/#") && ref.Match(strings.TrimSuffix(inner, "/#"), topic):
		return "plus-then-hash~parent"
	case strings.HasSuffix(inner, "/#") && topic == strings.TrimSuffix(inner, "/#"):
		return "hash~parent"
	case inner == "#":
		return "hash"
	case strings.HasSuffix(inner, "/#"):
		return "hash~deeper"
	case strings.Contains(inner, "+"):
		return "plus"
	}
	return "exact"
}

// ---- exhaustive enumeration of explorer choices inside one worker process ----

// choiceRun executes something under a choice prefix and returns the recorded points.
type choiceRun func(prefix []int) []zzvrt.ChoicePoint

// enumChoices runs the default execution and then every alternative choice vector over
// the recorded map-order points (thread and select choices keep their default):
// points for which free(site) holds are branched on without limit (full product),
// every other map point costs one deviation, at most `bound` per execution.
// It is the stateless DFS of explore/dfs.go run in-process (one controlled execution at
// a time, each on a fresh world). Returns the number of executions; stops at max.
func enumChoices(run choiceRun, free func(site string) bool, bound, max int) (execs int, complete bool) {
	complete = true
	var rec func(prefix []int)
	rec = func(prefix []int) {
		if execs >= max {
			complete = false
			return
		}
		pts := run(prefix)
		execs++
		used := 0
		for i, p := range pts {
			if i >= len(prefix) && p.Kind == zzvrt.ChMap {
				for alt := 1; alt < p.N; alt++ {
					if !free(p.Site) && used+1 > bound {
						continue
					}
					np := make([]int, i+1)
					for j := 0; j < i; j++ {
						np[j] = pts[j].Chosen
					}
					np[i] = alt
					rec(np)
				}
			}
			if p.Chosen != 0 && p.Kind == zzvrt.ChMap && !free(p.Site) {
				used++
			}
		}
	}
	rec(nil)
	return
}

func choiceVec(pts []zzvrt.ChoicePoint) string {
	var b strings.Builder
	for i, p := range pts {
		if i > 0 {
			b.WriteByte('.')
		}
		b.WriteString(itoa(p.Chosen))
	}
	return b.String()
}

func parseChoices(s string) []int {
	if s == "" {
		return nil
	}
	var out []int
	for _, f := range strings.Split(s, ".") {
		n := 0
		fmt.Sscan(f, &n)
		out = append(out, n)
	}
	return out
}

// ---- map-range sites by enclosing function ----

var (
	siteFuncOnce sync.Once
	siteFuncMap  map[string]string
)

// siteFunc returns the name of the mochi function that contains the instrumented map
// range `site` ("topics.go:322"), read from the instrumented copy so that it follows
// edits to the repository (line numbers are not stable, function names are).
func siteFunc(site string) string {
	siteFuncOnce.Do(func() {
		siteFuncMap = map[string]string{}
		dir := os.Getenv("VERIF_DIR")
		if dir == "" {
			if exe, err := os.Executable(); err == nil {
				dir = filepath.Dir(filepath.Dir(filepath.Dir(exe)))
			}
		}
		for _, f := range []string{"topics.go", "server.go"} {
			fs := token.NewFileSet()
			af, err := parser.ParseFile(fs, filepath.Join(dir, ".build", "mochi", f), nil, 0)
			if err != nil {
				continue
			}
			for _, d := range af.Decls {
				fd, ok := d.(*ast.FuncDecl)
				if !ok || fd.Body == nil {
					continue
				}
				ast.Inspect(fd.Body, func(n ast.Node) bool {
					call, ok := n.(*ast.CallExpr)
					if !ok || len(call.Args) == 0 {
						return true
					}
					sel, ok := call.Fun.(*ast.SelectorExpr)
					if !ok || sel.Sel.Name != "Iter" {
						return true
					}
					if lit, ok := call.Args[0].(*ast.BasicLit); ok && lit.Kind == token.STRING {
						if v, err := strconv.Unquote(lit.Value); err == nil {
							siteFuncMap[v] = fd.Name.Name
						}
					}
					return true
				})
			}
		}
	})
	return siteFuncMap[site]
}
