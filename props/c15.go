package props

import (
	"fmt"
	"math"
	"strconv"
	"strings"
	"time"

	mqtt "github.com/mochi-mqtt/server/v2"

	"verif/explore"
	"verif/ref"
	"verif/world"
)

// C15: a disconnected session is discarded exactly when its expiry interval (client value
// capped by the server maximum; server maximum for MQTT 3 persistent sessions) has
// elapsed, at disconnect for expiry 0 / MQTT 3 clean sessions, never while connected;
// nothing of a discarded session survives; DISCONNECT cannot raise expiry 0 to non-zero.
//
// E2 scenario "c15", arg "max=<inf|2>,first=<ver>.<clean>.<exp>[,wide]". Client a is the
// subject (at most 3 connections, never two at a time: takeover belongs to C14), client b
// (v4) publishes QoS 1 to x and stays connected. Virtual time, whole seconds.
// Ops:
//   conn:<ver>:<clean>:<exp>   a connects; exp '-' (absent), 0, 1, 3 (v5 only)
//   sub                        a subscribes x QoS 1 (once per connection)
//   disc:<exp>                 a sends DISCONNECT with Session Expiry '-' (none), 0, 3 (v5)
//   drop                       a's peer closes the connection
//   tick:1000                  clock + 1 s
//   hk                         housekeeping at the current time
//   pub                        b publishes the next tagged message to x, QoS 1
// a acknowledges every QoS 1 delivery immediately.
//
// Reference model (DESIGN Appendix A.2, written from MQTT 5 §3.1.2.11.2, §4.1, §3.14.2.2.2):
// effective expiry e = min(client value, server maximum) for v5 (absent = 0), server
// maximum for v3/v4 clean=0, 0 for clean=1; a DISCONNECT may replace a non-zero value
// (again capped), never a zero one. The session ends at disconnect if e = 0; otherwise it
// MUST still exist at any CONNECT with now < disconnectedAt + e, and MUST be gone once a
// housekeeping ran at a time strictly later than disconnectedAt + e; in between (from the
// instant itself on) the verdict is unspecified and the model follows the CONNACK. Clean start 1 ends it.
// Alarms: wrong Session Present; any PUBLISH delivered to a in a session that has no
// subscription of its own (that is a delivery caused by a discarded session); a message
// the live session is entitled to that does not arrive (connected session discarded).

type c15Shape struct {
	ver   byte
	clean bool
	exp   int64 // -1 absent
}

func (s c15Shape) String() string {
	e := "-"
	if s.exp >= 0 {
		e = strconv.FormatInt(s.exp, 10)
	}
	c := "0"
	if s.clean {
		c = "1"
	}
	return fmt.Sprintf("%d:%s:%s", s.ver, c, e)
}

func c15ParseShape(f []string) c15Shape {
	v, _ := strconv.Atoi(f[0])
	s := c15Shape{ver: byte(v), clean: f[1] == "1", exp: -1}
	if f[2] != "-" {
		s.exp, _ = strconv.ParseInt(f[2], 10, 64)
	}
	return s
}

var c15AllShapes = []c15Shape{
	{4, false, -1}, {4, true, -1},
	{5, false, -1}, {5, false, 0}, {5, false, 1}, {5, false, 3},
	{5, true, -1}, {5, true, 1}, {5, true, 3},
	{3, false, -1},
}

const c15Inf = int64(math.MaxUint32)

type c15Model struct {
	max int64 // server maximum (c15Inf = default)
	// session
	exists bool
	hasSub bool
	queue  []string // tags accepted for the session while a was away
	gone   bool     // a housekeeping ran strictly after the expiry instant (must be discarded)
	// connection
	connected bool
	ver       byte
	eff       int64 // effective expiry in force, seconds
	discAtMs  int64
	// pools
	conns, subs, pubs, ticks, hks int
	subbedThisConn                bool
	zeroRaise                     bool // the last DISCONNECT tried to raise 0 -> non-zero
	discAboveMax                  bool // the expiry in force came from a DISCONNECT value above the server maximum
	ticksSinceHk                  int
}

func (m *c15Model) cap(v int64) int64 {
	if v > m.max {
		return m.max
	}
	return v
}

func (m *c15Model) expiryInstantMs() int64 { return m.discAtMs + m.eff*1000 }

func c15Run(arg string) explore.HistFn {
	max := c15Inf
	first := c15Shape{5, false, 1}
	wide := false
	for _, kv := range strings.Split(arg, ",") {
		switch {
		case kv == "max=2":
			max = 2
		case strings.HasPrefix(kv, "first="):
			first = c15ParseShape(strings.Split(kv[6:], "."))
		case kv == "wide":
			wide = true
		}
	}
	maxTicks, maxHk, maxPubs, maxConns, maxSubs := 4, 2, 2, 2, 1
	second := []c15Shape{{4, false, -1}, {5, false, 1}, {5, false, 3}, {5, true, 3}}
	if wide {
		second = c15AllShapes
		maxTicks, maxHk, maxConns, maxSubs = 5, 3, 3, 2
	}
	return func(hist []string) explore.HistResult {
		h := newH(world.Config{Caps: func(c *mqtt.Capabilities) {
			if max != c15Inf {
				c.MaximumSessionExpiryInterval = uint32(max)
			}
		}})
		m := &c15Model{max: max}
		counters := map[string]int{}
		h.connect("b", world.ConnectPacket("b", 4, true))
		nowMs := func() int64 { return h.W.X.NowMillis() }
		bpid := uint16(100)
		spid := uint16(1)

		// deliveries to a are judged wherever they show up
		judgeDeliveries := func(got []ref.Packet, when string, entitled map[string]bool) {
			for _, p := range pubsOf(got) {
				tag := string(p.Payload)
				if p.Qos > 0 {
					h.Cl["a"].Send(ref.Packet{Type: ref.PUBACK, PacketID: p.PacketID})
					h.W.Run()
				}
				if !m.hasSub && !entitled[tag] {
					shape := "subscription-of-discarded-session"
					if when == "connect" {
						shape = "queued-message-of-discarded-session"
					}
					h.violate("c15:delivery-after-discard:"+shape, "a received %s at %s although its current session has no subscription (previous session was discarded): model=%+v", p, when, *m)
				}
			}
		}

		endSession := func() {
			m.exists, m.hasSub, m.queue, m.gone = false, false, nil, false
		}
		disconnectNow := func() {
			m.connected = false
			m.discAtMs = nowMs()
			if m.eff == 0 {
				endSession() // discarded at disconnect
				if h.last {
					counters["ended_at_disconnect"]++
				}
			}
		}

		runHist(h, hist, func(op string) {
			f := fields(op)
			switch f[0] {
			case "conn":
				sh := c15ParseShape(f[1:])
				m.conns++
				// verdict before the CONNECT
				verdict := "none"
				if m.exists {
					switch {
					case m.gone:
						verdict = "gone"
					case m.eff == c15Inf || nowMs() < m.expiryInstantMs():
						verdict = "alive"
					default:
						verdict = "unspecified"
					}
				}
				var props []ref.Prop
				if sh.exp >= 0 {
					props = append(props, ref.Prop{ID: ref.PSessionExpiry, Num: uint32(sh.exp)})
				}
				got := h.connect("a", world.ConnectPacket("a", sh.ver, sh.clean, props...))
				if len(got) == 0 || got[0].Type != ref.CONNACK || got[0].ReasonCode != 0 {
					h.violate("c15:connect-refused", "CONNECT %s not accepted: %v", sh, got)
					return
				}
				sp := got[0].SessionPresent
				wantSP, decided := false, true
				switch {
				case sh.clean:
					wantSP = false
				case verdict == "alive":
					wantSP = true
				case verdict == "gone", verdict == "none":
					wantSP = false
				default:
					decided = false
				}
				if h.last {
					counters["connect_verdict_"+verdict]++
				}
				if decided && sp != wantSP {
					key := "c15:session-present:" + verdict
					switch {
					case sh.clean:
						key = "c15:session-present:set-on-clean-start"
					case verdict == "alive":
						key = "c15:discarded-early:" + c15Why(m)
					case verdict == "gone":
						key = "c15:kept-after-expiry:" + c15Why(m)
					case verdict == "none" && m.zeroRaise:
						key = "c15:disconnect-raised-zero-expiry"
					case verdict == "none":
						key = "c15:kept-after-end:" + c15Why(m)
					}
					h.violate(key, "CONNECT %s at %dms: Session Present=%v, reference says %v (session %s; disconnected at %dms, effective expiry %ds, server maximum %d): model=%+v", sh, nowMs(), sp, wantSP, verdict, m.discAtMs, m.eff, m.max, *m)
				}
				entitled := map[string]bool{}
				if sp && !sh.clean && verdict != "none" {
					// resumed (must, or unspecified-but-kept, or wrongly kept: that was reported above
					// under its own key and the model follows the implementation from here)
					for _, t := range m.queue {
						entitled[t] = true
					}
					m.queue = nil
				} else {
					endSession()
				}
				m.exists, m.gone = true, false
				m.connected, m.ver, m.subbedThisConn, m.zeroRaise, m.discAboveMax = true, sh.ver, false, false, false
				switch {
				case sh.ver < 5 && sh.clean:
					m.eff = 0
				case sh.ver < 5:
					m.eff = m.max
				case sh.exp < 0:
					m.eff = 0
				default:
					m.eff = m.cap(sh.exp)
				}
				judgeDeliveries(got[1:], "connect", entitled)
			case "sub":
				m.subs++
				m.subbedThisConn = true
				spid++
				got := h.do("a", sub(spid, "x", 1))
				m.hasSub = true
				judgeDeliveries(got, "subscribe", map[string]bool{})
			case "disc":
				p := ref.Packet{Type: ref.DISCONNECT}
				if f[1] != "-" {
					v, _ := strconv.ParseInt(f[1], 10, 64)
					p.Props = append(p.Props, ref.Prop{ID: ref.PSessionExpiry, Num: uint32(v)})
					if v > 0 && m.eff == 0 {
						m.zeroRaise = true // must be rejected: expiry stays 0
						if h.last {
							counters["zero_to_nonzero_attempts"]++
						}
					} else {
						m.eff = m.cap(v)
						m.discAboveMax = v > m.max
					}
				}
				h.do("a", p)
				if !h.Cl["a"].Closed() {
					h.violate("c15:not-closed-after-disconnect", "connection still open after DISCONNECT %v", p)
				}
				disconnectNow()
			case "drop":
				h.Cl["a"].Drop()
				h.logf("a: peer closed")
				disconnectNow()
			case "tick":
				ms, _ := strconv.Atoi(f[1])
				m.ticks++
				m.ticksSinceHk++
				h.W.Tick(int64(ms))
			case "hk":
				m.hks++
				m.ticksSinceHk = 0
				h.W.Housekeep()
				if m.exists && !m.connected && m.eff != c15Inf && nowMs() > m.expiryInstantMs() {
					if !m.gone && h.last {
						counters["expired_by_housekeeping"]++
					}
					m.gone = true // subscriptions/queue are kept as a shadow until the next CONNECT resolves the session
				}
				if m.connected {
					judgeDeliveries(h.poll("a"), "housekeeping", map[string]bool{})
				}
			case "pub":
				m.pubs++
				bpid++
				tag := fmt.Sprintf("m%d", m.pubs)
				h.do("b", pub("x", tag, 1, bpid))
				if m.connected {
					got := h.poll("a")
					n := 0
					for _, p := range pubsOf(got) {
						if string(p.Payload) == tag {
							n++
						}
					}
					if m.hasSub && n == 0 {
						h.violate("c15:connected-session-lost-subscription", "a is connected and subscribed to x but did not receive %s: model=%+v", tag, *m)
					}
					if m.hasSub && h.last && m.ticks > 0 && m.hks > 0 {
						counters["delivered_to_connected_after_housekeeping"]++
					}
					judgeDeliveries(got, "publish", map[string]bool{})
				} else if m.exists && m.hasSub {
					m.queue = append(m.queue, tag)
				}
			}
		})

		// enabled ops
		var next []string
		if !m.connected && m.conns < maxConns {
			switch m.conns {
			case 0:
				next = append(next, "conn:"+first.String())
			case 1:
				for _, s := range second {
					next = append(next, "conn:"+s.String())
				}
			default:
				// observer: same protocol family as the session it probes, clean start 0
				if m.ver < 5 {
					next = append(next, "conn:4:0:-")
				} else {
					next = append(next, "conn:5:0:3")
				}
			}
		}
		if m.connected {
			if !m.subbedThisConn && m.subs < maxSubs {
				next = append(next, "sub")
			}
			if m.conns < maxConns { // ending the last connection has no observer any more
				next = append(next, "drop")
				if m.ver == 5 {
					next = append(next, "disc:-", "disc:0", "disc:3")
				} else {
					next = append(next, "disc:-")
				}
			}
		}
		if m.conns > 0 && m.conns < maxConns || m.connected {
			if m.ticks < maxTicks {
				next = append(next, "tick:1000")
			}
			if m.hks < maxHk && m.ticksSinceHk > 0 {
				next = append(next, "hk") // a second housekeeping at the same instant changes nothing
			}
			// a publish is interesting once a subscription was made; while a is connected and
			// subscribed only after a housekeeping (connected sessions are never discarded)
			if m.pubs < maxPubs && m.subs > 0 && (!m.connected || !m.hasSub || m.hks > 0) {
				next = append(next, "pub")
			}
		}
		key := h.W.State() + fmt.Sprintf("|now=%d|%+v", nowMs(), *m)
		r := h.finish(key, next)
		r.Counters = counters
		return r
	}
}

// c15Why names the configuration shape of a wrong discard decision.
func c15Why(m *c15Model) string {
	proto := "v5"
	if m.ver < 5 {
		proto = "v3-persistent"
	}
	mx := "default-max"
	if m.max != c15Inf {
		mx = "server-max"
		if m.eff == m.max {
			mx = "connect-expiry-capped-by-server-max"
		}
		if m.discAboveMax {
			mx = "disconnect-expiry-above-server-max"
		}
	}
	return proto + ":" + mx
}

// E3 scenario "c15race" (arg: first connection of a, "4c" = MQTT 3.1.1 clean session, "50" = MQTT 5
// without Session Expiry Interval, "51" = MQTT 5 clean start with expiry 1): a's connection is
// lost and, while its handler is still tearing down, a reconnects with a session that is to be
// kept for 5 s (CONNECT and SUBSCRIBE x pipelined). Every interleaving of the old handler's
// teardown with the new connection's attach up to the deviation bound. Then, sequentially:
// the new connection disconnects, 7 s pass, housekeeping runs, a connects a third time
// (Clean Start 0) and b publishes to x. Whatever the interleaving was, the 5 s session must be
// gone by then: no Session Present, and no message through its subscription.
func c15Race(arg string) explore.RunFn {
	return func(prefix []int) explore.Outcome {
		w := world.New(prefix, world.Config{})
		defer w.End()
		b := w.Connect(world.ConnectPacket("b", 4, true))
		var first ref.Packet
		switch arg {
		case "4c":
			first = world.ConnectPacket("a", 4, true)
		case "50":
			first = world.ConnectPacket("a", 5, false)
		default:
			first = v5connect("a", true, 0, 1)
		}
		a1 := w.Connect(first)
		a1.Do(sub(1, "x", 1))
		a1.C.PeerClose()
		a2 := w.Start(v5connect("a", false, 0, 5))
		a2.Send(sub(2, "x", 1))
		base := len(w.Events)
		w.Explore(true)
		w.Run()
		w.Explore(false)
		a2.Poll()
		// did the old handler reach its end-of-connection clean-up (OnDisconnect is called right
		// before it) only after the new connection had completed the take-over?
		iDisc, iEst := -1, -1
		for i, ev := range w.Events[base:] {
			if ev.Client != "a" {
				continue
			}
			if ev.Name == "OnDisconnect" && iDisc < 0 {
				iDisc = i
			}
			if ev.Name == "OnSessionEstablished" && iEst < 0 {
				iEst = i
			}
		}
		when := "old-teardown-overlaps-takeover"
		switch {
		case iDisc >= 0 && iEst >= 0 && iDisc > iEst:
			when = "old-teardown-after-takeover-completed"
		case iDisc >= 0 && iEst < 0:
			when = "old-teardown-before-new-connection"
		}
		o := explore.Outcome{Points: w.X.Points, Divergence: w.X.Divergence(), Steps: w.X.Steps(), Counters: map[string]int{}}
		o.Viol = runtimeViolations(w)
		add := func(key, format string, args ...any) {
			o.Viol = append(o.Viol, explore.Violation{Key: key + ":" + when, Msg: fmt.Sprintf(format, args...)})
		}
		o.Counters["race_"+when]++
		established := len(a2.Recv) >= 2 && a2.Recv[0].Type == ref.CONNACK && a2.Recv[0].ReasonCode == 0 && a2.Recv[1].Type == ref.SUBACK && !a2.Closed()
		if !established {
			add("c15:race:second-connection-not-established", "reconnect while the old connection is torn down: %v closed=%v", a2.Recv, a2.Closed())
			o.Obs = "not-established"
			return o
		}
		if a2.Recv[0].SessionPresent {
			o.Counters["race_second_connection_resumed_first_session"]++
		}
		// the live connection must get what is published now
		b.Do(pub("x", "live", 1, 1))
		got := pubsOf(a2.Poll())
		if len(got) != 1 {
			add("c15:race:connected-session-does-not-receive", "a's new connection is subscribed to x and received %d copies of a publish: %v", len(got), a2.Recv)
		}
		for _, p := range got {
			if p.Qos > 0 {
				a2.Do(ref.Packet{Type: ref.PUBACK, PacketID: p.PacketID})
			}
		}
		a2.Do(ref.Packet{Type: ref.DISCONNECT, Props: ref.Props{}})
		w.Tick(7000)
		w.Housekeep()
		w.Tick(1000)
		w.Housekeep()
		a3 := w.Connect(v5connect("a", false, 0, 5))
		a3.Poll()
		if len(a3.Recv) == 0 || a3.Recv[0].Type != ref.CONNACK || a3.Recv[0].ReasonCode != 0 {
			add("c15:race:third-connection-refused", "third connection: %v", a3.Recv)
			return o
		}
		if a3.Recv[0].SessionPresent {
			add("c15:race:session-present-after-expiry", "a's 5 s session was disconnected 8 s ago and housekeeping ran twice, yet CONNACK reports Session Present")
		}
		b.Do(pub("x", "late", 1, 2))
		if late := pubsOf(a3.Poll()); len(late) > 0 {
			add("c15:race:message-through-discarded-session-subscription", "a's third connection (new session, no subscription) received %v: the expired session's subscription is still in the topic index", late)
		}
		o.Counters["race_sessions_judged"]++
		o.Obs = fmt.Sprintf("sp2=%v sp3=%v", a2.Recv[0].SessionPresent, a3.Recv[0].SessionPresent)
		return o
	}
}

func init() {
	explore.RegisterBFS("c15", c15Run)
	explore.RegisterDFS("c15race", c15Race)
	explore.Register("C15", func(c *explore.Ctx) {
		c.Rep.Level = "model_checking"
		c.Rep.Assumption("virtual time in whole seconds; housekeeping (clearExpiredClients, clearExpiredRetained, sendDelayedLWT, clearExpiredInflights) runs only when the hk op is applied, at the current virtual time")
		c.Rep.Assumption("one operation at a time, broker run to quiescence (sequential histories); client a never has two connections at once (takeover is C14)")
		c.Rep.Assumption("'discarded exactly when elapsed' is read as: must exist while now < disconnect+expiry; must be gone after a housekeeping strictly later; unspecified in between")
		c.Rep.Assumption("c15race: threads serialised by the cooperative scheduler; the teardown of a lost connection against the attach of its successor, every interleaving up to the deviation bound; the rest of the scenario is sequential")
		rb := []explore.Bounds{{Preempt: 0}, {Preempt: 1}, {Preempt: 2}}
		if !c.Quick() {
			rb = append(rb, explore.Bounds{Preempt: 3})
		}
		for _, ra := range []string{"4c", "50", "51"} {
			explore.IterateDFS(c, "c15race", ra, rb, 6*time.Second)
		}
		firsts := []string{"5.0.1", "5.0.3", "4.0.-", "5.0.-", "4.1.-"}
		per := 9 * time.Second
		extra := ""
		if !c.Quick() {
			firsts = []string{"5.0.1", "5.0.3", "4.0.-", "5.0.-", "4.1.-", "5.0.0", "5.1.1", "5.1.3", "3.0.-"}
			per = 35 * time.Second
			extra = ",wide"
		}
		for _, mx := range []string{"inf", "2"} {
			for _, f := range firsts {
				if mx == "inf" && (f == "5.0.-" || f == "4.1.-" || f == "5.0.0") {
					continue // sessions that end at disconnect: the server maximum plays no role, covered under max=2
				}
				if c.Expired() {
					c.Rep.Capped(fmt.Sprintf("max=%s first=%s not started (deadline)", mx, f))
					continue
				}
				st := explore.RunBFS(c, "c15", "max="+mx+",first="+f+extra, 0, perBudget(per))
				for ck, n := range st.Counters {
					c.Rep.Count(ck, n)
				}
			}
		}
	})
}
