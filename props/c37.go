package props

import (
	"fmt"
	"strconv"
	"strings"
	"time"

	"verif/explore"
	"verif/ref"
	"verif/world"
)

// C37: a connection with keepalive K > 0 is closed once no packet has arrived for 1.5 x K
// seconds and never earlier; K = 0 disables the timeout.
//
// E2 scenario "c37" (arg "K=<k>,v=<3|4|5>"): client a (keepalive K, subscribed to x), client
// b (keepalive 0). The virtual clock moves in 250 ms steps; the in-memory connection
// enforces the deadline the broker set through SetDeadline against that clock.
// Ops:
//   tick:250     advance the clock by 250 ms, deadlines fire, run to quiescence
//   ping         a sends PINGREQ           (a packet arrives from a now)
//   pub          a sends PUBLISH QoS 0     (a packet arrives from a now)
//   half / rest  a sends the first bytes of a PUBLISH / the remaining bytes: the packet has
//                arrived only when it is complete
//   pinghalf / pubhalf / pingpub   one segment carrying a complete PINGREQ / PUBLISH followed
//                by the first bytes of a PUBLISH (completed by a later rest) / a complete PUBLISH
//   bpub         b publishes to x: the broker WRITES to a; this is not a packet from a
// Reference model: lastArrival = time the last complete packet from a arrived (CONNECT
// included), idle = now - lastArrival. Verdicts (virtual time is exact, so no tolerance):
//   a closed while idle < 1.5 K        -> must-not  (closed-early)
//   a still open while idle >= 1.5 K   -> must      (not-closed)
//   K = 0 and closed                   -> must-not
// Pools: P packets from a (each op above but tick/bpub), one bpub, ticks while idle has
// not passed 1.5 K + 0.5 s (K = 0: a fixed tick budget). The key holds idle, the
// deadline relative to now and the pool counters, so histories that differ only in
// absolute time are merged.

type c37Model struct {
	k        int
	lastMs   int64
	packets  int
	bpubs    int
	ticks    int
	halfOpen bool
	closedAt int64 // -1 while open
}

func c37Run(arg string) explore.HistFn {
	k, ver := 1, byte(4)
	maxPackets := 3
	tickMs := 250 // large keepalives use a proportional step (T=): 1.5 x K is six steps
	for _, kv := range strings.Split(arg, ",") {
		switch {
		case strings.HasPrefix(kv, "K="):
			k, _ = strconv.Atoi(kv[2:])
		case strings.HasPrefix(kv, "v="):
			n, _ := strconv.Atoi(kv[2:])
			ver = byte(n)
		case strings.HasPrefix(kv, "P="):
			maxPackets, _ = strconv.Atoi(kv[2:])
		case strings.HasPrefix(kv, "T="):
			tickMs, _ = strconv.Atoi(kv[2:])
		}
	}
	limitMs := int64(k)*1500 + 2*int64(tickMs) // ticks are offered while idle < limit
	maxTicksK0 := 28                           // K=0: 7 s of silence
	return func(hist []string) explore.HistResult {
		h := newH(world.Config{})
		m := &c37Model{k: k, closedAt: -1}
		cp := world.ConnectPacket("a", ver, true)
		cp.KeepAlive = uint16(k)
		h.connect("a", cp)
		h.connect("b", world.ConnectPacket("b", 4, true))
		h.do("a", sub(1, "x", 0))
		a := h.Cl["a"]
		counters := map[string]int{}
		full := ref.Encode(pub("y", "pp", 0, 0), ver, ref.EncOpts{})
		now := func() int64 { return h.W.X.NowMillis() }
		judge := func(op string) {
			idle := now() - m.lastMs
			if a.Closed() && m.closedAt < 0 {
				m.closedAt = now()
				switch {
				case !a.C.TimedOut:
					h.violate("c37:closed-without-timeout:after-"+fields(op)[0], "K=%d: connection closed at idle=%dms but no read deadline fired (op %s)", k, idle, op)
				case k == 0:
					h.violate("c37:closed:K=0", "keepalive 0 must disable the timeout; connection closed for inactivity after %dms", idle)
				case idle*2 < int64(k)*3000:
					h.violate(fmt.Sprintf("c37:closed-early:K=%d", k), "K=%d: closed for inactivity after only %dms without a packet (1.5 x K = %dms); last packet at %dms, now %dms", k, idle, k*1500, m.lastMs, now())
				default:
					if h.last {
						counters["closed_at_or_after_1.5K"]++
					}
				}
			}
			if !a.Closed() && k > 0 && idle*2 >= int64(k)*3000 {
				h.violate(fmt.Sprintf("c37:not-closed:K=%d", k), "K=%d: still open %dms after the last packet (1.5 x K = %dms)", k, idle, k*1500)
			}
			if !a.Closed() && h.last && k > 0 && idle*2 >= int64(k)*2000 {
				counters["open_beyond_K"]++ // survived longer than K itself: the 1.5 factor is exercised
			}
		}
		runHist(h, hist, func(op string) {
			f := fields(op)
			switch f[0] {
			case "tick":
				ms, _ := strconv.Atoi(f[1])
				m.ticks++
				h.W.Tick(int64(ms))
				h.logf("clock %dms a.closed=%v timedOut=%v deadline=%v", now(), a.Closed(), a.C.TimedOut, a.C.Deadline().Sub(time.Unix(1_000_000, 0)))
			case "ping":
				m.packets++
				h.do("a", ref.Packet{Type: ref.PINGREQ})
				m.lastMs = now()
			case "pub":
				m.packets++
				h.do("a", pub("y", "pp", 0, 0))
				m.lastMs = now()
			case "half":
				m.packets++
				m.halfOpen = true
				a.SendRaw(full[:3])
				h.W.Run()
				h.logf("a: -> first 3 bytes of PUBLISH")
			case "pinghalf", "pubhalf", "pingpub":
				// one network segment carrying a complete packet and (the beginning of) the next one
				m.packets += 2
				first := ref.Encode(ref.Packet{Type: ref.PINGREQ}, ver, ref.EncOpts{})
				if f[0] == "pubhalf" {
					first = full
				}
				second := full
				if f[0] != "pingpub" {
					second = full[:3]
					m.halfOpen = true
				}
				a.SendRaw(append(append([]byte{}, first...), second...))
				h.W.Run()
				h.logf("a: -> %s in one segment", f[0])
				if !a.Closed() {
					m.lastMs = now()
				}
			case "rest":
				m.halfOpen = false
				a.SendRaw(full[3:])
				h.W.Run()
				h.logf("a: -> remaining bytes of PUBLISH")
				if !a.Closed() {
					m.lastMs = now()
				}
			case "bpub":
				m.bpubs++
				h.do("b", pub("x", "out", 0, 0))
				got := h.poll("a")
				if h.last && len(pubsOf(got)) > 0 {
					counters["outbound_to_a_while_idle"]++
				}
			}
			judge(op)
		})
		var next []string
		idle := now() - m.lastMs
		if !a.Closed() {
			if (k > 0 && idle < limitMs) || (k == 0 && m.ticks < maxTicksK0) {
				next = append(next, fmt.Sprintf("tick:%d", tickMs))
			}
			if m.halfOpen {
				next = append(next, "rest")
			} else if m.packets < maxPackets {
				next = append(next, "ping", "pub", "half")
				if m.packets+2 <= maxPackets {
					next = append(next, "pinghalf", "pubhalf", "pingpub")
				}
			}
			if m.bpubs < 1 && idle > 0 {
				next = append(next, "bpub")
			}
		}
		dl := int64(-1)
		if d := a.C.Deadline(); !d.IsZero() {
			dl = d.Sub(time.Unix(1_000_000, 0)).Milliseconds() - now()
		}
		tk := 0
		if k == 0 {
			tk = m.ticks
		}
		state := h.W.State()
		if a.Closed() {
			state = "closed" // terminal: no further ops; absolute times in the dump would only split states
		}
		key := state + fmt.Sprintf("|idle=%d dl=%d pk=%d half=%v bp=%d tk=%d closed=%v", idle, dl, m.packets, m.halfOpen, m.bpubs, tk, a.Closed())
		r := h.finish(key, next)
		r.Counters = counters
		return r
	}
}

func init() {
	explore.RegisterBFS("c37", c37Run)
	explore.Register("C37", func(c *explore.Ctx) {
		c.Rep.Level = "model_checking"
		c.Rep.Assumption("virtual clock in 250 ms steps; the in-memory connection enforces the deadline the broker sets via SetDeadline; a blocked Read fails with a timeout when the clock reaches it")
		c.Rep.Assumption("one operation at a time, broker run to quiescence (sequential histories); a packet 'arrives' when its last byte has been supplied")
		ks := []int{0, 1, 2, 3}
		vers := []int{4, 5}
		p := 3
		per := 12 * time.Second
		if !c.Quick() {
			ks = []int{0, 1, 2, 3, 4, 5}
			vers = []int{3, 4, 5}
			p = 4
			per = 40 * time.Second
		}
		// large keepalives (the whole uint16 range is legal): around 65535/3 and 65535/1.5, and the maximum
		for _, k := range []int{21845, 21846, 43691, 65535} {
			st := explore.RunBFS(c, "c37", fmt.Sprintf("K=%d,v=5,P=2,T=%d", k, k*250), 0, per)
			for ck, n := range st.Counters {
				c.Rep.Count(ck, n)
			}
		}
		for _, k := range ks {
			for _, v := range vers {
				if c.Expired() {
					c.Rep.Capped(fmt.Sprintf("K=%d v=%d not started (deadline)", k, v))
					continue
				}
				st := explore.RunBFS(c, "c37", fmt.Sprintf("K=%d,v=%d,P=%d", k, v, p), 0, per)
				for ck, n := range st.Counters {
					c.Rep.Count(ck, n)
				}
			}
		}
	})
}
