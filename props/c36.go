package props

import (
	"fmt"
	"net"
	"strings"
	"time"

	"github.com/mochi-mqtt/server/v2/listeners"
	"github.com/mochi-mqtt/server/v2/zzvrt"

	"verif/explore"
	"verif/ref"
	"verif/world"
)

// C36: Server.Close disconnects every connected client (v5: DISCONNECT 0x8B) and closes
// its connection, every listener stops accepting, and Close returns only after every
// connection handler has finished - for any schedule of connections being established
// concurrently with shutdown.
//
// Scenario "c36", arg "<pre>:<arrivals>" with clients written <id><version>[h|s]: the
// pre-clients are connected one at a time through the real listeners.Net accept loop
// (in-memory net.Listener), then the arrivals are queued on the listener (CONNECT already
// sent) and Server.Close() is started as a thread; all interleavings of the accept loop,
// the connection handlers and Close within the deviation bound are executed.
// A client marked h has sent only the first half of its CONNECT packet, a client marked s
// nothing at all, when Close begins (the peer is slow, not faulty): a pre-client of this
// kind has been accepted and its handler is blocked reading the CONNECT when Close is
// called. The remainder of the packet is delivered when the system has come to rest, and
// the run continues (still exploring) to the final quiescence.
//
// Oracle (from the property statement only):
//   at the instant Close returns (sampled by the closing thread itself, no scheduling
//   point in between):
//     must: the listener is closed; no connection-handler thread is unfinished - in
//           particular not the handler of a connection that was accepted, and was already
//           reading its CONNECT packet, before Close was called;
//   at quiescence, if Close returned:
//     must: every connection the listener handed out (Accept returned it) is closed;
//     must: a later dial is not accepted;
//   at quiescence, if Close did not return:
//     must-not: an established client (holder of a success CONNACK) is still connected
//               with nobody left to disconnect it (Close waits for its handler forever);
//   always: a v5 client that held a success CONNACK and whose connection was closed during
//           shutdown received DISCONNECT 0x8B before the close.
// Connections still queued in the listener when it is closed were never accepted; they
// are the network stack's business and are not judged.

type c36Listener struct {
	X        *zzvrt.Exec
	queue    []*world.Conn
	Accepted []*world.Conn
	Closed   bool
}

func (l *c36Listener) Accept() (net.Conn, error) {
	if zzvrt.Killed() {
		return nil, net.ErrClosed
	}
	zzvrt.Point("listener.Accept")
	for {
		if l.Closed {
			return nil, net.ErrClosed
		}
		if len(l.queue) > 0 {
			c := l.queue[0]
			l.queue = l.queue[1:]
			l.Accepted = append(l.Accepted, c)
			return c, nil
		}
		zzvrt.Block(zzvrt.BlockIO, "listener.Accept", func() bool { return l.Closed || len(l.queue) > 0 })
	}
}

func (l *c36Listener) Close() error {
	if !zzvrt.Killed() {
		zzvrt.Point("listener.Close")
	}
	if l.Closed {
		return net.ErrClosed
	}
	l.Closed = true
	return nil
}

type c36Addr struct{}

func (c36Addr) Network() string { return "mem" }
func (c36Addr) String() string  { return "c36listener" }

func (l *c36Listener) Addr() net.Addr { return c36Addr{} }

// c36Att is one client of a scenario: Part "" (whole CONNECT sent at once), "h" (first
// half sent, rest later) or "s" (silent at first, whole CONNECT later).
type c36Att struct {
	c35Att
	Part string
}

func c36ParseClients(s string) []c36Att {
	var out []c36Att
	for _, f := range strings.Split(s, "+") {
		if f == "" {
			continue
		}
		part := ""
		if l := f[len(f)-1]; l == 'h' || l == 's' {
			part, f = string(l), f[:len(f)-1]
		}
		out = append(out, c36Att{c35Att: c35Att{ID: f[:len(f)-1], Ver: f[len(f)-1] - '0'}, Part: part})
	}
	return out
}

type c36Snap struct {
	taken          bool
	listenerClosed bool
	handlersAlive  []string // handlers of connections that arrived during Close
	countedAlive   []string // handlers of clients connected before Close began
	readingAlive   []string // handlers that were reading their CONNECT packet before Close began
	openAccepted   []int
	writeLoops     int
}

func c36IsHandler(name string) bool { return strings.HasPrefix(name, "listeners/net.go:") }

func c36Run(arg string) explore.RunFn {
	parts := strings.SplitN(arg, ":", 2)
	pre := c36ParseClients(parts[0])
	arr := c36ParseClients(parts[1])
	return func(prefix []int) explore.Outcome {
		w := world.New(prefix, world.Config{})
		defer w.End()
		l := &c36Listener{X: w.X}
		if err := w.S.AddListener(listeners.NewNet("t1", l)); err != nil {
			panic(err)
		}
		zzvrt.Go("serve", func() { _ = w.S.Serve() })
		w.Run()
		var clients []*world.Client
		rest := map[*world.Client][]byte{} // bytes of the CONNECT packet the peer has not sent yet
		dial := func(a c36Att) *world.Client {
			c := &world.Conn{ID: len(w.Conns), X: w.X}
			w.Conns = append(w.Conns, c)
			p := world.ConnectPacket(a.ID, a.Ver, false)
			if a.Ver == 5 {
				p.Props = append(p.Props, ref.Prop{ID: ref.PSessionExpiry, Num: 60})
			}
			cl := &world.Client{W: w, C: c, Ver: a.Ver, ID: a.ID}
			b := ref.Encode(p, a.Ver, ref.EncOpts{})
			switch a.Part {
			case "h":
				c.Send(b[:len(b)/2])
				rest[cl] = b[len(b)/2:]
			case "s":
				rest[cl] = b
			default:
				c.Send(b)
			}
			l.queue = append(l.queue, c)
			clients = append(clients, cl)
			return cl
		}
		for _, a := range pre {
			dial(a)
			w.Run()
		}
		for _, c := range clients {
			c.Poll()
		}
		// non-vacuity of the slow-peer pre-clients: their handlers are inside the broker, blocked
		// in Read on their own connection, before Close is called
		readingBefore := 0
		for i, a := range pre {
			if a.Part == "" {
				continue
			}
			want := fmt.Sprintf("conn%d.Read", clients[i].C.ID)
			for _, t := range w.X.Threads() {
				if c36IsHandler(t.Name) && !t.Done && t.Blocked == zzvrt.BlockIO && t.What == want {
					readingBefore++
				}
			}
		}
		for _, a := range arr {
			dial(a)
		}
		var snap c36Snap
		returned := false
		zzvrt.Go("close", func() {
			_ = w.S.Close()
			// the instant Close returns: nothing else has run since
			returned = true
			snap.taken = true
			snap.listenerClosed = l.Closed
			hi := 0
			for _, t := range w.X.Threads() {
				if c36IsHandler(t.Name) {
					// handlers are started in accept order: the first len(pre) belong to the clients
					// that were fully connected (and counted by ClientsWg) before Close began
					if !t.Done && hi < len(pre) && pre[hi].Part != "" {
						snap.readingAlive = append(snap.readingAlive, fmt.Sprintf("%s(client %s, blocked=%s %s)", t.Name, pre[hi].ID, t.Blocked, t.What))
					} else if !t.Done && hi < len(pre) {
						snap.countedAlive = append(snap.countedAlive, fmt.Sprintf("%s(blocked=%s %s)", t.Name, t.Blocked, t.What))
					} else if !t.Done {
						snap.handlersAlive = append(snap.handlersAlive, fmt.Sprintf("%s(blocked=%s %s)", t.Name, t.Blocked, t.What))
					}
					hi++
				}
				if !t.Done && strings.HasPrefix(t.Name, "server.go:") {
					snap.writeLoops++
				}
			}
			for _, c := range l.Accepted {
				if !c.Closed {
					snap.openAccepted = append(snap.openAccepted, c.ID)
				}
			}
		})
		w.Explore(true)
		w.Run()
		returnedBeforeRest := returned
		if len(rest) > 0 {
			// the slow peers complete their CONNECT packets now
			for _, c := range clients {
				if b, ok := rest[c]; ok {
					c.C.Send(b)
				}
			}
			w.Run()
		}
		w.Explore(false)

		o := explore.Outcome{Points: w.X.Points, Divergence: w.X.Divergence(), Steps: w.X.Steps(), StepLog: w.X.StepLog, Counters: map[string]int{}}
		if readingBefore > 0 {
			o.Counters["handler_reading_connect_when_close_called"] = 1
			if !returnedBeforeRest {
				o.Counters["close_waited_for_handler_reading_connect"] = 1
			}
		}
		o.Viol = runtimeViolations(w)
		seen := map[string]bool{}
		add := func(key, msg string) {
			if !seen[key] {
				seen[key] = true
				o.Viol = append(o.Viol, explore.Violation{Key: key, Msg: msg})
			}
		}
		for _, c := range clients {
			c.Poll()
		}
		accepted := map[int]bool{}
		for _, c := range l.Accepted {
			accepted[c.ID] = true
		}
		nHandlers := 0
		for _, t := range w.X.Threads() {
			if c36IsHandler(t.Name) {
				nHandlers++
			}
		}
		established := func(c *world.Client) bool {
			return len(c.Recv) > 0 && c.Recv[0].Type == ref.CONNACK && c.Recv[0].ReasonCode == 0
		}
		got8B := func(c *world.Client) bool {
			for _, p := range c.Recv {
				if p.Type == ref.DISCONNECT && p.ReasonCode == 0x8B {
					return true
				}
			}
			return false
		}
		desc := func() string {
			var b strings.Builder
			for _, c := range clients {
				fmt.Fprintf(&b, "%s%d[conn%d accepted=%v closed=%v unread=%d:", c.ID, c.Ver, c.C.ID, accepted[c.C.ID], c.Closed(), c.C.Pending())
				for _, p := range c.Recv {
					b.WriteString(" " + p.String())
				}
				b.WriteString("] ")
			}
			fmt.Fprintf(&b, "closeReturned=%v listenerClosed=%v handlers=%d", returned, l.Closed, nHandlers)
			return b.String()
		}

		if returned {
			o.Counters["close_returned"] = 1
			if !snap.listenerClosed {
				add("listener-open-when-close-returns", "Close returned while the listener was still open; "+desc())
			}
			if len(snap.countedAlive) > 0 {
				add("outlives-close:close-does-not-wait-for-connected-client-handler", fmt.Sprintf("Close returned while the handler of a client that was connected before Close began was unfinished: %v; %s", snap.countedAlive, desc()))
			}
			if len(snap.readingAlive) > 0 {
				add("outlives-close:close-does-not-wait-for-handler-reading-connect", fmt.Sprintf("Close returned while a connection handler that had been started, and was reading its CONNECT packet, before Close was called was unfinished: %v; connections open at that instant: %v; %s", snap.readingAlive, snap.openAccepted, desc()))
			}
			if len(snap.handlersAlive) > 0 {
				add("outlives-close:handler-before-wg-add", fmt.Sprintf("Close returned while connection handlers were unfinished (they had not yet been counted by ClientsWg): %v; connections open at that instant: %v; %s", snap.handlersAlive, snap.openAccepted, desc()))
			}
			for _, c := range clients {
				if !accepted[c.C.ID] || c.Closed() {
					continue
				}
				if c.C.Pending() > 0 && len(c.C.Out) == 0 && nHandlers < len(l.Accepted) {
					add("outlives-close:accepted-conn-dropped-unclosed", fmt.Sprintf("conn%d was returned by Accept but neither handled nor closed (the accept loop saw the end flag); %s", c.C.ID, desc()))
				} else if len(snap.handlersAlive)+len(snap.countedAlive)+len(snap.readingAlive) == 0 {
					add("outlives-close:connection-open-at-quiescence", fmt.Sprintf("conn%d (%s) is still open after Close returned; %s", c.C.ID, c.ID, desc()))
				}
			}
			// the listener must not accept any more
			before := len(l.Accepted)
			late := &world.Conn{ID: len(w.Conns), X: w.X}
			w.Conns = append(w.Conns, late)
			late.Send(ref.Encode(world.ConnectPacket("late", 4, true), 4, ref.EncOpts{}))
			l.queue = append(l.queue, late)
			w.Run()
			if len(l.Accepted) != before || len(late.Out) > 0 {
				add("accepts-after-close", "a connection dialled after Close returned was accepted; "+desc())
			}
		} else {
			o.Counters["close_blocked"] = 1
			explained := false
			for _, c := range clients {
				if accepted[c.C.ID] && established(c) && !c.Closed() {
					explained = true
					add("close-blocked:client-after-snapshot", fmt.Sprintf("Close never returns: client %s (conn%d) completed its CONNECT after Close took its snapshot of the clients, is connected and idle, is never disconnected, and Close waits for its handler; %s", c.ID, c.C.ID, desc()))
				}
			}
			if !explained && len(o.Viol) == 0 {
				add("close-blocked:other", "Close did not return at quiescence; "+desc()+fmt.Sprintf(" threads=%v", w.X.Alive()))
			}
		}
		takenOver := func(c *world.Client) bool {
			// the spec-mandated end of an older connection when the same client id connects again
			for _, p := range c.Recv {
				if p.Type == ref.DISCONNECT && p.ReasonCode == 0x8E {
					for _, d := range clients {
						if d != c && d.ID == c.ID && d.C.ID > c.C.ID {
							return true
						}
					}
				}
			}
			return false
		}
		for _, c := range clients {
			if takenOver(c) {
				o.Counters["taken_over_during_close"]++
				continue
			}
			if c.Ver == 5 && established(c) && c.Closed() && !got8B(c) {
				add("no-disconnect-0x8B:v5-client-closed-by-shutdown", fmt.Sprintf("v5 client %s held a success CONNACK and was closed without DISCONNECT 0x8B; %s", c.ID, desc()))
			}
			if c.Ver == 5 && got8B(c) {
				o.Counters["v5_got_0x8B"]++
			}
			if c.Err != nil {
				o.Counters["undecodable_output"]++
			}
		}
		if len(l.Accepted) > len(pre) {
			o.Counters["arrival_accepted_during_close"] = 1
		}
		if len(l.Accepted) < len(pre)+len(arr) {
			o.Counters["arrival_not_accepted"] = 1
		}
		for _, c := range clients[len(pre):] {
			if established(c) {
				o.Counters["arrival_established"]++
			}
		}
		o.Obs = desc()
		return o
	}
}

var c36Scen = []string{"a5h:", "a4s:c5", ":c4", ":c5", "a5:c4", "a4:c5", "a5:c5", ":c4+d5", "a5:c4+d5", "a5:a5", "a4:", "a5:"}

func init() {
	explore.RegisterDFS("c36", c36Run)
	explore.Register("C36", func(c *explore.Ctx) {
		c.Rep.Level = "model_checking"
		c.Rep.Assumption("threads are serialised by the cooperative scheduler (sequentially consistent interleavings only); WaitGroup modelled as a counter (Add after Wait returned is not reported as misuse)")
		c.Rep.Assumption("in-memory net.Listener/net.Conn: Accept, Read, Write, Close are scheduling points; a connection not yet returned by Accept when the listener closes is outside the broker's responsibility")
		c.Rep.Assumption("clients send CONNECT and then stay idle (keepalive 0): nothing but Close can end their connection; a slow peer (h: half of the CONNECT packet, s: nothing sent when Close is called) delivers the rest of its CONNECT once the system has come to rest")
		bounds := []explore.Bounds{{Preempt: 0}, {Preempt: 1}, {Preempt: 2}}
		per := 6 * time.Second
		if !c.Quick() {
			bounds = append(bounds, explore.Bounds{Preempt: 3})
			per = 60 * time.Second
		}
		a := newDfsAgg(c)
		for _, s := range c36Scen {
			a.run("c36", s, bounds, per)
		}
		if !c.Quick() {
			for _, s := range []string{"a4h:", "a5s:", "a5h:c4", "a5+b4h:", ":c5h", "a5:c4s"} {
				a.run("c36", s, bounds, per)
			}
		}
		a.requireCounters("close_returned", "arrival_accepted_during_close", "arrival_established", "v5_got_0x8B", "handler_reading_connect_when_close_called")
	})
}
