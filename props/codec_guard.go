package props

// Liveness guard of the codec checks: "decoding returns a packet or an error" also means
// that it returns. A decode of a few hundred bytes costs microseconds; the guard fires when
// ONE decode has consumed cdcGuardCPU of processor time of this process (resource usage, not
// wall time, so machine load does not matter; the margin is six orders of magnitude), or
// earlier when it has already consumed cdcGuardCPUMem and the heap has grown beyond
// cdcGuardHeap (a runaway loop that allocates would otherwise eat the machine while the
// guard waits), or when it has been stuck for cdcGuardBlocked of wall time in a blocked
// (not runnable) state. It is not a timing oracle: nothing is judged by how long it took,
// only by whether it came back at all. A runaway decode cannot be stopped from inside a Go
// process, so the guard's onFire callback must end the process (explore.AbortCase in a
// worker, os.Exit in a replay).

import (
	"runtime"
	"strings"
	"sync/atomic"
	"syscall"
	"time"
)

const (
	cdcGuardCPU     = 3 * time.Second
	cdcGuardCPUMem  = 500 * time.Millisecond
	cdcGuardHeap    = 768 << 20
	cdcGuardBlocked = 120 * time.Second
	cdcGuardTick    = 25 * time.Millisecond
)

type cdcGuard struct {
	seq    atomic.Uint64 // odd while a decode is running
	cur    atomic.Pointer[codecInput]
	onFire func(in *codecInput, site, why string)
}

func cdcProcessCPU() time.Duration {
	var ru syscall.Rusage
	if syscall.Getrusage(syscall.RUSAGE_SELF, &ru) != nil {
		return 0
	}
	return time.Duration(ru.Utime.Nano() + ru.Stime.Nano())
}

// cdcStartGuard starts the watchdog goroutine.
func cdcStartGuard(onFire func(in *codecInput, site, why string)) *cdcGuard {
	g := &cdcGuard{onFire: onFire}
	go g.watch()
	return g
}

// enter / leave bracket one decode (two atomic operations on the hot path).
func (g *cdcGuard) enter(in *codecInput) {
	g.cur.Store(in)
	g.seq.Add(1)
}

func (g *cdcGuard) leave() { g.seq.Add(1) }

func (g *cdcGuard) watch() {
	var seen uint64
	var cpu0 time.Duration
	var t0 time.Time
	tk := time.NewTicker(cdcGuardTick)
	defer tk.Stop()
	for range tk.C {
		s := g.seq.Load()
		if s&1 == 0 {
			seen = 0
			continue
		}
		if s != seen {
			seen, cpu0, t0 = s, cdcProcessCPU(), time.Now()
			continue
		}
		used := cdcProcessCPU() - cpu0
		why := ""
		switch {
		case used >= cdcGuardCPU:
			why = "one decode has consumed " + cdcGuardCPU.String() + " of processor time without returning"
		case used >= cdcGuardCPUMem:
			var ms runtime.MemStats
			runtime.ReadMemStats(&ms)
			if ms.HeapAlloc >= cdcGuardHeap {
				why = "one decode has consumed " + used.Round(10*time.Millisecond).String() + " of processor time without returning and the heap has grown beyond 768 MiB"
			}
		case time.Since(t0) >= cdcGuardBlocked:
			if st := cdcDecodeGoroutineState(); st != "" && st != "running" && st != "runnable" {
				why = "one decode has been blocked (" + st + ") for " + cdcGuardBlocked.String()
			}
		}
		if why == "" || g.seq.Load() != s {
			continue
		}
		in := g.cur.Load()
		site := cdcStuckSite()
		if g.seq.Load() != s {
			continue // it came back while the stacks were sampled
		}
		g.onFire(in, site, why)
		return
	}
}

// cdcDecodeStack returns the header state and the mochi functions (outermost first) of the
// goroutine that is inside cdcMDecode.
func cdcDecodeStack() (state string, fns []string) {
	buf := make([]byte, 1<<20)
	buf = buf[:runtime.Stack(buf, true)]
	for _, g := range strings.Split(string(buf), "\n\n") {
		if !strings.Contains(g, "props.cdcMDecode(") {
			continue
		}
		lines := strings.Split(g, "\n")
		if i := strings.Index(lines[0], "["); i >= 0 {
			state = strings.TrimRight(lines[0][i+1:], "]:")
			if j := strings.Index(state, ","); j >= 0 {
				state = state[:j]
			}
		}
		for _, l := range lines[1:] {
			if strings.HasPrefix(l, "\t") || strings.Contains(l, "/zzvrt") {
				continue
			}
			i := strings.Index(l, "mochi-mqtt/server/v2/")
			if i < 0 {
				continue
			}
			fn := l[i+len("mochi-mqtt/server/v2/"):]
			if j := strings.LastIndex(fn, "("); j > 0 {
				fn = fn[:j]
			}
			fns = append([]string{fn}, fns...)
		}
		return
	}
	return "", nil
}

func cdcDecodeGoroutineState() string {
	st, _ := cdcDecodeStack()
	return st
}

// cdcStuckSite names the function the decode is stuck in: the stack of the decoding
// goroutine is sampled 40 times; the mochi functions that are on the stack in every sample
// (the common prefix, outermost first) are the ones that never return, and the innermost of
// them is the one whose loop does not end. No line numbers: stable key material.
func cdcStuckSite() string {
	var common []string
	for i := 0; i < 40; i++ {
		_, fns := cdcDecodeStack()
		if fns == nil {
			continue
		}
		if common == nil {
			common = fns
		} else {
			n := 0
			for n < len(common) && n < len(fns) && common[n] == fns[n] {
				n++
			}
			common = common[:n]
		}
		time.Sleep(3 * time.Millisecond)
	}
	if len(common) == 0 {
		return "?"
	}
	return common[len(common)-1]
}
