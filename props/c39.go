package props

import (
	"bytes"
	"fmt"
	"io"
	"log/slog"
	"net"
	"net/http/httptest"
	"sort"
	"strings"
	"sync"
	"sync/atomic"
	"time"

	"github.com/gorilla/websocket"
	mqtt "github.com/mochi-mqtt/server/v2"
	"github.com/mochi-mqtt/server/v2/listeners"

	"verif/explore"
	"verif/ref"
	"verif/world"
)

// C39: the WebSocket transport is byte-transparent.
//
// E1 in passthrough mode (real goroutines, real gorilla/websocket client over loopback to
// the listener's real handler behind httptest): one fixed MQTT session is cut into binary
// messages in EVERY way with <= k cuts, plus one empty binary message inserted at every
// position, plus one text message at every position. Oracle: the packets the broker
// processed and the multiset of reply packets equal those of the TCP-equivalent run; a
// text message ends the connection and nothing after it is processed. No timing oracle:
// the client reads until the broker closes the connection (a 60 s safety deadline only
// turns a hang into a reported explorer limit).

type c39Server struct {
	srv  *mqtt.Server
	hook *world.RecHook
	w    *world.World
	ts   *httptest.Server
	url  string
}

func c39NewServer() *c39Server {
	w := &world.World{}
	opts := &mqtt.Options{Logger: slog.New(slog.NewTextHandler(io.Discard, &slog.HandlerOptions{Level: slog.Level(100)}))}
	s := mqtt.New(opts)
	h := &world.RecHook{W: w}
	if err := s.AddHook(h, nil); err != nil {
		panic(err)
	}
	l := listeners.NewWebsocket(listeners.Config{ID: "ws1", Address: "127.0.0.1:0"})
	if err := l.Init(opts.Logger); err != nil {
		panic(err)
	}
	ts := httptest.NewServer(l.VerifHandler(s.EstablishConnection))
	return &c39Server{srv: s, hook: h, w: w, ts: ts, url: "ws" + strings.TrimPrefix(ts.URL, "http")}
}

func c39Session() (stream []byte, bounds []int) {
	// every reply is written directly by the connection's reader goroutine while its
	// outbound queue is empty (no delivery to this client), so the reply stream is
	// independent of goroutine scheduling
	pks := []ref.Packet{
		world.ConnectPacket("c", 4, true),
		sub(1, "y", 1),
		pub("x", "hi", 1, 2),
		{Type: ref.PINGREQ},
		{Type: ref.UNSUBSCRIBE, PacketID: 3, Filters: []ref.Filter{{Filter: "y"}}},
		{Type: ref.DISCONNECT},
	}
	for _, p := range pks {
		stream = append(stream, ref.Encode(p, 4, ref.EncOpts{})...)
		bounds = append(bounds, len(stream))
	}
	return
}

type c39Msg struct {
	Text bool
	Data []byte
}

type c39Result struct {
	processed []string // packet types processed by the broker, in order
	replies   []string // sorted decoded reply packets
	hang      bool
	err       string
}

// c39RunWS sends msgs over a websocket connection and reads replies until the broker closes.
func (s *c39Server) runWS(msgs []c39Msg) c39Result {
	s.w.Events = nil
	d := websocket.Dialer{Subprotocols: []string{"mqtt"}}
	c, _, err := d.Dial(s.url, nil)
	if err != nil {
		return c39Result{err: "dial: " + err.Error()}
	}
	defer c.Close()
	for _, m := range msgs {
		t := websocket.BinaryMessage
		if m.Text {
			t = websocket.TextMessage
		}
		if err := c.WriteMessage(t, m.Data); err != nil {
			break // the broker may already have closed (text message case)
		}
	}
	// end of input: a close frame makes the broker's handler finish even if it is still waiting
	// for bytes that a faulty transport lost (the session's own DISCONNECT normally ends it first)
	_ = c.WriteControl(websocket.CloseMessage, websocket.FormatCloseMessage(websocket.CloseNormalClosure, ""), time.Now().Add(30*time.Second))
	var reply []byte
	var res c39Result
	c.SetReadDeadline(time.Now().Add(60 * time.Second))
	for {
		_, b, err := c.ReadMessage()
		if err != nil {
			if ne, ok := err.(net.Error); ok && ne.Timeout() {
				res.hang = true
			}
			break
		}
		reply = append(reply, b...)
	}
	return s.finish(res, reply)
}

// c39RunTCP is the TCP-equivalent run: the same bytes over a plain stream connection.
func (s *c39Server) runTCP(stream []byte) c39Result {
	s.w.Events = nil
	a, b := net.Pipe()
	done := make(chan struct{})
	go func() { _ = s.srv.EstablishConnection("t1", b); close(done) }()
	var reply []byte
	var mu sync.Mutex
	rd := make(chan struct{})
	go func() {
		buf := make([]byte, 4096)
		for {
			n, err := a.Read(buf)
			mu.Lock()
			reply = append(reply, buf[:n]...)
			mu.Unlock()
			if err != nil {
				close(rd)
				return
			}
		}
	}()
	a.Write(stream)
	<-done
	a.Close()
	<-rd
	return s.finish(c39Result{}, reply)
}

func (s *c39Server) finish(res c39Result, reply []byte) c39Result {
	// the handler has returned (connection closed) before the client saw the close, but hook
	// events are appended by the handler goroutine: wait until the broker forgot the client
	for i := 0; i < 30000; i++ {
		if atomic.LoadInt64(&s.srv.Info.ClientsConnected) == 0 {
			break
		}
		time.Sleep(time.Millisecond)
	}
	for _, e := range s.w.Events {
		if e.Name == "OnPacketProcessed" {
			res.processed = append(res.processed, ref.TypeNames[e.Type&15])
		}
	}
	pks, _, rest, err := ref.DecodeStream(reply, 4)
	if err != nil || len(rest) > 0 {
		res.err = fmt.Sprintf("reply stream does not decode: %v rest=%x", err, rest)
	}
	for _, p := range pks {
		res.replies = append(res.replies, p.String())
	}
	return res
}

func c39SessionBig() (stream []byte, bounds []int) {
	big := make([]byte, 3000)
	for i := range big {
		big[i] = byte('a' + i%26)
	}
	pks := []ref.Packet{
		world.ConnectPacket("c", 4, true),
		{Type: ref.SUBSCRIBE, PacketID: 1, Filters: []ref.Filter{{Filter: "y", Opts: 1}, {Filter: "y/#", Opts: 2}, {Filter: "z/+", Opts: 0}}},
		{Type: ref.PUBLISH, Topic: "x", Payload: big, Qos: 1, PacketID: 2},
		{Type: ref.PINGREQ},
		{Type: ref.DISCONNECT},
	}
	for _, p := range pks {
		stream = append(stream, ref.Encode(p, 4, ref.EncOpts{})...)
		bounds = append(bounds, len(stream))
	}
	return
}

// ---- the net.Conn contract of the listener's connection wrapper ----
//
// The real handler is given an establish callback of the harness instead of the broker's,
// so the callback holds the listener's own connection object. Write side: for every size
// of a boundary set (and every ordered pair of a smaller set) Write must report exactly
// len(p), nil and the client must receive exactly those bytes ("replies arrive intact"
// for every write the broker can issue, whatever its size). Read side: for binary
// messages of size a (optionally followed by an empty binary message) followed by a
// text message, read through a buffer of size r (smaller than, equal to, larger than
// a): the bytes returned are exactly the binary messages' bytes, then an error; no
// byte of the text message is ever returned.
type c39Contract struct {
	ts  *httptest.Server
	url string
	fn  func(net.Conn)
}

func c39NewContract() *c39Contract {
	logger := slog.New(slog.NewTextHandler(io.Discard, &slog.HandlerOptions{Level: slog.Level(100)}))
	l := listeners.NewWebsocket(listeners.Config{ID: "wsc", Address: "127.0.0.1:0"})
	if err := l.Init(logger); err != nil {
		panic(err)
	}
	k := &c39Contract{}
	k.ts = httptest.NewServer(l.VerifHandler(func(id string, c net.Conn) error { k.fn(c); return nil }))
	k.url = "ws" + strings.TrimPrefix(k.ts.URL, "http")
	return k
}

func c39Pattern(n, salt int) []byte {
	b := make([]byte, n)
	for i := range b {
		b[i] = byte((i*7 + salt*31 + i/251) % 251)
	}
	return b
}

// writeCase: the server side writes the given sizes; returns "" or the first discrepancy.
func (k *c39Contract) writeCase(sizes []int) string {
	type wr struct {
		n   int
		err error
	}
	res := make(chan []wr, 1)
	var want []byte
	k.fn = func(c net.Conn) {
		var out []wr
		for i, n := range sizes {
			got, err := c.Write(c39Pattern(n, i))
			out = append(out, wr{got, err})
		}
		res <- out
	}
	for i, n := range sizes {
		want = append(want, c39Pattern(n, i)...)
	}
	d := websocket.Dialer{Subprotocols: []string{"mqtt"}}
	c, _, err := d.Dial(k.url, nil)
	if err != nil {
		return "internal: dial: " + err.Error()
	}
	defer c.Close()
	var got []byte
	c.SetReadDeadline(time.Now().Add(60 * time.Second))
	for {
		t, b, err := c.ReadMessage()
		if err != nil {
			if ne, ok := err.(net.Error); ok && ne.Timeout() {
				<-res
				return "hang" // safety deadline on an overloaded machine: not judged
			}
			break
		}
		if t != websocket.BinaryMessage {
			return fmt.Sprintf("a non-binary message (type %d) was sent", t)
		}
		got = append(got, b...)
	}
	out := <-res
	for i, w := range out {
		if w.err != nil || w.n != sizes[i] {
			return fmt.Sprintf("Write of %d bytes returned (%d, %v)", sizes[i], w.n, w.err)
		}
	}
	if !bytes.Equal(got, want) {
		return fmt.Sprintf("client received %d bytes, %d were written; first difference at %d", len(got), len(want), c39FirstDiff(got, want))
	}
	return ""
}

func c39FirstDiff(a, b []byte) int {
	for i := 0; i < len(a) && i < len(b); i++ {
		if a[i] != b[i] {
			return i
		}
	}
	if len(a) < len(b) {
		return len(a)
	}
	return len(b)
}

// readCase: the client sends msgs; the server side reads through a buffer of r bytes until
// an error. Returns "" or the discrepancy.
func (k *c39Contract) readCase(msgs []c39Msg, r int) string {
	type rd struct {
		data  []byte
		reads int
		hang  bool
	}
	res := make(chan rd, 1)
	k.fn = func(c net.Conn) {
		var out rd
		buf := make([]byte, r)
		c.SetReadDeadline(time.Now().Add(60 * time.Second))
		for out.reads < 100000 {
			n, err := c.Read(buf)
			out.reads++
			out.data = append(out.data, buf[:n]...)
			if err != nil {
				if ne, ok := err.(net.Error); ok && ne.Timeout() {
					out.hang = true
				}
				break
			}
		}
		res <- out
	}
	var want []byte
	sawText := false
	for _, m := range msgs {
		if m.Text {
			sawText = true
		}
		if !sawText {
			want = append(want, m.Data...)
		}
	}
	d := websocket.Dialer{Subprotocols: []string{"mqtt"}}
	c, _, err := d.Dial(k.url, nil)
	if err != nil {
		return "internal: dial: " + err.Error()
	}
	defer c.Close()
	for _, m := range msgs {
		t := websocket.BinaryMessage
		if m.Text {
			t = websocket.TextMessage
		}
		if err := c.WriteMessage(t, m.Data); err != nil {
			break
		}
	}
	_ = c.WriteControl(websocket.CloseMessage, websocket.FormatCloseMessage(websocket.CloseNormalClosure, ""), time.Now().Add(30*time.Second))
	out := <-res
	if out.hang {
		return "hang"
	}
	if !bytes.Equal(out.data, want) {
		return fmt.Sprintf("Read returned %d bytes %.40q, the binary messages before the text message hold %d bytes %.40q", len(out.data), out.data, len(want), want)
	}
	return ""
}

func c39SessionHuge() (stream []byte, bounds []int) {
	big := make([]byte, 3<<19)
	for i := range big {
		big[i] = byte('a' + i%23)
	}
	pks := []ref.Packet{
		world.ConnectPacket("c", 4, true),
		{Type: ref.PUBLISH, Topic: "x", Payload: big, Qos: 1, PacketID: 2},
		{Type: ref.PINGREQ},
		{Type: ref.DISCONNECT},
	}
	for _, p := range pks {
		stream = append(stream, ref.Encode(p, 4, ref.EncOpts{})...)
		bounds = append(bounds, len(stream))
	}
	return
}

func c39Cuts(n, k int) [][]int {
	var out [][]int
	var rec func(start int, cur []int)
	rec = func(start int, cur []int) {
		out = append(out, append([]int{}, cur...))
		if len(cur) == k {
			return
		}
		for i := start; i < n; i++ {
			rec(i+1, append(cur, i))
		}
	}
	rec(1, nil)
	return out
}

func init() {
	explore.Register("C39", func(c *explore.Ctx) {
		c.Rep.Level = "exploration"
		stream, bounds := c39Session()
		k := 3
		limit := len(stream)
		if !c.Quick() {
			k = 4
		}
		cuts := c39Cuts(limit, k)
		type job struct {
			msgs []c39Msg
			desc string
			text int // index of the text message (-1: none)
			pre  int // bytes before the text message
			sess int // 0: small session, 1: session with a 3000-byte PUBLISH
		}
		var jobs []job
		mk := func(cut []int) []c39Msg {
			var msgs []c39Msg
			prev := 0
			for _, x := range append(append([]int{}, cut...), len(stream)) {
				msgs = append(msgs, c39Msg{Data: stream[prev:x]})
				prev = x
			}
			return msgs
		}
		for _, cut := range cuts {
			jobs = append(jobs, job{mk(cut), fmt.Sprintf("cuts=%v", cut), -1, 0, 0})
		}
		// one empty binary message / one text message at every position of every <=1-cut segmentation
		for _, cut := range c39Cuts(limit, 1) {
			base := mk(cut)
			for pos := 0; pos <= len(base); pos++ {
				withEmpty := append(append(append([]c39Msg{}, base[:pos]...), c39Msg{Data: []byte{}}), base[pos:]...)
				jobs = append(jobs, job{withEmpty, fmt.Sprintf("cuts=%v empty@%d", cut, pos), -1, 0, 0})
				pre := 0
				for _, m := range base[:pos] {
					pre += len(m.Data)
				}
				withText := append(append(append([]c39Msg{}, base[:pos]...), c39Msg{Text: true, Data: []byte("hello")}), base[pos:]...)
				jobs = append(jobs, job{withText, fmt.Sprintf("cuts=%v text@%d", cut, pos), pos, pre, 0})
			}
		}
		// empty binary message directly followed by a text message, at every position
		for _, cut := range c39Cuts(limit, 1) {
			base := mk(cut)
			for pos := 0; pos <= len(base); pos++ {
				pre := 0
				for _, m := range base[:pos] {
					pre += len(m.Data)
				}
				both := append(append(append([]c39Msg{}, base[:pos]...), c39Msg{Data: []byte{}}, c39Msg{Text: true, Data: []byte{0xC0, 0x00}}), base[pos:]...)
				jobs = append(jobs, job{both, fmt.Sprintf("cuts=%v empty+text(PINGREQ bytes)@%d", cut, pos), pos + 1, pre, 0})
			}
		}
		// the connection wrapper's own Read/Write contract
		{
			k := c39NewContract()
			wsizes := []int{1, 2, 125, 126, 127, 1023, 1024, 2047, 2048, 2049, 4096, 32767, 32768, 32769, 65535, 65536, 65537, 70000, 98304, 98305, 131073}
			pairs := []int{1, 126, 2048, 32768, 32769, 65537}
			if !c.Quick() {
				for n := 1; n <= 300; n++ {
					wsizes = append(wsizes, n, 32768-150+n, 65536-150+n)
				}
			}
			nc := 0
			for _, n := range wsizes {
				if msg := k.writeCase([]int{n}); msg == "hang" {
					c.Rep.Capped(fmt.Sprintf("write contract case %d hit the 60 s safety deadline (not judged)", n))
				} else if msg != "" {
					c.Rep.Add(explore.Violation{Key: "write-contract", Msg: fmt.Sprintf("connection Write of %d bytes: %s", n, msg), Replay: map[string]any{"desc": fmt.Sprintf("write %d", n)}})
				}
				nc++
			}
			for _, a := range pairs {
				for _, b := range pairs {
					if msg := k.writeCase([]int{a, b}); msg == "hang" {
						c.Rep.Capped(fmt.Sprintf("write contract case %d,%d hit the 60 s safety deadline (not judged)", a, b))
					} else if msg != "" {
						c.Rep.Add(explore.Violation{Key: "write-contract", Msg: fmt.Sprintf("connection Writes of %d then %d bytes: %s", a, b, msg), Replay: map[string]any{"desc": fmt.Sprintf("write %d %d", a, b)}})
					}
					nc++
				}
			}
			for _, a := range []int{0, 1, 2, 5, 2048, 3000} {
				for _, r := range []int{1, 2, a - 1, a, a + 1, 2048, 4096} {
					if r < 1 {
						continue
					}
					for variant := 0; variant < 4; variant++ {
						msgs := []c39Msg{{Data: c39Pattern(a, 3)}}
						switch variant {
						case 1:
							msgs = append(msgs, c39Msg{Data: []byte{}})
						case 2:
							msgs = append(msgs, c39Msg{Data: c39Pattern(a, 4)})
						case 3:
							msgs = append([]c39Msg{{Data: []byte{}}}, msgs...)
						}
						msgs = append(msgs, c39Msg{Text: true, Data: []byte{0xC0, 0x00, 0xC0, 0x00}}, c39Msg{Data: []byte{0xC0, 0x00}})
						if msg := k.readCase(msgs, r); msg == "hang" {
							c.Rep.Capped(fmt.Sprintf("read contract case a=%d r=%d variant=%d hit the 60 s safety deadline (not judged)", a, r, variant))
						} else if msg != "" {
							c.Rep.Add(explore.Violation{Key: "read-contract:text-message", Msg: fmt.Sprintf("binary message of %d bytes (variant %d) then a text message, read buffer %d: %s", a, variant, r, msg), Replay: map[string]any{"desc": fmt.Sprintf("read a=%d r=%d variant=%d", a, r, variant)}})
						}
						nc++
					}
				}
			}
			k.ts.Close()
			c.Rep.Count("connection_contract_cases", int64(nc))
		}
		nw := c.Workers
		servers := make([]*c39Server, nw)
		for i := range servers {
			servers[i] = c39NewServer()
		}
		defer func() {
			for _, s := range servers {
				s.ts.Close()
			}
		}()
		// second session: a PUBLISH larger than the broker's read buffer and than a one-byte
		// WebSocket length field; cut at every position near the packet boundaries and on a grid
		streamB, boundsB := c39SessionBig()
		var pos []int
		for i := 1; i < len(streamB); i++ {
			near := i <= 24 || i >= len(streamB)-8
			for _, b := range boundsB {
				if i >= b-2 && i <= b+2 {
					near = true
				}
			}
			if near || i%257 == 0 || i == 125 || i == 126 || i == 127 || i == 2047 || i == 2048 || i == 2049 {
				pos = append(pos, i)
			}
		}
		mkB := func(cut []int) []c39Msg {
			var msgs []c39Msg
			prev := 0
			for _, x := range append(append([]int{}, cut...), len(streamB)) {
				msgs = append(msgs, c39Msg{Data: streamB[prev:x]})
				prev = x
			}
			return msgs
		}
		jobs = append(jobs, job{mkB(nil), "big cuts=[]", -1, 0, 1})
		for a := 0; a < len(pos); a++ {
			jobs = append(jobs, job{mkB([]int{pos[a]}), fmt.Sprintf("big cuts=[%d]", pos[a]), -1, 0, 1})
			for b := a + 1; b < len(pos); b++ {
				jobs = append(jobs, job{mkB([]int{pos[a], pos[b]}), fmt.Sprintf("big cuts=[%d %d]", pos[a], pos[b]), -1, 0, 1})
			}
		}
		// big session: a text message at every position of every segmentation with <=2 cuts at
		// packet boundaries or 2048 bytes (the broker's read buffer) after a boundary
		{
			var bpos []int
			for _, b := range append([]int{0}, boundsB[:len(boundsB)-1]...) {
				for _, x := range []int{b, b + 2048} {
					if x > 0 && x < len(streamB) {
						bpos = append(bpos, x)
					}
				}
			}
			sort.Ints(bpos)
			var segs [][]int
			segs = append(segs, nil)
			for a := 0; a < len(bpos); a++ {
				segs = append(segs, []int{bpos[a]})
				for b := a + 1; b < len(bpos); b++ {
					if bpos[b] != bpos[a] {
						segs = append(segs, []int{bpos[a], bpos[b]})
					}
				}
			}
			for _, cut := range segs {
				base := mkB(cut)
				for p := 0; p <= len(base); p++ {
					pre := 0
					for _, m := range base[:p] {
						pre += len(m.Data)
					}
					withText := append(append(append([]c39Msg{}, base[:p]...), c39Msg{Text: true, Data: []byte{0xC0, 0x00}}), base[p:]...)
					jobs = append(jobs, job{withText, fmt.Sprintf("big cuts=%v text@%d", cut, p), p, pre, 1})
				}
			}
		}
		// third session: one PUBLISH of 1.5 MiB (no limit applies over TCP: the default maximum
		// packet size is unlimited), as one message per packet, as a single message, and cut in half
		streamH, boundsH := c39SessionHuge()
		mkH := func(cut []int) []c39Msg {
			var msgs []c39Msg
			prev := 0
			for _, x := range append(append([]int{}, cut...), len(streamH)) {
				msgs = append(msgs, c39Msg{Data: streamH[prev:x]})
				prev = x
			}
			return msgs
		}
		jobs = append(jobs, job{mkH(nil), "huge cuts=[]", -1, 0, 2}, job{mkH(boundsH[:len(boundsH)-1]), "huge cuts=packet boundaries", -1, 0, 2}, job{mkH([]int{len(streamH) / 2}), "huge cuts=[half]", -1, 0, 2})
		wantH := servers[0].runTCP(streamH)
		if len(wantH.processed) < 3 {
			c.Rep.Add(explore.Violation{Key: "internal:reference-run", Msg: fmt.Sprintf("TCP-equivalent run of the 1.5 MiB session processed only %v", wantH.processed)})
		}
		wantB := servers[0].runTCP(streamB)
		c.Rep.Sample(map[string]any{"big_session_len": len(streamB), "big_session_cut_positions": len(pos), "big_tcp_equivalent_processed": wantB.processed})
		want := servers[0].runTCP(stream)
		c.Rep.Sample(map[string]any{"tcp_equivalent_processed": want.processed, "tcp_equivalent_replies": want.replies, "stream_len": len(stream)})
		if len(want.processed) < 5 {
			c.Rep.Add(explore.Violation{Key: "internal:reference-run", Msg: fmt.Sprintf("TCP-equivalent run processed only %v", want.processed)})
			return
		}
		var evals, hangs int64
		var idx int64
		var wg sync.WaitGroup
		for wi := 0; wi < nw; wi++ {
			wg.Add(1)
			go func(s *c39Server) {
				defer wg.Done()
				for {
					i := int(atomic.AddInt64(&idx, 1)) - 1
					if i >= len(jobs) || c.Expired() {
						return
					}
					j := jobs[i]
					want, bounds := want, bounds
					if j.sess == 1 {
						want, bounds = wantB, boundsB
					}
					if j.sess == 2 {
						want, bounds = wantH, boundsH
					}
					got := s.runWS(j.msgs)
					atomic.AddInt64(&evals, 1)
					rp := map[string]any{"desc": j.desc}
					if got.hang {
						atomic.AddInt64(&hangs, 1)
						continue
					}
					if j.text >= 0 {
						// packets wholly contained in the bytes before the text message may be processed; nothing after
						maxProcessed := 0
						for _, b := range bounds {
							if b <= j.pre {
								maxProcessed++
							}
						}
						if len(got.processed) > maxProcessed {
							c.Rep.Add(explore.Violation{Key: "text-message:processed-after", Msg: fmt.Sprintf("%s: broker processed %v although only %d packets precede the text message", j.desc, got.processed, maxProcessed), Replay: rp})
						}
						for k2, p := range got.processed {
							if k2 < len(want.processed) && p != want.processed[k2] {
								c.Rep.Add(explore.Violation{Key: "text-message:different-packets", Msg: fmt.Sprintf("%s: processed %v, TCP run %v", j.desc, got.processed, want.processed), Replay: rp})
							}
						}
						continue
					}
					if got.err != "" {
						c.Rep.Add(explore.Violation{Key: "reply-malformed", Msg: j.desc + ": " + got.err, Replay: rp})
						continue
					}
					if strings.Join(got.processed, ",") != strings.Join(want.processed, ",") {
						c.Rep.Add(explore.Violation{Key: "processed-differs", Msg: fmt.Sprintf("%s: broker processed %v over WebSocket but %v over TCP", j.desc, got.processed, want.processed), Replay: rp})
					}
					if strings.Join(got.replies, "|") != strings.Join(want.replies, "|") {
						c.Rep.Add(explore.Violation{Key: "replies-differ", Msg: fmt.Sprintf("%s: replies %v over WebSocket but %v over TCP", j.desc, got.replies, want.replies), Replay: rp})
					}
				}
			}(servers[wi])
		}
		wg.Wait()
		if int(evals) < len(jobs) {
			c.Rep.Capped(fmt.Sprintf("%d of %d segmentations executed (deadline)", evals, len(jobs)))
		}
		if hangs > 0 {
			c.Rep.Capped(fmt.Sprintf("%d sessions hit the 60 s safety read deadline (not judged)", hangs))
		}
		c.Rep.Count("evaluations", evals)
		c.Rep.Count("distinct_nontrivial", evals-1)
		c.Rep.Set("rule", fmt.Sprintf("session of %d bytes / 6 packets; every segmentation into binary messages with <= %d cuts (%d), plus one empty binary message and one text message at every position of every <=1-cut segmentation; each distinct; non-trivial = at least one cut or inserted message", len(stream), k, len(cuts)))
		c.Rep.Sample(map[string]any{"example": jobs[len(jobs)/3].desc})
		c.Rep.Assumption("passthrough mode: real goroutines and loopback sockets; reply order between the direct acknowledgement and the queued PUBLISH is scheduling dependent, so replies are compared as a multiset")
		_ = bytes.Equal
	})
}
