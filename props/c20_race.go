package props

import (
	"fmt"
	"sort"
	"strings"
	"time"

	"github.com/mochi-mqtt/server/v2/zzvrt"

	"verif/explore"
	"verif/ref"
	"verif/world"
)

// C20, E3 part (schedule exploration): the sequential histories of scenario "c20" run every
// operation to quiescence, so the store writes of one packet handler are never interleaved
// with another handler's. Scenario "c20race" (arg "be=<backend>,q=<1|2>[,rec][,two]")
// explores the interleavings of ONE fan-out with the subscriber's acknowledgement of it:
//
//	setup (default schedule): broker on a real store; A = "a:b" (v5, resume, expiry 60)
//	    subscribes to c with QoS q; a REACTIVE peer thread is attached to A's connection:
//	    it blocks until the broker has written bytes to the connection, decodes them and
//	    answers like a client does (PUBLISH QoS 1 -> PUBACK; PUBLISH QoS 2 -> PUBREC;
//	    PUBREL -> PUBCOMP; with "rec": the PUBCOMP is never sent, the exchange stays open);
//	    P = "p" (clean publisher) gets the same kind of peer (PUBREC -> PUBREL);
//	explored: P's PUBLISH (QoS q) to c is handed to the broker; every interleaving (up to
//	    the delay bound) of P's handler (acknowledge, fan out, store), A's writer, A's peer,
//	    A's handler (acknowledgement: in-flight delete, store delete) and P's peer; with
//	    "two" a second publisher Z publishes concurrently;
//	then (default schedule): the steps of Server.Close at quiescence (stShutdown), a NEW
//	    server + NEW hook instance on the same store, and the differential oracle of C20:
//	    sessions, subscriptions, retained and in-flight messages held in memory at shutdown
//	    == what the restarted broker holds; A reconnects with clean start 0: a message whose
//	    final acknowledgement (PUBACK / PUBCOMP) A's peer had sent must not be sent again.
//
// Keys: c20:race:state:<kind>:<missing|extra|field:F>[:acknowledged-by-subscriber-before-shutdown],
// c20:race:state:inflight:pubrel-restored-as-publish (variant "rec": the PUBREL held in memory
// after the subscriber's PUBREC comes back as the PUBLISH; found on the pinned tree)
// and c20:race:probe:acknowledged-message-redelivered-after-restart (only when no state
// difference about that session explains it).

type c20Peer struct {
	Acked map[string]bool // payloads whose FINAL acknowledgement (PUBACK / PUBCOMP) this peer sent
	Log   []string
	pids  map[uint16]string
}

// c20SpawnPeer attaches a reactive peer thread to the current connection of name.
func c20SpawnPeer(h *H, name string, noComp bool) *c20Peer {
	cl := h.Cl[name]
	c := cl.C
	r := &c20Peer{Acked: map[string]bool{}, pids: map[uint16]string{}}
	off := len(c.Out)
	send := func(p ref.Packet) {
		r.Log = append(r.Log, fmt.Sprintf("%s -> %s", name, p))
		cl.Send(p)
	}
	h.W.Spawn("peer-"+name, func() {
		var buf []byte
		for {
			zzvrt.Block(zzvrt.BlockIO, "peer-"+name+".Read", func() bool { return len(c.Out) > off || c.Closed })
			if len(c.Out) <= off {
				return // closed by the broker, everything read
			}
			buf = append(buf, c.Out[off:]...)
			off = len(c.Out)
			for {
				p, n, err := ref.DecodeOne(buf, cl.Ver)
				if err != nil {
					break // incomplete (or malformed: C23's business; this peer then stays silent)
				}
				buf = buf[n:]
				r.Log = append(r.Log, fmt.Sprintf("%s <- %s", name, p))
				switch {
				case p.Type == ref.PUBLISH && p.Qos == 1:
					r.Acked[string(p.Payload)] = true
					send(ref.Packet{Type: ref.PUBACK, PacketID: p.PacketID})
				case p.Type == ref.PUBLISH && p.Qos == 2:
					r.pids[p.PacketID] = string(p.Payload)
					send(ref.Packet{Type: ref.PUBREC, PacketID: p.PacketID})
				case p.Type == ref.PUBREL:
					if !noComp {
						r.Acked[r.pids[p.PacketID]] = true
						send(ref.Packet{Type: ref.PUBCOMP, PacketID: p.PacketID})
					}
				case p.Type == ref.PUBREC && p.ReasonCode < 0x80:
					send(ref.Packet{Type: ref.PUBREL, PacketID: p.PacketID})
				}
			}
		}
	})
	return r
}

func c20Race(arg string) explore.RunFn {
	be := c20Arg(arg, "be", "bolt")
	qos := byte(c20Arg(arg, "q", "1")[0] - '0')
	noComp := strings.Contains(arg, "rec")
	two := strings.Contains(arg, "two")
	return func(prefix []int) explore.Outcome {
		store := stNewStore(be)
		defer store.Destroy()
		h, wrap := stStartWith(prefix, store, 0, nil, func(c *world.Config) {
			inner := c.Hook
			c.Hook = func(r *world.RecHook) {
				inner(r)
				r.Quiet = false // the order of OnQosPublish / OnQosComplete / OnPublished is needed below
			}
		})
		w := h.W
		h.last = true
		stDial(h, "A", stConnectPacket("A", "k"), true)
		h.do("A", ref.Packet{Type: ref.SUBSCRIBE, PacketID: 1, Filters: []ref.Filter{{Filter: "c", Opts: qos}}})
		peerA := c20SpawnPeer(h, "A", noComp) // before P connects: lower thread ids than P's handler
		w.Run()
		pubs := []string{"P"}
		if two {
			pubs = append(pubs, "Z")
		}
		var peers []*c20Peer
		for _, n := range pubs {
			stDial(h, n, world.ConnectPacket(stClients[n].ID, 5, true), true)
			peers = append(peers, c20SpawnPeer(h, n, false))
		}
		w.Run()
		base := len(w.Events)
		for i, n := range pubs {
			p := ref.Packet{Type: ref.PUBLISH, Topic: "c", Qos: qos, PacketID: uint16(7 + i), Payload: []byte(fmt.Sprintf("m%d", i+1))}
			h.Cl[n].Send(p)
			h.logf("%s: -> %s (concurrently; peers answer on their own threads)", n, p)
		}
		w.Explore(true)
		w.Run()
		w.Explore(false)
		o := explore.Outcome{Points: w.X.Points, Divergence: w.X.Divergence(), Steps: w.X.Steps(), StepLog: w.X.StepLog, Counters: map[string]int{}}
		for _, l := range peerA.Log {
			h.logf("peer %s", l)
		}
		for _, pp := range peers {
			for _, l := range pp.Log {
				h.logf("peer %s", l)
			}
		}
		h.logf("storage writes: %v", wrap.Log)
		// non-vacuity: was an acknowledgement of the subscriber completed while the publisher's
		// handler had not finished (OnPublished is the last thing processPublish does)?
		idID := stClients["A"].ID
		firstComplete, lastPublished := -1, -1
		for i, ev := range w.Events[base:] {
			if ev.Name == "OnQosComplete" && ev.Client == idID && firstComplete < 0 {
				firstComplete = i
			}
			if ev.Name == "OnPublished" {
				lastPublished = i
			}
		}
		if firstComplete >= 0 && firstComplete < lastPublished {
			o.Counters["race_subscriber_ack_completed_before_publisher_handler_finished"]++
		}
		if len(peerA.Acked) > 0 {
			o.Counters["race_subscriber_sent_final_acknowledgement"]++
		}
		// ---- shutdown at quiescence, restart on the same store
		nowMs := w.X.NowMillis()
		stShutdown(h, wrap)
		before := stSessionState(w.S, w.Now())
		h.logf("state at shutdown: %s", before)
		o.Viol = append(o.Viol, h.Viol...)
		o.Viol = append(o.Viol, runtimeViolations(w)...)
		var events []string
		for _, wr := range wrap.Log {
			events = append(events, fmt.Sprintf("%s(%s)", wr.Event, wr.ID))
		}
		trace := h.Trace
		w.End()

		h2, wrap2 := stStart(store, nowMs, nil)
		h2.last = true
		h2.Trace = trace
		after := stSessionState(h2.W.S, h2.W.Now())
		h2.logf("=== restarted on the same %s store; state after restart: %s", be, after)
		explained := map[string]bool{}
		add := func(key, msg string) {
			o.Viol = append(o.Viol, explore.Violation{Key: key + "@" + be, Msg: fmt.Sprintf("[%s, %s] %s", be, arg, msg)})
		}
		lapsed := func(k string) bool { return before.Lapsed[stOwner(k)] }
		for _, d := range stDiffItems(before.Sessions, after.Sessions, c20SessMust, func(k string) bool { return before.Lapsed[k] }) {
			explained[d.Key] = true
			add("c20:race:state:session:"+d.What, "session "+d.Msg)
		}
		for _, d := range stDiffItems(before.Index, after.Index, c20SubMust, lapsed) {
			explained[stOwner(d.Key)] = true
			add("c20:race:state:subscription:"+d.What, "subscription (topic index) "+d.Msg)
		}
		for _, d := range stDiffItems(before.Retained, after.Retained, c20RetMust, nil) {
			add("c20:race:state:retained:"+d.What, "retained message "+d.Msg)
		}
		relAsPub := map[string]bool{}
		for _, d := range stDiffItems(before.Inflight, after.Inflight, c20InfMust, lapsed) {
			explained[stOwner(d.Key)] = true
			shape := ""
			if strings.HasPrefix(d.What, "field:") && before.Inflight[d.Key]["Type"] == "6" && after.Inflight[d.Key]["Type"] == "3" {
				// an outbound QoS 2 exchange whose PUBREC had arrived (in memory: the PUBREL) comes
				// back as the PUBLISH: one finding, not one per field of the two packet types
				if !relAsPub[d.Key] {
					relAsPub[d.Key] = true
					add("c20:race:state:inflight:pubrel-restored-as-publish", fmt.Sprintf("in-flight message %s: at shutdown the session held the PUBREL of the exchange (the subscriber's PUBREC had been processed), the restarted broker holds the PUBLISH again [%s] (storage writes before shutdown: %v)",
						d.Key, strings.TrimSpace(stLine(after.Inflight[d.Key])), events))
				}
				continue
			}
			if it, ok := after.Inflight[d.Key]; ok && d.What == "extra" && stOwner(d.Key) == idID {
				for p := range peerA.Acked {
					if it["Payload"] == fmt.Sprintf("%q", p) {
						shape = ":acknowledged-by-subscriber-before-shutdown"
					}
				}
			}
			add("c20:race:state:inflight:"+d.What+shape, "in-flight message "+d.Msg+fmt.Sprintf(" (storage writes before shutdown: %v)", events))
		}
		// ---- probe: A resumes its session on the restarted broker
		got := stDial(h2, "A", stConnectPacket("A", "k"), true)
		var resent []string
		for _, p := range got {
			if p.Type == ref.PUBLISH {
				resent = append(resent, string(p.Payload))
				if peerA.Acked[string(p.Payload)] && !explained[idID] {
					add("c20:race:probe:acknowledged-message-redelivered-after-restart", fmt.Sprintf("A's peer had sent the final acknowledgement of %q before the shutdown; after the restart the message is sent again: %v", p.Payload, got))
				}
			}
		}
		sort.Strings(resent)
		o.Viol = append(o.Viol, runtimeViolations(h2.W)...)
		stShutdown(h2, wrap2)
		o.Viol = append(o.Viol, h2.Viol...)
		h2.W.End()
		for i := range o.Viol {
			if o.Viol[i].Trace == nil {
				o.Viol[i].Trace = h2.Trace
			}
		}
		var infl []string
		for k, it := range after.Inflight {
			infl = append(infl, k+"="+it["Type"]+":"+it["Payload"])
		}
		sort.Strings(infl)
		o.Obs = fmt.Sprintf("writes=%v inflight-after-restart=%v resent=%v acked=%v", events, infl, resent, explore.SortedKeys(peerA.Acked))
		return o
	}
}

// c20Races runs the schedule explorations of C20 and checks their non-vacuity.
func c20Races(c *explore.Ctx) {
	type sc struct {
		arg    string
		budget time.Duration
	}
	scen := []sc{{"be=bolt,q=1", 12 * time.Second}, {"be=bolt,q=2", 12 * time.Second}}
	bounds := []explore.Bounds{{Preempt: 0}, {Preempt: 1}, {Preempt: 2}}
	if !c.Quick() {
		scen = nil
		for _, be := range []string{"bolt", "redis", "pebble", "badger"} {
			scen = append(scen, sc{"be=" + be + ",q=1", 25 * time.Second}, sc{"be=" + be + ",q=2", 25 * time.Second}, sc{"be=" + be + ",q=2,rec", 20 * time.Second})
		}
		scen = append(scen, sc{"be=bolt,q=1,two", 40 * time.Second})
		bounds = append(bounds, explore.Bounds{Preempt: 3})
	}
	collided, ran := int64(0), false
	for _, s := range scen {
		if c.Expired() {
			c.Rep.Capped("scenario c20race/" + s.arg + " not started (deadline)")
			continue
		}
		_, last := explore.IterateDFS(c, "c20race", s.arg, bounds, s.budget)
		if last != nil {
			ran = true
			collided += last.Counters["race_subscriber_ack_completed_before_publisher_handler_finished"]
		}
	}
	c.Rep.Count("race_subscriber_ack_completed_before_publisher_handler_finished", collided)
	if ran && collided == 0 && fullRun() {
		c.Rep.Add(explore.Violation{Key: "internal:vacuous:c20race-no-ack-inside-publish-handler", Msg: "no explored schedule completed the subscriber's acknowledgement while the publisher's handler was still running"})
	}
}

func init() {
	explore.RegisterDFS("c20race", c20Race)
}
