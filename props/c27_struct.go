package props

// C27, structured half: grammar-driven, bounded-exhaustive property sections.
//
// The byte-string domain of codec_domain.go has short bodies and single-byte mutations of
// catalogue vectors; it cannot produce a long body in which one declared length is wrong
// while the rest is well formed, nor a body in which a length "points elsewhere inside the
// section". This generator does. For every packet type that carries properties (and the
// will properties of CONNECT) under protocol version 5:
//
//   frame    fixed, well-formed bytes before the property section; after it the minimal
//            well-formed rest of the packet, or that rest followed by 300 (thorough: 600)
//            filler bytes 'a' (for PUBLISH and the will: a long payload)
//   list     1..3 properties: every admissible property alone; all sequences of 2 and 3
//            over one representative per wire kind (byte, u16, u32, varint, string, binary,
//            pair = user property); thorough: all pairs over the whole admissible set
//   field    ONE length field of the list is replaced: string / binary / pair key / pair
//            value length, the variable byte integer of a varint property, or the section
//            length itself. Values: 0, actual-1, actual+1, exactly up to the section end,
//            section end+1, exactly up to the body end, body end+1, 0x0101, 0x7F7F, 0xFFFF;
//            varints additionally as 0x0FFFFFFF, 5-byte, dangling-continuation and
//            non-minimal encodings; the section length of an unpadded section takes every
//            value 0..n+2
//   cut      the section continues after the mutated field, or ends right after it (a
//            declared length with nothing but padding / the packet's rest behind it)
//   padding  none; raw filler 'a' up to 300 / 600 section bytes; a trailing well-formed
//            user property whose value pads the section to 300 (thorough: 600)
//   truncation (unpadded) the body ends at every offset inside the section, with the
//            declared section length unchanged and with it adjusted
//   alias    mochi's primitive decoders return offset 0 on failure, so an error that gets
//            lost restarts parsing at the section start. "rewind aliasing" lays the section
//            out so that its first two bytes, read as a length prefix L0, designate exactly
//            the section end (filler up to 2+L0), or the start of a final copy of the
//            mutated property (whole, or up to the mutated field) placed at 2+L0.
//
// Oracle: as in c27.go (no panic, no poison, nothing accepted whose declared length extends
// beyond the body per ref.WalkLengths) plus termination: each decode runs under the
// liveness guard of codec_guard.go in a worker process (explore.RunCases); a decode that
// does not come back is reported as
//   hang:<TYPE>:v5:<innermost mochi function that never returns>
// with the input as replay data, the worker is replaced and the enumeration continues
// behind the aborted case.

import (
	"encoding/hex"
	"fmt"
	"os"
	"strings"
	"time"

	"verif/explore"
	"verif/ref"
)

type c27Frame struct {
	name     string
	typ, hdr byte
	pctx     int
	pre      []byte
	tail     []byte
}

func c27Frames(quick bool) []c27Frame {
	connect := []byte{0, 4, 'M', 'Q', 'T', 'T', 5}
	fs := []c27Frame{
		{"CONNECT", ref.CONNECT, 0x10, ref.CONNECT, append(append([]byte{}, connect...), 0x02, 0, 60), []byte{0, 1, 'c'}},
		{"CONNECT-will", ref.CONNECT, 0x10, ref.WillCtx, append(append([]byte{}, connect...), 0x06, 0, 60, 0, 0, 1, 'c'), []byte{0, 1, 't', 0, 1, 'p'}},
		{"CONNACK", ref.CONNACK, 0x20, ref.CONNACK, []byte{0, 0}, nil},
		{"PUBLISH-qos0", ref.PUBLISH, 0x30, ref.PUBLISH, []byte{0, 1, 't'}, []byte{'p'}},
		{"PUBLISH-qos1", ref.PUBLISH, 0x32, ref.PUBLISH, []byte{0, 1, 't', 0, 1}, []byte{'p'}},
		{"PUBACK", ref.PUBACK, 0x40, ref.PUBACK, []byte{0, 1, 0}, nil},
		{"PUBREC", ref.PUBREC, 0x50, ref.PUBREC, []byte{0, 1, 0}, nil},
		{"PUBREL", ref.PUBREL, 0x62, ref.PUBREL, []byte{0, 1, 0}, nil},
		{"PUBCOMP", ref.PUBCOMP, 0x70, ref.PUBCOMP, []byte{0, 1, 0}, nil},
		{"SUBSCRIBE", ref.SUBSCRIBE, 0x82, ref.SUBSCRIBE, []byte{0, 1}, []byte{0, 1, 'f', 0}},
		{"SUBACK", ref.SUBACK, 0x90, ref.SUBACK, []byte{0, 1}, []byte{0}},
		{"UNSUBSCRIBE", ref.UNSUBSCRIBE, 0xA2, ref.UNSUBSCRIBE, []byte{0, 1}, []byte{0, 1, 'f'}},
		{"UNSUBACK", ref.UNSUBACK, 0xB0, ref.UNSUBACK, []byte{0, 1}, []byte{0}},
		{"DISCONNECT", ref.DISCONNECT, 0xE0, ref.DISCONNECT, []byte{0}, nil},
		{"AUTH", ref.AUTH, 0xF0, ref.AUTH, []byte{0x18}, nil},
	}
	if !quick {
		fs = append(fs,
			c27Frame{"PUBLISH-qos2-dup-retain", ref.PUBLISH, 0x3D, ref.PUBLISH, []byte{0, 1, 't', 0, 1}, []byte{'p'}},
			c27Frame{"PUBLISH-empty-payload", ref.PUBLISH, 0x30, ref.PUBLISH, []byte{0, 1, 't'}, nil},
			c27Frame{"CONNECT-will-user-pass", ref.CONNECT, 0x10, ref.WillCtx, append(append([]byte{}, connect...), 0xC6, 0, 60, 0, 0, 1, 'c'), []byte{0, 1, 't', 0, 1, 'p', 0, 1, 'u', 0, 1, 'w'}})
	}
	return fs
}

type c27Field struct {
	off, width, actual int
	what               string // string | binary | pair-key | pair-value | varint
}

type c27Tok struct {
	id     byte
	b      []byte
	fields []c27Field
}

func c27MakeTok(id byte) c27Tok {
	t := c27Tok{id: id}
	switch ref.PropKind(id) {
	case "byte":
		t.b = []byte{id, 1}
	case "u16":
		t.b = []byte{id, 0, 10}
	case "u32":
		t.b = []byte{id, 0, 0, 0, 10}
	case "var":
		t.b = []byte{id, 10}
		t.fields = []c27Field{{1, 1, 10, "varint"}}
	case "str":
		t.b = []byte{id, 0, 2, 's', 't'}
		t.fields = []c27Field{{1, 2, 2, "string"}}
	case "bin":
		t.b = []byte{id, 0, 2, 'b', 'n'}
		t.fields = []c27Field{{1, 2, 2, "binary"}}
	case "pair":
		t.b = []byte{id, 0, 2, 'k', 'e', 0, 2, 'v', 'a'}
		t.fields = []c27Field{{1, 2, 2, "pair-key"}, {5, 2, 2, "pair-value"}}
	}
	return t
}

// c27Lists enumerates the property lists of a context in a fixed order.
func c27Lists(pctx int, quick bool) [][]byte {
	all := ref.PropIDs(pctx)
	var reps []byte
	seen := map[string]bool{}
	for _, id := range all {
		if k := ref.PropKind(id); !seen[k] {
			seen[k] = true
			reps = append(reps, id)
		}
	}
	var out [][]byte
	for _, a := range all {
		out = append(out, []byte{a})
	}
	two := reps
	if !quick {
		two = all
	}
	for _, a := range two {
		for _, b := range two {
			out = append(out, []byte{a, b})
		}
	}
	for _, a := range reps {
		for _, b := range reps {
			for _, c := range reps {
				out = append(out, []byte{a, b, c})
			}
		}
	}
	return out
}

const c27ListsPerCase = 8

type c27CaseDesc struct {
	frame  int
	lo, hi int  // list range
	copies bool // the alias-copy inputs of the whole frame (lo..hi = all lists)
}

func c27StructCases(quick bool) ([]c27Frame, []c27CaseDesc) {
	frames := c27Frames(quick)
	var cs, cp []c27CaseDesc
	for fi, f := range frames {
		n := len(c27Lists(f.pctx, quick))
		for lo := 0; lo < n; lo += c27ListsPerCase {
			hi := lo + c27ListsPerCase
			if hi > n {
				hi = n
			}
			cs = append(cs, c27CaseDesc{frame: fi, lo: lo, hi: hi})
		}
		cp = append(cp, c27CaseDesc{frame: fi, lo: 0, hi: n, copies: true})
	}
	return frames, append(cs, cp...)
}

func c27Varint(v int) []byte { return ref.EncodeVarint(uint32(v)) }

type c27Val struct {
	b    []byte
	name string
}

func c27U16Vals(actual int, extra ...int) []c27Val {
	var out []c27Val
	seen := map[int]bool{actual: true}
	for _, v := range append([]int{0, actual - 1, actual + 1, 0x0101, 0x7F7F, 0xFFFF}, extra...) {
		if v < 0 || v > 0xFFFF || seen[v] {
			continue
		}
		seen[v] = true
		out = append(out, c27Val{[]byte{byte(v >> 8), byte(v)}, fmt.Sprintf("%#x", v)})
	}
	return out
}

func c27VarVals(actual int, extra ...int) []c27Val {
	var out []c27Val
	seen := map[int]bool{actual: true}
	for _, v := range append([]int{0, actual - 1, actual + 1, 0x0101, 0x7F7F, 0xFFFF, 0x0FFFFFFF}, extra...) {
		if v < 0 || v > 0x0FFFFFFF || seen[v] {
			continue
		}
		seen[v] = true
		out = append(out, c27Val{c27Varint(v), fmt.Sprintf("%#x", v)})
	}
	out = append(out,
		c27Val{[]byte{0xFF, 0xFF, 0xFF, 0xFF, 0x7F}, "five-bytes"},
		c27Val{[]byte{0x80}, "dangling-continuation"},
		c27Val{[]byte{0x80, 0x80, 0x80, 0x80}, "four-continuations"})
	if actual < 128 {
		out = append(out, c27Val{[]byte{byte(actual) | 0x80, 0}, "non-minimal"})
	}
	return out
}

// c27Runner evaluates the inputs of one case.
type c27Runner struct {
	f     c27Frame
	quick bool
	ar    *cdcArena
	st    *c27State
	g     *cdcGuard
	res   *explore.CaseResult
	buf   []byte
}

func (r *c27Runner) count(k string) { r.res.Counters[k]++ }

// emit decodes pre + section length + section + tail.
func (r *c27Runner) emit(seclen, sec, tail []byte, baseline bool, src string) {
	b := r.buf[:0]
	b = append(b, r.f.pre...)
	b = append(b, seclen...)
	b = append(b, sec...)
	b = append(b, tail...)
	r.buf = b
	r.emitBody(b, baseline, src)
}

func (r *c27Runner) emitBody(b []byte, baseline bool, src string) {
	in := codecInput{Hdr: r.f.hdr, Ver: 5, Body: r.ar.carve(b), Src: "structured:" + r.f.name + ":" + src}
	acc0 := r.st.accepted
	r.g.enter(&in)
	key, msg := c27Check(&in, r.st)
	r.g.leave()
	r.res.Evals++
	r.count("structured_inputs")
	if r.st.accepted > acc0 {
		r.count("structured_accepted")
		if baseline {
			r.count("structured_unmutated_accepted")
		}
	}
	if o := ref.WalkLengths(r.f.typ, r.f.hdr&15, 5, in.Body); o.Beyond {
		r.count("structured_declared_length_beyond_body")
	}
	if key != "" {
		r.res.Viol = append(r.res.Viol, explore.Violation{Key: key, Msg: msg,
			Replay: codecReplay{Kind: "decode", Hdr: in.Hdr, Ver: in.Ver, Hex: hex.EncodeToString(in.Body)},
			Trace:  []string{"input " + in.Src, "body " + cdcRLE(in.Body)}})
	}
	r.ar.release(len(b))
}

func c27Fill(n int) []byte {
	if n < 0 {
		n = 0
	}
	return []byte(strings.Repeat("a", n))
}

type c27Pad struct {
	name  string
	to    int
	valid bool
}

func (r *c27Runner) pads() []c27Pad {
	ps := []c27Pad{{"none", 0, false}, {"raw300", 300, false}, {"raw600", 600, false}, {"user300", 300, true}}
	if !r.quick {
		ps = append(ps, c27Pad{"user600", 600, true})
	}
	return ps
}

// pad appends the padding of mode p to base.
func c27ApplyPad(base []byte, p c27Pad) []byte {
	out := append([]byte{}, base...)
	if p.to == 0 || len(base) >= p.to {
		return out
	}
	if !p.valid {
		return append(out, c27Fill(p.to-len(base))...)
	}
	n := p.to - len(base) - 6
	if n < 0 {
		n = 0
	}
	out = append(out, ref.PUser, 0, 1, 'k', byte(n>>8), byte(n))
	return append(out, c27Fill(n)...)
}

func (r *c27Runner) tails() []c27Val {
	ts := []c27Val{{r.f.tail, "min"}, {append(append([]byte{}, r.f.tail...), c27Fill(300)...), "min+300"}}
	if !r.quick {
		ts = append(ts, c27Val{append(append([]byte{}, r.f.tail...), c27Fill(600)...), "min+600"})
	}
	return ts
}

type c27Section struct {
	toks   []c27Tok
	sec    []byte
	fields []c27Field // absolute offsets
	tokOf  []int      // token index of each field
	tokOff []int      // start offset of each token
}

func c27Build(ids []byte) c27Section {
	var s c27Section
	for ti, id := range ids {
		t := c27MakeTok(id)
		s.tokOff = append(s.tokOff, len(s.sec))
		for _, f := range t.fields {
			f.off += len(s.sec)
			s.fields = append(s.fields, f)
			s.tokOf = append(s.tokOf, ti)
		}
		s.sec = append(s.sec, t.b...)
		s.toks = append(s.toks, t)
	}
	return s
}

func c27ListName(ids []byte) string {
	return "[" + strings.TrimSpace(fmt.Sprintf("% x", ids)) + "]"
}

// list runs every non-copy input derived from one property list.
func (r *c27Runner) list(ids []byte) {
	s := c27Build(ids)
	ln := c27ListName(ids)
	tails := r.tails()
	pads := r.pads()
	// baselines and section-length mutations
	for _, p := range pads {
		sec := c27ApplyPad(s.sec, p)
		n := len(sec)
		for _, t := range tails {
			r.emit(c27Varint(n), sec, t.b, true, ln+":unmutated:pad="+p.name+":tail="+t.name)
			var vals []c27Val
			if p.to == 0 {
				vals = c27VarVals(n, n+len(t.b), n+len(t.b)+1)
				for k := 0; k <= n+2; k++ {
					if k != n {
						vals = append(vals, c27Val{c27Varint(k), fmt.Sprintf("%#x", k)})
					}
				}
			} else {
				vals = c27VarVals(n, n+len(t.b), n+len(t.b)+1, len(s.sec), len(s.sec)-1)
			}
			for _, v := range vals {
				r.emit(v.b, sec, t.b, false, ln+":section-length="+v.name+":pad="+p.name+":tail="+t.name)
			}
		}
	}
	// truncations of the unpadded section
	for c := 0; c < len(s.sec); c++ {
		r.emit(c27Varint(len(s.sec)), s.sec[:c], nil, false, fmt.Sprintf("%s:body-ends-at=%d:section-length=declared", ln, c))
		r.emit(c27Varint(c), s.sec[:c], nil, false, fmt.Sprintf("%s:body-ends-at=%d:section-length=adjusted", ln, c))
		r.emit(c27Varint(c), s.sec[:c], r.f.tail, false, fmt.Sprintf("%s:section-ends-at=%d:tail=min", ln, c))
	}
	// one mutated length field
	for fi, f := range s.fields {
		for _, cut := range []bool{false, true} {
			for _, p := range pads {
				for _, t := range tails {
					var vals []c27Val
					if f.what == "varint" {
						vals = c27VarVals(f.actual)
					} else {
						baseLen := len(s.sec)
						if cut {
							baseLen = f.off + f.width
						}
						n := baseLen
						if p.to > n {
							n = p.to
						}
						rest := n - (f.off + f.width)
						vals = c27U16Vals(f.actual, rest, rest+1, rest+len(t.b), rest+len(t.b)+1)
					}
					for _, v := range vals {
						m := append(append(append([]byte{}, s.sec[:f.off]...), v.b...), s.sec[f.off+f.width:]...)
						if cut {
							m = m[:f.off+len(v.b)]
						}
						sec := c27ApplyPad(m, p)
						r.emit(c27Varint(len(sec)), sec, t.b, false,
							fmt.Sprintf("%s:field#%d(%s)=%s:cut=%v:pad=%s:tail=%s", ln, fi, f.what, v.name, cut, p.name, t.name))
					}
				}
			}
		}
	}
	r.alias(s, ln, false)
}

const c27AliasMax = 0x2C00 // every property identifier (<= 0x2A) read as the high byte of a length

// alias runs the rewind-aliasing layouts of one list: copies=false the layouts whose section
// ends at 2+L0, copies=true the layouts with a final copy of the mutated property at 2+L0.
func (r *c27Runner) alias(s c27Section, ln string, copies bool) {
	for fi, f := range s.fields {
		var vals []c27Val
		if f.what == "varint" {
			vals = c27VarVals(f.actual)
		} else {
			vals = c27U16Vals(f.actual)
		}
		tokStart := s.tokOff[s.tokOf[fi]]
		tokEnd := len(s.sec)
		if s.tokOf[fi]+1 < len(s.tokOff) {
			tokEnd = s.tokOff[s.tokOf[fi]+1]
		}
		for _, v := range vals {
			m := append(append(append([]byte{}, s.sec[:f.off]...), v.b...), s.sec[f.off+f.width:]...)
			delta := len(v.b) - f.width
			for _, cut := range []bool{false, true} {
				base := m
				if cut {
					base = m[:f.off+len(v.b)]
				}
				if len(base) < 2 {
					continue
				}
				t := 2 + (int(base[0])<<8 | int(base[1]))
				if t <= len(base) || t > c27AliasMax {
					continue
				}
				sec := append(append([]byte{}, base...), c27Fill(t-len(base))...)
				src := fmt.Sprintf("%s:field#%d(%s)=%s:cut=%v:alias(first two section bytes as a length designate offset %d)", ln, fi, f.what, v.name, cut, t)
				if !copies {
					r.count("structured_alias_layouts")
					r.emit(c27Varint(len(sec)), sec, r.f.tail, false, src+"=section-end")
					continue
				}
				for _, whole := range []bool{true, false} {
					cp := m[tokStart : tokEnd+delta]
					if !whole {
						cp = m[tokStart : f.off+len(v.b)]
					}
					sec2 := append(append([]byte{}, sec...), cp...)
					r.count("structured_alias_layouts")
					r.emit(c27Varint(len(sec2)), sec2, r.f.tail, false, fmt.Sprintf("%s=copy-of-mutated-property(whole=%v)", src, whole))
				}
			}
		}
	}
}

// c27Guarded is the process-wide guard of the structured cases (one decode at a time).
var (
	c27Guard    *cdcGuard
	c27CurCase  *explore.CaseResult
	c27ReplayFn func(in *codecInput, site, why string)
)

func c27HangViolation(in *codecInput, site, why string) explore.Violation {
	typ := in.Hdr >> 4
	body := append([]byte{}, in.Body...)
	return explore.Violation{
		Key: fmt.Sprintf("hang:%s:v%d:%s", cdcTname(typ), in.Ver, site),
		Msg: fmt.Sprintf("decoding %s body [%s] (%d bytes, header %#02x, protocol version %d) does not return: %s (stuck in %s); expected: a packet or an error (%s)",
			cdcTname(typ), cdcRLE(body), len(body), in.Hdr, in.Ver, why, site, in.Src),
		Replay: codecReplay{Kind: "decode", Hdr: in.Hdr, Ver: in.Ver, Hex: hex.EncodeToString(body)},
		Trace:  []string{"input " + in.Src, "body " + cdcRLE(body)},
	}
}

func c27StartGuard() *cdcGuard {
	if c27Guard == nil {
		c27Guard = cdcStartGuard(func(in *codecInput, site, why string) {
			if c27ReplayFn != nil {
				c27ReplayFn(in, site, why)
			}
			part := explore.CaseResult{Counters: map[string]int64{}}
			if c27CurCase != nil {
				part = *c27CurCase
			}
			part.Evals++
			part.Counters["structured_hangs"]++
			part.Viol = append(part.Viol, c27HangViolation(in, site, why))
			explore.AbortCase(part)
			os.Exit(3) // not reached
		})
	}
	return c27Guard
}

// cdcRLE prints bytes as hex with runs of 8 or more equal bytes written as xx*N.
func cdcRLE(b []byte) string {
	var sb strings.Builder
	for i := 0; i < len(b); {
		j := i
		for j < len(b) && b[j] == b[i] {
			j++
		}
		if sb.Len() > 0 {
			sb.WriteByte(' ')
		}
		if j-i >= 8 {
			fmt.Fprintf(&sb, "%02x*%d", b[i], j-i)
		} else {
			fmt.Fprintf(&sb, "%02x", b[i])
			j = i + 1
		}
		i = j
	}
	return sb.String()
}

func init() {
	explore.RegisterCases("C27-structured", func(arg string) explore.CaseSet {
		quick := arg != "thorough"
		frames, cases := c27StructCases(quick)
		return explore.CaseSet{Total: len(cases), Run: func(i int) explore.CaseResult {
			d := cases[i]
			res := explore.CaseResult{Counters: map[string]int64{}}
			c27CurCase = &res
			r := &c27Runner{f: frames[d.frame], quick: quick, ar: cdcNewArena(1024), st: &c27State{outcomes: map[string]struct{}{}},
				g: c27StartGuard(), res: &res}
			lists := c27Lists(r.f.pctx, quick)
			for _, ids := range lists[d.lo:d.hi] {
				if d.copies {
					r.alias(c27Build(ids), c27ListName(ids), true)
				} else {
					r.list(ids)
				}
			}
			if !d.copies {
				res.Counters["structured_lists"] += int64(d.hi - d.lo)
			}
			res.Counters["structured_panics"] += r.st.panics
			c27CurCase = nil
			return res
		}}
	})
}

// c27RunStructured is called by the C27 check after the byte-string domain.
func c27RunStructured(c *explore.Ctx) {
	tier := "quick"
	if !c.Quick() {
		tier = "thorough"
	}
	frames, cases := c27StructCases(c.Quick())
	c.Rep.Set("structured_domain", fmt.Sprintf("%d frames (packet types with properties, will properties) x v5 x property lists of 1..3 properties x one mutated length field (string, binary, pair key, pair value, varint, section length) x adversarial values x cut x padding {none, raw 300/600, user property} x tail {minimal, +300 filler} + truncations + rewind-aliasing layouts (section end / copy of the mutated property at the offset designated by the first two section bytes, sections up to %d bytes); %d cases",
		len(frames), c27AliasMax, len(cases)))
	c.Rep.Assumption(fmt.Sprintf("liveness guard: a decode that has consumed %s of processor time (or %s with the heap beyond %d MiB) has not returned and never will; ordinary decodes of these inputs take microseconds",
		cdcGuardCPU, cdcGuardCPUMem, cdcGuardHeap>>20))
	budget := 60 * time.Second
	if !c.Quick() {
		budget = 8 * time.Minute
	}
	explore.RunCases(c, "C27-structured", tier, budget)
	if os.Getenv("VERIF_SCEN") == "" {
		for _, k := range []string{"structured_unmutated_accepted", "structured_declared_length_beyond_body", "structured_alias_layouts"} {
			if c.Rep.Get(k) == 0 {
				c.Rep.Add(explore.Violation{Key: "internal:vacuous:" + k, Msg: "the structured property-section generator of C27 produced no such input"})
			}
		}
	}
	c.Rep.Sample(map[string]any{"input": "PUBLISH v5 properties 01 01 26 7f 7f 61*254 (user property key length 0x7f7f; the first two section bytes 01 01 read as a length designate the section end)", "expect": "error", "domain": "structured, rewind aliasing"})
}
