package props

import (
	"fmt"
	"strconv"
	"strings"
	"time"

	mqtt "github.com/mochi-mqtt/server/v2"
	"github.com/mochi-mqtt/server/v2/packets"
	"github.com/mochi-mqtt/server/v2/zzvrt"

	"verif/explore"
	"verif/ref"
	"verif/world"
)

// C35: for every schedule of concurrent connection attempts the number of simultaneously
// established connections never exceeds Capabilities.MaximumClients; attempts beyond the
// limit receive CONNACK 0x89 (v5) / 0x03 (v3, v4).
//
// Scenario "c35", arg "<limit>:<pre>:<attempts>" with clients written <id><version>,
// e.g. "1::b4+c5" (limit 1, nobody connected, b (v4) and c (v5) connect concurrently) or
// "2:a5:a5+b4" (a is connected; a second connection with id a (takeover) races b).
// Pre-established clients are connected one by one (sequentially, to quiescence); a
// pre-client written <id><version>x then loses its connection (the peer drops it), one
// written <id><version>d sends DISCONNECT: being persistent (v3/v4 clean=0, v5 Session
// Expiry 60) its session stays known to the broker, offline, and holds no connection
// ("1:a5x+b5:a5": a was connected and is offline, b is connected, a connects again while
// the broker is full). The attempts are then started together and every interleaving of their handlers within the
// deviation bound is executed. ClientsConnected / ClientsMaximum atomics are scheduling
// points (world's default), so the window between the limit check and the counter update
// in attachClient is explored.
//
// Oracle: purely on the wire. Every connection is wrapped so that each Write and Close
// the broker performs is appended to one global timeline. A connection is ESTABLISHED from
// the write that completes a CONNACK with reason code 0 until the broker closes it.
//   must-not: at any point of the timeline more than <limit> connections are established;
//   must:     every attempt gets exactly one CONNACK as its first packet; a refusal
//             carries 0x89 (v5) / 0x03 (v3, v4) (the CONNECTs are valid and authentication
//             allows everybody, so the limit is the only legitimate reason to refuse) and
//             the refused connection is closed;
//   unspecified (not judged): WHICH attempts are admitted, and refusals while fewer than
//             <limit> connections are established (mochi counts a taken-over connection
//             until its handler has exited).
// An attempt under a client identifier whose session is known but offline replaces no
// connection: it is an attempt like any other and is refused when the broker is full.
// Classification of an excess admission: the hook events OnPacketRead(CONNECT) (before the
// limit check) and OnSessionEstablish (after the counter update) delimit each attempt's
// check-then-increment window. If, when the excess attempt's CONNECT was read, <limit>
// established connections were already counted, the check itself is wrong
// ("exceeded:admitted-while-full", with the suffix ":offline-session-id" when the attempt
// used the identifier of an offline session); otherwise the attempt was admitted by the window
// ("exceeded:check-then-increment").

type c35Conn struct {
	*world.Conn
	w *world.World
}

func (c *c35Conn) Write(p []byte) (int, error) {
	n, err := c.Conn.Write(p)
	if n > 0 {
		c.w.Events = append(c.w.Events, world.HookEvent{Name: "conn-write", PID: uint16(c.ID), Bytes: append([]byte{}, p[:n]...)})
	}
	return n, err
}

func (c *c35Conn) Close() error {
	was := c.Conn.Closed
	err := c.Conn.Close()
	if !was {
		c.w.Events = append(c.w.Events, world.HookEvent{Name: "conn-close", PID: uint16(c.ID)})
	}
	return err
}

type c35Att struct {
	ID   string
	Ver  byte
	Conn *world.Conn
	Off  string // pre-clients only: "x" the peer drops the connection, "d" the client sends DISCONNECT
}

func c35ParseClients(s string) []c35Att {
	var out []c35Att
	for _, f := range strings.Split(s, "+") {
		if f == "" {
			continue
		}
		off := ""
		if l := f[len(f)-1]; l == 'x' || l == 'd' {
			off, f = string(l), f[:len(f)-1]
		}
		out = append(out, c35Att{ID: f[:len(f)-1], Ver: f[len(f)-1] - '0', Off: off})
	}
	return out
}

func c35Run(arg string) explore.RunFn {
	parts := strings.Split(arg, ":")
	limit, _ := strconv.Atoi(parts[0])
	pre := c35ParseClients(parts[1])
	atts := c35ParseClients(parts[2])
	return func(prefix []int) explore.Outcome {
		var w *world.World
		w = world.New(prefix, world.Config{
			Caps: func(c *mqtt.Capabilities) { c.MaximumClients = int64(limit) },
			Hook: func(h *world.RecHook) {
				h.PacketRead = func(cl *mqtt.Client, pk packets.Packet) (packets.Packet, error) {
					if pk.FixedHeader.Type == packets.Connect {
						id := -1
						if c, ok := cl.Net.Conn.(*c35Conn); ok {
							id = c.ID
						}
						w.Events = append(w.Events, world.HookEvent{Name: "connect-read", PID: uint16(id), Client: pk.Connect.ClientIdentifier})
					}
					return pk, nil
				}
			},
		})
		defer w.End()
		open := func(a *c35Att) {
			c := &world.Conn{ID: len(w.Conns), X: w.X}
			w.Conns = append(w.Conns, c)
			a.Conn = c
			wc := &c35Conn{Conn: c, w: w}
			p := world.ConnectPacket(a.ID, a.Ver, false)
			if a.Ver == 5 {
				p.Props = append(p.Props, ref.Prop{ID: ref.PSessionExpiry, Num: 60})
			}
			c.Send(ref.Encode(p, a.Ver, ref.EncOpts{}))
			zzvrt.Go(fmt.Sprintf("conn%d", c.ID), func() { _ = w.S.EstablishConnection("t1", wc) })
		}
		all := []*c35Att{}
		for i := range pre {
			a := pre[i]
			all = append(all, &a)
			open(&a)
			w.Run()
			switch a.Off {
			case "x":
				a.Conn.PeerClose()
				w.Run()
			case "d":
				a.Conn.Send(ref.Encode(ref.Packet{Type: ref.DISCONNECT}, a.Ver, ref.EncOpts{}))
				w.Run()
			}
		}
		nPre := len(all)
		for i := range atts {
			a := atts[i]
			all = append(all, &a)
			open(&a)
		}
		w.Explore(true)
		w.Run()
		w.Explore(false)

		o := explore.Outcome{Points: w.X.Points, Divergence: w.X.Divergence(), Steps: w.X.Steps(), StepLog: w.X.StepLog, Counters: map[string]int{}}
		o.Viol = runtimeViolations(w)
		v, obs := c35Monitor(w, limit, all, nPre, o.Counters)
		o.Viol = append(o.Viol, v...)
		o.Obs = obs
		return o
	}
}

// c35Monitor evaluates the timeline.
func c35Monitor(w *world.World, limit int, all []*c35Att, nPre int, ctr map[string]int) ([]explore.Violation, string) {
	n := len(w.Conns)
	out := make([][]byte, n)
	decided := make([]bool, n)   // first packet seen
	estab := make([]bool, n)     // currently established
	everEstab := make([]bool, n) // got a success CONNACK
	refused := make([]int, n)    // refusal code (+1), 0 = none
	closed := make([]bool, n)
	counted := make([]bool, n) // between OnSessionEstablish and close: counted by a correct limit check
	fullAtRead := make([]bool, n)
	firstLen := make([]int, n)   // length of the first packet
	lateSeen := make([]bool, n)  // something was written after a refusal
	lateSeen2 := make([]bool, n) // a second CONNACK was written
	verOf := map[int]byte{}
	connOfClient := map[*mqtt.Client]int{}
	for _, a := range all {
		verOf[a.Conn.ID] = a.Ver
	}
	var viol []explore.Violation
	seen := map[string]bool{}
	add := func(key, msg string, trace []string) {
		if !seen[key] {
			seen[key] = true
			viol = append(viol, explore.Violation{Key: key, Msg: msg, Trace: trace})
		}
	}
	// identifiers whose session is known to the broker but offline when the attempts start
	offline := map[string]bool{}
	idOf := map[int]string{}
	for k, a := range all {
		idOf[a.Conn.ID] = a.ID
		if k < nPre {
			offline[a.ID] = a.Off != ""
		}
	}
	var tl []string
	maxEst := 0
	for _, e := range w.Events {
		i := int(e.PID)
		switch e.Name {
		case "connect-read":
			if i < 0 || i >= n {
				continue
			}
			k := 0
			for j := range counted {
				if counted[j] && !closed[j] {
					k++
				}
			}
			fullAtRead[i] = k >= limit
			if fullAtRead[i] && offline[idOf[i]] {
				ctr["offline_session_attempts_while_full"]++
			}
			tl = append(tl, fmt.Sprintf("conn%d: CONNECT read (id %s), %d counted", i, e.Client, k))
		case "OnSessionEstablish":
			if e.ClientPtr != nil {
				if c, ok := e.ClientPtr.Net.Conn.(*c35Conn); ok {
					connOfClient[e.ClientPtr] = c.ID
					counted[c.ID] = true
					tl = append(tl, fmt.Sprintf("conn%d: counted (OnSessionEstablish)", c.ID))
				}
			}
		case "conn-write":
			out[i] = append(out[i], e.Bytes...)
			if decided[i] {
				// whatever follows the CONNACK: never a second CONNACK, and nothing at all after a refusal
				rest := out[i][firstLen[i]:]
				if refused[i] > 0 && !lateSeen[i] {
					lateSeen[i] = true
					add("packet-after-refusal", fmt.Sprintf("conn%d was refused with %#x and was then written % x", i, refused[i]-1, rest), nil)
				}
				if pks, _, _, err := ref.DecodeStream(rest, verOf[i]); err == nil {
					for _, q := range pks {
						if q.Type == ref.CONNACK && !lateSeen2[i] {
							lateSeen2[i] = true
							add("second-connack", fmt.Sprintf("conn%d was sent a second CONNACK: %s", i, q), nil)
						}
					}
				}
				continue
			}
			p, used, err := ref.DecodeOne(out[i], verOf[i])
			if err != nil && verOf[i] < 5 && len(out[i]) >= 4 && out[i][0] == 0x20 && out[i][1] == 2 {
				// a v3/v4 CONNACK whose return code the strict decoder rejects: judge the code itself
				p, used, err = ref.Packet{Type: ref.CONNACK, ReasonCode: out[i][3]}, 4, nil
			}
			if err != nil || used == 0 {
				if err != nil && len(out[i]) >= 4 {
					decided[i] = true
					add("first-packet-undecodable", fmt.Sprintf("conn%d (v%d): first bytes written % x: %v", i, verOf[i], out[i], err), nil)
				}
				continue
			}
			decided[i] = true
			firstLen[i] = used
			if p.Type != ref.CONNACK {
				add("first-packet-not-connack", fmt.Sprintf("conn%d: first packet is %s", i, p), nil)
				continue
			}
			if p.ReasonCode == 0 {
				estab[i], everEstab[i] = true, true
				k := 0
				for j := range estab {
					if estab[j] {
						k++
					}
				}
				if k > maxEst {
					maxEst = k
				}
				tl = append(tl, fmt.Sprintf("conn%d: CONNACK success written -> %d established", i, k))
				if k > limit {
					key := "exceeded:check-then-increment"
					if fullAtRead[i] {
						key = "exceeded:admitted-while-full"
						if offline[idOf[i]] {
							key += ":offline-session-id"
						}
					}
					add(key, fmt.Sprintf("limit %d: %d connections hold a success CONNACK and are open at the same time (conn%d admitted last)", limit, k, i), append([]string{}, tl...))
				}
			} else {
				refused[i] = int(p.ReasonCode) + 1
				tl = append(tl, fmt.Sprintf("conn%d: CONNACK refusal %#x written", i, p.ReasonCode))
				want := byte(0x03)
				if verOf[i] == 5 {
					want = 0x89
				}
				if p.ReasonCode != want {
					add(fmt.Sprintf("refusal-code:v%d:%#x", verOf[i], p.ReasonCode), fmt.Sprintf("conn%d (v%d) refused with %#x, want %#x", i, verOf[i], p.ReasonCode, want), nil)
				}
			}
		case "conn-close":
			closed[i] = true
			if estab[i] {
				estab[i] = false
				tl = append(tl, fmt.Sprintf("conn%d: closed by broker", i))
			}
		}
	}
	// every attempt answered; refused ones closed
	nAdm, nRef := 0, 0
	for _, a := range all {
		i := a.Conn.ID
		switch {
		case everEstab[i]:
			nAdm++
		case refused[i] > 0:
			nRef++
			if !closed[i] {
				add("refused-left-open", fmt.Sprintf("conn%d refused with %#x but not closed at quiescence", i, refused[i]-1), nil)
			}
		default:
			add("no-connack", fmt.Sprintf("conn%d (%s v%d) got no CONNACK (closed=%v, written % x)", i, a.ID, a.Ver, closed[i], out[i]), append([]string{}, tl...))
		}
	}
	if nRef > 0 {
		ctr["executions_with_refusal"] = 1
	}
	if maxEst == limit {
		ctr["executions_reaching_limit"] = 1
	}
	if nAdm > limit {
		ctr["executions_admitting_more_than_limit_over_time"] = 1
	}
	for _, e := range w.Events {
		if e.Name == "OnDisconnect" {
			ctr["disconnect_events"]++
		}
	}
	var b strings.Builder
	fmt.Fprintf(&b, "limit=%d max=%d:", limit, maxEst)
	for _, a := range all {
		i := a.Conn.ID
		st := "none"
		if everEstab[i] {
			st = "ok"
		} else if refused[i] > 0 {
			st = fmt.Sprintf("%#x", refused[i]-1)
		}
		fmt.Fprintf(&b, " %s%d=%s", a.ID, a.Ver, st)
		if closed[i] {
			b.WriteString("(closed)")
		}
	}
	fmt.Fprintf(&b, " cc=%d", w.S.Info.ClientsConnected)
	return viol, b.String()
}

var c35Scen = []string{
	"1::b4+c4", "1::b5+c5", "1::b4+c5", "1::b3+c5",
	"2:a5:b4+c5", "2:a4:a4+b5", "2:a5:a5+b5", "1:a5:a5+b4",
	"1::b5+c4+d5", "2::b4+c5+d5", "2:a5:a5+b4+c5",
}

// c35OfflineScen: attempts under the identifier of an offline persistent session.
var c35OfflineScen = []string{"1:a5x+b5:a5", "1:a4d+b4:a4+c5", "2:a5x+b4:a5+c5"}
var c35OfflineThorough = []string{"1:a5d+b4:a5", "1:a4x+b5:a4", "1:a3x+b4:a3+c4", "1:a5x:a5+b4", "2:a5x+b5d+c4:a5+b5", "2:a4x+b4+c5:a4+d5"}

func init() {
	explore.RegisterDFS("c35", c35Run)
	explore.Register("C35", func(c *explore.Ctx) {
		c.Rep.Level = "model_checking"
		c.Rep.Assumption("threads are serialised by the cooperative scheduler (sequentially consistent interleavings only)")
		c.Rep.Assumption("scheduling points include every atomic operation on Info.ClientsConnected / ClientsMaximum (the limit check and the counter update), locks, Once, WaitGroup, channel statements, goroutine starts and connection Read/Write/Close")
		c.Rep.Assumption("a connection counts as established from the write completing CONNACK(0) until the broker closes it; clients never disconnect by themselves, except the pre-clients marked x (peer drops the connection) or d (DISCONNECT) which go offline, and are seen closed by the broker, before the attempts start")
		bounds := []explore.Bounds{{Preempt: 0}, {Preempt: 1}, {Preempt: 2}}
		per := 6 * time.Second
		if !c.Quick() {
			bounds = append(bounds, explore.Bounds{Preempt: 3})
			per = 60 * time.Second
		}
		a := newDfsAgg(c)
		a.run("c35", c35OfflineScen[0], bounds, per) // cheap and decisive: first
		for _, s := range c35Scen {
			a.run("c35", s, bounds, per)
		}
		for _, s := range c35OfflineScen[1:] {
			a.run("c35", s, bounds, per)
		}
		if !c.Quick() {
			for _, s := range c35OfflineThorough {
				a.run("c35", s, bounds, per)
			}
		}
		a.requireCounters("executions_with_refusal", "executions_reaching_limit", "offline_session_attempts_while_full")
	})
}
