package props

import (
	"fmt"
	"strconv"
	"strings"
	"sync/atomic"
	"time"

	mqtt "github.com/mochi-mqtt/server/v2"

	"verif/explore"
	"verif/ref"
	"verif/world"
)

// C38: at every quiescent point the reported numbers of connected clients, client
// subscriptions, retained messages and in-flight messages equal the actual counts; none negative.
//
// E2 scenario "c38": a (v5, persistent, session expiry 2 s), b (v4 clean session); ops:
// connect / takeover / clean connect / drop / disconnect, subscribe (plain, wildcard,
// shared), unsubscribe, QoS 1 publish without acknowledgement, acknowledge, retained
// set / clear, tick + housekeeping (session, retained and in-flight expiry; server maximum
// message expiry 2 s), and finally a $SYS publication whose payloads must equal the counters.

func c38Run(arg string) explore.HistFn {
	maxOps := 5
	if strings.Contains(arg, "deep") {
		maxOps = 6
	}
	if strings.Contains(arg, "deep7") {
		maxOps = 7
	}
	return func(hist []string) explore.HistResult {
		h := newH(world.Config{Caps: func(c *mqtt.Capabilities) { c.MaximumMessageExpiryInterval = 2 }})
		var outstanding []uint16
		sysDone := false
		pid := uint16(40)
		established := func() int {
			n := 0
			for _, c := range h.All {
				if !c.Closed() && len(c.Recv) > 0 && c.Recv[0].Type == ref.CONNACK && c.Recv[0].ReasonCode == 0 {
					n++
				}
			}
			return n
		}
		lastKind := ""
		mon := &c38Mon{drift: map[string]int64{}}
		runHist(h, hist, func(op string) {
			f := fields(op)
			pid++
			lastKind = f[0]
			if f[0] == "conn" {
				lastKind = "conn"
				if len(f) > 2 && f[2] == "clean" {
					lastKind = "conn-clean"
				}
				if len(f) > 2 && f[2] == "failack" {
					lastKind = "conn-connack-write-failed"
				}
				if c := h.Cl[f[1]]; c != nil && !c.Closed() {
					lastKind += "-takeover"
				}
			}
			switch f[0] {
			case "conn":
				switch f[1] {
				case "a":
					h.connect("a", v5connect("a", len(f) > 2, 8, 2))
				case "b":
					if len(f) > 2 && f[2] == "failack" {
						// the CONNACK write fails (client gone after CONNECT): the connection never counts as established
						cl := h.W.Start(world.ConnectPacket("b", 4, true))
						cl.C.FailWriteAt = cl.C.Writes + 1
						h.Cl["b"] = cl
						h.All = append(h.All, cl)
						h.W.Run()
						h.logf("b: -> CONNECT, CONNACK write fails (injected); closed=%v", cl.Closed())
					} else {
						h.connect("b", world.ConnectPacket("b", 4, true))
					}
				}
				outstanding = nil
				for _, p := range h.Cl[f[1]].Recv {
					if p.Type == ref.PUBLISH && p.Qos > 0 && f[1] == "a" {
						outstanding = append(outstanding, p.PacketID)
					}
				}
			case "drop":
				h.Cl[f[1]].Drop()
			case "disc":
				h.do(f[1], ref.Packet{Type: ref.DISCONNECT})
			case "sub":
				h.do(f[1], sub(pid, f[2], 1))
			case "unsub":
				h.do(f[1], ref.Packet{Type: ref.UNSUBSCRIBE, PacketID: pid, Filters: []ref.Filter{{Filter: f[2]}}})
			case "pub":
				h.do("b", pub("x", "m"+fmt.Sprint(h.Step), 1, pid))
			case "ret":
				pk := pub("x", f[1], 0, 0)
				pk.Retain = true
				h.do("b", pk)
			case "ack":
				for _, id := range outstanding {
					h.Cl["a"].Send(ref.Packet{Type: ref.PUBACK, PacketID: id})
				}
				outstanding = nil
				h.W.Run()
			case "tick":
				h.W.Tick(3000)
				h.W.Housekeep()
			case "sys":
				h.W.Spawn("sys", func() { h.W.S.VerifPublishSysTopics() })
				h.W.Run()
				sysDone = true
			}
			for name, c := range h.Cl {
				for _, p := range c.Poll() {
					if name == "a" && p.Type == ref.PUBLISH && p.Qos > 0 && !c.Closed() {
						outstanding = append(outstanding, p.PacketID)
					}
				}
			}
			mon.check(h, established(), op, func(string) string { return lastKind }, sysDone)
			if h.last && sysDone && f[0] == "sys" {
				c38SysTopics(h)
			}
		})
		var next []string
		if len(hist) < maxOps && !sysDone {
			a, b := h.Cl["a"], h.Cl["b"]
			next = append(next, "conn:a", "conn:a:clean")
			if a != nil && !a.Closed() {
				next = append(next, "drop:a", "disc:a", "sub:a:x", "sub:a:x/#", "sub:a:$share/g/x", "unsub:a:x", "unsub:a:$share/g/x")
				if len(outstanding) > 0 {
					next = append(next, "ack")
				}
			}
			if b == nil || b.Closed() {
				next = append(next, "conn:b", "conn:b:failack")
			} else {
				next = append(next, "drop:b", "sub:b:x", "pub", "ret:r1", "ret:")
			}
			next = append(next, "tick", "sys")
		}
		key := h.W.State() + fmt.Sprintf("|out=%v sys=%v", outstanding, sysDone)
		for _, n := range []string{"a", "b"} {
			if c := h.Cl[n]; c != nil {
				key += fmt.Sprintf("|%s:%v", n, c.Closed())
			}
		}
		return h.finish(key, next)
	}
}

// c38Counts are the actual counts, taken from the broker's own structures.
type c38Counts struct {
	Subs      int // client + shared subscriptions in the topic index
	RetNonSys int // retained messages outside $SYS
	RetAll    int // all retained messages ($SYS topics included)
	Inflight  int // sum of the in-flight maps of all known clients
}

func c38Actual(s *mqtt.Server) (c c38Counts) {
	cs, ss, _ := s.Topics.VerifCountSubscriptions()
	c.Subs = cs + ss
	for t := range s.Topics.Retained.GetAll() {
		c.RetAll++
		if !strings.HasPrefix(t, "$SYS") {
			c.RetNonSys++
		}
	}
	c.Inflight = s.VerifInflightTotal()
	return c
}

// c38Mon is the counter monitor: after every operation the four reported counters are
// compared with the actual counts; a drift is attributed to the operation that first
// broke (or changed) equality.
type c38Mon struct {
	drift map[string]int64
	// TolerantRetained: the retained counter may or may not include the $SYS topics the broker
	// itself retains (it is set to the size of the retained map by every retain / expiry, while
	// a $SYS publication adds its topics without counting): both readings are accepted.
	TolerantRetained bool
}

// check compares the counters of h's broker; kind(counter) names the operation kind for
// the key; skipRetained: the retained counter is not compared (its drift is carried over).
func (m *c38Mon) check(h *H, established int, op string, kind func(counter string) string, skipRetained bool) {
	info := h.W.S.Info
	act := c38Actual(h.W.S)
	type cmp struct {
		name     string
		reported int64
		actual   int
		skip     bool
	}
	retained := act.RetNonSys
	if m.TolerantRetained && atomic.LoadInt64(&info.Retained) == int64(act.RetAll) {
		retained = act.RetAll
	}
	for _, c := range []cmp{
		{"ClientsConnected", atomic.LoadInt64(&info.ClientsConnected), established, false},
		{"Subscriptions", atomic.LoadInt64(&info.Subscriptions), act.Subs, false},
		{"Retained", atomic.LoadInt64(&info.Retained), retained, skipRetained},
		{"Inflight", atomic.LoadInt64(&info.Inflight), act.Inflight, false},
	} {
		// a drift is attributed to the operation that first broke equality
		d := c.reported - int64(c.actual)
		if c.skip {
			d = m.drift[c.name]
		}
		if d != m.drift[c.name] && d != 0 {
			dir := "over"
			if d < m.drift[c.name] {
				dir = "under"
			}
			h.violate("drift:"+c.name+":"+dir+":"+kind(c.name), "%s reports %d (negative: %v) but the actual count is %d after %s (difference before this operation: %d)", c.name, c.reported, c.reported < 0, c.actual, op, m.drift[c.name])
		}
		m.drift[c.name] = d
	}
}

// c38SysTopics: after a $SYS publication the payloads of the four topics equal the counters.
func c38SysTopics(h *H) {
	info := h.W.S.Info
	want := map[string]int64{
		"$SYS/broker/clients/connected": atomic.LoadInt64(&info.ClientsConnected),
		"$SYS/broker/subscriptions":     atomic.LoadInt64(&info.Subscriptions),
		"$SYS/broker/retained":          atomic.LoadInt64(&info.Retained),
		"$SYS/broker/messages/inflight": atomic.LoadInt64(&info.Inflight),
	}
	all := h.W.S.Topics.Retained.GetAll()
	for t, v := range want {
		pk, ok := all[t]
		if got, err := strconv.ParseInt(string(pk.Payload), 10, 64); !ok || err != nil || got != v {
			h.violate("sys-topic:"+t, "%s payload %q, counter %d", t, pk.Payload, v)
		}
	}
}

func init() {
	explore.RegisterBFS("c38", c38Run)
	explore.RegisterBFS("c38restart", c38rRun)
	explore.Register("C38", func(c *explore.Ctx) {
		c.Rep.Level = "model_checking"
		c.Rep.Assumption("actual counts are taken from the broker's own structures at quiescence (trie walk, retained map without $SYS topics, sum of in-flight maps) and from the harness's open established connections; the retained counter is not compared after a $SYS publication (the $SYS topics themselves are retained)")
		c.Rep.Assumption("c38restart: a broker on one real storage back end, started like Server.Serve (readStore, listener, first $SYS publication), $SYS publications as explicit operations, restart = the steps of Server.Close at quiescence followed by a new server and a new hook instance on the same store with zero downtime; the same monitor after every operation on both sides of the restart; the retained counter may count the broker's own $SYS topics or not (both readings accepted)")
		// the restart scenarios are small and decisive: they run first so that the long history search cannot starve them
		c38Restart(c)
		if c.Quick() {
			explore.RunBFS(c, "c38", "deep", 6, 70*time.Second)
		} else {
			explore.RunBFS(c, "c38", "deep7", 7, 9*time.Minute)
		}
	})
}
