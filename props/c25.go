package props

import (
	"fmt"
	"strconv"
	"strings"
	"time"

	mqtt "github.com/mochi-mqtt/server/v2"

	"verif/explore"
	"verif/ref"
	"verif/world"
)

// C25: once housekeeping has run strictly later than a message's expiry time, no copy of it
// that has not yet been sent is delivered (retained store, queue deferred by flow control,
// queue of an offline session); effective expiry = smaller non-zero of the publisher's
// interval and the server maximum; a delivered copy carries a Message Expiry Interval no
// larger than the time remaining.
//
// E2 scenario "c25", arg "max=<0|2>,mech=<def|ret|off|all>[,deep]", virtual time in seconds.
// Clients: p5 (v5 publisher), p4 (v4 publisher: cannot state an interval, the server
// maximum alone applies), and per mechanism
//   def: s  v5, Receive Maximum 1, subscribed x QoS 1 (second message is deferred)
//   ret: l  v5, subscribes x later (retained delivery), may re-subscribe
//   off: o  v5 persistent session subscribed x QoS 1, offline at start, reconnects later
// Ops:
//   pub:<ver>:<exp>:<retain>:<qos>   next tagged message to x
//   tick:1000 | hk
//   ack        s acknowledges its oldest unacknowledged delivery (frees the quota)
//   sub        l subscribes x QoS 1 (Retain Handling 0)
//   conn       o reconnects with Clean Start 0
// Reference model (Appendix A.7, MQTT 5 §3.3.2.3.3, §4.1): per tag: receive time t0,
// e = smaller non-zero of (interval, server maximum), instant = t0 + e; 'dead' once a
// housekeeping ran at a time strictly later than the instant. Must-not: first transmission
// of a dead message to anybody. For every delivered copy of a message with e > 0 and at
// least one full second remaining: the Message Expiry Interval property must be present and
// <= remaining seconds (unspecified once less than a second remains).

type c25Msg struct {
	t0Ms   int64
	eff    int64
	dead   bool
	retain bool
}

func (m c25Msg) instantMs() int64 { return m.t0Ms + m.eff*1000 }

type c25Model struct {
	max                                          int64
	msgs                                         map[string]*c25Msg
	order                                        []string
	retained                                     string          // tag currently retained on x ("" none)
	sent                                         map[string]bool // "who|tag": a copy was already transmitted to who
	sUnacked                                     []uint16
	lSubbed                                      bool
	oOnline                                      bool
	pubs, ticks, hks, acks, subs, conns, sinceHk int
}

func c25Eff(interval, max int64) int64 {
	switch {
	case interval == 0:
		return max
	case max == 0:
		return interval
	case interval < max:
		return interval
	}
	return max
}

func c25Run(arg string) explore.HistFn {
	max := int64(0)
	mech := "all"
	deep := false
	sv := byte(5)
	for _, kv := range strings.Split(arg, ",") {
		switch {
		case strings.HasPrefix(kv, "max="):
			max, _ = strconv.ParseInt(kv[4:], 10, 64)
		case strings.HasPrefix(kv, "mech="):
			mech = kv[5:]
		case kv == "deep":
			deep = true
		case kv == "sv=4":
			sv = 4 // the late subscriber l and the offline session o speak MQTT 3.1.1: a publisher's interval still bounds what they are sent
		}
	}
	oConnect := func() ref.Packet {
		if sv == 4 {
			return world.ConnectPacket("o", 4, false)
		}
		return v5connect("o", false, 0, 600)
	}
	has := func(x string) bool { return mech == "all" || mech == x }
	maxPubs, maxTicks, maxHk, maxAcks, maxSubs := 2, 4, 2, 2, 2
	if has("def") {
		maxPubs = 3
	}
	if mech == "all" {
		maxPubs, maxTicks = 2, 4
	}
	long := "3" // the longer publisher interval: above the server maximum 2
	if max > 0 && max < 3 && !deep {
		maxTicks = int(max) + 1 // every instant is <= max; one more tick is strictly later
	}
	if max == 0 && !deep {
		long, maxTicks = "2", 3 // without a server maximum 2 s is as good as 3 s and needs one tick less
	}
	if deep {
		maxTicks, maxHk = 5, 3
		if mech != "all" {
			maxPubs++
		}
	}
	return func(hist []string) explore.HistResult {
		h := newH(world.Config{Caps: func(c *mqtt.Capabilities) {
			c.MaximumMessageExpiryInterval = max
		}})
		m := &c25Model{max: max, msgs: map[string]*c25Msg{}, sent: map[string]bool{}}
		counters := map[string]int{}
		nowMs := func() int64 { return h.W.X.NowMillis() }
		h.connect("p5", world.ConnectPacket("p5", 5, true))
		h.connect("p4", world.ConnectPacket("p4", 4, true))
		if has("def") {
			h.connect("s", v5connect("s", true, 1, 0))
			h.do("s", sub(1, "x", 1))
		}
		if has("ret") {
			h.connect("l", world.ConnectPacket("l", sv, true))
		}
		if has("off") {
			h.connect("o", oConnect())
			h.do("o", sub(1, "x", 1))
			h.do("o", ref.Packet{Type: ref.DISCONNECT})
		}
		ppid := uint16(100)

		judge := func(who, mechName string, p ref.Packet, alwaysFirst bool) {
			tag := string(p.Payload)
			msg := m.msgs[tag]
			if msg == nil {
				h.violate("c25:unknown-message", "%s received %s which was never published", who, p)
				return
			}
			first := alwaysFirst || !m.sent[who+"|"+tag]
			m.sent[who+"|"+tag] = true
			if first && msg.dead {
				h.violate("c25:expired-delivered:"+mechName, "%s received first transmission of %s at %dms, but the message (received %dms, effective expiry %ds -> instant %dms) had expired and housekeeping had run strictly later", who, p, nowMs(), msg.t0Ms, msg.eff, msg.instantMs())
			}
			if first && h.last && msg.eff > 0 && !msg.dead && nowMs() > msg.t0Ms {
				counters["late_first_delivery_of_expiring_message_"+mechName]++
			}
			if msg.eff > 0 && !(sv == 4 && (who == "l" || who == "o")) { // an MQTT 3.1.1 receiver is sent no properties
				remMs := msg.instantMs() - nowMs()
				if remMs >= 1000 {
					v, ok := p.Props.Num(ref.PMessageExpiry)
					waited := "fresh"
					if nowMs() > msg.t0Ms {
						waited = "after-waiting"
					}
					if !ok {
						h.violate("c25:interval-missing:"+mechName, "%s received %s at %dms (%s) without Message Expiry Interval; %dms remain (received %dms, effective expiry %ds, server maximum %d)", who, p, nowMs(), waited, remMs, msg.t0Ms, msg.eff, m.max)
					} else if int64(v)*1000 > remMs {
						h.violate("c25:interval-too-large:"+mechName, "%s received %s at %dms (%s) with Message Expiry Interval %d, but only %dms remain (received %dms, effective expiry %ds, server maximum %d)", who, p, nowMs(), waited, v, remMs, msg.t0Ms, msg.eff, m.max)
					} else if h.last {
						counters["interval_checked_"+waited]++
					}
				}
			}
		}
		collect := func(who, mechName string, got []ref.Packet, alwaysFirst bool) {
			for _, p := range pubsOf(got) {
				if who == "s" && p.Qos > 0 {
					m.sUnacked = append(m.sUnacked, p.PacketID)
				}
				if who != "s" && p.Qos > 0 {
					h.Cl[who].Send(ref.Packet{Type: ref.PUBACK, PacketID: p.PacketID})
					h.W.Run()
				}
				judge(who, mechName, p, alwaysFirst)
			}
		}

		runHist(h, hist, func(op string) {
			f := fields(op)
			switch f[0] {
			case "pub":
				ver := f[1]
				exp, _ := strconv.ParseInt(f[2], 10, 64)
				retain, qos := f[3] == "1", byte(f[4][0]-'0')
				m.pubs++
				tag := fmt.Sprintf("m%d", m.pubs)
				ppid++
				pk := pub("x", tag, qos, ppid)
				pk.Retain = retain
				who := "p5"
				if ver == "4" {
					who = "p4"
				} else if exp > 0 {
					pk.Props = append(pk.Props, ref.Prop{ID: ref.PMessageExpiry, Num: uint32(exp)})
				}
				m.msgs[tag] = &c25Msg{t0Ms: nowMs(), eff: c25Eff(exp, m.max), retain: retain}
				m.order = append(m.order, tag)
				if retain {
					m.retained = tag
				}
				h.do(who, pk)
				if has("def") {
					before := len(m.sUnacked)
					collect("s", "live", h.poll("s"), false) // only the publisher's own handler runs: nothing deferred is released here
					if h.last && qos > 0 && len(m.sUnacked) == before && before > 0 {
						counters["deferred_behind_receive_maximum"]++
					}
				}
				if has("ret") && m.lSubbed {
					collect("l", "live", h.poll("l"), false)
				}
				if has("off") && m.oOnline {
					collect("o", "live", h.poll("o"), false)
				}
			case "tick":
				ms, _ := strconv.Atoi(f[1])
				m.ticks++
				m.sinceHk++
				h.W.Tick(int64(ms))
			case "hk":
				m.hks++
				m.sinceHk = 0
				h.W.Housekeep()
				for _, tag := range m.order {
					msg := m.msgs[tag]
					if msg.eff > 0 && nowMs() > msg.instantMs() {
						if !msg.dead && h.last {
							counters["messages_killed_by_housekeeping"]++
						}
						msg.dead = true
					}
				}
				for _, who := range []string{"s", "l", "o"} {
					if h.Cl[who] != nil && !h.Cl[who].Closed() {
						mn := map[string]string{"s": "deferred", "l": "live", "o": "live"}[who]
						collect(who, mn, h.poll(who), false)
					}
				}
			case "ack":
				m.acks++
				id := m.sUnacked[0]
				m.sUnacked = m.sUnacked[1:]
				got := h.do("s", ref.Packet{Type: ref.PUBACK, PacketID: id})
				if h.last && len(pubsOf(got)) > 0 {
					counters["deferred_released_by_ack"]++
				}
				collect("s", "deferred", got, false)
			case "sub":
				m.subs++
				got := h.do("l", sub(uint16(10+m.subs), "x", 1))
				m.lSubbed = true
				if h.last && len(pubsOf(got)) > 0 {
					counters["retained_deliveries"]++
				}
				collect("l", "retained", got, true)
			case "conn":
				m.conns++
				m.oOnline = true
				got := h.connect("o", oConnect())
				if len(got) == 0 || got[0].Type != ref.CONNACK || !got[0].SessionPresent {
					h.violate("c25:offline-session-not-resumed", "o reconnected with Clean Start 0 inside its expiry interval but got %v", got)
				}
				if h.last && len(pubsOf(got)) > 0 {
					counters["offline_queue_deliveries"]++
				}
				collect("o", "offline-queue", got, false)
			}
		})

		var next []string
		if m.pubs < maxPubs {
			for _, e := range []string{"0", "1", long} {
				if mech == "def" && !deep && m.pubs == 0 && e == "1" {
					continue // quick: the message that only fills the quota comes in two shapes
				}
				if has("def") || has("off") {
					next = append(next, "pub:5:"+e+":0:1")
				}
				if has("ret") {
					next = append(next, "pub:5:"+e+":1:1", "pub:5:"+e+":1:0")
				}
			}
			if (has("def") || has("off")) && !(mech == "def" && !deep && m.pubs == 0) {
				next = append(next, "pub:4:0:0:1")
			}
			if has("ret") {
				next = append(next, "pub:4:0:1:1")
			}
		}
		if m.pubs > 0 {
			if m.ticks < maxTicks {
				next = append(next, "tick:1000")
			}
			if m.hks < maxHk && m.sinceHk > 0 {
				next = append(next, "hk")
			}
		}
		if has("def") && m.acks < maxAcks && len(m.sUnacked) > 0 {
			next = append(next, "ack")
		}
		if has("ret") && m.subs < maxSubs && m.pubs > 0 {
			next = append(next, "sub")
		}
		if has("off") && m.conns < 1 && m.pubs > 0 {
			next = append(next, "conn")
		}
		var ms []string
		for _, t := range m.order {
			ms = append(ms, fmt.Sprintf("%s=%+v", t, *m.msgs[t]))
		}
		key := h.W.State() + fmt.Sprintf("|now=%d|%v|ret=%s|sent=%v|un=%v|%v %v|%d %d %d %d %d %d %d", nowMs(), ms, m.retained, explore.SortedKeys(m.sent), m.sUnacked, m.lSubbed, m.oOnline, m.pubs, m.ticks, m.hks, m.acks, m.subs, m.conns, m.sinceHk)
		r := h.finish(key, next)
		r.Counters = counters
		return r
	}
}

func init() {
	explore.RegisterBFS("c25", c25Run)
	explore.Register("C25", func(c *explore.Ctx) {
		c.Rep.Level = "model_checking"
		c.Rep.Assumption("virtual time in whole seconds; housekeeping runs only when the hk op is applied, at the current virtual time")
		c.Rep.Assumption("one operation at a time, broker run to quiescence (sequential histories)")
		c.Rep.Assumption("interval check applies while at least one full second remains; with less than a second remaining (or past the instant before housekeeping) the delivered value is unspecified")
		type sc struct {
			arg string
			per time.Duration
		}
		var scs []sc
		if c.Quick() {
			scs = append(scs, sc{"max=0,mech=off,sv=4", 5 * time.Second}, sc{"max=2,mech=ret,sv=4", 6 * time.Second})
			for _, mx := range []string{"0", "2"} {
				scs = append(scs, sc{"max=" + mx + ",mech=off", 6 * time.Second}, sc{"max=" + mx + ",mech=ret", 11 * time.Second}, sc{"max=" + mx + ",mech=def", 14 * time.Second})
			}
		} else {
			for _, mx := range []string{"0", "2", "1"} {
				scs = append(scs, sc{"max=" + mx + ",mech=def,deep", 60 * time.Second}, sc{"max=" + mx + ",mech=ret,deep", 50 * time.Second}, sc{"max=" + mx + ",mech=off,deep", 40 * time.Second}, sc{"max=" + mx + ",mech=all", 70 * time.Second})
			}
			for _, mx := range []string{"0", "2"} {
				scs = append(scs, sc{"max=" + mx + ",mech=off,sv=4,deep", 40 * time.Second}, sc{"max=" + mx + ",mech=ret,sv=4,deep", 40 * time.Second})
			}
		}
		for _, s := range scs {
			if c.Expired() {
				c.Rep.Capped(s.arg + " not started (deadline)")
				continue
			}
			st := explore.RunBFS(c, "c25", s.arg, 0, perBudget(s.per))
			for ck, n := range st.Counters {
				c.Rep.Count(ck, n)
			}
		}
	})
}
