package props

import (
	"fmt"
	"strconv"
	"strings"
	"time"

	mqtt "github.com/mochi-mqtt/server/v2"

	"verif/explore"
	"verif/ref"
	"verif/world"
)

// C24: topic aliases are always resolvable by the receiver (outbound), and inbound aliases
// are validated and resolved per connection.
//
// E2 scenario "c24out". First op = configuration:
//   cfg:<tam>:<mech>    tam = subscriber's Topic Alias Maximum (0,1,2); mech selects how an
//        outbound PUBLISH can fail to reach the wire: plain (nothing special) | drop
//        (Capabilities.MaximumClientWritesPending=1: a SUBSCRIBE matching two retained messages
//        overflows the queue deterministically) | defer (subscriber Receive Maximum 1) | oversize
//        (subscriber Maximum Packet Size 24 with 20-byte topic names: a PUBLISH carrying the topic
//        is refused, an alias-only PUBLISH fits)
// Clients: s = v5 subscriber (persistent session), p = publisher. Ops:
//   pub:<k>:<qos>   [P] p publishes on topic k in {1,2,3}, QoS 0/1 (retain=1 in mech drop)
//   sub             [2] s subscribes t/# QoS1 (mech drop only; otherwise subscribed from the start)
//   ack             s acknowledges its oldest unacknowledged delivery
//   reconn          [1] s's connection drops, s reconnects resuming the session (same CONNECT properties)
//   reconn:<t>      [1] the same, but the new CONNECT announces Topic Alias Maximum <t> (every t smaller
//        than the first connection's; "tams" in the arg: also the larger ones up to 2)
// Receiver-side monitor (per connection of s, over every PUBLISH in wire order): alias table
// alias -> topic. A PUBLISH with a topic and an alias binds; a PUBLISH with an empty topic must
// carry an alias bound earlier on this connection, and that binding must be the topic the message
// was published on (payload tags identify the message); alias in 1..tam of the current connection; no
// alias at all when that is 0; a PUBLISH with a topic must carry the right topic.
// Classification of an alarm (keys): a PUBLISH is "carried" when the message was offered to s at QoS>0
// on an earlier connection (it is a stored message: resent, or released after the reconnect); the
// pinned tree writes those verbatim (known findings ...previous-connection...), and their alias range
// faults get the suffix :resent-from-previous-connection. A message published on a resumed connection
// whose topic was never offered to s on this connection before (no earlier PUBLISH the broker could
// have bound the alias with, delivered or not) and that still arrives alias-only can only come from an
// alias table that outlived its connection: keys out:unresolvable:fresh-topic:... / out:misresolved:fresh-topic:...
//
// E2 scenario "c24in". First op cfg:<sam> (server Capabilities.TopicAliasMaximum 0,1,2). Client p
// (v5, persistent) publishes retained messages  pa:<alias>:<topic>:<qos>  alias in {0 (none),1,2,3},
// topic in {t1,t2,e (empty)}; reconn = p drops and reconnects. Observer o subscribed '#'.
// Model: per-connection table. alias > sam, or empty topic with an alias not bound on this
// connection => must be rejected: not routed, not retained, not acknowledged with success.
// Bound alias with empty topic => routed exactly on the topic last bound on this connection.

func c24Topic(mech, k string) string {
	if mech == "oversize" {
		return "t/aaaaaaaaaaaaaaaa/" + k
	}
	return "t/" + k
}

type c24Rx struct {
	table map[uint16]string // receiver-side alias table of the current connection
	old   map[uint16]string // union of the tables of earlier connections
	seen  int               // packets of the current connection already judged
}

func c24OutRun(arg string) explore.HistFn {
	maxP, maxOps := 3, 5
	if i := strings.Index(arg, "n="); i >= 0 {
		maxOps, _ = strconv.Atoi(arg[i+2 : i+3])
	}
	if i := strings.Index(arg, "p="); i >= 0 {
		maxP, _ = strconv.Atoi(arg[i+2 : i+3])
	}
	var cfgs []string
	for _, tam := range []string{"0", "1", "2"} {
		for _, m := range []string{"plain", "drop", "defer", "oversize"} {
			cfgs = append(cfgs, "cfg:"+tam+":"+m)
		}
	}
	return func(hist []string) explore.HistResult {
		if len(hist) == 0 {
			return explore.HistResult{Key: "root:" + arg, Next: cfgs}
		}
		cf := fields(hist[0])
		tamN, _ := strconv.Atoi(cf[1])
		tam0 := uint32(tamN) // Topic Alias Maximum of the first connection
		tam := tam0          // ... of the current connection
		mech := cf[2]
		h := newH(world.Config{Caps: func(c *mqtt.Capabilities) {
			if mech == "drop" {
				c.MaximumClientWritesPending = 1
			}
		}})
		counters := map[string]int{}
		count := func(k string) {
			if h.last {
				counters[k]++
			}
		}
		rm := uint32(0)
		if mech == "defer" {
			rm = 1
		}
		sConn := func() ref.Packet {
			p := v5connect("s", false, rm, 60)
			p.Props = append(p.Props, ref.Prop{ID: ref.PTopicAliasMaximum, Num: tam})
			if mech == "oversize" {
				p.Props = append(p.Props, ref.Prop{ID: ref.PMaximumPacketSize, Num: 24})
			}
			return p
		}
		h.connect("p", world.ConnectPacket("p", 4, true))
		h.connect("s", sConn())
		if mech != "drop" {
			h.do("s", sub(1, "t/#", 1))
		}
		rx := &c24Rx{table: map[uint16]string{}, old: map[uint16]string{}}
		topicOf := map[string]string{} // payload tag -> topic published on
		var outstanding []uint16       // unacknowledged QoS1 ids at s, oldest first
		nPub, nSub, nRe := 0, 0, 0
		pubAtRe := 0                       // messages published before the last reconnect (determines msgEpoch)
		msgEpoch := map[string]int{}       // tag -> connection number (nRe) it was published on
		offerEpoch := map[string]int{}     // tag -> connection number on which it was first offered to s
		offered := map[string]bool{}       // topics offered to s on the current connection (before the current op)
		retainedTag := map[string]string{} // mech drop: topic -> retained tag
		offer := func(tag string) {
			if _, ok := offerEpoch[tag]; !ok {
				offerEpoch[tag] = nRe
			}
			offered[topicOf[tag]] = true
		}

		judge := func(pks []ref.Packet) {
			for _, p := range pks {
				if p.Type != ref.PUBLISH {
					continue
				}
				tag := string(p.Payload)
				truth, known := topicOf[tag]
				if !known {
					h.violate("out:unattributable-delivery", "s received %v which nobody published", p)
					continue
				}
				if p.Qos > 0 && !p.Dup {
					outstanding = append(outstanding, p.PacketID)
				}
				oe, wasOffered := offerEpoch[tag]
				carried := wasOffered && oe < nRe && p.Qos > 0              // a stored message of an earlier connection
				fresh := nRe > 0 && msgEpoch[tag] == nRe && !offered[truth] // first offer of this topic on a later connection
				if fresh {
					count("out:fresh-topic-publishes-after-reconnect")
				}
				al, has := p.Props.Num(ref.PTopicAlias)
				a := uint16(al)
				if has {
					count("out:aliased-publishes")
					sfx := ""
					if carried {
						sfx = ":resent-from-previous-connection"
					}
					switch {
					case tam == 0:
						h.violate("out:alias-used-with-maximum-0"+sfx, "s announced Topic Alias Maximum 0 on this connection but received %v", p)
					case a == 0 || uint32(a) > tam:
						h.violate("out:alias-exceeds-client-maximum"+sfx, "s announced Topic Alias Maximum %d on this connection but received %v", tam, p)
					}
				}
				stale := "alias-never-assigned-on-this-connection"
				if rx.old[a] == truth {
					stale = "stale-alias-of-previous-connection"
				}
				switch {
				case p.Topic != "":
					if p.Topic != truth {
						h.violate("out:wrong-topic", "message %q was published on %q but delivered as %v", tag, truth, p)
					}
					if has {
						rx.table[a] = p.Topic
						count("out:alias-bindings")
					}
				case !has:
					h.violate("out:empty-topic-without-alias", "s received %v", p)
				default:
					count("out:alias-only-publishes")
					bound, ok := rx.table[a]
					switch {
					case ok && bound == truth:
						count("out:alias-only-resolved")
						if fresh {
							count("out:alias-only-resolved-through-binding-of-a-resent-publish")
						}
					case ok && fresh:
						h.violate("out:misresolved:fresh-topic:"+stale, "message %q, the first one on %q offered to s on this connection, arrives as alias %d which this connection bound to %q (previous connection: %q): %v", tag, truth, a, bound, rx.old[a], p)
					case ok && rx.old[a] == truth:
						h.violate("out:misresolved:alias-of-previous-connection-rebound", "message %q published on %q arrives as alias %d, bound to that topic only on a previous connection; this connection bound it to %q: %v", tag, truth, a, bound, p)
					case ok:
						h.violate("out:misresolved:alias-bound-to-other-topic", "message %q published on %q arrives as alias %d which this connection bound to %q: %v", tag, truth, a, bound, p)
					case fresh:
						h.violate("out:unresolvable:fresh-topic:"+stale, "message %q, the first one on %q offered to s on this connection, arrives with empty topic and alias %d, which no PUBLISH on this connection bound (receiver table %v, previous connection %v): %v", tag, truth, a, rx.table, rx.old, p)
					default:
						why := "unknown"
						dropped := false
						for _, e := range h.W.Events {
							if e.Name == "OnPublishDropped" && e.Client == "s" && e.Topic == truth {
								dropped = true
							}
						}
						full := pub(truth, tag, p.Qos, 1)
						full.Props = ref.Props{{ID: ref.PTopicAlias, Num: uint32(a)}}
						switch {
						case carried && rx.old[a] == truth:
							// a stored message of the previous connection resent with that connection's alias
							why = "previous-connection"
						case dropped:
							why = "dropped"
						case mech == "oversize" && len(ref.Encode(full, 5, ref.EncOpts{})) > 24:
							why = "oversize"
						case rm > 0:
							why = "deferred"
						case rx.old[a] == truth:
							why = "previous-connection"
						}
						h.violate("out:unresolvable:alias-bound-by-"+why, "message %q published on %q arrives with empty topic and alias %d, which no earlier PUBLISH on this connection bound (receiver table %v): %v", tag, truth, a, rx.table, p)
					}
				}
			}
		}

		runHist(h, hist, func(op string) {
			f := fields(op)
			switch f[0] {
			case "cfg":
			case "pub":
				nPub++
				q := byte(f[2][0] - '0')
				tag := "m" + strconv.Itoa(nPub)
				topic := c24Topic(mech, f[1])
				topicOf[tag] = topic
				msgEpoch[tag] = nRe
				pk := pub(topic, tag, q, 0)
				if q > 0 {
					pk.PacketID = uint16(100 + nPub)
				}
				pk.Retain = mech == "drop"
				h.do("p", pk)
				judge(h.poll("s"))
				if mech != "drop" || nSub > 0 {
					offer(tag)
				}
				if pk.Retain {
					retainedTag[topic] = tag
				}
			case "sub":
				nSub++
				judge(h.do("s", sub(uint16(1+nSub), "t/#", 1)))
				for _, tag := range retainedTag {
					offer(tag)
				}
			case "ack":
				id := outstanding[0]
				outstanding = outstanding[1:]
				judge(h.do("s", ref.Packet{Type: ref.PUBACK, PacketID: id}))
			case "reconn":
				nRe++
				offered = map[string]bool{}
				pubAtRe = nPub
				if len(f) > 1 {
					n, _ := strconv.Atoi(f[1])
					tam = uint32(n)
					count("out:reconnects-with-other-alias-maximum")
				}
				h.Cl["s"].Drop()
				for a, t := range rx.table {
					rx.old[a] = t
				}
				rx.table = map[uint16]string{}
				got := h.connect("s", sConn())
				count("out:reconnects")
				for _, g := range got {
					if g.Type == ref.PUBLISH && g.Dup {
						count("out:resent-after-reconnect")
					}
				}
				judge(got)
			}
		})
		for _, e := range h.W.Events {
			if e.Name == "OnPublishDropped" && e.Client == "s" {
				counters["out:publish-dropped-events"]++
				break
			}
		}
		var next []string
		sOpen := !h.Cl["s"].Closed() && h.Cl["s"].Err == nil
		if len(hist)-1 < maxOps && sOpen {
			if nPub < maxP {
				for _, k := range []string{"1", "2"} {
					next = append(next, "pub:"+k+":0", "pub:"+k+":1")
				}
				if strings.Contains(arg, "t3") {
					next = append(next, "pub:3:0", "pub:3:1")
				}
			}
			if mech == "drop" && nSub < 2 {
				next = append(next, "sub")
			}
			if len(outstanding) > 0 {
				next = append(next, "ack")
			}
			if nRe < 1 {
				next = append(next, "reconn")
				for t := uint32(0); t <= 2; t++ {
					if t < tam0 || (t > tam0 && strings.Contains(arg, "tams")) {
						next = append(next, "reconn:"+strconv.Itoa(int(t)))
					}
				}
			}
		}
		// oracle state that decides the key of a future alarm: topics offered on a resumed connection
		// (only consulted there, and irrelevant when any alias at all is an alarm) and which messages
		// were published before the reconnect
		offKey := []string{}
		if nRe > 0 && tam > 0 {
			offKey = explore.SortedKeys(offered)
		}
		key := h.W.State() + fmt.Sprintf("|%s|%d|%d,%d,%d|%v|%v|%v|%d|%d|%v", hist[0], len(hist), nPub, nSub, nRe, outstanding, rx.table, rx.old, tam, pubAtRe, offKey)
		res := h.finish(key, next)
		res.Counters = counters
		return res
	}
}

func c24InRun(arg string) explore.HistFn {
	maxOps := 3
	if i := strings.Index(arg, "n="); i >= 0 {
		maxOps, _ = strconv.Atoi(arg[i+2 : i+3])
	}
	return func(hist []string) explore.HistResult {
		if len(hist) == 0 {
			return explore.HistResult{Key: "root:" + arg, Next: []string{"cfg:0", "cfg:1", "cfg:2"}}
		}
		samN, _ := strconv.Atoi(fields(hist[0])[1])
		sam := uint16(samN)
		h := newH(world.Config{Caps: func(c *mqtt.Capabilities) { c.TopicAliasMaximum = sam }})
		counters := map[string]int{}
		count := func(k string) {
			if h.last {
				counters[k]++
			}
		}
		h.connect("o", world.ConnectPacket("o", 5, true))
		h.do("o", sub(1, "#", 0))
		pConn := func() ref.Packet { return v5connect("p", false, 0, 60) }
		h.connect("p", pConn())
		table := map[uint16]string{}
		expect := map[string]string{} // tag -> topic it must be routed on ("" = must not be routed)
		n, nRe := 0, 0
		runHist(h, hist, func(op string) {
			f := fields(op)
			switch f[0] {
			case "cfg":
			case "reconn":
				nRe++
				h.Cl["p"].Drop()
				h.connect("p", pConn())
				table = map[uint16]string{}
				count("in:reconnects")
			case "pa":
				n++
				an, _ := strconv.Atoi(f[1])
				alias := uint16(an)
				topic := f[2]
				if topic == "e" {
					topic = ""
				}
				q := byte(f[3][0] - '0')
				tag := "m" + strconv.Itoa(n)
				pk := pub(topic, tag, q, 0)
				if q > 0 {
					pk.PacketID = uint16(10 + n)
				}
				pk.Retain = true
				if alias > 0 {
					pk.Props = ref.Props{{ID: ref.PTopicAlias, Num: uint32(alias)}}
				}
				// model
				class, want := "", ""
				switch {
				case alias > sam:
					class = "alias-above-maximum"
				case alias == 0:
					want = topic
				case topic == "":
					if t, ok := table[alias]; ok {
						want = t
						count("in:bound-alias-used")
					} else {
						class = "unbound-alias-empty-topic"
						if nRe > 0 {
							class = "unbound-alias-empty-topic-after-reconnect"
						}
					}
				default:
					table[alias] = topic
					want = topic
					count("in:bindings")
				}
				expect[tag] = want
				got := h.do("p", pk)
				var routed []ref.Packet
				for _, d := range pubsOf(h.poll("o")) {
					if string(d.Payload) == tag {
						routed = append(routed, d)
					}
				}
				if class != "" {
					count("in:must-reject:" + class)
					if len(routed) > 0 {
						h.violate("in:"+class+":routed", "%s (server Topic Alias Maximum %d, table of this connection %v) must be rejected but was routed: %v", pk, sam, table, routed)
					}
					for _, g := range got {
						if g.Type == ref.PUBACK && g.ReasonCode < 0x80 {
							h.violate("in:"+class+":acknowledged-as-success", "%s (server Topic Alias Maximum %d, table of this connection %v) must be rejected but got %v and the connection stays open=%v", pk, sam, table, g, !h.Cl["p"].Closed())
						}
					}
					if q == 0 && !h.Cl["p"].Closed() && len(got) == 0 {
						count("in:rejected-qos0-silently")
					}
				} else {
					switch {
					case len(routed) == 0 && !h.Cl["p"].Closed():
						h.violate("in:valid-alias-publish-not-routed", "%s must be routed on %q but the observer received nothing (publisher got %v)", pk, want, got)
					case len(routed) > 0 && routed[0].Topic != want:
						h.violate("in:misresolved", "%s must be routed on %q (table %v) but was routed on %q", pk, want, table, routed[0].Topic)
					}
				}
				if h.Cl["p"].Closed() {
					table = map[uint16]string{}
				}
			}
		})
		var next []string
		pOpen := !h.Cl["p"].Closed()
		if len(hist)-1 < maxOps {
			if pOpen {
				for _, a := range []string{"0", "1", "2", "3"} {
					for _, t := range []string{"t1", "t2", "e"} {
						if a == "0" && t != "t1" {
							continue
						}
						next = append(next, "pa:"+a+":"+t+":1")
						if a != "0" && (t == "e" || t == "t1") {
							next = append(next, "pa:"+a+":"+t+":0")
						}
					}
				}
			}
			if nRe < 1 {
				next = append(next, "reconn")
			}
		}
		key := h.W.State() + fmt.Sprintf("|%s|%d|%d|%v|open=%v", hist[0], len(hist), nRe, table, pOpen)
		// retained store read-out (after the key)
		h.last = true
		t := h.W.Connect(world.ConnectPacket("t", 5, true))
		for _, r := range pubsOf(t.Do(sub(1, "#", 0))) {
			want, ok := expect[string(r.Payload)]
			counters["in:retained-entries-judged"]++
			switch {
			case !ok:
			case want == "":
				h.violate("in:rejected-publish-retained", "message %q had to be rejected but is retained on %q", r.Payload, r.Topic)
			case want != r.Topic:
				h.violate("in:misresolved-retained", "message %q must be retained on %q but is on %q", r.Payload, want, r.Topic)
			}
		}
		res := h.finish(key, next)
		res.Counters = counters
		return res
	}
}

func init() {
	explore.RegisterBFS("c24out", c24OutRun)
	explore.RegisterBFS("c24in", c24InRun)
	explore.Register("C24", func(c *explore.Ctx) {
		c.Rep.Level = "model_checking"
		c.Rep.Assumption("one operation at a time, broker run to quiescence under the deterministic default schedule (sequential histories)")
		c.Rep.Assumption("drop/deferral/oversize are produced deterministically: MaximumClientWritesPending=1 with a retained burst, client Receive Maximum 1, client Maximum Packet Size 24")
		c.Rep.Assumption("state = reflective dump of *Server plus receiver-side alias tables and pool counters")
		if c.Quick() {
			explore.RunBFS(c, "c24out", "n=5,p=3", 0, 60*time.Second)
			explore.RunBFS(c, "c24in", "n=3", 0, 25*time.Second)
		} else {
			explore.RunBFS(c, "c24out", "n=7,p=4,t3,tams", 0, 7*time.Minute)
			explore.RunBFS(c, "c24in", "n=4", 0, 4*time.Minute)
		}
	})
}
