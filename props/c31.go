package props

import (
	"fmt"
	"sort"
	"strings"
	"time"

	mqtt "github.com/mochi-mqtt/server/v2"
	"github.com/mochi-mqtt/server/v2/packets"
	"github.com/mochi-mqtt/server/v2/zzvrt"

	"verif/explore"
	"verif/ref"
)

// C31: after any set of concurrently executed subscribe / unsubscribe / retain / clear
// operations the topic index answers every query as a simple set of subscriptions and a map
// of retained messages would after SOME serial order of those operations (each call is
// linearizable); Subscribe / Unsubscribe report whether the subscription previously
// existed; removing empty nodes never drops a live subscription or retained message.
//
// Scenario "c31" works directly on one mqtt.TopicsIndex. A program = an initial content
// (applied sequentially) + 2..3 threads each executing 1..2 operations of the alphabet
// below. The program is selected by the first (environment) choice point, choice 0 being
// the empty program; every lock operation inside the index is a scheduling point and all
// interleavings within the deviation bound are executed. Each call is recorded with its
// invocation / response instants on a logical clock. After the threads finished, the
// driver queries the whole observable content sequentially ("final reads").
//
// Oracle: a set/map model written from the property statement; matching is MQTT matching
// (ref.Match / ref.MatchSub), never mochi's. The recorded history (concurrent calls + final
// reads) must be linearizable w.r.t. that model. The alphabet is chosen so that the pinned
// tree's known SEQUENTIAL matching defects (C01/C02) cannot interfere: filters a/b, a/+,
// $share/g/a/b; topics a/b, a/c; queries Subscribers(a/b), Messages(a/+), Messages(a/b).
//
// Classification of a non-linearizable history (narrow keys, see c31Classify).

// ---- model ----

type c31Elem struct {
	Kind   byte   // 'p' plain subscription, 's' shared subscription, 'i' inline subscription, 'r' retained message
	Client string // p, s
	ID     int    // i
	Filter string // p, s, i: filter; r: topic
}

var c31Elems = []c31Elem{
	{Kind: 'p', Client: "c1", Filter: "a/b"},
	{Kind: 'p', Client: "c2", Filter: "a/+"},
	{Kind: 's', Client: "c1", Filter: "$share/g/a/b"},
	{Kind: 'i', ID: 1, Filter: "a/b"},
	{Kind: 'r', Filter: "a/b"},
	{Kind: 'r', Filter: "a/c"},
}

// c31State: per element "" (absent) or "1" (subscription present) / the retained payload.
type c31State [6]string

type c31Op struct {
	Kind    string // sub unsub isub iunsub retain subscribers messages readelem
	Elem    int    // writes, readelem
	Payload string // retain
	Arg     string // subscribers: topic; messages: filter
}

func (o c31Op) String() string {
	e := c31Elems[o.Elem]
	switch o.Kind {
	case "sub":
		return fmt.Sprintf("Subscribe(%s,%s)", e.Client, e.Filter)
	case "unsub":
		return fmt.Sprintf("Unsubscribe(%s,%s)", e.Filter, e.Client)
	case "isub":
		return fmt.Sprintf("InlineSubscribe(%d,%s)", e.ID, e.Filter)
	case "iunsub":
		return fmt.Sprintf("InlineUnsubscribe(%d,%s)", e.ID, e.Filter)
	case "retain":
		return fmt.Sprintf("RetainMessage(%s,%q)", e.Filter, o.Payload)
	case "subscribers":
		return fmt.Sprintf("Subscribers(%s)", o.Arg)
	case "messages":
		return fmt.Sprintf("Messages(%s)", o.Arg)
	case "readelem":
		return fmt.Sprintf("read[%c %s%d %s]", e.Kind, e.Client, e.ID, e.Filter)
	}
	return o.Kind
}

func (o c31Op) isRead() bool {
	return o.Kind == "subscribers" || o.Kind == "messages" || o.Kind == "readelem"
}

var c31Alphabet = []c31Op{
	{Kind: "sub", Elem: 0}, {Kind: "sub", Elem: 1}, {Kind: "sub", Elem: 2},
	{Kind: "unsub", Elem: 0}, {Kind: "unsub", Elem: 1}, {Kind: "unsub", Elem: 2},
	{Kind: "isub", Elem: 3}, {Kind: "iunsub", Elem: 3},
	{Kind: "retain", Elem: 4, Payload: "p"}, {Kind: "retain", Elem: 4, Payload: ""}, {Kind: "retain", Elem: 5, Payload: "q"}, {Kind: "retain", Elem: 5, Payload: ""},
	{Kind: "subscribers", Arg: "a/b"}, {Kind: "messages", Arg: "a/+"}, {Kind: "messages", Arg: "a/b"},
}

// A second universe ("deep") nests the addresses three levels deep (a, a/b, a/b/c), so
// that removing an emptied leaf walks up through ancestors that hold only a retained
// message or only a subscription: trim must stop at the first of them.
var c31FlatElems, c31FlatAlphabet = c31Elems, c31Alphabet

var c31DeepElems = []c31Elem{
	{Kind: 'p', Client: "c1", Filter: "a/b/c"},
	{Kind: 'p', Client: "c2", Filter: "a/b"},
	{Kind: 'i', ID: 1, Filter: "a/b/c"},
	{Kind: 'r', Filter: "a"},
	{Kind: 'r', Filter: "a/b"},
	{Kind: 'r', Filter: "a/b/c"},
}

var c31DeepAlphabet = []c31Op{
	{Kind: "sub", Elem: 0}, {Kind: "sub", Elem: 1}, {Kind: "unsub", Elem: 0}, {Kind: "unsub", Elem: 1},
	{Kind: "isub", Elem: 2}, {Kind: "iunsub", Elem: 2},
	{Kind: "retain", Elem: 3, Payload: "p"}, {Kind: "retain", Elem: 3, Payload: ""}, {Kind: "retain", Elem: 4, Payload: "q"}, {Kind: "retain", Elem: 4, Payload: ""}, {Kind: "retain", Elem: 5, Payload: "s"}, {Kind: "retain", Elem: 5, Payload: ""},
	{Kind: "subscribers", Arg: "a/b/c"}, {Kind: "messages", Arg: "#"}, {Kind: "messages", Arg: "a/+"}, {Kind: "messages", Arg: "+"},
}

var c31FlatFinals = []c31Op{{Kind: "subscribers", Arg: "a/b"}, {Kind: "messages", Arg: "a/+"}, {Kind: "messages", Arg: "a/b"}, {Kind: "messages", Arg: "a/c"}}
var c31DeepFinals = []c31Op{{Kind: "subscribers", Arg: "a/b/c"}, {Kind: "subscribers", Arg: "a/b"}, {Kind: "messages", Arg: "#"}, {Kind: "messages", Arg: "+/+"}, {Kind: "messages", Arg: "a"}, {Kind: "messages", Arg: "a/b"}, {Kind: "messages", Arg: "a/b/c"}}

var c31DeepInits = map[string][]int{
	"leaf+top":  {0, 6},              // c1 a/b/c, retained a=p
	"leaf+mid":  {4, 8},              // inline 1 a/b/c, retained a/b=q
	"rleaf+top": {10, 6},             // retained a/b/c=s, retained a=p
	"leaf+sub":  {0, 1},              // c1 a/b/c, c2 a/b
	"all":       {0, 1, 4, 6, 8, 10}, // everything
}

// c31Finals: the driver's sequential final reads; c31AllRetained: the index of the one
// that covers every retained element through the trie (compared with the Retained map).
var c31Finals, c31AllRetained, c31Inits = c31FlatFinals, 1, c31InitsFlat

// c31Use selects the universe named by a scenario argument ("deep/<rest>" or "<rest>")
// and returns <rest>. Executions are sequential within a process.
func c31Use(arg string) string {
	if rest, ok := strings.CutPrefix(arg, "deep/"); ok {
		c31Elems, c31Alphabet, c31Finals, c31AllRetained, c31Inits = c31DeepElems, c31DeepAlphabet, c31DeepFinals, 2, c31DeepInits
		return rest
	}
	c31Elems, c31Alphabet, c31Finals, c31AllRetained, c31Inits = c31FlatElems, c31FlatAlphabet, c31FlatFinals, 1, c31InitsFlat
	return arg
}

// covers: the elements a read observes, by MQTT matching.
func (o c31Op) covers() []int {
	var out []int
	for i, e := range c31Elems {
		switch {
		case o.Kind == "subscribers" && e.Kind != 'r' && ref.MatchSub(e.Filter, o.Arg):
			out = append(out, i)
		case o.Kind == "messages" && e.Kind == 'r' && ref.Match(o.Arg, e.Filter):
			out = append(out, i)
		}
	}
	return out
}

// c31Ret is the canonical result of a call. Writes: "true"/"false" (Subscribe: was new;
// Unsubscribe: existed), retain: "" (its return value is not part of the property).
// Reads: the observed content of the covered elements, "elem=value;...".
func c31ReadResult(s c31State, cov []int) string {
	var parts []string
	for _, i := range cov {
		if s[i] != "" {
			parts = append(parts, fmt.Sprintf("%d=%s", i, s[i]))
		}
	}
	return strings.Join(parts, ";")
}

// step applies op to s and says whether result ret is what the model allows.
// lenU / lenI: an Unsubscribe / InlineUnsubscribe of an absent subscription may report
// anything (used only to classify, never to accept); anyRet: write results not judged.
type c31Lenient struct{ U, I, AnyRet bool }

func c31Step(s c31State, o c31Op, ret string, l c31Lenient) (c31State, bool) {
	switch o.Kind {
	case "sub", "isub":
		want := "false"
		if s[o.Elem] == "" {
			want = "true"
		}
		s[o.Elem] = "1"
		return s, l.AnyRet || ret == want
	case "unsub", "iunsub":
		existed := s[o.Elem] != ""
		s[o.Elem] = ""
		if l.AnyRet || (!existed && ((o.Kind == "unsub" && l.U) || (o.Kind == "iunsub" && l.I))) {
			return s, true
		}
		return s, ret == fmt.Sprint(existed)
	case "retain":
		s[o.Elem] = o.Payload
		return s, true
	case "subscribers", "messages":
		return s, ret == c31ReadResult(s, o.covers())
	case "readelem":
		return s, ret == s[o.Elem]
	}
	return s, false
}

// ---- history + linearizability ----

type c31Call struct {
	Op        c31Op
	Thread    int
	Call, Ret int // logical clock
	Res       string
}

// c31Linearizable: Wing & Gong search with memoisation on (done set, model state).
func c31Linearizable(init c31State, h []c31Call, l c31Lenient) bool {
	n := len(h)
	if n > 30 {
		panic("history too long")
	}
	type key struct {
		done uint32
		s    c31State
	}
	dead := map[key]bool{}
	var rec func(done uint32, s c31State) bool
	rec = func(done uint32, s c31State) bool {
		if done == (uint32(1)<<n)-1 {
			return true
		}
		k := key{done, s}
		if dead[k] {
			return false
		}
		// minimal response time among pending calls: a call may go next only if it was invoked before that
		minRet := int(^uint(0) >> 1)
		for i := 0; i < n; i++ {
			if done&(1<<i) == 0 && h[i].Ret < minRet {
				minRet = h[i].Ret
			}
		}
		for i := 0; i < n; i++ {
			if done&(1<<i) != 0 || h[i].Call > minRet {
				continue
			}
			ns, ok := c31Step(s, h[i].Op, h[i].Res, l)
			if ok && rec(done|1<<i, ns) {
				return true
			}
		}
		dead[k] = true
		return false
	}
	return rec(0, init)
}

// c31BruteForce: independent cross-check by plain enumeration of all permutations that
// respect the real-time order (used for histories of at most 7 calls).
func c31BruteForce(init c31State, h []c31Call, l c31Lenient) bool {
	n := len(h)
	perm := make([]int, 0, n)
	used := make([]bool, n)
	var rec func() bool
	rec = func() bool {
		if len(perm) == n {
			s := init
			for _, i := range perm {
				var ok bool
				if s, ok = c31Step(s, h[i].Op, h[i].Res, l); !ok {
					return false
				}
			}
			return true
		}
		for i := 0; i < n; i++ {
			if used[i] {
				continue
			}
			// i may come next only if no unused call returned before i was invoked
			ok := true
			for j := 0; j < n; j++ {
				if !used[j] && j != i && h[j].Ret < h[i].Call {
					ok = false
					break
				}
			}
			if !ok {
				continue
			}
			used[i] = true
			perm = append(perm, i)
			if rec() {
				return true
			}
			perm = perm[:len(perm)-1]
			used[i] = false
		}
		return false
	}
	return rec()
}

// decompose replaces every multi-element read by one single-element read per covered
// element (same interval): what remains if a query is NOT required to be one atomic step.
func c31Decompose(h []c31Call, only func(c31Call) bool) []c31Call {
	var out []c31Call
	for _, c := range h {
		if (c.Op.Kind == "subscribers" || c.Op.Kind == "messages") && only(c) {
			vals := map[int]string{}
			for _, kv := range strings.Split(c.Res, ";") {
				if kv != "" {
					var i int
					var v string
					p := strings.SplitN(kv, "=", 2)
					fmt.Sscan(p[0], &i)
					v = p[1]
					vals[i] = v
				}
			}
			for _, e := range c.Op.covers() {
				out = append(out, c31Call{Op: c31Op{Kind: "readelem", Elem: e}, Thread: c.Thread, Call: c.Call, Ret: c.Ret, Res: vals[e]})
			}
			continue
		}
		out = append(out, c)
	}
	return out
}

func c31Filter(h []c31Call, keep func(c31Call) bool) []c31Call {
	var out []c31Call
	for _, c := range h {
		if keep(c) {
			out = append(out, c)
		}
	}
	return out
}

// c31Classify returns "" for a linearizable history, else the narrow key.
// final: index from which the calls are the driver's sequential final reads.
func c31Classify(init c31State, h []c31Call, final int) string {
	strict := c31Lenient{}
	if c31Linearizable(init, h, strict) {
		return ""
	}
	// 1. only the "existed" report of an Unsubscribe of an absent subscription?
	for _, l := range []struct {
		l   c31Lenient
		key string
	}{
		{c31Lenient{U: true}, "existed:unsubscribe-reports-true-for-absent-subscription"},
		{c31Lenient{I: true}, "existed:inline-unsubscribe-reports-true-for-absent-subscription"},
		{c31Lenient{U: true, I: true}, "existed:unsubscribe+inline-unsubscribe-report-true-for-absent-subscription"},
	} {
		if c31Linearizable(init, h, l.l) {
			return l.key
		}
	}
	len2 := c31Lenient{U: true, I: true}
	isFinal := func(c c31Call) bool { return c.Call >= final }
	conc := func(c c31Call) bool { return !isFinal(c) }
	// 2. the updates by themselves (no concurrent reads), judged by the final content
	writesAndFinal := c31Filter(h, func(c c31Call) bool { return !c.Op.isRead() || isFinal(c) })
	if !c31Linearizable(init, writesAndFinal, c31Lenient{AnyRet: true}) {
		// which way does the final content differ from every serial order?
		onlyWrites := c31Filter(h, func(c c31Call) bool { return !c.Op.isRead() })
		if c31Linearizable(init, append(append([]c31Call{}, onlyWrites...), c31FinalWeakened(h, final, true)...), c31Lenient{AnyRet: true}) {
			return "final-state:lost-entry"
		}
		return "final-state:differs-from-every-serial-order"
	}
	if !c31Linearizable(init, writesAndFinal, len2) {
		return "nonlinearizable:update-results"
	}
	// 3. concurrent reads. First every read on its own (with all updates and the final reads):
	name := map[string]string{"subscribers": "Subscribers", "messages": "Messages"}
	kinds := map[string]bool{}
	for i, r := range h {
		if !r.Op.isRead() || isFinal(r) {
			continue
		}
		kinds[name[r.Op.Kind]] = true
		one := c31Filter(h, func(c c31Call) bool { return !c.Op.isRead() || isFinal(c) || c == h[i] })
		if c31Linearizable(init, one, len2) {
			continue
		}
		if c31Linearizable(init, c31Decompose(one, conc), len2) {
			// every entry it returned is explained by some instant, but no single instant explains all of them
			return "nonlinearizable:multi-node-read:" + name[r.Op.Kind]
		}
		return "nonlinearizable:read-inexplicable-even-per-entry:" + name[r.Op.Kind]
	}
	var ks []string
	for k := range kinds {
		ks = append(ks, k)
	}
	sort.Strings(ks)
	// each read is explicable alone; together they are not. Reads of one kind suffice?
	for _, k := range ks {
		sub := c31Filter(h, func(c c31Call) bool { return !c.Op.isRead() || isFinal(c) || name[c.Op.Kind] == k })
		if !c31Linearizable(init, sub, len2) {
			h, ks = sub, []string{k}
			break
		}
	}
	if c31Linearizable(init, c31Decompose(h, conc), len2) {
		return "nonlinearizable:multi-node-reads-jointly:" + strings.Join(ks, "+")
	}
	// even entry by entry the reads order one update differently (new value seen, then old value)
	return "nonlinearizable:reads-disagree-on-one-update:" + strings.Join(ks, "+")
}

// c31FinalWeakened: the final reads as per-element reads, keeping only the elements that
// are PRESENT in the observed final content (so a missing entry is not judged).
func c31FinalWeakened(h []c31Call, final int, presentOnly bool) []c31Call {
	var out []c31Call
	for _, c := range c31Decompose(c31Filter(h, func(c c31Call) bool { return c.Call >= final }), func(c31Call) bool { return true }) {
		if c.Op.Kind == "readelem" && presentOnly && c.Res == "" {
			continue
		}
		out = append(out, c)
	}
	return out
}

// ---- programs ----

type c31Prog struct {
	Init    []int   // alphabet indices applied sequentially first
	Threads [][]int // alphabet indices
}

func (p c31Prog) String() string {
	f := func(ix []int) string {
		var s []string
		for _, i := range ix {
			s = append(s, c31Alphabet[i].String())
		}
		return strings.Join(s, "; ")
	}
	var th []string
	for _, t := range p.Threads {
		th = append(th, f(t))
	}
	return "init{" + f(p.Init) + "} " + strings.Join(th, " || ")
}

var c31InitsFlat = map[string][]int{
	"empty": {},
	"full":  {0, 1, 2, 6, 8}, // c1 a/b, c2 a/+, c1 $share/g/a/b, inline 1 a/b, retained a/b=p
	"some":  {0, 10},         // c1 a/b, retained a/c=q
}

// c31Programs: arg "<shape>:<init>[:r]"; shapes 2x1, 2x2 (1..2 ops per thread, unordered
// thread pairs), 3x1 (unordered triples), 3x1o (ordered triples); ":r" keeps only the
// programs that contain at least one query and one update (the others have no
// unsynchronised step: every update holds the root lock from start to end).
func c31Programs(arg string) []c31Prog {
	f := strings.Split(c31Use(arg), ":")
	shape, init := f[0], c31Inits[f[1]]
	needRW := len(f) > 2 && f[2] == "r"
	n := len(c31Alphabet)
	var seq1, seq12 [][]int
	for a := 0; a < n; a++ {
		seq1 = append(seq1, []int{a})
	}
	seq12 = append(seq12, seq1...)
	for a := 0; a < n; a++ {
		for b := 0; b < n; b++ {
			seq12 = append(seq12, []int{a, b})
		}
	}
	var out []c31Prog
	add := func(th ...[]int) {
		r, w := false, false
		for _, t := range th {
			for _, i := range t {
				if c31Alphabet[i].isRead() {
					r = true
				} else {
					w = true
				}
			}
		}
		if needRW && !(r && w) {
			return
		}
		out = append(out, c31Prog{Init: init, Threads: th})
	}
	switch shape {
	case "2x1":
		for _, a := range seq1 {
			for _, b := range seq1 {
				add(a, b)
			}
		}
	case "2x2":
		for i, a := range seq12 {
			for _, b := range seq12[i:] {
				if len(a)+len(b) > 2 {
					add(a, b)
				}
			}
		}
	case "3x1":
		for i, a := range seq1 {
			for j, b := range seq1[i:] {
				for _, c := range seq1[i+j:] {
					add(a, b, c)
				}
			}
		}
	case "3x1o":
		for _, a := range seq1 {
			for _, b := range seq1 {
				for _, c := range seq1 {
					add(a, b, c)
				}
			}
		}
	}
	return out
}

// ---- execution ----

type c31Index struct {
	x *mqtt.TopicsIndex
}

// exec performs one alphabet operation on the real index and canonicalises the result.
func (ix c31Index) exec(o c31Op) (res string, problem string) {
	e := c31Elems[o.Elem]
	switch o.Kind {
	case "sub":
		return fmt.Sprint(ix.x.Subscribe(e.Client, packets.Subscription{Filter: e.Filter, Qos: 1})), ""
	case "unsub":
		return fmt.Sprint(ix.x.Unsubscribe(e.Filter, e.Client)), ""
	case "isub":
		return fmt.Sprint(ix.x.InlineSubscribe(mqtt.InlineSubscription{Subscription: packets.Subscription{Filter: e.Filter, Identifier: e.ID}, Handler: func(*mqtt.Client, packets.Subscription, packets.Packet) {}})), ""
	case "iunsub":
		return fmt.Sprint(ix.x.InlineUnsubscribe(e.ID, e.Filter)), ""
	case "retain":
		ix.x.RetainMessage(packets.Packet{FixedHeader: packets.FixedHeader{Type: packets.Publish, Retain: true}, TopicName: e.Filter, Payload: []byte(o.Payload)})
		return "", ""
	case "subscribers":
		subs := ix.x.Subscribers(o.Arg)
		found := map[int]string{}
		var unknown []string
		lookup := func(kind byte, client string, id int, filter string) {
			for i, el := range c31Elems {
				if el.Kind == kind && el.Client == client && el.ID == id && (kind == 'p' || el.Filter == filter) {
					found[i] = "1"
					return
				}
			}
			unknown = append(unknown, fmt.Sprintf("%c:%s:%d:%s", kind, client, id, filter))
		}
		for client := range subs.Subscriptions {
			lookup('p', client, 0, "")
		}
		for filter, m := range subs.Shared {
			for client := range m {
				lookup('s', client, 0, filter)
			}
		}
		for id, s := range subs.InlineSubscriptions {
			lookup('i', "", id, s.Filter)
		}
		return c31FoundString(found), strings.Join(unknown, ",")
	case "messages":
		found := map[int]string{}
		var unknown []string
		for _, pk := range ix.x.Messages(o.Arg) {
			hit := false
			for i, el := range c31Elems {
				if el.Kind == 'r' && el.Filter == pk.TopicName {
					if _, dup := found[i]; dup {
						unknown = append(unknown, "duplicate:"+pk.TopicName)
					}
					found[i] = string(pk.Payload)
					hit = true
				}
			}
			if !hit {
				unknown = append(unknown, "r:"+pk.TopicName)
			}
		}
		return c31FoundString(found), strings.Join(unknown, ",")
	}
	panic("unknown op " + o.Kind)
}

func c31FoundString(found map[int]string) string {
	var idx []int
	for i := range found {
		idx = append(idx, i)
	}
	sort.Ints(idx)
	var parts []string
	for _, i := range idx {
		parts = append(parts, fmt.Sprintf("%d=%s", i, found[i]))
	}
	return strings.Join(parts, ";")
}

func c31Run(arg string) explore.RunFn {
	progs := c31Programs(arg)
	return func(prefix []int) explore.Outcome {
		c31Use(arg)
		x := zzvrt.Begin(prefix)
		x.SetExploring(true)
		x.EnvSite = func(site string) bool { return site == "c31-program" }
		defer x.End()
		o := explore.Outcome{Counters: map[string]int{}}
		pi := zzvrt.Choose("c31-program", len(progs)+1)
		if pi == 0 {
			o.Points, o.Obs, o.Divergence = x.Points, "empty-program", x.Divergence()
			return o
		}
		prog := progs[pi-1]
		ix := c31Index{mqtt.NewTopicsIndex()}
		var init c31State
		for _, i := range prog.Init {
			op := c31Alphabet[i]
			res, _ := ix.exec(op)
			var ok bool
			if init, ok = c31Step(init, op, res, c31Lenient{U: true, I: true}); !ok {
				o.Viol = append(o.Viol, explore.Violation{Key: "sequential:init-op-result", Msg: fmt.Sprintf("program %s: sequential %s returned %q", prog, op, res)})
			}
		}
		clock := 0
		var hist []c31Call
		var problems []string
		for ti, ops := range prog.Threads {
			ti, ops := ti, ops
			zzvrt.Go(fmt.Sprintf("t%d", ti), func() {
				for _, i := range ops {
					op := c31Alphabet[i]
					c := c31Call{Op: op, Thread: ti, Call: clock}
					clock++
					res, prob := ix.exec(op)
					c.Res, c.Ret = res, clock
					clock++
					if prob != "" {
						problems = append(problems, fmt.Sprintf("%s returned unknown entries %s", op, prob))
					}
					hist = append(hist, c)
				}
			})
		}
		x.Run()
		x.SetExploring(false)
		o.Viol = append(o.Viol, execViolations(x)...)
		if zzvrt.RaceMode {
			// race pass (-race worker binary): an unsynchronised access to index memory in this
			// schedule, e.g. a query iterating a map that an update is writing
			o.Viol = append(o.Viol, raceViolations(o.Counters)...)
		}
		final := clock
		// final reads: the whole observable content, sequentially
		for _, op := range c31Finals {
			c := c31Call{Op: op, Thread: -1, Call: clock}
			clock++
			res, prob := ix.exec(op)
			c.Res, c.Ret = res, clock
			clock++
			if prob != "" {
				problems = append(problems, fmt.Sprintf("final %s returned unknown entries %s", op, prob))
			}
			hist = append(hist, c)
		}
		// the retained map itself must agree with what Messages reports
		stored := map[int]string{}
		for topic, pk := range ix.x.Retained.GetAll() {
			for i, el := range c31Elems {
				if el.Kind == 'r' && el.Filter == topic {
					stored[i] = string(pk.Payload)
				}
			}
		}
		if all := hist[len(hist)-len(c31Finals)+c31AllRetained]; c31FoundString(stored) != all.Res {
			problems = append(problems, fmt.Sprintf("Retained map holds {%s} but %s reports {%s} at quiescence", c31FoundString(stored), all.Op, all.Res))
		}
		if len(o.Viol) == 0 {
			if len(problems) > 0 {
				o.Viol = append(o.Viol, explore.Violation{Key: "read-returns-unknown-or-inconsistent-entry", Msg: fmt.Sprintf("program %s: %s", prog, strings.Join(problems, "; ")), Trace: c31Trace(hist)})
			}
			key := c31Classify(init, hist, final)
			if len(hist) <= 4+len(c31Finals) {
				if bf := c31BruteForce(init, hist, c31Lenient{}); bf != (key == "") {
					o.Viol = append(o.Viol, explore.Violation{Key: "internal:linearizability-checkers-disagree", Msg: fmt.Sprintf("program %s: search says %q, permutation enumeration says linearizable=%v", prog, key, bf), Trace: c31Trace(hist)})
				}
				o.Counters["cross_checked_by_permutation_enumeration"] = 1
			}
			if key != "" {
				o.Viol = append(o.Viol, explore.Violation{Key: key, Msg: fmt.Sprintf("program %s: history is not linearizable w.r.t. the set/map model (initial content %v)", prog, init), Trace: c31Trace(hist)})
			}
		}
		// non-vacuity: overlapping calls, a read overlapping an update
		for i := range hist[:len(hist)-len(c31Finals)] {
			for j := range hist[:i] {
				a, b := hist[i], hist[j]
				if a.Thread != b.Thread && a.Call < b.Ret && b.Call < a.Ret {
					o.Counters["overlapping_call_pairs"]++
					if a.Op.isRead() != b.Op.isRead() {
						o.Counters["read_overlapping_update"]++
					}
				}
			}
		}
		o.Counters["programs_run"] = 1
		o.Points, o.Divergence, o.Steps = x.Points, x.Divergence(), x.Steps()
		o.Obs = fmt.Sprintf("%d|%s", pi, strings.Join(c31Trace(hist), " "))
		return o
	}
}

func c31Trace(h []c31Call) []string {
	var out []string
	for _, c := range h {
		who := fmt.Sprintf("t%d", c.Thread)
		if c.Thread < 0 {
			who = "final"
		}
		out = append(out, fmt.Sprintf("[%d,%d] %s %s -> {%s}", c.Call, c.Ret, who, c.Op, c.Res))
	}
	return out
}

func init() {
	explore.RegisterDFS("c31", c31Run)
	explore.Register("C31", func(c *explore.Ctx) {
		c.Rep.Level = "model_checking"
		c.Rep.Assumption("threads are serialised by the cooperative scheduler (sequentially consistent interleavings only); scheduling points: every Lock/RLock of the index (root, node, per-node maps, retained map); plain field accesses (retainPath) happen atomically with the preceding lock operation, which still yields every SC order of them")
		c.Rep.Assumption("model: set of (client, filter) subscriptions, set of inline (id, filter), map topic -> payload; matching by ref.Match (MQTT 4.7); the return value of RetainMessage is not judged (not part of the property)")
		c.Rep.Assumption("second universe (deep/...): subscriptions on a/b/c (client, inline) and a/b, retained messages on a, a/b, a/b/c, queries Subscribers(a/b/c), Messages(#), Messages(a/+), Messages(+); five initial contents in which a leaf's ancestors hold only a retained message or only a subscription; final reads go through the trie with wildcards as well as exact topics")
		c.Rep.Assumption("alphabet restricted to filters a/b, a/+, $share/g/a/b and topics a/b, a/c, on which the pinned sequential matcher and MQTT matching agree, so only concurrency effects and the existed/new reports are judged")
		a := newDfsAgg(c)
		pb := func(n int) explore.Bounds { return explore.Bounds{Preempt: n, Env: 1} }
		if c.Quick() {
			a.run("c31", "2x1:full", []explore.Bounds{pb(2), pb(3)}, 8*time.Second)
			a.run("c31", "2x1:empty", []explore.Bounds{pb(2), pb(3)}, 6*time.Second)
			a.run("c31", "3x1:full:r", []explore.Bounds{pb(1), pb(2)}, 14*time.Second)
			a.run("c31", "3x1:some:r", []explore.Bounds{pb(1), pb(2)}, 10*time.Second)
			a.run("c31", "2x2:full:r", []explore.Bounds{pb(1), pb(2)}, 18*time.Second)
			a.run("c31", "2x2:empty:r", []explore.Bounds{pb(1), pb(2)}, 14*time.Second)
			for _, in := range []string{"leaf+top", "leaf+mid", "rleaf+top", "leaf+sub", "all"} {
				a.run("c31", "deep/2x1:"+in, []explore.Bounds{pb(1), pb(2)}, 5*time.Second)
			}
		} else {
			for _, in := range []string{"full", "empty", "some"} {
				a.run("c31", "2x1:"+in, []explore.Bounds{pb(3), pb(4), pb(5)}, 40*time.Second)
			}
			for _, in := range []string{"full", "empty", "some"} {
				a.run("c31", "3x1o:"+in, []explore.Bounds{pb(2), pb(3)}, 70*time.Second)
			}
			for _, in := range []string{"full", "empty", "some"} {
				a.run("c31", "2x2:"+in, []explore.Bounds{pb(2), pb(3)}, 110*time.Second)
			}
			for _, in := range []string{"leaf+top", "leaf+mid", "rleaf+top", "leaf+sub", "all"} {
				a.run("c31", "deep/2x1:"+in, []explore.Bounds{pb(3), pb(4)}, 30*time.Second)
				a.run("c31", "deep/2x2:"+in+":r", []explore.Bounds{pb(1), pb(2)}, 60*time.Second)
			}
		}
		a.requireCounters("overlapping_call_pairs", "read_overlapping_update", "cross_checked_by_permutation_enumeration")
		// race pass: the query-vs-update programs again in the -race binary (see C33 for the
		// mechanism): "no serial order explains it" has a sibling that a sequentially consistent
		// scheduler cannot show - a query touching index memory while an update writes it
		if done, ok := raceModeBegin(c); ok {
			cc := *c
			cc.Workers = 6
			rb := []explore.Bounds{{Preempt: 0, Env: 1}, {Preempt: 1, Env: 1}}
			per := 25 * time.Second
			if !c.Quick() {
				rb = append(rb, explore.Bounds{Preempt: 2, Env: 1})
				per = 120 * time.Second
			}
			explore.IterateDFS(&cc, "c31", "2x1:full:r", rb, per)
			if !c.Quick() {
				explore.IterateDFS(&cc, "c31", "deep/2x1:all:r", rb, per)
			}
			done()
			c.Rep.Assumption("race pass: happens-before race detector on the same programs (2 threads x 1 op, query vs update), hand-offs invisible to the detector; a report counts only if both access sites are in mochi source files")
		}
	})
}
