package props

import (
	"fmt"
	"sort"
	"strings"

	mqtt "github.com/mochi-mqtt/server/v2"
	"github.com/mochi-mqtt/server/v2/listeners"
	"github.com/mochi-mqtt/server/v2/packets"

	"verif/explore"
	"verif/ref"
	"verif/world"
)

func exploreViolation(key, msg string) explore.Violation {
	return explore.Violation{Key: key, Msg: msg}
}

// Shared history driver of the storage properties C20 (restart fidelity) and C21 (crash
// consistency): a broker with ONE real storage back end behind the logging wrapper
// (stWrap), started like Server.Serve does (readStore, then the real listeners.Net on an
// in-memory listener; without the $SYS publication and the timer loop), three named clients with adversarial identifiers, and the
// restart procedure "Server.Close -> new Server + NEW hook instance on the same store ->
// Serve".
//
// Clients:  A = id "a:b" (v5)   B = id "a" (v4)   P = id "p" (v5, clean, publisher)
// Filters/topics: "c", "b:c" (so that ("a:b","c") and ("a","b:c") both spell a:b:c),
// "n" (subscription denied by the ACL hook).

type stClientDef struct {
	ID  string
	Ver byte
}

var stClients = map[string]stClientDef{"A": {"a:b", 5}, "B": {"a", 4}, "P": {"p", 5}, "Z": {"z", 5}}

const stSEI = 60       // session expiry interval of A's persistent connections (seconds)
const stMsgExpiry = 30 // message expiry interval of the "e" publishes (seconds)
const stTickMs = 40_000

// stScen is the scenario state shared by both properties: harness H + pools.
type stScen struct {
	*H
	Store *stStore
	Wrap  *stWrap
	Conns map[string]int      // connections opened per client name
	Up    map[string]bool     // harness view: connection open
	Mode  map[string]string   // last connect mode per client
	Pend  map[string][]uint16 // delivered and not yet acknowledged packet ids on the current connection
	Pubs  int
	Ticks int
	NSub  int
	NUns  int
	NAck  int
	NDisc int
	pid   uint16
	// every PUBLISH the clients saw, for the crash monitor: name -> list
	Seen map[string][]ref.Packet
}

// stWorldCfg builds the world configuration for a broker on hook (wrapped).
func stWorldCfg(wrap *stWrap, cfg any) world.Config {
	return world.Config{
		Hook: func(r *world.RecHook) {
			r.Quiet = true
			r.ACL = func(cl *mqtt.Client, topic string, write bool) bool { return write || topic != "n" }
		},
		Caps:     func(c *mqtt.Capabilities) {},
		Extra:    []mqtt.Hook{wrap},
		ExtraCfg: []any{cfg},
	}
}

// stStart creates the store-backed broker (fresh hook instance on store) and starts it
// through Server.Serve at virtual time atMs.
func stStart(store *stStore, atMs int64, tune func(w *stWrap)) (*H, *stWrap) {
	return stStartWith(nil, store, atMs, tune, nil)
}

// stStartWith: as stStart, under the schedule prefix of a schedule exploration (E3) and
// with a modified world configuration.
func stStartWith(prefix []int, store *stStore, atMs int64, tune func(w *stWrap), mod func(c *world.Config)) (*H, *stWrap) {
	hook, cfg := store.Hook()
	wrap := stNewWrap(hook)
	if tune != nil {
		tune(wrap)
	}
	wcfg := stWorldCfg(wrap, cfg)
	if mod != nil {
		mod(&wcfg)
	}
	h := &H{W: world.New(prefix, wcfg), Cl: map[string]*world.Client{}}
	if atMs > 0 {
		h.W.X.Advance(atMs)
	}
	// Server.Serve without its $SYS publication and event loop (housekeeping is driven by
	// the harness): read the store, then serve the in-memory listener through the real
	// listeners.Net, so that Server.Close later disconnects every client.
	l := &world.Listener{X: h.W.X}
	h.W.Listener = l
	if err := h.W.S.AddListener(listeners.NewNet("t1", l)); err != nil {
		panic(err)
	}
	h.W.Spawn("serve", func() {
		if err := h.W.S.VerifReadStore(); err != nil {
			h.Viol = append(h.Viol, exploreViolation("c20:readstore-error", "readStore failed: "+err.Error()))
		}
		h.W.S.Listeners.ServeAll(h.W.S.EstablishConnection)
	})
	h.W.Run()
	return h, wrap
}

func stNewScen(store *stStore, tune func(w *stWrap)) *stScen {
	h, wrap := stStart(store, 0, tune)
	return &stScen{H: h, Store: store, Wrap: wrap, Conns: map[string]int{}, Up: map[string]bool{}, Mode: map[string]string{},
		Pend: map[string][]uint16{}, Seen: map[string][]ref.Packet{}, pid: 100}
}

// stConnectPacket: mode k = resume (clean 0; v5: session expiry 60), c = clean start
// (v5: session expiry 60), n = v5 clean 0 without a session expiry property (session
// ends with the connection), x = clean, no expiry (ephemeral), r = like k with Receive
// Maximum 1 (v5: the second unacknowledged QoS>0 message is held back by the broker).
func stConnectPacket(name, mode string) ref.Packet {
	d := stClients[name]
	clean := mode == "c" || mode == "x"
	var props []ref.Prop
	if d.Ver == 5 && (mode == "k" || mode == "c" || mode == "r") {
		props = append(props, ref.Prop{ID: ref.PSessionExpiry, Num: stSEI})
	}
	if d.Ver == 5 && mode == "r" {
		props = append(props, ref.Prop{ID: ref.PReceiveMaximum, Num: 1})
	}
	return world.ConnectPacket(d.ID, d.Ver, clean, props...)
}

// dial connects name through the in-memory listener (real listeners.Net accept loop).
func (s *stScen) dial(name, mode string) []ref.Packet {
	return stDial(s.H, name, stConnectPacket(name, mode), true)
}

// stDial opens a connection for name (through the listener, or directly into
// EstablishConnection when the listener is closed) and returns what it received.
func stDial(h *H, name string, p ref.Packet, viaListener bool) []ref.Packet {
	var cl *world.Client
	if viaListener {
		c := h.W.Dial()
		cl = &world.Client{W: h.W, C: c, Ver: p.ProtoVer, ID: p.ClientID}
		c.Send(ref.Encode(p, p.ProtoVer, ref.EncOpts{}))
		h.W.Run()
	} else {
		cl = h.W.Connect(p)
	}
	h.Cl[name] = cl
	h.All = append(h.All, cl)
	got := cl.Poll()
	h.logf("%s: -> %s", name, p)
	h.logf("%s: <- %v", name, got)
	return got
}

func (s *stScen) notePublishes(name string, got []ref.Packet) {
	for _, p := range got {
		if p.Type == ref.PUBLISH {
			s.Seen[name] = append(s.Seen[name], p)
			if p.Qos > 0 {
				dup := false
				for _, x := range s.Pend[name] {
					dup = dup || x == p.PacketID
				}
				if !dup {
					s.Pend[name] = append(s.Pend[name], p.PacketID)
				}
			}
		}
	}
}

func (s *stScen) pollAll() {
	for _, n := range []string{"A", "B"} {
		if s.Cl[n] != nil {
			s.notePublishes(n, s.poll(n))
			if s.Cl[n].Closed() {
				s.Up[n] = false
			}
		}
	}
}

// apply executes one operation of the common alphabet.
func (s *stScen) apply(op string) {
	f := strings.Split(op, "|")
	switch f[0] {
	case "con": // con|N|mode
		n := f[1]
		s.Conns[n]++
		s.Mode[n] = f[2]
		s.Pend[n] = nil
		got := s.dial(n, f[2])
		s.Up[n] = len(got) > 0 && got[0].Type == ref.CONNACK && got[0].ReasonCode == 0
		s.notePublishes(n, got)
	case "dis": // client DISCONNECT
		n := f[1]
		s.NDisc++
		s.do(n, ref.Packet{Type: ref.DISCONNECT})
		if !s.Cl[n].Closed() {
			s.Cl[n].Drop()
		}
		s.Up[n] = false
		s.Pend[n] = nil
	case "drop":
		n := f[1]
		s.NDisc++
		s.Cl[n].Drop()
		s.logf("%s: connection dropped by peer", n)
		s.Up[n] = false
		s.Pend[n] = nil
	case "sub": // sub|N|filter|variant
		n, filter := f[1], f[2]
		s.NSub++
		s.pid++
		p := ref.Packet{Type: ref.SUBSCRIBE, PacketID: s.pid}
		if stClients[n].Ver == 5 && f[3] == "o" {
			p.Filters = []ref.Filter{{Filter: filter, Opts: ref.SubOpts(1, true, true, 1)}}
			p.Props = ref.Props{{ID: ref.PSubscriptionID, Num: 7}}
		} else if f[3] == "o" {
			p.Filters = []ref.Filter{{Filter: filter, Opts: 1}}
		} else {
			p.Filters = []ref.Filter{{Filter: filter, Opts: 0}}
		}
		s.notePublishes(n, s.do(n, p))
	case "unsub":
		n, filter := f[1], f[2]
		s.NUns++
		s.pid++
		s.notePublishes(n, s.do(n, ref.Packet{Type: ref.UNSUBSCRIBE, PacketID: s.pid, Filters: []ref.Filter{{Filter: filter}}}))
	case "pub": // pub|topic|retain|e[|s]  (e: 0 = no expiry, e = message expiry 30, clr = empty payload;
		// s: the SAME payload "s" on every such publish, content type and user property numbered per
		// publish instead, so that two publications differ in their properties and expiry only)
		s.Pubs++
		s.pid++
		payload, ct, uv := fmt.Sprintf("m%d", s.Pubs), "ct", "v"
		if len(f) > 4 && f[4] == "s" {
			payload, ct, uv = "s", fmt.Sprintf("ct%d", s.Pubs), fmt.Sprintf("v%d", s.Pubs)
		}
		p := ref.Packet{Type: ref.PUBLISH, Topic: f[1], Qos: 1, PacketID: s.pid, Retain: f[2] == "1", Payload: []byte(payload)}
		p.Props = ref.Props{{ID: ref.PPayloadFormat, Num: 1}, {ID: ref.PContentType, Str: ct}, {ID: ref.PResponseTopic, Str: "rt"},
			{ID: ref.PCorrelationData, Data: []byte("cd")}, {ID: ref.PUser, Str: "k", Val: uv}}
		switch f[3] {
		case "e":
			p.Props = append(ref.Props{{ID: ref.PPayloadFormat, Num: 1}, {ID: ref.PMessageExpiry, Num: stMsgExpiry}}, p.Props[1:]...)
		case "clr":
			p.Payload = nil
			p.Props = nil
		}
		s.do("P", p)
		s.pollAll()
	case "ack":
		n := f[1]
		s.NAck++
		id := s.Pend[n][0]
		s.Pend[n] = s.Pend[n][1:]
		s.notePublishes(n, s.do(n, ref.Packet{Type: ref.PUBACK, PacketID: id}))
	case "tick":
		s.Ticks++
		s.W.Tick(stTickMs)
		s.W.Housekeep()
		s.logf("clock +%ds, housekeeping", stTickMs/1000)
		s.pollAll()
	default:
		panic("storage scenario: unknown op " + op)
	}
	if s.Cl["A"] != nil && s.Cl["A"].Closed() {
		s.Up["A"] = false
	}
	if s.Cl["B"] != nil && s.Cl["B"].Closed() {
		s.Up["B"] = false
	}
}

func (s *stScen) modelKey() string {
	return fmt.Sprintf("|conns=%v up=%v mode=%v pend=%v pubs=%d ticks=%d sub=%d uns=%d ack=%d disc=%d", s.Conns, s.Up, s.Mode, s.Pend, s.Pubs, s.Ticks, s.NSub, s.NUns, s.NAck, s.NDisc)
}

// stShutdown does to the sessions and to the store exactly what Server.Close does, in the
// same order: every client of the listener is disconnected through the server's own
// DisconnectClient(ErrServerShuttingDown) (= closeListenerClients), the connection
// handlers run to completion (wills, OnDisconnect, clean-up of ended sessions reach the
// store), then the hook is stopped (= Hooks.Stop, the store is closed). The server's
// done channel is deliberately left open: since "fix: a client established while the
// server is closing is disconnected" a closed Server refuses new clients, and the
// shut-down broker has to live on in memory as the never-restarted twin.
func stShutdown(h *H, wrap *stWrap) {
	returned := false
	h.W.Spawn("shutdown", func() {
		for _, cl := range h.W.S.Clients.GetByListener("t1") {
			_ = h.W.S.DisconnectClient(cl, packets.ErrServerShuttingDown)
		}
		returned = true
	})
	h.W.Run()
	open := 0
	for _, cl := range h.W.S.Clients.GetAll() {
		if !cl.Closed() && !cl.Net.Inline {
			open++
		}
	}
	if wrap != nil {
		_ = wrap.Stop()
	}
	h.logf("shutdown: all clients disconnected (returned=%v, still open=%d), storage hook stopped", returned, open)
	if !returned || open > 0 {
		h.Viol = append(h.Viol, exploreViolation("internal:shutdown-incomplete", fmt.Sprintf("shutdown did not complete: returned=%v open=%d", returned, open)))
	}
}

// ---------------------------------------------------------------------------------
// Session-level state of a broker, as the property lists it.

type stItems map[string]map[string]string

type stSession struct {
	Sessions stItems // client id -> expiry settings
	Subs     stItems // "id|filter" -> options (client's own subscription list)
	Index    stItems // "id|filter" -> options (topic index)
	Retained stItems // topic -> message
	Inflight stItems // "id|pid" -> message
	Lapsed   map[string]bool
}

func stSubFields(sub packets.Subscription) map[string]string {
	return map[string]string{"Qos": fmt.Sprint(sub.Qos), "NoLocal": fmt.Sprint(sub.NoLocal), "RetainAsPublished": fmt.Sprint(sub.RetainAsPublished),
		"RetainHandling": fmt.Sprint(sub.RetainHandling), "Identifier": fmt.Sprint(sub.Identifier)}
}

func stMsgFields(pk packets.Packet) map[string]string {
	pr := pk.Properties
	return map[string]string{
		"Type": fmt.Sprint(pk.FixedHeader.Type), "Qos": fmt.Sprint(pk.FixedHeader.Qos), "Retain": fmt.Sprint(pk.FixedHeader.Retain),
		"TopicName": pk.TopicName, "Payload": fmt.Sprintf("%q", pk.Payload), "PacketID": fmt.Sprint(pk.PacketID),
		"PayloadFormat": fmt.Sprint(pr.PayloadFormat), "PayloadFormatFlag": fmt.Sprint(pr.PayloadFormatFlag), "ContentType": pr.ContentType, "ResponseTopic": pr.ResponseTopic,
		"CorrelationData": fmt.Sprintf("%q", pr.CorrelationData), "User": fmt.Sprint(pr.User), "MessageExpiryInterval": fmt.Sprint(pr.MessageExpiryInterval),
		"SubscriptionIdentifier": fmt.Sprint(pr.SubscriptionIdentifier),
		// what decides expiry behaviour inside the broker
		"Created": fmt.Sprint(pk.Created), "Expiry": fmt.Sprint(pk.Expiry), "ProtocolVersion": fmt.Sprint(pk.ProtocolVersion),
	}
}

// stSessionState extracts sessions, subscriptions, retained and in-flight messages.
func stSessionState(s *mqtt.Server, now int64) stSession {
	out := stSession{Sessions: stItems{}, Subs: stItems{}, Index: stItems{}, Retained: stItems{}, Inflight: stItems{}, Lapsed: map[string]bool{}}
	for id, cl := range s.Clients.GetAll() {
		if cl.Net.Inline {
			continue
		}
		out.Sessions[id] = map[string]string{
			"ProtocolVersion": fmt.Sprint(cl.Properties.ProtocolVersion), "Clean": fmt.Sprint(cl.Properties.Clean),
			"SessionExpiryInterval":     fmt.Sprint(cl.Properties.Props.SessionExpiryInterval),
			"SessionExpiryIntervalFlag": fmt.Sprint(cl.Properties.Props.SessionExpiryIntervalFlag),
			"Connected":                 fmt.Sprint(!cl.Closed()),
		}
		if cl.Properties.ProtocolVersion == 5 && cl.Properties.Props.SessionExpiryIntervalFlag && cl.StopTime() > 0 &&
			cl.StopTime()+int64(cl.Properties.Props.SessionExpiryInterval) < now {
			out.Lapsed[id] = true // expiry instant already passed: whether it survives a restart is unspecified
		}
		for f, sub := range cl.State.Subscriptions.GetAll() {
			out.Subs[id+"|"+f] = stSubFields(sub)
		}
		for _, pk := range cl.State.Inflight.GetAll(false) {
			out.Inflight[fmt.Sprintf("%s|%d", id, pk.PacketID)] = stMsgFields(pk)
		}
	}
	for k, sub := range s.VerifIndexSubscriptions() {
		out.Index[k] = stSubFields(sub)
	}
	for t, pk := range s.Topics.Retained.GetAll() {
		out.Retained[t] = stMsgFields(pk)
	}
	return out
}

func (x stSession) String() string {
	var b strings.Builder
	w := func(name string, it stItems) {
		ks := make([]string, 0, len(it))
		for k := range it {
			ks = append(ks, k)
		}
		sort.Strings(ks)
		fmt.Fprintf(&b, "%s{", name)
		for _, k := range ks {
			fmt.Fprintf(&b, "%s:[%s] ", k, strings.TrimSpace(stLine(it[k])))
		}
		b.WriteString("} ")
	}
	w("sessions", x.Sessions)
	w("subs", x.Subs)
	w("index", x.Index)
	w("retained", x.Retained)
	w("inflight", x.Inflight)
	return b.String()
}

func stOwner(key string) string {
	if i := strings.LastIndexByte(key, '|'); i >= 0 {
		return key[:i]
	}
	return key
}

// stDiffItems compares one kind of item between the state before the restart and after
// it. Only fields in must are compared. skip(key) = unspecified items.
type stDelta struct {
	What string // missing | extra | field:<name>
	Key  string
	Msg  string
}

func stDiffItems(before, after stItems, must []string, skip func(key string) bool) []stDelta {
	var out []stDelta
	keys := map[string]bool{}
	for k := range before {
		keys[k] = true
	}
	for k := range after {
		keys[k] = true
	}
	for _, k := range explore_sortedKeys(keys) {
		if skip != nil && skip(k) {
			continue
		}
		b, okb := before[k]
		a, oka := after[k]
		switch {
		case okb && !oka:
			out = append(out, stDelta{"missing", k, fmt.Sprintf("%s [%s] is gone after the restart", k, strings.TrimSpace(stLine(b)))})
		case !okb && oka:
			out = append(out, stDelta{"extra", k, fmt.Sprintf("%s [%s] exists after the restart but did not before", k, strings.TrimSpace(stLine(a)))})
		default:
			for _, f := range must {
				if b[f] != a[f] {
					out = append(out, stDelta{"field:" + f, k, fmt.Sprintf("%s: %s was %q before the restart, is %q after it", k, f, b[f], a[f])})
				}
			}
		}
	}
	return out
}

// ---------------------------------------------------------------------------------
// Probes: observable behaviour, recorded as step -> lines "identity | k=v k=v".

type stObs map[string][]string

func stPropsText(ps ref.Props, skip ...byte) string {
	var parts []string
	for _, p := range ps {
		sk := false
		for _, s := range skip {
			sk = sk || p.ID == s
		}
		if !sk {
			parts = append(parts, p.String())
		}
	}
	sort.Strings(parts)
	return strings.Join(parts, ",")
}

func stPubLine(who string, p ref.Packet, withPID bool) string {
	exp := "none"
	if n, ok := p.Props.Num(ref.PMessageExpiry); ok {
		exp = fmt.Sprint(n)
	}
	var ids []string
	for _, x := range p.Props.All(ref.PSubscriptionID) {
		ids = append(ids, fmt.Sprint(x.Num))
	}
	sort.Strings(ids)
	id := fmt.Sprintf("%s PUBLISH topic=%s payload=%q", who, p.Topic, p.Payload)
	if withPID {
		id += fmt.Sprintf(" pid=%d", p.PacketID)
	}
	return fmt.Sprintf("%s | qos=%d retain=%v dup=%v expiry=%s subids=%s props=%s", id, p.Qos, p.Retain, p.Dup, exp, strings.Join(ids, "+"),
		stPropsText(p.Props, ref.PMessageExpiry, ref.PSubscriptionID))
}

// stReconnect reconnects every known session id with clean start 0 and records Session
// Present and the retransmissions.
func stReconnect(h *H, step string, obs stObs) {
	for _, n := range []string{"A", "B"} {
		got := stDial(h, n, stConnectPacket(n, "k"), false)
		id := stClients[n].ID
		if len(got) == 0 || got[0].Type != ref.CONNACK {
			obs[step] = append(obs[step], fmt.Sprintf("connack %s | absent=true", id))
			continue
		}
		obs[step] = append(obs[step], fmt.Sprintf("connack %s | sp=%v code=%d", id, got[0].SessionPresent, got[0].ReasonCode))
		for _, p := range got[1:] {
			switch p.Type {
			case ref.PUBLISH:
				obs[step] = append(obs[step], "resend to "+stPubLine(id, p, true))
			default:
				obs[step] = append(obs[step], fmt.Sprintf("resend to %s %s pid=%d | ", id, ref.TypeNames[p.Type&15], p.PacketID))
			}
		}
	}
}

// stProbeRetained: a fresh client subscribes to '#' and records the retained messages.
func stProbeRetained(h *H, name, step string, obs stObs) {
	d := stClients[name]
	if h.Cl[name] == nil {
		stDial(h, name, world.ConnectPacket(d.ID+step, d.Ver, true), false)
	}
	got := h.do(name, ref.Packet{Type: ref.SUBSCRIBE, PacketID: 900, Filters: []ref.Filter{{Filter: "#", Opts: ref.SubOpts(1, false, true, 0)}}})
	for _, p := range pubsOf(got) {
		obs[step] = append(obs[step], stPubLine("retained", p, false))
		if p.Qos > 0 {
			h.do(name, ref.Packet{Type: ref.PUBACK, PacketID: p.PacketID})
		}
	}
	h.do(name, ref.Packet{Type: ref.UNSUBSCRIBE, PacketID: 901, Filters: []ref.Filter{{Filter: "#"}}})
}

// stProbePublish: a fresh client publishes one QoS 1 message per topic; deliveries to the
// reconnected sessions are recorded (packet ids of NEW deliveries are not compared).
func stProbePublish(h *H, step string, obs stObs) {
	if h.Cl["Z"] == nil {
		stDial(h, "Z", world.ConnectPacket("z"+step, 5, true), false)
	}
	for i, t := range []string{"c", "b:c", "n"} {
		h.do("Z", ref.Packet{Type: ref.PUBLISH, Topic: t, Qos: 1, PacketID: uint16(910 + i), Payload: []byte("probe-" + t)})
		for _, n := range []string{"A", "B"} {
			if h.Cl[n] == nil {
				continue
			}
			for _, p := range pubsOf(h.poll(n)) {
				obs[step] = append(obs[step], "delivery to "+stPubLine(stClients[n].ID, p, false))
				if p.Qos > 0 {
					h.do(n, ref.Packet{Type: ref.PUBACK, PacketID: p.PacketID})
				}
			}
		}
	}
}

// stProbes runs one of the two probe programmes on a broker whose connections are all
// closed (after Server.Close, or freshly restarted):
//
//	X: retained snapshot; reconnect all (clean 0): Session Present + retransmissions;
//	   publish to every topic and observe deliveries.
//	Y: +35 s, housekeeping, retained snapshot (message expiry 30 s has passed);
//	   +35 s (70 s in total), housekeeping, reconnect all: Session Present (session
//	   expiry 60 s has passed).
func stProbes(h *H, prog string) stObs {
	obs := stObs{}
	switch prog {
	case "X":
		stProbeRetained(h, "Z", "retained", obs)
		stReconnect(h, "reconnect", obs)
		stProbePublish(h, "publish", obs)
	case "Y":
		h.W.Tick(35_000)
		h.W.Housekeep()
		stProbeRetained(h, "Z", "retained-after-35s", obs)
		h.W.Tick(35_000)
		h.W.Housekeep()
		stReconnect(h, "reconnect-after-70s", obs)
	}
	for k := range obs {
		sort.Strings(obs[k])
	}
	return obs
}

// stCompareObs compares twin and restarted observations; returns (step, what, message).
func stCompareObs(twin, restarted stObs) []stDelta {
	var out []stDelta
	steps := map[string]bool{}
	for k := range twin {
		steps[k] = true
	}
	for k := range restarted {
		steps[k] = true
	}
	split := func(line string) (string, map[string]string) {
		i := strings.Index(line, " | ")
		if i < 0 {
			return line, nil
		}
		m := map[string]string{}
		for _, kv := range strings.Fields(line[i+3:]) {
			if j := strings.IndexByte(kv, '='); j >= 0 {
				m[kv[:j]] = kv[j+1:]
			}
		}
		return line[:i], m
	}
	for _, step := range explore_sortedKeys(steps) {
		ta, tb := map[string][]string{}, map[string][]string{}
		ids := map[string]bool{}
		for _, l := range twin[step] {
			id, _ := split(l)
			ta[id] = append(ta[id], l)
			ids[id] = true
		}
		for _, l := range restarted[step] {
			id, _ := split(l)
			tb[id] = append(tb[id], l)
			ids[id] = true
		}
		for _, id := range explore_sortedKeys(ids) {
			a, b := ta[id], tb[id]
			kind := strings.Fields(id)[0]
			switch {
			case len(a) > 0 && len(b) == 0:
				out = append(out, stDelta{step + ":missing:" + kind, id, fmt.Sprintf("[%s] never-restarted twin: %v; restarted broker: nothing", step, a)})
			case len(a) == 0 && len(b) > 0:
				out = append(out, stDelta{step + ":extra:" + kind, id, fmt.Sprintf("[%s] restarted broker: %v; never-restarted twin: nothing", step, b)})
			case len(a) != len(b):
				out = append(out, stDelta{step + ":count:" + kind, id, fmt.Sprintf("[%s] twin %v, restarted %v", step, a, b)})
			default:
				for i := range a {
					_, ma := split(a[i])
					_, mb := split(b[i])
					if d := stFieldDiff(ma, mb); len(d) > 0 {
						out = append(out, stDelta{step + ":differs:" + kind + ":" + strings.Join(d, ","), id, fmt.Sprintf("[%s] twin %q, restarted %q", step, a[i], b[i])})
					}
				}
			}
		}
	}
	return out
}
