package props

import (
	"fmt"
	"strconv"
	"strings"
	"time"

	mqtt "github.com/mochi-mqtt/server/v2"

	"verif/explore"
	"verif/ref"
	"verif/world"
)

// C07: every request that requires a response gets one (or the connection is closed):
// QoS1 PUBLISH -> PUBACK, QoS2 PUBLISH -> PUBREC, PUBREL -> PUBCOMP, SUBSCRIBE -> SUBACK,
// UNSUBSCRIBE -> UNSUBACK, PINGREQ -> PINGRESP; the response carries the request's packet
// identifier and SUBACK/UNSUBACK one reason code per filter, in order.
//
// E2 scenario "c07" (arg "v=4,n=<pool>" | "v=5,n=<pool>"): one client r of that protocol version.
// The only hook is the recording hook with an ACL relation that denies everything under
// topic level "d" (read and write); no hook rejects packets. Ops (pool: N requests):
//   pub:<qos>:<topic>:<id>    qos in {1,2}; topic in {x, $SYS/x, d, x/+}; id in {1,2}
//   rel:<id>                   PUBREL for a known or unknown id
//   sub:<id>:<list>            list of 1-2 filters from {x, bad(x/#/y), d, $share/g/x+NoLocal (v5)}
//   unsub:<id>:<list>          list from {x, zz}
//   ping
//   ack:<id>                   PUBACK for one of the broker's outbound ids (no response required; frees the id)
//   reconn                     (once) network drop + new connection resuming the session
// r subscribes to x with QoS 1 and never acknowledges, so the broker's own outbound
// packet ids (1,2,...) are outstanding and collide with the ids r uses for requests;
// inbound QoS 2 ids stay held until PUBREL.
//
// Oracle (reference model = this file, written from the property statement): after each
// request, at quiescence, either the connection is closed or the new output contains
// exactly one packet of the required response type carrying the request's packet id; no
// other response-type packet; SUBACK has len(filters) codes (UNSUBACK too for v5); the
// code at position i must be a failure for an invalid/denied/NoLocal-shared filter, and
// must be a success not above the requested QoS or a failure for a good filter (this is
// what makes a permutation of the codes visible); UNSUBACK v5: 0x11 must not be
// reported for a subscription that exists nor 0x00 for one that does not.

type c07Model struct {
	subs map[string]bool
	n    int
}

var c07Filters = map[string]ref.Filter{
	"x":   {Filter: "x", Opts: 1},
	"bad": {Filter: "x/#/y", Opts: 1},
	"d":   {Filter: "d", Opts: 1},
	"snl": {Filter: "$share/g/x", Opts: ref.SubOpts(1, true, false, 0)},
	"zz":  {Filter: "zz", Opts: 0},
	"y2":  {Filter: "y", Opts: 2},
}

func c07TopicClass(t string) string {
	switch {
	case strings.HasPrefix(t, "$SYS"):
		return "$SYS-topic"
	case t == "d":
		return "acl-denied-topic"
	case strings.ContainsAny(t, "+#"):
		return "wildcard-topic"
	}
	return "plain-topic"
}

func c07Run(arg string) explore.HistFn {
	ver := byte(4)
	if strings.Contains(arg, "v=5") {
		ver = 5
	}
	maxN := 5
	if i := strings.Index(arg, "n="); i >= 0 {
		maxN, _ = strconv.Atoi(arg[i+2 : i+3])
	}
	conn := func() ref.Packet {
		if ver == 5 {
			return v5connect("r", false, 0, 60)
		}
		return world.ConnectPacket("r", ver, false)
	}
	return func(hist []string) explore.HistResult {
		h := newH(world.Config{
			Hook: func(rh *world.RecHook) {
				rh.ACL = func(cl *mqtt.Client, topic string, write bool) bool {
					return !(topic == "d" || strings.HasPrefix(topic, "d/"))
				}
			},
		})
		m := &c07Model{subs: map[string]bool{}}
		counters := map[string]int{}
		h.connect("r", conn())
		r := h.Cl["r"]
		reconns := 0
		runHist(h, hist, func(op string) {
			f := fields(op)
			m.n++
			var req ref.Packet
			var want byte
			var id uint16
			shape := f[0]
			switch f[0] {
			case "reconn":
				// network drop, then a new connection resuming the session (no request/response pair)
				reconns++
				r.Drop()
				got := h.connect("r", conn())
				r = h.Cl["r"]
				if h.last {
					counters["reconnects"]++
					if len(got) > 0 && got[0].Type == ref.CONNACK && got[0].SessionPresent {
						counters["reconnects-session-present"]++
					}
				}
				return
			case "ack":
				// PUBACK from r for one of the broker's outbound ids: needs no response
				n, _ := strconv.Atoi(f[1])
				h.do("r", ref.Packet{Type: ref.PUBACK, PacketID: uint16(n)})
				return
			case "pub":
				q := byte(f[1][0] - '0')
				n, _ := strconv.Atoi(f[3])
				id = uint16(n)
				req = pub(f[2], "m"+strconv.Itoa(m.n), q, id)
				want = ref.PUBACK
				if q == 2 {
					want = ref.PUBREC
				}
				shape = fmt.Sprintf("publish-qos%d:%s", q, c07TopicClass(f[2]))
			case "rel":
				n, _ := strconv.Atoi(f[1])
				id = uint16(n)
				req = ref.Packet{Type: ref.PUBREL, PacketID: id}
				want = ref.PUBCOMP
				shape = "pubrel"
			case "sub", "unsub":
				n, _ := strconv.Atoi(f[1])
				id = uint16(n)
				var fl []ref.Filter
				for _, k := range strings.Split(f[2], ",") {
					fl = append(fl, c07Filters[k])
				}
				if f[0] == "sub" {
					req = ref.Packet{Type: ref.SUBSCRIBE, PacketID: id, Filters: fl}
					want = ref.SUBACK
					shape = "subscribe"
				} else {
					req = ref.Packet{Type: ref.UNSUBSCRIBE, PacketID: id, Filters: fl}
					want = ref.UNSUBACK
					shape = "unsubscribe"
				}
			case "ping":
				req = ref.Packet{Type: ref.PINGREQ}
				want = ref.PINGRESP
				shape = "pingreq"
			}
			got := h.do("r", req)
			if r.Err != nil {
				// undecodable broker output is C23's subject; nothing can be judged here
				if h.last {
					counters["undecodable-output"]++
				}
				return
			}
			if r.Closed() {
				if h.last {
					counters["closed:"+shape]++
				}
				return
			}
			var match, stray []ref.Packet
			for _, p := range got {
				switch p.Type {
				case ref.PUBACK, ref.PUBREC, ref.PUBCOMP, ref.SUBACK, ref.UNSUBACK, ref.PINGRESP:
					if p.Type == want && (want == ref.PINGRESP || p.PacketID == id) {
						match = append(match, p)
					} else {
						stray = append(stray, p)
					}
				}
			}
			if h.last {
				counters["answered:"+shape] += len(match)
			}
			if len(match) == 0 {
				extra := ""
				if len(stray) > 0 {
					extra = ":answered-with-" + ref.TypeNames[stray[0].Type]
					if stray[0].Type == want {
						extra = ":answered-with-other-packet-id"
					}
					h.violate("wrongresponse:"+shape+extra, "%s (id %d) needs %s with its packet id, connection stays open, received %v", req, id, ref.TypeNames[want], got)
					return
				}
				h.violate("noresponse:"+shape+extra, "%s (id %d) got no %s with its packet id and the connection stays open; received %v", req, id, ref.TypeNames[want], got)
				return
			}
			if len(match) > 1 {
				h.violate("duplicate-response:"+shape, "%s answered %d times: %v", req, len(match), got)
			}
			if len(stray) > 0 {
				h.violate("stray-response:"+shape+":"+ref.TypeNames[stray[0].Type], "%s: besides its response the broker sent %v", req, stray)
			}
			ack := match[0]
			switch f[0] {
			case "sub":
				if len(ack.ReasonCodes) != len(req.Filters) {
					h.violate("suback:code-count", "%s: SUBACK has %d reason codes for %d filters: %v", req, len(ack.ReasonCodes), len(req.Filters), ack)
					return
				}
				for i, fl := range req.Filters {
					rc := ack.ReasonCodes[i]
					good := ref.ValidFilter(fl.Filter) && !strings.HasPrefix(fl.Filter, "d") && !(ref.IsShare(fl.Filter) && fl.Opts&4 != 0)
					switch {
					case !good && rc < 0x80:
						h.violate("suback:success-for-refused-filter", "%s: filter #%d %q must be refused but its reason code is %#x (codes %x)", req, i, fl.Filter, rc, ack.ReasonCodes)
					case good && rc < 0x80 && rc > fl.Opts&3:
						h.violate("suback:granted-above-requested", "%s: filter #%d %q granted %#x above requested %d (codes %x)", req, i, fl.Filter, rc, fl.Opts&3, ack.ReasonCodes)
					}
					if good && rc < 0x80 {
						m.subs[fl.Filter] = true
					}
				}
				if h.last && len(req.Filters) > 1 {
					counters["multi-filter-suback"]++
				}
			case "unsub":
				if ver == 5 {
					if len(ack.ReasonCodes) != len(req.Filters) {
						h.violate("unsuback:code-count", "%s: UNSUBACK has %d reason codes for %d filters: %v", req, len(ack.ReasonCodes), len(req.Filters), ack)
						return
					}
					for i, fl := range req.Filters {
						rc := ack.ReasonCodes[i]
						if m.subs[fl.Filter] && rc == 0x11 {
							h.violate("unsuback:no-subscription-existed-for-existing", "%s: filter #%d %q is subscribed but code is 0x11 (codes %x)", req, i, fl.Filter, ack.ReasonCodes)
						}
						if !m.subs[fl.Filter] && rc == 0x00 {
							h.violate("unsuback:success-for-missing", "%s: filter #%d %q is not subscribed but code is 0x00 (codes %x)", req, i, fl.Filter, ack.ReasonCodes)
						}
					}
				}
				for i, fl := range req.Filters {
					if ver != 5 || ack.ReasonCodes[i] < 0x80 {
						delete(m.subs, fl.Filter)
					}
				}
			}
		})
		var next []string
		if m.n < maxN && !r.Closed() && r.Err == nil {
			for _, q := range []string{"1", "2"} {
				for _, ti := range []string{"x:1", "x:2", "y:1", "$SYS/x:1", "d:1", "x/+:1"} {
					next = append(next, "pub:"+q+":"+ti)
				}
			}
			next = append(next, "rel:1", "rel:2", "ping", "ack:1", "ack:2")
			if reconns < 1 {
				next = append(next, "reconn")
			}
			lists := []string{"x", "x,bad", "d,x", "bad", "y2,x"}
			if ver == 5 {
				lists = append(lists, "snl,x")
			}
			for _, id := range []string{"1", "2"} {
				for _, l := range lists {
					next = append(next, "sub:"+id+":"+l)
				}
				next = append(next, "unsub:"+id+":x", "unsub:"+id+":zz,x")
			}
		}
		key := h.W.State() + fmt.Sprintf("|model:%v|%d|%d|closed=%v", explore.SortedKeys(m.subs), m.n, reconns, r.Closed())
		res := h.finish(key, next)
		res.Counters = counters
		return res
	}
}

func init() {
	explore.RegisterBFS("c07", c07Run)
	explore.Register("C07", func(c *explore.Ctx) {
		c.Rep.Level = "model_checking"
		c.Rep.Assumption("one request at a time, broker run to quiescence under the deterministic default schedule (sequential histories)")
		c.Rep.Assumption("state = reflective dump of *Server plus reference-model state; two histories are merged only if byte-identical")
		c.Rep.Assumption("no hook rejects packets; the ACL relation denies read and write below topic level 'd'")
		if c.Quick() {
			explore.RunBFS(c, "c07", "v=5,n=5", 0, 35*time.Second)
			explore.RunBFS(c, "c07", "v=4,n=5", 0, 35*time.Second)
		} else {
			explore.RunBFS(c, "c07", "v=5,n=7", 0, 5*time.Minute+30*time.Second)
			explore.RunBFS(c, "c07", "v=4,n=7", 0, 5*time.Minute+30*time.Second)
		}
		c07NonVacuity(c)
	})
}

// c07NonVacuity folds the scenario counters into the report and requires that every
// request kind was answered at least once and that collisions happened.
func c07NonVacuity(c *explore.Ctx) {
	// counters are stored per scenario by RunBFS; nothing to add here except a sanity note.
	c.Rep.Set("rule", "per scenario counters: answered:<request shape> = requests judged answered, closed:<shape> = requests after which the broker closed the connection")
}
