package props

import (
	"fmt"
	"strconv"
	"strings"
	"time"

	mqtt "github.com/mochi-mqtt/server/v2"

	"verif/explore"
	"verif/ref"
	"verif/world"
)

// C07: every request that requires a response gets one (or the connection is closed):
// QoS1 PUBLISH -> PUBACK, QoS2 PUBLISH -> PUBREC, PUBREL -> PUBCOMP, SUBSCRIBE -> SUBACK,
// UNSUBSCRIBE -> UNSUBACK, PINGREQ -> PINGRESP; the response carries the request's packet
// identifier and SUBACK/UNSUBACK one reason code per filter, in order.
//
// Two parts: E2 (sequential histories, below) and E3 (scenario "c07r" further down: the
// requests race deliveries to the same connection, every interleaving up to a delay bound).
//
// E2 scenario "c07" (arg "v=4,n=<pool>" | "v=5,n=<pool>"): one client r of that protocol version.
// The only hook is the recording hook with an ACL relation that denies everything under
// topic level "d" (read and write); no hook rejects packets. Ops (pool: N requests):
//   pub:<qos>:<topic>:<id>    qos in {1,2}; topic in {x, $SYS/x, d, x/+}; id in {1,2}
//   rel:<id>                   PUBREL for a known or unknown id
//   sub:<id>:<list>            list of 1-2 filters from {x, bad(x/#/y), d, $share/g/x+NoLocal (v5)}
//   unsub:<id>:<list>          list from {x, zz}
//   ping
//   ack:<id>                   PUBACK for one of the broker's outbound ids (no response required; frees the id)
//   reconn                     (once) network drop + new connection resuming the session
// Arg suffix ",mps=<M>" (v5): r announces Maximum Packet Size M in CONNECT (and again on the
// resuming reconnect). The broker must not send a packet larger than M, so an
// acknowledgement that cannot be made to fit (SUBACK/UNSUBACK: one reason code per filter,
// 5+k bytes for k filters) leaves it only the other branch of the property: close the
// connection. Additional filter lists in that scenario:
//   big       M-4 distinct valid filters t/0.. : the acknowledgement needs M+1 bytes
//   fit       M-5 filters (t/0, bad, t/2, ...): the acknowledgement needs exactly M bytes
// A request whose acknowledgement exceeds M is classified separately
// (shape suffix ":ack-exceeds-maximum-packet-size").
// r subscribes to x with QoS 1 and never acknowledges, so the broker's own outbound
// packet ids (1,2,...) are outstanding and collide with the ids r uses for requests;
// inbound QoS 2 ids stay held until PUBREL.
//
// Oracle (reference model = this file, written from the property statement): after each
// request, at quiescence, either the connection is closed or the new output contains
// exactly one packet of the required response type carrying the request's packet id; no
// other response-type packet; SUBACK has len(filters) codes (UNSUBACK too for v5); the
// code at position i must be a failure for an invalid/denied/NoLocal-shared filter, and
// must be a success not above the requested QoS or a failure for a good filter (this is
// what makes a permutation of the codes visible); UNSUBACK v5: 0x11 must not be
// reported for a subscription that exists nor 0x00 for one that does not.

type c07Model struct {
	subs map[string]bool
	// filters whose subscription state is unknown to the model: they were named in a
	// SUBSCRIBE / UNSUBSCRIBE that was not answered (already reported); nothing is
	// demanded of their UNSUBACK codes until an acknowledgement settles them again
	unknown map[string]bool
	n       int
}

var c07Filters = map[string]ref.Filter{
	"x":   {Filter: "x", Opts: 1},
	"bad": {Filter: "x/#/y", Opts: 1},
	"d":   {Filter: "d", Opts: 1},
	"snl": {Filter: "$share/g/x", Opts: ref.SubOpts(1, true, false, 0)},
	"zz":  {Filter: "zz", Opts: 0},
	"y2":  {Filter: "y", Opts: 2},
}

// c07List expands a filter list name: comma separated keys of c07Filters, or "big" / "fit"
// (lists sized against the client's Maximum Packet Size mps, see the scenario description).
func c07List(name string, mps int) []ref.Filter {
	var fl []ref.Filter
	switch name {
	case "big", "fit":
		n := mps - 4
		if name == "fit" {
			n = mps - 5
		}
		for i := 0; i < n; i++ {
			f := ref.Filter{Filter: "t/" + strconv.Itoa(i), Opts: byte(i % 3)}
			if name == "fit" && i == 1 {
				f = c07Filters["bad"]
			}
			fl = append(fl, f)
		}
		return fl
	}
	for _, k := range strings.Split(name, ",") {
		fl = append(fl, c07Filters[k])
	}
	return fl
}

// c07AckSize: the smallest encoding of the acknowledgement a request requires (no reason
// string, no user properties; those are optional and the sender must leave them out when
// they do not fit, MQTT 5 section 3.9.2.1.2 / 3.4.2.2.2). Computed from the MQTT specification.
func c07AckSize(rq ref.Packet, ver byte) int {
	body := 0
	switch rq.Type {
	case ref.PINGREQ:
		body = 0
	case ref.PUBLISH, ref.PUBREL:
		body = 2 // reason code and property length may be omitted for reason 0x00
	case ref.SUBSCRIBE:
		body = 2 + len(rq.Filters)
		if ver == 5 {
			body++ // property length
		}
	case ref.UNSUBSCRIBE:
		body = 2
		if ver == 5 {
			body += 1 + len(rq.Filters)
		}
	}
	n := 1
	for x := body; x >= 128; x /= 128 {
		n++
	}
	return 1 + n + body
}

// c07Oversize: the acknowledgement of rq cannot be sent to a client that announced Maximum
// Packet Size mps (0: none announced).
func c07Oversize(rq ref.Packet, ver byte, mps int) bool {
	return ver == 5 && mps > 0 && c07AckSize(rq, ver) > mps
}

const c07OversizeSuffix = ":ack-exceeds-maximum-packet-size"

func c07TopicClass(t string) string {
	switch {
	case strings.HasPrefix(t, "$SYS"):
		return "$SYS-topic"
	case t == "d":
		return "acl-denied-topic"
	case strings.ContainsAny(t, "+#"):
		return "wildcard-topic"
	}
	return "plain-topic"
}

func c07Run(arg string) explore.HistFn {
	ver := byte(4)
	if strings.Contains(arg, "v=5") {
		ver = 5
	}
	maxN := 5
	if i := strings.Index(arg, "n="); i >= 0 {
		maxN, _ = strconv.Atoi(arg[i+2 : i+3])
	}
	mps := 0
	if i := strings.Index(arg, "mps="); i >= 0 && ver == 5 {
		fmt.Sscanf(arg[i:], "mps=%d", &mps)
	}
	conn := func() ref.Packet {
		if ver == 5 {
			p := v5connect("r", false, 0, 60)
			if mps > 0 {
				p.Props = append(p.Props, ref.Prop{ID: ref.PMaximumPacketSize, Num: uint32(mps)})
			}
			return p
		}
		return world.ConnectPacket("r", ver, false)
	}
	return func(hist []string) explore.HistResult {
		h := newH(world.Config{
			Hook: func(rh *world.RecHook) {
				rh.ACL = func(cl *mqtt.Client, topic string, write bool) bool {
					return !(topic == "d" || strings.HasPrefix(topic, "d/"))
				}
			},
		})
		m := &c07Model{subs: map[string]bool{}, unknown: map[string]bool{}}
		counters := map[string]int{}
		h.connect("r", conn())
		r := h.Cl["r"]
		reconns := 0
		runHist(h, hist, func(op string) {
			f := fields(op)
			m.n++
			var req ref.Packet
			var want byte
			var id uint16
			shape := f[0]
			switch f[0] {
			case "reconn":
				// network drop, then a new connection resuming the session (no request/response pair)
				reconns++
				r.Drop()
				got := h.connect("r", conn())
				r = h.Cl["r"]
				if h.last {
					counters["reconnects"]++
					if len(got) > 0 && got[0].Type == ref.CONNACK && got[0].SessionPresent {
						counters["reconnects-session-present"]++
					}
				}
				return
			case "ack":
				// PUBACK from r for one of the broker's outbound ids: needs no response
				n, _ := strconv.Atoi(f[1])
				h.do("r", ref.Packet{Type: ref.PUBACK, PacketID: uint16(n)})
				return
			case "pub":
				q := byte(f[1][0] - '0')
				n, _ := strconv.Atoi(f[3])
				id = uint16(n)
				req = pub(f[2], "m"+strconv.Itoa(m.n), q, id)
				want = ref.PUBACK
				if q == 2 {
					want = ref.PUBREC
				}
				shape = fmt.Sprintf("publish-qos%d:%s", q, c07TopicClass(f[2]))
			case "rel":
				n, _ := strconv.Atoi(f[1])
				id = uint16(n)
				req = ref.Packet{Type: ref.PUBREL, PacketID: id}
				want = ref.PUBCOMP
				shape = "pubrel"
			case "sub", "unsub":
				n, _ := strconv.Atoi(f[1])
				id = uint16(n)
				fl := c07List(f[2], mps)
				if f[0] == "sub" {
					req = ref.Packet{Type: ref.SUBSCRIBE, PacketID: id, Filters: fl}
					want = ref.SUBACK
					shape = "subscribe"
				} else {
					req = ref.Packet{Type: ref.UNSUBSCRIBE, PacketID: id, Filters: fl}
					want = ref.UNSUBACK
					shape = "unsubscribe"
				}
			case "ping":
				req = ref.Packet{Type: ref.PINGREQ}
				want = ref.PINGRESP
				shape = "pingreq"
			}
			if c07Oversize(req, ver, mps) {
				shape += c07OversizeSuffix
				if h.last {
					counters["requests-with-oversize-ack"]++
				}
			}
			got := h.do("r", req)
			if r.Err != nil {
				// undecodable broker output is C23's subject; nothing can be judged here
				if h.last {
					counters["undecodable-output"]++
				}
				return
			}
			if r.Closed() {
				if h.last {
					counters["closed:"+shape]++
				}
				return
			}
			var match, stray []ref.Packet
			for _, p := range got {
				switch p.Type {
				case ref.PUBACK, ref.PUBREC, ref.PUBCOMP, ref.SUBACK, ref.UNSUBACK, ref.PINGRESP:
					if p.Type == want && (want == ref.PINGRESP || p.PacketID == id) {
						match = append(match, p)
					} else {
						stray = append(stray, p)
					}
				}
			}
			if h.last {
				counters["answered:"+shape] += len(match)
			}
			if len(match) == 0 {
				for _, fl := range req.Filters {
					m.unknown[fl.Filter] = true
				}
				extra := ""
				if len(stray) > 0 {
					extra = ":answered-with-" + ref.TypeNames[stray[0].Type]
					if stray[0].Type == want {
						extra = ":answered-with-other-packet-id"
					}
					h.violate("wrongresponse:"+shape+extra, "%s (id %d) needs %s with its packet id, connection stays open, received %v", req, id, ref.TypeNames[want], got)
					return
				}
				h.violate("noresponse:"+shape+extra, "%s (id %d) got no %s with its packet id and the connection stays open; received %v", req, id, ref.TypeNames[want], got)
				return
			}
			if len(match) > 1 {
				h.violate("duplicate-response:"+shape, "%s answered %d times: %v", req, len(match), got)
			}
			if len(stray) > 0 {
				h.violate("stray-response:"+shape+":"+ref.TypeNames[stray[0].Type], "%s: besides its response the broker sent %v", req, stray)
			}
			ack := match[0]
			switch f[0] {
			case "sub":
				if len(ack.ReasonCodes) != len(req.Filters) {
					h.violate("suback:code-count", "%s: SUBACK has %d reason codes for %d filters: %v", req, len(ack.ReasonCodes), len(req.Filters), ack)
					return
				}
				for i, fl := range req.Filters {
					rc := ack.ReasonCodes[i]
					good := ref.ValidFilter(fl.Filter) && !strings.HasPrefix(fl.Filter, "d") && !(ref.IsShare(fl.Filter) && fl.Opts&4 != 0)
					switch {
					case !good && rc < 0x80:
						h.violate("suback:success-for-refused-filter", "%s: filter #%d %q must be refused but its reason code is %#x (codes %x)", req, i, fl.Filter, rc, ack.ReasonCodes)
					case good && rc < 0x80 && rc > fl.Opts&3:
						h.violate("suback:granted-above-requested", "%s: filter #%d %q granted %#x above requested %d (codes %x)", req, i, fl.Filter, rc, fl.Opts&3, ack.ReasonCodes)
					}
					if good && rc < 0x80 {
						m.subs[fl.Filter] = true
						delete(m.unknown, fl.Filter)
					}
				}
				if h.last && len(req.Filters) > 1 {
					counters["multi-filter-suback"]++
				}
			case "unsub":
				if ver == 5 {
					if len(ack.ReasonCodes) != len(req.Filters) {
						h.violate("unsuback:code-count", "%s: UNSUBACK has %d reason codes for %d filters: %v", req, len(ack.ReasonCodes), len(req.Filters), ack)
						return
					}
					for i, fl := range req.Filters {
						rc := ack.ReasonCodes[i]
						if m.unknown[fl.Filter] {
							continue
						}
						if m.subs[fl.Filter] && rc == 0x11 {
							h.violate("unsuback:no-subscription-existed-for-existing", "%s: filter #%d %q is subscribed but code is 0x11 (codes %x)", req, i, fl.Filter, ack.ReasonCodes)
						}
						if !m.subs[fl.Filter] && rc == 0x00 {
							h.violate("unsuback:success-for-missing", "%s: filter #%d %q is not subscribed but code is 0x00 (codes %x)", req, i, fl.Filter, ack.ReasonCodes)
						}
					}
				}
				for i, fl := range req.Filters {
					if ver != 5 || ack.ReasonCodes[i] < 0x80 {
						delete(m.subs, fl.Filter)
						delete(m.unknown, fl.Filter)
					}
				}
			}
		})
		var next []string
		if m.n < maxN && !r.Closed() && r.Err == nil {
			for _, q := range []string{"1", "2"} {
				for _, ti := range []string{"x:1", "x:2", "y:1", "$SYS/x:1", "d:1", "x/+:1"} {
					next = append(next, "pub:"+q+":"+ti)
				}
			}
			next = append(next, "rel:1", "rel:2", "ping", "ack:1", "ack:2")
			if reconns < 1 {
				next = append(next, "reconn")
			}
			lists := []string{"x", "x,bad", "d,x", "bad", "y2,x"}
			if ver == 5 {
				lists = append(lists, "snl,x")
			}
			for _, id := range []string{"1", "2"} {
				for _, l := range lists {
					next = append(next, "sub:"+id+":"+l)
				}
				next = append(next, "unsub:"+id+":x", "unsub:"+id+":zz,x")
			}
			if mps > 0 {
				next = append(next, "sub:1:big", "sub:2:big", "sub:1:fit", "unsub:1:big", "unsub:2:fit")
			}
		}
		key := h.W.State() + fmt.Sprintf("|model:%v|%v|%d|%d|closed=%v", explore.SortedKeys(m.subs), explore.SortedKeys(m.unknown), m.n, reconns, r.Closed())
		res := h.finish(key, next)
		res.Counters = counters
		return res
	}
}

// ---- E3: requests racing deliveries to the same connection ----
//
// DFS scenario "c07r" (arg "v5:<act>+<act>+..." | "v4:..."): client a (that protocol
// version, persistent session, Receive Maximum 2 for v5) is subscribed to x with QoS 1 and
// holds one unacknowledged message (broker's outbound id 1); b is a v4 publisher. All
// packets of the named actions are handed to the connections before the broker runs
// (several packets of one client arrive in one segment); every interleaving of the
// broker's threads (a's reader, a's write loop, b's reader, ...) up to the delay bound is
// executed. The requests of a race the deliveries that b's publishes queue for a's
// write loop, so two writers compete for a's connection.
//
// Arg prefix "v5m:": as v5, and a announces Maximum Packet Size 16 (actions bigsubA, bigunsubA:
// the acknowledgement cannot be sent, the broker has to close; fitsubA: it just fits).
//
// Oracle, at quiescence after the explored phase, for every client and every interleaving:
// connection closed, or every request sent in the phase has exactly one response of the
// required type with its packet identifier in the bytes the broker wrote to that
// connection (SUBACK, and UNSUBACK for v5: one reason code per filter); no response-type
// packet without a request. Non-vacuity counters: responses seen before / after the racing
// delivery on a's connection.

type c07Act struct {
	who string // "a" | "b"
	pks []ref.Packet
}

var c07Acts = map[string]c07Act{
	"pingA":   {"a", []ref.Packet{{Type: ref.PINGREQ}}},
	"subA":    {"a", []ref.Packet{sub(3, "y/#", 1)}},
	"sub2A":   {"a", []ref.Packet{{Type: ref.SUBSCRIBE, PacketID: 5, Filters: []ref.Filter{{Filter: "y/#", Opts: 1}, {Filter: "x/#/bad", Opts: 1}, {Filter: "z", Opts: 0}}}}},
	"subxA":   {"a", []ref.Packet{sub(6, "x", 1)}}, // re-subscribe to the topic being published
	"unsubA":  {"a", []ref.Packet{{Type: ref.UNSUBSCRIBE, PacketID: 4, Filters: []ref.Filter{{Filter: "x"}}}}},
	"unsubzA": {"a", []ref.Packet{{Type: ref.UNSUBSCRIBE, PacketID: 7, Filters: []ref.Filter{{Filter: "zz"}, {Filter: "y/#"}}}}},
	"pubA2":   {"a", []ref.Packet{pub("x", "n1", 2, 9)}},             // delivered to a itself as well
	"pubA1":   {"a", []ref.Packet{pub("z", "n2", 1, 8)}},             // no subscriber
	"pubAs":   {"a", []ref.Packet{pub("$SYS/z", "n3", 1, 10)}},       // refused topic, still acknowledged
	"relA":    {"a", []ref.Packet{{Type: ref.PUBREL, PacketID: 11}}}, // unknown id
	"ackA":    {"a", []ref.Packet{{Type: ref.PUBACK, PacketID: 1}}},  // no response required; frees send quota
	// with arg prefix "v5m:" a announces Maximum Packet Size c07RaceMPS: the SUBACK / UNSUBACK of
	// these cannot be sent, the SUBACK of fitsubA is exactly as large as allowed
	"bigsubA":   {"a", []ref.Packet{{Type: ref.SUBSCRIBE, PacketID: 12, Filters: c07List("big", c07RaceMPS)}}},
	"bigunsubA": {"a", []ref.Packet{{Type: ref.UNSUBSCRIBE, PacketID: 13, Filters: c07List("big", c07RaceMPS)}}},
	"fitsubA":   {"a", []ref.Packet{{Type: ref.SUBSCRIBE, PacketID: 14, Filters: c07List("fit", c07RaceMPS)}}},
	"pubB":      {"b", []ref.Packet{pub("x", "m2", 1, 2)}},
	"pubB0":     {"b", []ref.Packet{pub("x", "m3", 0, 0)}},
	"pubB2":     {"b", []ref.Packet{pub("x", "m4", 2, 3)}},
	"pingB":     {"b", []ref.Packet{{Type: ref.PINGREQ}}},
}

const c07RaceMPS = 16

func c07Shape(p ref.Packet) string {
	switch p.Type {
	case ref.PUBLISH:
		return fmt.Sprintf("publish-qos%d", p.Qos)
	case ref.PUBREL:
		return "pubrel"
	case ref.SUBSCRIBE:
		return "subscribe"
	case ref.UNSUBSCRIBE:
		return "unsubscribe"
	case ref.PINGREQ:
		return "pingreq"
	}
	return ""
}

// c07Want: the response type a request requires (0: none).
func c07Want(p ref.Packet) byte {
	switch p.Type {
	case ref.PUBLISH:
		switch p.Qos {
		case 1:
			return ref.PUBACK
		case 2:
			return ref.PUBREC
		}
	case ref.PUBREL:
		return ref.PUBCOMP
	case ref.SUBSCRIBE:
		return ref.SUBACK
	case ref.UNSUBSCRIBE:
		return ref.UNSUBACK
	case ref.PINGREQ:
		return ref.PINGRESP
	}
	return 0
}

var c07ResponseTypes = map[byte]bool{ref.PUBACK: true, ref.PUBREC: true, ref.PUBCOMP: true, ref.SUBACK: true, ref.UNSUBACK: true, ref.PINGRESP: true}

// c07Judge compares the requests one client sent in the concurrent phase with what the
// broker wrote to its connection in that phase.
func c07Judge(name string, cl *world.Client, mps int, reqs []ref.Packet, got []ref.Packet, counters map[string]int) []explore.Violation {
	var out []explore.Violation
	if cl.Err != nil {
		counters["undecodable-output"]++ // C23's subject
		return nil
	}
	if cl.Closed() {
		counters["closed:"+name]++
		return nil
	}
	add := func(key, f string, a ...any) {
		out = append(out, explore.Violation{Key: key, Msg: fmt.Sprintf("client %s (v%d): ", name, cl.Ver) + fmt.Sprintf(f, a...)})
	}
	used := make([]bool, len(got))
	firstPub := -1
	for i, p := range got {
		if p.Type == ref.PUBLISH && firstPub < 0 {
			firstPub = i
		}
	}
	for _, rq := range reqs {
		want := c07Want(rq)
		if want == 0 {
			continue
		}
		shape := c07Shape(rq)
		if c07Oversize(rq, cl.Ver, mps) {
			shape += c07OversizeSuffix
			counters["requests-with-oversize-ack"]++
		}
		at := -1
		for i, p := range got {
			if !used[i] && p.Type == want && (want == ref.PINGRESP || p.PacketID == rq.PacketID) {
				at = i
				break
			}
		}
		if at < 0 {
			add("race:noresponse:"+shape, "%s got no %s with its packet id although the connection stays open; the broker wrote %v", rq, ref.TypeNames[want], got)
			continue
		}
		used[at] = true
		counters["answered:"+shape]++
		if firstPub >= 0 {
			if at < firstPub {
				counters["response-before-delivery"]++
			} else {
				counters["response-after-delivery"]++
			}
		}
		ack := got[at]
		switch {
		case want == ref.SUBACK && len(ack.ReasonCodes) != len(rq.Filters):
			add("race:suback:code-count", "%s: SUBACK has %d reason codes for %d filters: %v", rq, len(ack.ReasonCodes), len(rq.Filters), ack)
		case want == ref.UNSUBACK && cl.Ver == 5 && len(ack.ReasonCodes) != len(rq.Filters):
			add("race:unsuback:code-count", "%s: UNSUBACK has %d reason codes for %d filters: %v", rq, len(ack.ReasonCodes), len(rq.Filters), ack)
		}
		if want == ref.SUBACK && len(ack.ReasonCodes) == len(rq.Filters) {
			for i, fl := range rq.Filters {
				if !ref.ValidFilter(fl.Filter) && ack.ReasonCodes[i] < 0x80 {
					add("race:suback:success-for-refused-filter", "%s: filter #%d %q must be refused but its reason code is %#x (codes %x)", rq, i, fl.Filter, ack.ReasonCodes[i], ack.ReasonCodes)
				}
				if ref.ValidFilter(fl.Filter) && ack.ReasonCodes[i] < 0x80 && ack.ReasonCodes[i] > fl.Opts&3 {
					add("race:suback:granted-above-requested", "%s: filter #%d %q granted %#x above requested %d (codes %x)", rq, i, fl.Filter, ack.ReasonCodes[i], fl.Opts&3, ack.ReasonCodes)
				}
			}
		}
	}
	for i, p := range got {
		if c07ResponseTypes[p.Type] && !used[i] {
			add("race:stray-response:"+ref.TypeNames[p.Type], "%v was written without a request it answers (requests %v, output %v)", p, reqs, got)
		}
	}
	return out
}

func c07RunDFS(arg string) explore.RunFn {
	ver := byte(5)
	if strings.HasPrefix(arg, "v4:") {
		ver = 4
	}
	mpsA := 0
	if strings.HasPrefix(arg, "v5m:") {
		mpsA = c07RaceMPS
	}
	acts := splitActs(arg[strings.Index(arg, ":")+1:])
	return func(prefix []int) explore.Outcome {
		w := world.New(prefix, world.Config{})
		defer w.End()
		w.Serve()
		w.Run()
		dial := func(p ref.Packet) *world.Client {
			c := w.Dial()
			cl := &world.Client{W: w, C: c, Ver: p.ProtoVer, ID: p.ClientID}
			c.Send(ref.Encode(p, p.ProtoVer, ref.EncOpts{}))
			w.Run()
			return cl
		}
		ca := world.ConnectPacket("a", 4, false)
		if ver == 5 {
			ca = v5connect("a", false, 2, 60)
			if mpsA > 0 {
				ca.Props = append(ca.Props, ref.Prop{ID: ref.PMaximumPacketSize, Num: uint32(mpsA)})
			}
		}
		cls := map[string]*world.Client{"a": dial(ca), "b": dial(world.ConnectPacket("b", 4, true))}
		cls["a"].Do(sub(1, "x", 1))
		cls["b"].Do(pub("x", "m1", 1, 1))
		names := []string{"a", "b"}
		base := map[string]int{}
		for _, n := range names {
			cls[n].Poll()
			base[n] = len(cls[n].Recv)
		}
		reqs := map[string][]ref.Packet{}
		for _, a := range acts {
			act, ok := c07Acts[a]
			if !ok {
				panic("c07r: unknown action " + a)
			}
			for _, p := range act.pks {
				cls[act.who].Send(p)
				reqs[act.who] = append(reqs[act.who], p)
			}
		}
		w.Explore(true)
		w.Run()
		w.Explore(false)
		o := explore.Outcome{Points: w.X.Points, Divergence: w.X.Divergence(), Steps: w.X.Steps(), Counters: map[string]int{}}
		o.Viol = runtimeViolations(w)
		var obs strings.Builder
		for _, n := range names {
			cl := cls[n]
			cl.Poll()
			got := cl.Recv[base[n]:]
			m := 0
			if n == "a" {
				m = mpsA
			}
			o.Viol = append(o.Viol, c07Judge(n, cl, m, reqs[n], got, o.Counters)...)
			fmt.Fprintf(&obs, "%s(closed=%v):%v; ", n, cl.Closed(), got)
		}
		o.Obs = obs.String()
		return o
	}
}

// c07Races: request-vs-delivery races. Quick tier: the first group under PB<=2.
var c07RacesQuick = []string{
	"v5:pingA+pubB", "v5:subA+pubB", "v5:unsubA+pubB", "v5:pubA2+pubB", "v5:pubA1+pubB0",
	"v5:pingA+subA+pubB+pubB0", "v4:pingA+pubB", "v4:sub2A+pubB0",
}

var c07RacesThorough = []string{
	"v5:ackA+pubB", "v5:sub2A+pubB", "v5:subxA+pubB", "v5:unsubzA+pubB0", "v5:pubAs+pubB", "v5:relA+pubB", "v5:pingA+pubB2", "v5:pingA+pubB0",
	"v5:pubA1+unsubA+pubB+pubB0", "v5:pingA+ackA+pubB", "v5:pingA+pingB+pubB",
	"v4:subA+pubB", "v4:unsubA+pubB", "v4:pubA2+pubB", "v4:relA+pubB0", "v4:pingA+subA+pubB+pubB0",
	"v5m:bigsubA+pubB", "v5m:bigunsubA+pingA+pubB0", "v5m:fitsubA+pubB", "v5m:pingA+pubAs+pubB",
}

func init() {
	explore.RegisterBFS("c07", c07Run)
	explore.RegisterDFS("c07r", c07RunDFS)
	explore.Register("C07", func(c *explore.Ctx) {
		c.Rep.Level = "model_checking"
		c.Rep.Assumption("one request at a time, broker run to quiescence under the deterministic default schedule (sequential histories)")
		c.Rep.Assumption("state = reflective dump of *Server plus reference-model state; two histories are merged only if byte-identical")
		c.Rep.Assumption("no hook rejects packets; the ACL relation denies read and write below topic level 'd'")
		c.Rep.Assumption("Maximum Packet Size scenarios: the client announces 24 (16 in the race scenarios and one thorough history scenario); the smallest encoding of an acknowledgement (no reason string / user properties) decides whether it can be sent")
		c.Rep.Assumption("E3 part (c07r): threads are serialised by the cooperative scheduler (sequentially consistent interleavings only); every interleaving up to the stated delay bound; scheduling points as in C32")
		// First the Maximum Packet Size scenario: its decisive histories are short (the oversize
		// acknowledgement is at depth 1) and it costs a few seconds.
		var mst *explore.BFSStats
		if c.Quick() {
			mst = explore.RunBFS(c, "c07", "v=5,n=3,mps=24", 0, 12*time.Second)
		} else {
			mst = explore.RunBFS(c, "c07", "v=5,n=5,mps=24", 0, 60*time.Second)
			// a smaller maximum: error acknowledgements lose their reason string instead of the connection
			explore.RunBFS(c, "c07", "v=5,n=4,mps=16", 0, 20*time.Second)
		}
		if mst.States > 1 && mst.Counters["requests-with-oversize-ack"] == 0 {
			c.Rep.Add(explore.Violation{Key: "internal:vacuous:c07-oversize-ack", Msg: "the Maximum Packet Size scenario never sent a request whose acknowledgement exceeds the client's maximum"})
		}
		// Then E3: it is small (a cap of a few seconds per scenario, PB<=2 needs about a second)
		// and must not be starved by the history search on a loaded machine.
		c07Races(c)
		if c.Quick() {
			// on a loaded machine the two searches share what is left of the tier's budget
			b := 35 * time.Second
			if half := (c.Left() - 2*time.Second) / 2; half < b {
				b = half
			}
			explore.RunBFS(c, "c07", "v=5,n=5", 0, b)
			explore.RunBFS(c, "c07", "v=4,n=5", 0, 35*time.Second)
		} else {
			// the two history searches share what the race scenarios left of the tier's budget
			b := 5*time.Minute + 30*time.Second
			if half := (c.Left() - 10*time.Second) / 2; half < b {
				b = half
			}
			explore.RunBFS(c, "c07", "v=5,n=7", 0, b)
			explore.RunBFS(c, "c07", "v=4,n=7", 0, b)
		}
		c07NonVacuity(c)
	})
}

// c07Races runs the request-vs-delivery race scenarios (E3) and checks their non-vacuity:
// over the scenarios explored to PB>=2 a response must have been seen both before and
// after the racing delivery on the same connection.
func c07Races(c *explore.Ctx) {
	scen := append([]string{}, c07RacesQuick...)
	// One pass with delay bound 2 (it contains the executions of bounds 0 and 1): every pass
	// starts c.Workers processes, and the passes for the smaller bounds would cost more than
	// the exploration itself.
	bounds := []explore.Bounds{{Preempt: 2}}
	per := 6 * time.Second
	if !c.Quick() {
		scen = append(scen, c07RacesThorough...)
		bounds = append(bounds, explore.Bounds{Preempt: 3})
		per = 6 * time.Second
	}
	var before, after int64
	deep := 0
	for _, s := range scen {
		if c.Expired() {
			c.Rep.Capped("scenario c07r:" + s + " not started (deadline)")
			continue
		}
		done, st := explore.IterateDFS(c, "c07r", s, bounds, per)
		if done != nil && done.Preempt >= 2 && st != nil {
			deep++
			before += st.Counters["response-before-delivery"]
			after += st.Counters["response-after-delivery"]
		}
	}
	c.Rep.Count("c07r_response_before_delivery", before)
	c.Rep.Count("c07r_response_after_delivery", after)
	if deep > 0 && (before == 0 || after == 0) {
		c.Rep.Add(explore.Violation{Key: "internal:c07r-vacuous", Msg: fmt.Sprintf("the race scenarios never produced both orders of response and delivery on one connection (before=%d after=%d over %d scenarios)", before, after, deep)})
	}
}

// c07NonVacuity folds the scenario counters into the report and requires that every
// request kind was answered at least once and that collisions happened.
func c07NonVacuity(c *explore.Ctx) {
	// counters are stored per scenario by RunBFS; nothing to add here except a sanity note.
	c.Rep.Set("rule", "per scenario counters: answered:<request shape> = requests judged answered, closed:<shape> = requests after which the broker closed the connection")
}
