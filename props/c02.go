package props

import (
	"encoding/json"
	"fmt"
	"sort"
	"strings"
	"sync"

	mqtt "github.com/mochi-mqtt/server/v2"
	"github.com/mochi-mqtt/server/v2/packets"

	"verif/explore"
	"verif/ref"
)

// C02: retained messages returned for a filter are exactly the retained topics it matches, once each.

func c02Retain(x *mqtt.TopicsIndex, topic, payload string) {
	x.RetainMessage(packets.Packet{FixedHeader: packets.FixedHeader{Type: packets.Publish, Retain: true}, TopicName: topic, Payload: []byte(payload)})
}

func c02Shape(filter, topic string, miss bool) string {
	if !miss && topic[0] == '$' && (filter[0] == '+' || filter[0] == '#') {
		return "$topic~leading-wildcard"
	}
	if miss && strings.HasSuffix(filter, "/#") && ref.Match(strings.TrimSuffix(filter, "/#"), topic) {
		return "hash~parent"
	}
	return "other"
}

func c02Compare(x *mqtt.TopicsIndex, retained map[string]string, filters []string, rep *explore.Report, phase string, ops any) (nontrivial int) {
	for _, f := range filters {
		got := map[string]int{}
		for _, pk := range x.Messages(f) {
			got[pk.TopicName+"="+string(pk.Payload)]++
		}
		want := map[string]int{}
		for t, p := range retained {
			if ref.Match(f, t) {
				want[t+"="+p] = 1
			}
		}
		if len(want) > 0 {
			nontrivial++
		}
		rp := map[string]any{"retained": retained, "filter": f, "ops": ops}
		for k := range want {
			t := k[:strings.LastIndexByte(k, '=')]
			if got[k] == 0 {
				rep.Add(explore.Violation{Key: "miss:" + c02Shape(f, t, true), Msg: fmt.Sprintf("[%s] filter %q matches retained %q but Messages omitted it; retained=%v got=%v", phase, f, t, retained, got), Replay: rp})
			} else if got[k] > 1 {
				rep.Add(explore.Violation{Key: "duplicate", Msg: fmt.Sprintf("[%s] filter %q: retained %q returned %d times", phase, f, t, got[k]), Replay: rp})
			}
		}
		for k := range got {
			if want[k] == 0 {
				t := k[:strings.LastIndexByte(k, '=')]
				shape := "stale-or-wrong-payload"
				if _, ok := retained[t]; ok && !ref.Match(f, t) {
					shape = c02Shape(f, t, false)
				} else if !ok {
					shape = "cleared-topic"
				}
				rep.Add(explore.Violation{Key: "extra:" + shape, Msg: fmt.Sprintf("[%s] filter %q returned %q which it must not (retained=%v)", phase, f, k, retained), Replay: rp})
			}
		}
	}
	return
}

func init() {
	explore.RegisterReplayer("C02", func(raw json.RawMessage) (bool, []string) {
		var r struct {
			Retained map[string]string `json:"retained"`
			Filter   string            `json:"filter"`
			Ops      [][2]string       `json:"ops"`
		}
		json.Unmarshal(raw, &r)
		x := mqtt.NewTopicsIndex()
		if len(r.Ops) > 0 {
			for _, o := range r.Ops {
				c02Retain(x, o[0], o[1])
			}
		} else {
			ks := []string{}
			for t := range r.Retained {
				ks = append(ks, t)
			}
			sort.Strings(ks)
			for _, t := range ks {
				c02Retain(x, t, r.Retained[t])
			}
		}
		rep := explore.NewReport("C02")
		c02Compare(x, r.Retained, []string{r.Filter}, rep, "replay", nil)
		var tr []string
		for k, v := range rep.Viol {
			tr = append(tr, k+": "+v.Msg)
		}
		return len(rep.Viol) > 0, tr
	})
	explore.Register("C02", func(c *explore.Ctx) {
		c.Rep.Level = "exploration"
		rep := c.Rep
		filters := c01Filters(3)
		topics := c01Topics(3)
		var evals, nontriv int64
		var mu sync.Mutex
		add := func(e, n int) { mu.Lock(); evals += int64(e); nontriv += int64(n); mu.Unlock() }
		// phase A: every set of 1..k retained topics × every filter
		k := 3
		_ = c.Quick
		var sets [][]int
		var rec func(start int, cur []int)
		rec = func(start int, cur []int) {
			if len(cur) > 0 {
				sets = append(sets, append([]int{}, cur...))
			}
			if len(cur) == k {
				return
			}
			for i := start; i < len(topics); i++ {
				rec(i+1, append(cur, i))
			}
		}
		rec(0, nil)
		done := explore.ParallelRange(len(sets), c.Workers, c.Expired, func(i int) {
			x := mqtt.NewTopicsIndex()
			ret := map[string]string{}
			for j, ti := range sets[i] {
				p := fmt.Sprintf("p%d", j)
				c02Retain(x, topics[ti], p)
				ret[topics[ti]] = p
			}
			n := c02Compare(x, ret, filters, rep, "set", nil)
			add(len(filters), n)
		})
		if !done {
			rep.Capped("set phase cut by deadline")
		}
		rep.Sample(map[string]any{"phase": "set", "retained_sets": len(sets), "max_set_size": k, "filters": len(filters), "example_set": []string{topics[sets[len(sets)/2][0]]}})
		// phase B: retain / overwrite / clear sequences on colliding topics then all filters
		ct := []string{"x", "x/y", "x/y/x", "$s/x"}
		type op = [2]string
		var ops []op
		for _, t := range ct {
			ops = append(ops, op{t, "p1"}, op{t, "p2"}, op{t, ""})
		}
		seqLen := 4
		if !c.Quick() {
			seqLen = 5
		}
		total := 1
		for i := 0; i < seqLen; i++ {
			total *= len(ops)
		}
		done = explore.ParallelRange(total, c.Workers, c.Expired, func(i int) {
			x := mqtt.NewTopicsIndex()
			ret := map[string]string{}
			seq := make([]op, seqLen)
			n := i
			for j := range seq {
				seq[j] = ops[n%len(ops)]
				n /= len(ops)
			}
			for _, o := range seq {
				c02Retain(x, o[0], o[1])
				if o[1] == "" {
					delete(ret, o[0])
				} else {
					ret[o[0]] = o[1]
				}
			}
			nn := c02Compare(x, ret, filters, rep, "sequence", seq)
			add(len(filters), nn)
		})
		if !done {
			rep.Capped("sequence phase cut by deadline")
		}
		rep.Sample(map[string]any{"phase": "sequence", "ops": len(ops), "length": seqLen, "sequences": total})
		rep.Count("evaluations", evals)
		rep.Count("distinct_nontrivial", nontriv)
		rep.Set("rule", "every (retained set or retain/clear sequence, filter) pair of the declared domain evaluated once on a fresh TopicsIndex; non-trivial = the filter matches at least one currently retained topic under ref.Match")
		rep.Assumption("topics/filters over level tokens {x,y,'',$s,+,#} to depth 3; non-shared valid filters only")
	})
}
