package props

// C27: packet decoding is total. For every byte string of the domain in codec_domain.go,
// given as the body of every packet type under protocol versions 3, 4, 5, the decoder
// (called exactly as the broker's ReadPacket calls it) returns a packet or an error:
// no panic, no access outside the supplied bytes (inputs are carved with len == cap out of
// a poisoned array), and no accepted packet in which a declared length (string / binary
// length prefix, property length) extends beyond the end of the body (judged by the
// independent length walker ref.WalkLengths). Decoding also has to come back: the structured
// half of the domain (c27_struct.go: grammar-driven property sections with one adversarial
// length field, padding and rewind-aliasing layouts) runs in worker processes under the
// liveness guard of codec_guard.go.
//
// Violation keys:
//   panic:<TYPE>:v<ver>:<innermost mochi function on the panicking stack>
//   overread:<TYPE>:v<ver>:<field>                      decoded field contains poison
//   accepts-length-beyond-body:<TYPE>:v<ver>:<what>     what = string | binary | property-length
//   hang:<TYPE>:v<ver>:<innermost mochi function that never returns>   decoding does not return

import (
	"bytes"
	"encoding/hex"
	"encoding/json"
	"fmt"
	"os"
	"strings"
	"sync/atomic"

	"github.com/mochi-mqtt/server/v2/packets"

	"verif/explore"
	"verif/ref"
)

type c27State struct {
	evals, accepted, rejected, panics, wellFormed, crossBlock int64
	outcomes                                                  map[string]struct{}
}

// cdcPoisonField reports a decoded field that contains the poison byte.
func cdcPoisonField(pk *packets.Packet) string {
	has := func(b []byte) bool { return bytes.IndexByte(b, cdcPoisonByte) >= 0 }
	hasS := func(s string) bool { return strings.IndexByte(s, cdcPoisonByte) >= 0 }
	switch {
	case has(pk.Payload):
		return "payload"
	case hasS(pk.TopicName):
		return "topic"
	case has(pk.ReasonCodes):
		return "reason-codes"
	case has(pk.Connect.ProtocolName), hasS(pk.Connect.ClientIdentifier), hasS(pk.Connect.WillTopic), has(pk.Connect.WillPayload), has(pk.Connect.Username), has(pk.Connect.Password):
		return "connect-field"
	}
	for _, f := range pk.Filters {
		if hasS(f.Filter) {
			return "filter"
		}
	}
	for _, p := range []*packets.Properties{&pk.Properties, &pk.Connect.WillProperties} {
		if has(p.CorrelationData) || has(p.AuthenticationData) || hasS(p.ContentType) || hasS(p.ResponseTopic) || hasS(p.AssignedClientID) ||
			hasS(p.AuthenticationMethod) || hasS(p.ResponseInfo) || hasS(p.ServerReference) || hasS(p.ReasonString) {
			return "property"
		}
		for _, u := range p.User {
			if hasS(u.Key) || hasS(u.Val) {
				return "user-property"
			}
		}
	}
	return ""
}

// cdcErrClass turns a decoder error into a bounded outcome class (formatted details removed).
func cdcErrClass(err error) string {
	s := err.Error()
	if i := strings.Index(s, "property type "); i >= 0 {
		return "unsupported-property"
	}
	if len(s) > 60 {
		s = s[:60]
	}
	return s
}

// c27Check evaluates one input and returns violations (key, msg).
func c27Check(in *codecInput, st *c27State) (key, msg string) {
	typ := in.Hdr >> 4
	pk, err, pn := cdcSafeDecode(in.Hdr, in.Ver, in.Body)
	st.evals++
	if pn != nil {
		st.panics++
		return fmt.Sprintf("panic:%s:v%d:%s", cdcTname(typ), in.Ver, pn.Site),
			fmt.Sprintf("decoding %s body [%s] (header %#02x, protocol version %d) panicked in %s: %s; expected: a packet or an error (%s)",
				cdcTname(typ), cdcRLE(in.Body), in.Hdr, in.Ver, pn.Site, pn.Msg, in.Src)
	}
	if err != nil {
		st.rejected++
		st.outcomes[fmt.Sprintf("%d/%d/%s", typ, in.Ver, cdcErrClass(err))] = struct{}{}
		return "", ""
	}
	st.accepted++
	st.outcomes[fmt.Sprintf("%d/%d/ok", typ, in.Ver)] = struct{}{}
	if bytes.IndexByte(in.Body, cdcPoisonByte) < 0 {
		if f := cdcPoisonField(&pk); f != "" {
			return fmt.Sprintf("overread:%s:v%d:%s", cdcTname(typ), in.Ver, f),
				fmt.Sprintf("decoding %s body [%s] (version %d) returned a %s containing bytes from outside the supplied slice", cdcTname(typ), cdcRLE(in.Body), in.Ver, f)
		}
	}
	o := ref.WalkLengths(typ, in.Hdr&15, in.Ver, in.Body)
	if o.Walked && !o.Beyond {
		st.wellFormed++
	}
	if o.CrossBlock {
		st.crossBlock++
	}
	if o.Beyond {
		return fmt.Sprintf("accepts-length-beyond-body:%s:v%d:%s", cdcTname(typ), in.Ver, o.What),
			fmt.Sprintf("%s body [%s] (header %#02x, version %d) declares a %s that extends beyond the %d supplied bytes, yet the decoder accepted it; expected: rejected (%s)",
				cdcTname(typ), cdcRLE(in.Body), in.Hdr, in.Ver, o.What, len(in.Body), in.Src)
	}
	return "", ""
}

func c27Replay(raw json.RawMessage) (bool, []string) {
	var r codecReplay
	if err := json.Unmarshal(raw, &r); err != nil {
		return false, []string{err.Error()}
	}
	body, _ := hex.DecodeString(r.Hex)
	ar := cdcNewArena(len(body))
	in := codecInput{Hdr: r.Hdr, Ver: r.Ver, Body: ar.carve(body), Src: "replay"}
	st := &c27State{outcomes: map[string]struct{}{}}
	tr := []string{fmt.Sprintf("decode %s header=%#02x version=%d body=[%s] as buf[:%d:%d] inside a poisoned array", cdcTname(r.Hdr>>4), r.Hdr, r.Ver, cdcRLE(body), len(body), len(body))}
	// a replayed input may be one that does not return: the liveness guard ends the replay
	c27ReplayFn = func(in *codecInput, site, why string) {
		v := c27HangViolation(in, site, why)
		for _, t := range append(tr, "key="+v.Key, v.Msg) {
			fmt.Println("  ", t)
		}
		fmt.Println("REPRODUCED")
		os.Exit(1)
	}
	g := c27StartGuard()
	g.enter(&in)
	key, msg := c27Check(&in, st)
	g.leave()
	if key == "" {
		_, err, _ := cdcSafeDecode(in.Hdr, in.Ver, in.Body)
		tr = append(tr, fmt.Sprintf("decoder returned err=%v, no violation", err))
		return false, tr
	}
	tr = append(tr, "key="+key, msg)
	return true, tr
}

func init() {
	explore.RegisterReplayer("C27", c27Replay)
	explore.Register("C27", func(c *explore.Ctx) {
		c.Rep.Level = "exploration"
		maxLen, pairs := 5, false
		if !c.Quick() {
			maxLen, pairs = 6, true
		}
		c.Rep.Set("rule", "distinct (packet type, protocol version, decoder outcome) triples, outcome = accepted or the error class returned")
		c.Rep.Set("domain", fmt.Sprintf("15 packet types x versions 3,4,5 x admissible header flags x all bodies of length <= %d over a 12-value alphabet; %d catalogue vectors x versions 3,4,5 x {original, every truncation, 14 substitutions per offset%s}",
			maxLen, len(cdcCatalogueSeeds()), map[bool]string{true: ", all pairs of substitutions within 3 offsets", false: ""}[pairs]))
		c.Rep.Assumption("decoders are called as Client.ReadPacket calls them: FixedHeader.Decode(first byte) succeeded, FixedHeader.Remaining == len(body), ProtocolVersion = connection version")
		c.Rep.Assumption("bytes outside the alphabet {00,01,02,04,0B,21,26,7F,80,C2,FF,+one property id per type} occur only through catalogue vectors; bodies longer than the bound only through catalogue vectors")
		var evals, accepted, rejected, panics, wf, cross int64
		var outcomes cdcStrSet
		complete := forEachCodecInput(c, maxLen, pairs,
			func(in *codecInput, s any) {
				st := s.(*c27State)
				if key, msg := c27Check(in, st); key != "" {
					c.Rep.Add(explore.Violation{Key: key, Msg: msg,
						Replay: codecReplay{Kind: "decode", Hdr: in.Hdr, Ver: in.Ver, Hex: hex.EncodeToString(in.Body)}})
				}
			},
			func() any { return &c27State{outcomes: map[string]struct{}{}} },
			func(s any) {
				st := s.(*c27State)
				atomic.AddInt64(&evals, st.evals)
				atomic.AddInt64(&accepted, st.accepted)
				atomic.AddInt64(&rejected, st.rejected)
				atomic.AddInt64(&panics, st.panics)
				atomic.AddInt64(&wf, st.wellFormed)
				atomic.AddInt64(&cross, st.crossBlock)
				outcomes.addAll(st.outcomes)
			})
		if !complete {
			c.Rep.Capped("deadline reached before the whole domain was decoded")
		}
		// FixedHeader.Decode is total over all 256 first bytes
		for b := 0; b < 256; b++ {
			func() {
				defer func() {
					if r := recover(); r != nil {
						pn := cdcRecoverSite(r)
						c.Rep.Add(explore.Violation{Key: "panic:fixed-header:" + pn.Site, Msg: fmt.Sprintf("FixedHeader.Decode(%#02x) panicked: %s", b, pn.Msg),
							Replay: codecReplay{Kind: "decode", Hdr: byte(b), Ver: 4}})
					}
				}()
				var fh packets.FixedHeader
				_ = fh.Decode(byte(b))
				evals++
			}()
		}
		c27RunStructured(c)
		c.Rep.Count("evaluations", evals)
		c.Rep.Count("accepted", accepted)
		c.Rep.Count("rejected", rejected)
		c.Rep.Count("panics", panics)
		c.Rep.Count("accepted_and_length_consistent", wf)
		c.Rep.Count("accepted_property_value_crossing_its_block", cross)
		c.Rep.Count("distinct_nontrivial", outcomes.size())
		if cross > 0 {
			c.Rep.Note("accepted inputs in which a property value extends beyond the declared property length but stays inside the body are counted, not judged (C27 speaks of the supplied bytes)")
		}
		c.Rep.Sample(map[string]any{"input": "SUBSCRIBE v5 body 00 01 00 00 01 61 (last filter without options byte)", "expect": "error", "domain": "catalogue truncation"})
		c.Rep.Sample(map[string]any{"input": "PUBLISH v5 header 0x32 body 00 01 61 00 01 02 26 (property length 2, user property truncated)", "expect": "error"})
		c.Rep.Sample(map[string]any{"input": "CONNECT body 00 04 4d 51 54 54 05 c2 … password length prefix ff ff with 1 byte left", "expect": "error, no access beyond len(body)"})
	})
}
