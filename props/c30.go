package props

import (
	"encoding/json"
	"fmt"
	"strings"
	"sync"
	"time"

	mqtt "github.com/mochi-mqtt/server/v2"

	"verif/explore"
	"verif/ref"
	"verif/world"
)

// C30: filter and topic-name validation follows the MQTT rules; invalid filters are
// answered with 0x8F (0x80 for MQTT 3) and create nothing.

func c30Strings(maxLen int) []string {
	alpha := []string{"/", "+", "#", "$", "a"}
	var out []string
	var rec func(s string, n int)
	rec = func(s string, n int) {
		out = append(out, s)
		if n == maxLen {
			return
		}
		for _, a := range alpha {
			rec(s+a, n+1)
		}
	}
	rec("", 0)
	return out
}

func c30FilterClass(s string) string {
	switch {
	case s == "":
		return "empty"
	case ref.IsShare(s):
		g, inner, _ := ref.SplitShare(s)
		switch {
		case g == "":
			return "share:empty-name"
		case strings.ContainsAny(g, "+#"):
			return "share:wildcard-name"
		case inner == "":
			return "share:empty-filter"
		}
		return "share:" + c30FilterClass(inner)
	}
	levels := strings.Split(s, "/")
	for i, l := range levels {
		if strings.Contains(l, "#") && l != "#" {
			return "hash-not-whole-level"
		}
		if l == "#" && i != len(levels)-1 {
			return "hash-not-last"
		}
		if strings.Contains(l, "+") && l != "+" {
			return "plus-not-whole-level"
		}
	}
	return "valid"
}

func c30TopicClass(s string) string {
	switch {
	case strings.ContainsAny(s, "+#"):
		return "wildcard"
	case strings.HasPrefix(s, "$SYS"):
		return "$SYS"
	case ref.IsShare(s):
		return "valid:$share-prefix"
	case s == "":
		return "valid:empty"
	}
	return "valid"
}

func c30RunBFS(arg string) explore.HistFn {
	return func(hist []string) explore.HistResult {
		h := newH(world.Config{})
		h.connect("a", world.ConnectPacket("a", 5, true))
		h.connect("b", world.ConnectPacket("b", 4, true))
		base := h.W.State()
		var next []string
		if len(hist) == 0 {
			seen := map[string]bool{}
			for _, s := range c30Strings(4) {
				for _, f := range []string{s, "$share/" + s, "$share/g/" + s} {
					cl := c30FilterClass(f)
					if cl != "valid" && !strings.HasSuffix(cl, ":valid") && f != "" && !seen[f] {
						seen[f] = true
						next = append(next, "sub:a:"+f, "sub:b:"+f)
					}
				}
			}
		}
		runHist(h, hist, func(op string) {
			f := strings.SplitN(op, ":", 3)
			who, filter := f[1], f[2]
			got := h.do(who, ref.Packet{Type: ref.SUBSCRIBE, PacketID: 5, Filters: []ref.Filter{{Filter: filter, Opts: 0}}})
			want := byte(0x8F)
			if who == "b" {
				want = 0x80
			}
			cls := c30FilterClass(filter)
			if h.Cl[who].Closed() {
				// closing the connection is a permitted answer to a malformed SUBSCRIBE; nothing may be created though
			} else if len(got) != 1 || got[0].Type != ref.SUBACK || len(got[0].ReasonCodes) != 1 || got[0].ReasonCodes[0] != want {
				h.violate("suback:"+cls, "SUBSCRIBE %q (v%d, %s): got %v, want SUBACK [%#x]", filter, h.Cl[who].Ver, cls, got, want)
			}
			// nothing created: canonical state equal to the state before, except the subscriber's connection status
			if !h.Cl[who].Closed() {
				if st := h.W.State(); st != base {
					h.violate("created:"+cls, "SUBSCRIBE with invalid filter %q (%s) changed broker state", filter, cls)
				}
			}
			h.poll("a")
			h.poll("b")
		})
		return h.finish(h.W.State()+fmt.Sprint(len(hist)), next)
	}
}

// c30Pub: a v5 client publishes every topic class through the live broker, with and without
// a Topic Alias and at QoS 0/1; an all-seeing observer (# and $SYS/#) and a read-out of the
// retained store decide whether the topic was accepted.
func c30Pub(arg string) explore.CaseSet {
	topics := []string{"a", "a/b", "$SYS/a", "$SYS", "$SYSa", "$share/g/a", "$a", "a/+", "a/#", "+", "#", "a+", "/", "$SYS/+"}
	return explore.CaseSet{Total: len(topics) * 8, Run: func(i int) explore.CaseResult {
		t := topics[i/8]
		alias, qos, retain := i%2 == 1, byte((i/2)%2), (i/4)%2 == 1
		w := world.New(nil, world.Config{})
		defer w.End()
		o := w.Connect(world.ConnectPacket("o", 5, true))
		o.Do(ref.Packet{Type: ref.SUBSCRIBE, PacketID: 1, Filters: []ref.Filter{{Filter: "#", Opts: 0}, {Filter: "$SYS/#", Opts: 0}, {Filter: "$share/#", Opts: 0}, {Filter: "$a/#", Opts: 0}, {Filter: "$SYSa/#", Opts: 0}}})
		a := w.Connect(world.ConnectPacket("a", 5, true))
		pk := pub(t, "m", qos, 9)
		pk.Retain = retain
		if alias {
			pk.Props = ref.Props{{ID: ref.PTopicAlias, Num: 1}}
		}
		a.Do(pk)
		o.Poll()
		res := explore.CaseResult{Evals: 1}
		want := ref.ValidPublishTopic(t)
		routed := false
		for _, r := range o.Recv {
			if r.Type == ref.PUBLISH && string(r.Payload) == "m" {
				routed = true
			}
		}
		_, retained := w.S.Topics.Retained.Get(t)
		if !want {
			res.Nontrivial = 1
		}
		cls := c30TopicClass(t)
		rp := map[string]any{"topic": t, "alias": alias, "qos": qos, "retain": retain}
		if !want && (routed || retained) {
			res.Viol = append(res.Viol, explore.Violation{Key: fmt.Sprintf("publish:accepted-invalid:%s:alias=%v", cls, alias), Msg: fmt.Sprintf("client PUBLISH to %q (alias=%v qos=%d retain=%v) was routed=%v retained=%v; such a topic must be refused", t, alias, qos, retain, routed, retained), Replay: rp})
		}
		if want && ref.IsShare(t) {
			// no subscription filter can address a topic whose first level is $share (such a
			// filter is a shared subscription), so acceptance is observed in the retained store
			routed = !retain || retained
		}
		if want && !routed && !a.Closed() {
			res.Viol = append(res.Viol, explore.Violation{Key: fmt.Sprintf("publish:rejected-valid:%s:alias=%v", cls, alias), Msg: fmt.Sprintf("client PUBLISH to valid topic %q (alias=%v qos=%d) was not routed", t, alias, qos), Replay: rp})
		}
		res.Viol = append(res.Viol, runtimeViolations(w)...)
		return res
	}}
}

func init() {
	explore.RegisterCases("c30pub", c30Pub)
	explore.RegisterBFS("c30", c30RunBFS)
	explore.RegisterReplayer("C30", func(raw json.RawMessage) (bool, []string) {
		var r struct {
			S       string `json:"s"`
			Publish bool   `json:"publish"`
		}
		json.Unmarshal(raw, &r)
		got := mqtt.IsValidFilter(r.S, r.Publish)
		want := ref.ValidFilter(r.S)
		if r.Publish {
			want = ref.ValidPublishTopic(r.S)
		}
		return got != want, []string{fmt.Sprintf("IsValidFilter(%q, %v) = %v, reference = %v", r.S, r.Publish, got, want)}
	})
	explore.Register("C30", func(c *explore.Ctx) {
		c.Rep.Level = "exploration"
		rep := c.Rep
		n := 6
		if !c.Quick() {
			n = 8
		}
		base := c30Strings(n)
		// splice the tokens $share and $SYS at level starts
		var all []string
		all = append(all, base...)
		short := c30Strings(n - 3)
		for _, s := range short {
			all = append(all, "$share/"+s, "$share/g/"+s, "$share"+s, "$SYS/"+s, "$SYS"+s, s+"/$share/a", s+"/$SYS")
		}
		var evals, nontriv int64
		classes := map[string]int{}
		var mu sync.Mutex
		explore.ParallelRange(len(all), c.Workers, c.Expired, func(i int) {
			s := all[i]
			gf, wf := mqtt.IsValidFilter(s, false), ref.ValidFilter(s)
			gp, wp := mqtt.IsValidFilter(s, true), ref.ValidPublishTopic(s)
			fc, tc := c30FilterClass(s), c30TopicClass(s)
			mu.Lock()
			evals += 2
			classes["f:"+fc]++
			classes["t:"+tc]++
			if !wf || !wp {
				nontriv++
			}
			mu.Unlock()
			if gf != wf {
				kind := "accepted-invalid"
				if wf {
					kind = "rejected-valid"
				}
				rep.Add(explore.Violation{Key: "filter:" + kind + ":" + fc, Msg: fmt.Sprintf("IsValidFilter(%q,false)=%v, MQTT rules say %v (%s)", s, gf, wf, fc), Replay: map[string]any{"s": s, "publish": false}})
			}
			if gp != wp {
				kind := "accepted-invalid"
				if wp {
					kind = "rejected-valid"
				}
				rep.Add(explore.Violation{Key: "topic:" + kind + ":" + tc, Msg: fmt.Sprintf("IsValidFilter(%q,true)=%v, property says %v (%s)", s, gp, wp, tc), Replay: map[string]any{"s": s, "publish": true}})
			}
		})
		rep.Count("evaluations", evals)
		rep.Count("distinct_nontrivial", nontriv)
		rep.Set("classes", classes)
		rep.Set("rule", fmt.Sprintf("all %d strings of length <= %d over {/,+,#,$,a} plus $share/$SYS spliced at level starts, each evaluated as filter and as publish topic; distinct by construction; non-trivial = rejected by the reference as filter or as topic", len(all), n))
		rep.Sample(map[string]any{"examples": []string{all[7], all[len(all)/2], all[len(all)-3]}})
		// E2 part: SUBSCRIBE with each invalid filter class -> 0x8F / 0x80 and nothing created
		explore.RunBFS(c, "c30", "", 1, 40*time.Second)
		explore.RunCases(c, "c30pub", "", 20*time.Second)
	})
}
