package props

import (
	"fmt"
	"sort"
	"strings"
	"time"

	"github.com/mochi-mqtt/server/v2/zzvrt"

	"verif/explore"
	"verif/ref"
	"verif/world"
)

// C06: for every publish and every share group (ShareName + filter, DESIGN §3.2) with at
// least one matching member, exactly one member receives (or queues) the message, the
// others receive nothing for it, and no client gets two copies whatever mix of shared
// and non-shared subscriptions it holds.
//
// E2 scenario "c06" (arg: pools "s<subs>p<pubs>u<unsubs>", "map<k>", optional "off"):
// members a, b, c (v5), publisher p (v4). Operations
//   sub:<client>:<k> / unsub:<client>:<k>   k: 1 $share/g1/x/+  2 $share/g1/x/y  3 $share/g2/x/+  4 x/# (not shared)
//   pub:<topic>:<qos>                        x/y matches 1-4, x/z matches 1, 3, 4
//   disc:c / conn:c                          ("off": c keeps a persistent session while offline)
// Each publish is executed under EVERY map iteration order at the selection sites (all
// orders of the group map and of every member map in Subscribers.SelectShared: full
// product) and, on top of each of those, up to map<k> non-default orders at the other
// ranges of the selection path (gatherSharedSubscriptions, MergeSharedSelected,
// publishToSubscribers); every such execution is a fresh broker replaying the history.
// The successor state of a non-default order is kept in the search ("alt:<choices>" op,
// which re-interprets the preceding publish) whenever it differs from the default's.
//
// Extended alphabet ("ext" and "ret"/"ret2", own scenarios): histories in which the index entry of a group
// is disturbed by somebody who is not a member of it, while its members keep their
// subscriptions (the property quantifies over publishes, whatever preceded them):
//   sub/unsub:<client>:5|6           (ext)   5 x/y/z (stored beneath the node of filter 2)  6 x/+/z (beneath the node of 1 and 3);
//                                            neither matches a published topic
//   unsub:<client>:<k>               (ext)   by a client that does NOT hold k (enabled while another client holds k):
//                                            UNSUBSCRIBE of a share group by a non-member, of x/# by a non-subscriber
//   ret:<topic> / clr:<topic>        (ret)   p sets / clears a retained message at x/y/z (beneath filter 2's node;
//                                            "ret2": also at x/y, the node itself); not judged themselves
// The model ignores all of them for the groups (a non-holder's UNSUBSCRIBE removes nothing).
// Clients a, b, c are interchangeable in these scenarios (same CONNECT, all online): a
// client may act only after every alphabetically smaller one has acted (symmetry reduction;
// not applied to c under "off").
// When a group is left unserved the key names what disturbed it since it last became
// non-empty: ":after-nonmember-unsubscribe", ":after-deeper-entry-removed" (subscription or
// retained message beneath the group's node), ":after-retained-cleared-at-group-node".
//
// Departures ("leave", with "p2": own scenarios): the property quantifies over every publish, also those that
// follow a change of membership after the group has already been served. With a pool of
// two publishes ("p2" in the pools) the search reaches sub* pub (un)sub* pub; "leave" adds
// the other ways in which a member's subscription ends while the rest of the group stays:
//   bye:<client>     DISCONNECT of a clean-start client (Session Expiry 0): its session, and with it every
//                    subscription it held, ends [MQTT-3.1.2-23, MQTT-4.1.0-2]; the client does not come back
//   new:<client>     the client opens a second connection with Clean Start 1: the old connection is taken
//                    over and the old session discarded [MQTT-3.1.2-4]; the client stays online without subscriptions
//   cut:<client>     ("leavecut" only) the peer closes the connection without DISCONNECT; same consequences as bye
// Departures draw on the pool of UNSUBSCRIBEs (u<n> bounds UNSUBSCRIBEs + departures).
// "sym" switches the symmetry reduction on without the extended filters; "q0" leaves the
// QoS 1 publish out of the pool. In the "leave" scenarios a group that is
// left unserved after one of its members left while others stayed carries ":after-member-left";
// a receiver without a matching subscription that used to be a member of a matching group
// which has had members ever since is reported as "c06:unentitled-received:former-member"
// (":former-subscriber" for a non-shared filter that others still hold).
//
// Oracle (from the property statement only): R = clients that received the tag (online
// now, or on resuming a persistent session when the delivered QoS is > 0). There must be
// a choice function g -> member(g) over the matching groups with
// R = {member(g)} ∪ {clients with a matching non-shared subscription}, and every client
// in R has exactly one copy. An offline member chosen for a QoS 0 message is invisible
// (permitted omission), so it may stand in for a group without appearing in R.

var c06Filters = map[string]string{"1": "$share/g1/x/+", "2": "$share/g1/x/y", "3": "$share/g2/x/+", "4": "x/#", "5": "x/y/z", "6": "x/+/z"}

type c06Model struct {
	subs                      map[string]bool // "client|k"
	online                    map[string]bool
	nsub, npub, nunsub, nconn int
	// extended alphabet
	acted    map[string]bool // clients that sent a SUBSCRIBE / UNSUBSCRIBE (symmetry reduction)
	retained map[string]bool // topics holding a retained message
	nret     int
	cause    map[string]bool // shared filter key k + "|" + cause (what disturbed the group's index entry since it became non-empty)
	// departures
	former map[string]bool // "client|k": the client held k, gave it up while others kept holding it, and k has been held by somebody ever since
	nleave int
	track  bool // "leave" scenarios: departures from a group that keeps other members are remembered (former, cause after-member-left)
}

// drop ends client cl's subscription k (UNSUBSCRIBE by its holder, or the end of the
// holder's session) and records what that means for the groups.
func (m *c06Model) drop(cl, k string) {
	if !m.subs[cl+"|"+k] {
		return
	}
	delete(m.subs, cl+"|"+k)
	if m.members(k) == 0 {
		// nobody holds k any more: what happened to it earlier no longer matters
		for _, c := range explore.SortedKeys(m.cause) {
			if strings.HasPrefix(c, k+"|") {
				delete(m.cause, c)
			}
		}
		for _, c := range explore.SortedKeys(m.former) {
			if strings.HasSuffix(c, "|"+k) {
				delete(m.former, c)
			}
		}
		if !ref.IsShare(c06Filters[k]) {
			m.entryRemoved(c06Filters[k], false)
		}
		return
	}
	if !m.track {
		return
	}
	m.former[cl+"|"+k] = true
	if ref.IsShare(c06Filters[k]) {
		m.cause[k+"|after-member-left"] = true
	}
}

// endSession ends every subscription of cl (in filter order).
func (m *c06Model) endSession(cl string) {
	for _, k := range []string{"1", "2", "3", "4", "5", "6"} {
		m.drop(cl, k)
	}
}

// c06Inner returns the topic filter of a (shared or plain) subscription filter.
func c06Inner(f string) string {
	if _, in, ok := ref.SplitShare(f); ok {
		return in
	}
	return f
}

// members returns the number of clients holding filter k.
func (m *c06Model) members(k string) int {
	n := 0
	for s := range m.subs {
		if s[2:] == k {
			n++
		}
	}
	return n
}

// disturb records `cause` for every non-empty share group selected by pick.
func (m *c06Model) disturb(cause string, pick func(k, inner string) bool) {
	for _, k := range []string{"1", "2", "3"} {
		if m.members(k) > 0 && pick(k, c06Inner(c06Filters[k])) {
			m.cause[k+"|"+cause] = true
		}
	}
}

// entryRemoved: the index entry `path` (a plain filter or a retained topic) disappeared.
func (m *c06Model) entryRemoved(path string, retained bool) {
	m.disturb("after-deeper-entry-removed", func(k, inner string) bool { return strings.HasPrefix(path, inner+"/") })
	if retained {
		m.disturb("after-retained-cleared-at-group-node", func(k, inner string) bool { return path == inner })
	}
}

func (m *c06Model) causesOf(k string) string {
	out := ""
	for _, c := range []string{"after-nonmember-unsubscribe", "after-deeper-entry-removed", "after-retained-cleared-at-group-node", "after-member-left"} {
		if m.cause[k+"|"+c] {
			out += ":" + c
		}
	}
	return out
}

type c06Res struct {
	key   string
	next  []string
	viol  []explore.Violation
	trace []string
	pts   []zzvrt.ChoicePoint
	recv  string
}

var c06SelectFuncs = map[string]bool{"SelectShared": true}
var c06PathFuncs = map[string]bool{"SelectShared": true, "MergeSharedSelected": true, "gatherSharedSubscriptions": true, "publishToSubscribers": true}

// c06Ext returns the extended-alphabet settings of a scenario argument: "ext" (filters 5
// and 6, UNSUBSCRIBE by non-holders), the retained-message topic pool ("ret" -> x/y/z;
// "ret2" -> x/y/z and x/y), and whether the symmetry reduction applies.
func c06Ext(arg string) (ext bool, retTopics []string, sym bool) {
	for _, a := range strings.Split(arg, ",") {
		switch a {
		case "sym":
			sym = true
		case "ext":
			ext = true
		case "ret":
			retTopics = []string{"x/y/z"}
		case "ret2":
			retTopics = []string{"x/y", "x/y/z"}
		}
	}
	return ext, retTopics, sym || ext || len(retTopics) > 0
}

// c06Leave returns the departure kinds of a scenario argument ("leave": bye and new;
// "leavecut": cut as a third kind). Departures draw on the pool of UNSUBSCRIBEs.
func c06Leave(arg string) (kinds []string) {
	for _, a := range strings.Split(arg, ",") {
		switch a {
		case "leave":
			return []string{"bye", "new"}
		case "leavecut":
			return []string{"bye", "cut", "new"}
		}
	}
	return nil
}

func c06Pools(arg string) (maxSub, maxPub, maxUnsub, mapBound int, off bool) {
	maxSub, maxPub, maxUnsub, mapBound = 4, 1, 1, 1
	for _, a := range strings.Split(arg, ",") {
		switch {
		case len(a) == 6 && a[0] == 's' && a[2] == 'p' && a[4] == 'u':
			maxSub, maxPub, maxUnsub = int(a[1]-'0'), int(a[3]-'0'), int(a[5]-'0')
		case strings.HasPrefix(a, "map"):
			mapBound = int(a[3] - '0')
		case a == "off":
			off = true
		}
	}
	return
}

// c06Once executes hist on a fresh broker. The final publish (if enumerate) runs under
// choice prefix `last`; earlier publishes followed by "alt:<vec>" run under that vector.
func c06Once(arg string, hist []string, last []int, enumerate bool) c06Res {
	maxSub, maxPub, maxUnsub, _, off := c06Pools(arg)
	ext, retTopics, symRed := c06Ext(arg)
	leaveKinds := c06Leave(arg)
	// choice prefix of the whole execution = vectors of earlier alt'ed publishes + last
	var prefix []int
	for i, op := range hist {
		if strings.HasPrefix(op, "alt:") && !(enumerate && i == len(hist)-1) {
			prefix = append(prefix, parseChoices(op[4:])...)
		}
	}
	prefix = append(prefix, last...)
	h := &H{W: world.New(prefix, world.Config{MapSite: func(site string) bool { return c06PathFuncs[siteFunc(site)] }}), Cl: map[string]*world.Client{}}
	m := &c06Model{subs: map[string]bool{}, online: map[string]bool{"a": true, "b": true, "c": true}, acted: map[string]bool{}, retained: map[string]bool{}, cause: map[string]bool{}, former: map[string]bool{}, track: leaveKinds != nil}
	res := c06Res{}
	h.connect("p", world.ConnectPacket("p", 4, true))
	h.connect("a", world.ConnectPacket("a", 5, true))
	h.connect("b", world.ConnectPacket("b", 5, true))
	cConn := world.ConnectPacket("c", 5, true)
	if off {
		cConn = v5connect("c", false, 0, 300)
	}
	h.connect("c", cConn)
	pid := uint16(100)
	for i := 0; i < len(hist); i++ {
		op := hist[i]
		h.Step = i
		h.last = i == len(hist)-1
		f := fields(op)
		h.logf("--- op %d: %s", i, op)
		switch f[0] {
		case "sub", "unsub":
			cl, k := f[1], f[2]
			pid++
			t := byte(ref.SUBSCRIBE)
			if symRed {
				m.acted[cl] = true
			}
			if f[0] == "unsub" {
				t = ref.UNSUBSCRIBE
				m.nunsub++
				held := m.subs[cl+"|"+k]
				if held {
					m.drop(cl, k)
				} else if ref.IsShare(c06Filters[k]) {
					// a non-member's UNSUBSCRIBE removes nothing [MQTT-3.10.4-1: only the client's own subscription]
					m.disturb("after-nonmember-unsubscribe", func(k2, _ string) bool { return k2 == k })
				}
			} else {
				m.nsub++
				m.subs[cl+"|"+k] = true
				delete(m.former, cl+"|"+k)
			}
			got := h.do(cl, ref.Packet{Type: t, PacketID: pid, Filters: []ref.Filter{{Filter: c06Filters[k], Opts: 1}}})
			if f[0] == "sub" && (len(got) == 0 || got[0].Type != ref.SUBACK || len(got[0].ReasonCodes) != 1 || got[0].ReasonCodes[0] > 2) {
				h.violate("c06:subscribe-refused", "SUBSCRIBE %s by %s not granted: %v", c06Filters[k], cl, got)
			}
		case "bye", "cut", "new":
			// the session of a clean-start client ends: all its subscriptions end with it
			cl := f[1]
			m.nleave++
			if symRed {
				m.acted[cl] = true
			}
			m.endSession(cl)
			switch f[0] {
			case "bye":
				m.online[cl] = false
				h.do(cl, ref.Packet{Type: ref.DISCONNECT})
			case "cut":
				m.online[cl] = false
				h.Cl[cl].Drop()
				h.logf("%s: connection closed by the peer", cl)
				h.W.Run()
			case "new":
				got := h.connectSettle(cl, world.ConnectPacket(cl, 5, true), true)
				if len(got) == 0 || got[0].Type != ref.CONNACK || got[0].ReasonCode != 0 {
					h.violate("c06:reconnect-refused", "CONNECT (Clean Start) of %s on a second connection not accepted: %v", cl, got)
				}
			}
			h.settle(true)
		case "disc":
			m.online["c"] = false
			h.do("c", ref.Packet{Type: ref.DISCONNECT})
		case "conn":
			m.online["c"] = true
			m.nconn++
			h.connectSettle("c", cConn, true)
		case "ret", "clr":
			// retained message set / cleared by p (not judged: C03/C05 own retained delivery)
			pk := ref.Packet{Type: ref.PUBLISH, Topic: f[1], Retain: true}
			if f[0] == "ret" {
				pk.Payload = []byte("r")
				m.nret++
				m.retained[f[1]] = true
			} else {
				delete(m.retained, f[1])
				m.entryRemoved(f[1], true)
			}
			h.Cl["p"].Send(pk)
			h.logf("p: -> %s", pk)
			h.W.Run()
			h.settle(true)
		case "alt":
			// consumed together with the preceding publish
		case "pub":
			topic := f[1]
			q := f[2][0] - '0'
			m.npub++
			tag := "m" + itoa(m.npub)
			alt := i+1 < len(hist) && strings.HasPrefix(hist[i+1], "alt:")
			final := i == len(hist)-1 && enumerate
			pk := pub(topic, tag, q, 0)
			if q > 0 {
				pid++
				pk.PacketID = pid
			}
			n0 := len(h.W.X.Points)
			if alt || final {
				h.W.Explore(true)
			}
			h.Cl["p"].Send(pk)
			h.logf("p: -> %s", pk)
			h.W.Run()
			h.W.Explore(false)
			got := h.settle(true)
			if final {
				res.pts = append(res.pts, h.W.X.Points[n0:]...)
				res.key = c06Key(h, m)
				c06Judge(h, m, topic, tag, q, got, off, cConn, &res)
			}
		}
	}
	if res.key == "" {
		res.key = c06Key(h, m)
	}
	// enabled operations
	var next []string
	if m.npub < maxPub {
		next = append(next, "pub:x/y:0", "pub:x/z:0")
		if !strings.Contains(","+arg+",", ",q0,") {
			next = append(next, "pub:x/y:1")
		}
		filters := []string{"1", "2", "3", "4"}
		if ext {
			filters = append(filters, "5", "6")
		}
		fresh := false // a smaller interchangeable client has not acted yet
		for _, cl := range []string{"a", "b", "c"} {
			sym := symRed && !(off && cl == "c")
			if sym && fresh {
				continue
			}
			if sym && !m.acted[cl] {
				fresh = true
			}
			if !m.online[cl] {
				continue
			}
			if m.nunsub+m.nleave < maxUnsub && !(off && cl == "c") {
				for _, kind := range leaveKinds {
					next = append(next, kind+":"+cl)
				}
			}
			for _, k := range filters {
				if m.subs[cl+"|"+k] {
					if m.nunsub < maxUnsub {
						next = append(next, "unsub:"+cl+":"+k)
					}
					continue
				}
				if m.nsub < maxSub {
					next = append(next, "sub:"+cl+":"+k)
				}
				if ext && m.nunsub < maxUnsub && m.members(k) > 0 {
					next = append(next, "unsub:"+cl+":"+k) // by a client that does not hold k
				}
			}
		}
		for _, t := range retTopics {
			if m.retained[t] {
				next = append(next, "clr:"+t)
			} else if m.nret < 1 {
				next = append(next, "ret:"+t)
			}
		}
		if off {
			if m.online["c"] && m.nconn < 1 {
				next = append(next, "disc:c")
			} else if !m.online["c"] {
				next = append(next, "conn:c")
			}
		}
	}
	sort.Strings(next)
	res.next = next
	h.last = true
	res.viol = append(h.Viol, runtimeViolations(h.W)...)
	res.trace = h.Trace
	h.W.End()
	return res
}

func c06Key(h *H, m *c06Model) string {
	return h.W.State() + fmt.Sprintf("|model:%v|%v|%d,%d,%d,%d|%v|%v,%d|%v|%v,%d", explore.SortedKeys(m.subs), m.online, m.nsub, m.npub, m.nunsub, m.nconn,
		explore.SortedKeys(m.acted), explore.SortedKeys(m.retained), m.nret, explore.SortedKeys(m.cause), explore.SortedKeys(m.former), m.nleave)
}

// c06Judge evaluates one executed publish.
func c06Judge(h *H, m *c06Model, topic, tag string, q byte, got map[string][]ref.Packet, off bool, cConn ref.Packet, res *c06Res) {
	copies := map[string]int{}
	for cl, pks := range got {
		for _, p := range pubsOf(pks) {
			if string(p.Payload) == tag {
				copies[cl]++
			}
		}
	}
	invisible := map[string]bool{}
	if off && !m.online["c"] {
		if q == 0 {
			invisible["c"] = true
		} else {
			// closure: resume c's session and see whether the message was queued for it
			for _, p := range pubsOf(h.connectSettle("c", cConn, true)) {
				if string(p.Payload) == tag {
					copies["c"]++
				}
			}
		}
	}
	groups := map[string][]string{} // matching shared filter -> members
	ns := map[string]bool{}
	memberOf := map[string]int{}
	for _, s := range explore.SortedKeys(m.subs) {
		cl, k := s[:1], s[2:]
		f := c06Filters[k]
		if !ref.MatchSub(f, topic) {
			continue
		}
		if ref.IsShare(f) {
			groups[f] = append(groups[f], cl)
			memberOf[cl]++
		} else {
			ns[cl] = true
		}
	}
	gnames := explore.SortedKeys(groups)
	shape := func(cl string) string {
		switch {
		case ns[cl] && memberOf[cl] > 0:
			return "shared+nonshared"
		case memberOf[cl] > 1:
			return "member-of-several-groups"
		case memberOf[cl] == 1:
			return "member"
		case ns[cl]:
			return "nonshared"
		}
		return "unentitled"
	}
	var R []string
	for _, cl := range []string{"a", "b", "c", "p"} {
		if copies[cl] > 0 {
			R = append(R, cl)
		}
		if copies[cl] > 1 {
			h.violate("c06:two-copies:"+shape(cl), "publish %s %q q%d: %s received %d copies; groups=%v nonshared=%v", tag, topic, q, cl, copies[cl], groups, explore.SortedKeys(ns))
		}
		if copies[cl] > 0 && shape(cl) == "unentitled" {
			was := ""
			for _, k := range []string{"4", "1", "2", "3"} {
				if m.former[cl+"|"+k] && ref.MatchSub(c06Filters[k], topic) {
					was = ":former-subscriber"
					if ref.IsShare(c06Filters[k]) {
						was = ":former-member"
					}
				}
			}
			h.violate("c06:unentitled-received"+was, "publish %s %q: %s received it without a matching subscription; groups=%v", tag, topic, cl, groups)
		}
		if ns[cl] && copies[cl] == 0 && !invisible[cl] {
			h.violate("c06:nonshared-missed:"+shape(cl), "publish %s %q: %s holds a matching non-shared subscription and received nothing; groups=%v", tag, topic, cl, groups)
		}
	}
	res.recv = strings.Join(R, ",")
	// is there a choice function explaining R?
	ok := false
	choice := make([]string, len(gnames))
	var rec func(i int)
	rec = func(i int) {
		if ok {
			return
		}
		if i == len(gnames) {
			want := map[string]bool{}
			for cl := range ns {
				want[cl] = true
			}
			for _, cl := range choice {
				want[cl] = true
			}
			for cl := range want {
				if copies[cl] == 0 && !invisible[cl] {
					return
				}
			}
			for _, cl := range R {
				if !want[cl] {
					return
				}
			}
			ok = true
			return
		}
		for _, cl := range groups[gnames[i]] {
			choice[i] = cl
			rec(i + 1)
		}
	}
	rec(0)
	if !ok && len(gnames) > 0 {
		unserved := 0
		causeSet := map[string]bool{}
		sameName := false
		names := map[string]int{}
		for _, g := range gnames {
			sn, _, _ := ref.SplitShare(g)
			names[sn]++
			if names[sn] > 1 {
				sameName = true
			}
			hit := false
			for _, cl := range groups[g] {
				if copies[cl] > 0 || invisible[cl] {
					hit = true
				}
			}
			if !hit {
				unserved++
				for k, f := range c06Filters {
					if f == g {
						for _, c := range strings.Split(m.causesOf(k), ":")[1:] {
							causeSet[c] = true
						}
					}
				}
			}
		}
		kind := "unchosen-member-received"
		if unserved > 0 {
			kind = "group-unserved"
		}
		sh := "distinct-sharenames"
		if sameName {
			sh = "one-sharename-two-filters"
		}
		causes := ""
		for _, c := range explore.SortedKeys(causeSet) {
			causes += ":" + c
		}
		h.violate("c06:"+kind+":"+sh+causes, "publish %s %q q%d: receivers %v cannot be explained by one member per group; groups=%v nonshared=%v", tag, topic, q, R, groups, explore.SortedKeys(ns))
	}
}

func c06Run(arg string) explore.HistFn {
	_, _, _, mapBound, _ := c06Pools(arg)
	return func(hist []string) explore.HistResult {
		cnt := map[string]int{}
		n := len(hist)
		if n == 0 || !strings.HasPrefix(hist[n-1], "pub:") {
			r := c06Once(arg, hist, nil, false)
			viol := r.viol
			if n > 0 && strings.HasPrefix(hist[n-1], "alt:") {
				viol = nil // judged when the parent enumerated this order
			}
			return explore.HistResult{Key: r.key, Next: r.next, Viol: viol, Trace: r.trace, Counters: cnt}
		}
		// final publish: every map order on the selection path
		var def *c06Res
		seenKey := map[string]bool{}
		seenViol := map[string]bool{}
		recvSets := map[string]bool{}
		var viol []explore.Violation
		var alts []string
		multi := false
		execs, complete := enumChoices(func(prefix []int) []zzvrt.ChoicePoint {
			r := c06Once(arg, hist, prefix, true)
			if def == nil {
				def = &r
				seenKey[r.key] = true
			}
			recvSets[r.recv] = true
			for _, v := range r.viol {
				if !seenViol[v.Key] {
					seenViol[v.Key] = true
					v.Msg += " [map orders " + choiceVec(r.pts) + "]"
					v.Trace = r.trace
					viol = append(viol, v)
				}
			}
			if !seenKey[r.key] {
				seenKey[r.key] = true
				alts = append(alts, "alt:"+choiceVec(r.pts))
			}
			for _, p := range r.pts {
				if p.Kind == zzvrt.ChMap && c06SelectFuncs[siteFunc(p.Site)] {
					multi = true
				}
			}
			return r.pts
		}, func(site string) bool { return c06SelectFuncs[siteFunc(site)] }, mapBound, 20000)
		cnt["publishes"] = 1
		cnt["publish_executions"] = execs
		if multi {
			cnt["publishes_with_selection_choice"] = 1
		}
		if len(recvSets) > 1 {
			cnt["publishes_with_distinct_receiver_sets"] = 1
		}
		cnt["alt_successor_states"] = len(alts)
		if !complete {
			viol = append(viol, explore.Violation{Key: "internal:order-enumeration-capped", Msg: "more than 20000 map orders for one publish"})
		}
		return explore.HistResult{Key: def.key, Next: append(def.next, alts...), Viol: viol, Trace: def.trace, Counters: cnt}
	}
}

func init() {
	explore.RegisterBFS("c06", c06Run)
	explore.Register("C06", func(c *explore.Ctx) {
		c.Rep.Level = "model_checking"
		c.Rep.Assumption("one operation at a time, broker run to quiescence under the default thread schedule; map iteration order is enumerated, not the thread schedule")
		c.Rep.Assumption("map orders: full product at the ranges inside Subscribers.SelectShared (all n! orders for n<=3 keys); bounded number of non-default orders at the ranges of gatherSharedSubscriptions, MergeSharedSelected and publishToSubscribers")
		c.Rep.Assumption("share group = ShareName + filter; all members authorised; an offline member chosen for a QoS 0 message is a permitted, invisible omission")
		c.Rep.Assumption("scenarios ext/ret (a group's index entry disturbed by non-members: UNSUBSCRIBE by a client that does not hold the filter, subscriptions and retained messages beneath the group's node added and removed): clients a, b, c are treated as interchangeable, a client acts only after the alphabetically smaller ones have acted")
		type sc struct {
			arg    string
			budget time.Duration
		}
		scen := []sc{{"s2p2u1,map1,sym,leave,q0", 45 * time.Second}, {"s2p1u1,map1,ext", 20 * time.Second}, {"s2p1u0,map1,ret", 10 * time.Second}, {"s3p1u0,map1,off", 25 * time.Second}, {"s4p1u1,map1", 45 * time.Second}}
		if !c.Quick() {
			scen = []sc{{"s2p2u1,map1,leavecut", 100 * time.Second}, {"s3p1u2,map1,ext", 70 * time.Second}, {"s3p1u1,map1,ret2", 25 * time.Second}, {"s2p1u1,map1,ext,ret,off", 25 * time.Second},
				{"s5p1u0,map1", 4 * time.Minute}, {"s4p1u1,map2", 150 * time.Second}, {"s3p2u1,map1", 90 * time.Second}, {"s4p1u1,map1,off", 2 * time.Minute}}
		}
		tot := map[string]int64{}
		for _, s := range scen {
			if c.Expired() {
				c.Rep.Capped("scenario c06/" + s.arg + " not started (deadline)")
				continue
			}
			st := explore.RunBFS(c, "c06", s.arg, 0, s.budget)
			for k, v := range st.Counters {
				tot[k] += v
			}
		}
		for k, v := range tot {
			c.Rep.Count("c06_"+k, v)
		}
		if fullRun() && c.Rep.Get("transitions") > 0 && (tot["publishes_with_selection_choice"] == 0 || tot["publishes_with_distinct_receiver_sets"] == 0) {
			c.Rep.Add(explore.Violation{Key: "internal:vacuous", Msg: fmt.Sprintf("C06 never had a real member choice: %v", tot)})
		}
	})
}
