package props

// C42: every valid encoding a client may send is decoded as the sender meant.
//
// E1: for every client-to-server packet type x protocol version (MQIsdp/3, MQTT/4, MQTT/5)
// every generated well-formed packet (codec_gen.go; subscription identifiers removed from
// PUBLISH, which a client must not send) is encoded by the independent reference encoder
// in every way the specification permits:
//   * PUBACK/PUBREC/PUBREL/PUBCOMP v5: remaining length 2 (reason 0x00, no properties),
//     3 (any reason, no properties), >= 4 (full form)                     [3.4.2.1, 3.4.2.2.1]
//   * DISCONNECT v5: remaining length 0 (reason 0x00, no properties), 1 (any reason, no
//     properties), >= 2 (full form)                                       [3.14.2.1, 3.14.2.2.1]
//   * AUTH v5: remaining length 0 (reason 0x00, no properties) or full form   [3.15.2.1]
//     (AUTH with remaining length 1 is not stated to be permitted and is not generated)
//   * properties in every order (all permutations up to 4 properties, otherwise identity,
//     reversal and rotation; order among equal identifiers kept), for CONNECT also the
//     will properties
// and decoded by mochi exactly as ReadPacket does. Oracle: accepted, and the decoded packet
// is equivalent (cdcCanon) to the intended one.
// Live part: a v5 client with a will sends DISCONNECT as raw bytes in each short form; a
// subscriber to the will topic must receive the will iff the reason code is 0x04.
//
// Violation keys:
//   <TYPE>:v<ver>:<form>:rejected          form = full | rl<N> | permuted
//   <TYPE>:v<ver>:<form>:<field>           decoded, but <field> is not what the sender meant
//   <TYPE>:v<ver>:<form>:panic:<site>
//   live:DISCONNECT:v5:<bytes>:will-not-published | will-published | not-disconnected

import (
	"encoding/hex"
	"encoding/json"
	"fmt"
	"sync/atomic"

	"verif/explore"
	"verif/ref"
	"verif/world"
)

type c42Enc struct {
	form  string
	bytes []byte
}

// cdcPropOrders returns the orderings of ps to try.
func cdcPropOrders(ps ref.Props) []ref.Props {
	if len(ps) <= 1 {
		return []ref.Props{ps}
	}
	var cands []ref.Props
	if len(ps) <= 4 {
		cands = ref.Permutations(ps)
	} else {
		rev := make(ref.Props, len(ps))
		for i, p := range ps {
			rev[len(ps)-1-i] = p
		}
		rot := append(append(ref.Props{}, ps[1:]...), ps[0])
		cands = []ref.Props{ps, rev, rot}
	}
	// keep only orderings that preserve the relative order of equal identifiers (user properties)
	var out []ref.Props
	for _, c := range cands {
		ok := true
		for _, id := range []byte{ref.PUser, ref.PSubscriptionID} {
			if cdcPropsDiff(ref.Props(ps.All(id)), ref.Props(c.All(id))) != "" {
				ok = false
			}
		}
		if ok {
			out = append(out, c)
		}
	}
	return out
}

// c42Encodings lists every permitted wire form of g.
func c42Encodings(g ref.Packet, ver byte) []c42Enc {
	var out []c42Enc
	add := func(form string, p ref.Packet, o ref.EncOpts) {
		out = append(out, c42Enc{form, ref.Encode(p, ver, o)})
	}
	orders := cdcPropOrders(g.Props)
	for i, ps := range orders {
		p := g
		p.Props = ps
		form := "full"
		if i > 0 {
			form = "permuted"
		}
		add(form, p, ref.EncOpts{})
	}
	if g.Type == ref.CONNECT && g.WillFlag {
		for i, ps := range cdcPropOrders(g.WillProps) {
			if i == 0 {
				continue
			}
			p := g
			p.WillProps = ps
			add("permuted", p, ref.EncOpts{})
			if len(orders) > 1 {
				p.Props = orders[len(orders)-1]
				add("permuted", p, ref.EncOpts{})
			}
		}
	}
	if ver >= 5 && len(g.Props) == 0 {
		switch g.Type {
		case ref.PUBACK, ref.PUBREC, ref.PUBREL, ref.PUBCOMP:
			add("rl3", g, ref.EncOpts{OmitPropLen: true})
			if g.ReasonCode == 0 {
				add("rl2", g, ref.EncOpts{OmitReason: true})
			}
		case ref.DISCONNECT:
			add("rl1", g, ref.EncOpts{OmitPropLen: true})
			if g.ReasonCode == 0 {
				add("rl0", g, ref.EncOpts{OmitReason: true})
			}
		case ref.AUTH:
			if g.ReasonCode == 0 {
				add("rl0", g, ref.EncOpts{OmitReason: true})
			}
		}
	}
	return out
}

// c42Check decodes one encoding with mochi and compares with the intended packet.
func c42Check(g ref.Packet, ver byte, e c42Enc) (key, msg string) {
	T := cdcTname(g.Type)
	hdr, rl, body, err := cdcSplitFixedHeader(e.bytes)
	if err != nil || rl != len(body) {
		panic(fmt.Sprintf("reference encoder produced a bad fixed header: % x", e.bytes))
	}
	pk, derr, pn := cdcSafeDecode(hdr, ver, body)
	if pn != nil {
		return fmt.Sprintf("%s:v%d:%s:panic:%s", T, ver, e.form, pn.Site), fmt.Sprintf("decoding [%s] (%s, version %d, form %s) panicked in %s: %s", cdcShort(e.bytes), cdcShortPacket(g), ver, e.form, pn.Site, pn.Msg)
	}
	if derr != nil {
		return fmt.Sprintf("%s:v%d:%s:rejected", T, ver, e.form), fmt.Sprintf("[%s] is a permitted encoding (%s) of %s under version %d, but the decoder rejects it: %v", cdcShort(e.bytes), e.form, cdcShortPacket(g), ver, derr)
	}
	want, got := cdcCanon(g, ver), cdcCanon(cdcFromMochi(pk, ver), ver)
	if d := cdcDiffPackets(want, got); d != "" {
		return fmt.Sprintf("%s:v%d:%s:%s", T, ver, e.form, d), fmt.Sprintf("[%s] is a permitted encoding (%s) of %s under version %d; decoded as %s: %s is not what the sender meant", cdcShort(e.bytes), e.form, cdcShortPacket(want), ver, cdcShortPacket(got), d)
	}
	return "", ""
}

type c42Replay struct {
	Kind string `json:"kind"` // encoding | live
	Ver  byte   `json:"ver"`
	Form string `json:"form,omitempty"`
	Hex  string `json:"hex"`
}

// c42Live runs the will scenario with the given raw DISCONNECT bytes.
func c42Live(raw []byte) (key, msg string, trace []string) {
	w := world.New(nil, world.Config{})
	defer w.End()
	b := w.Connect(world.ConnectPacket("b", 5, true))
	b.Do(ref.Packet{Type: ref.SUBSCRIBE, PacketID: 1, Filters: []ref.Filter{{Filter: "w", Opts: 0}}})
	cp := world.ConnectPacket("a", 5, true)
	cp.WillFlag, cp.WillTopic, cp.WillPayload = true, "w", []byte("bye")
	a := w.Connect(cp)
	a.Poll()
	b.Poll()
	trace = append(trace, "b subscribed to w; a connected (v5, will w/bye, no will delay)", fmt.Sprintf("a sends raw [% x]", raw))
	a.SendRaw(raw)
	w.Run()
	got := b.Poll()
	willSeen := false
	for _, p := range got {
		trace = append(trace, "b received "+p.String())
		if p.Type == ref.PUBLISH && p.Topic == "w" && string(p.Payload) == "bye" {
			willSeen = true
		}
	}
	trace = append(trace, fmt.Sprintf("a's connection closed by broker: %v; problems: %v", a.Closed(), w.Problems()))
	// intended meaning according to the strict reference decoder
	ip, _, err := ref.DecodeOne(raw, 5)
	if err != nil {
		return "", "", append(trace, "reference decoder rejects the bytes: "+err.Error())
	}
	name := fmt.Sprintf("live:DISCONNECT:v5:%s", hex.EncodeToString(raw))
	switch {
	case ip.ReasonCode == 0x04 && !willSeen:
		return name + ":will-not-published", fmt.Sprintf("DISCONNECT [% x] means reason 0x04 (disconnect with will message) but the will was not published to the subscriber", raw), trace
	case ip.ReasonCode == 0x00 && willSeen:
		return name + ":will-published", fmt.Sprintf("DISCONNECT [% x] means normal disconnection (0x00) but the will was published", raw), trace
	case !a.Closed():
		return name + ":not-disconnected", fmt.Sprintf("after DISCONNECT [% x] the broker left the connection open", raw), trace
	}
	return "", "", trace
}

func c42Replayer(rawj json.RawMessage) (bool, []string) {
	var r c42Replay
	if err := json.Unmarshal(rawj, &r); err != nil {
		return false, []string{err.Error()}
	}
	b, _ := hex.DecodeString(r.Hex)
	if r.Kind == "live" {
		key, msg, tr := c42Live(b)
		if key == "" {
			return false, append(tr, "no violation")
		}
		return true, append(tr, "key="+key, msg)
	}
	g, _, err := ref.DecodeOne(b, r.Ver)
	if err != nil {
		return false, []string{"reference decoder: " + err.Error()}
	}
	tr := []string{fmt.Sprintf("bytes [%s] version %d; the strict reference decoder reads: %s", cdcShort(b), r.Ver, cdcShortPacket(g))}
	key, msg := c42Check(g, r.Ver, c42Enc{r.Form, b})
	if key == "" {
		return false, append(tr, "mochi decodes the same packet: no violation")
	}
	return true, append(tr, "key="+key, msg)
}

func init() {
	explore.RegisterReplayer("C42", c42Replayer)
	explore.Register("C42", func(c *explore.Ctx) {
		c.Rep.Level = "exploration"
		c.Rep.Set("rule", "distinct (packet type, version, encoding form, flag/QoS shape, reason class, list length, set of property identifiers) classes decoded")
		c.Rep.Assumption("permitted shortened forms are those of MQTT 5 sections 3.4.2.1/3.4.2.2.1 (acks: remaining length 2, 3), 3.14.2.1/3.14.2.2.1 (DISCONNECT: 0, 1) and 3.15.2.1 (AUTH: 0); AUTH with remaining length 1 is not generated")
		c.Rep.Assumption("equivalence as in C26 (property order between different identifiers irrelevant, specified defaults equal omission)")
		type job struct {
			g   ref.Packet
			ver byte
		}
		var jobs []job
		for _, ver := range []byte{3, 4, 5} {
			for _, t := range cdcClientTypes {
				for _, g := range cdcGenPackets(t, ver, !c.Quick() || t != ref.CONNECT) {
					if t == ref.PUBLISH && len(g.Props.All(ref.PSubscriptionID)) > 0 {
						var ps ref.Props
						for _, p := range g.Props {
							if p.ID != ref.PSubscriptionID {
								ps = append(ps, p)
							}
						}
						g.Props = ps
					}
					jobs = append(jobs, job{g, ver})
				}
			}
		}
		var evals, selfBad int64
		forms := map[string]*int64{"full": new(int64), "permuted": new(int64), "rl0": new(int64), "rl1": new(int64), "rl2": new(int64), "rl3": new(int64)}
		var shapes cdcStrSet
		const chunk = 128
		nch := (len(jobs) + chunk - 1) / chunk
		complete := explore.ParallelRange(nch, c.Workers, c.Expired, func(ci int) {
			local := map[string]struct{}{}
			var n int64
			for i := ci * chunk; i < (ci+1)*chunk && i < len(jobs); i++ {
				j := jobs[i]
				want := cdcCanon(j.g, j.ver)
				sh := cdcShapeOf(want, j.ver)
				for _, e := range c42Encodings(j.g, j.ver) {
					n++
					atomic.AddInt64(forms[e.form], 1)
					local[e.form+"/"+sh] = struct{}{}
					// the oracle must agree with itself: strict reference decoding of the form gives g back
					if rp, k, err := ref.DecodeOne(e.bytes, j.ver); err != nil || k != len(e.bytes) || cdcDiffPackets(want, cdcCanon(rp, j.ver)) != "" {
						atomic.AddInt64(&selfBad, 1)
						continue
					}
					if key, msg := c42Check(j.g, j.ver, e); key != "" {
						c.Rep.Add(explore.Violation{Key: key, Msg: msg, Replay: c42Replay{Kind: "encoding", Ver: j.ver, Form: e.form, Hex: hex.EncodeToString(e.bytes)}})
					}
				}
			}
			atomic.AddInt64(&evals, n)
			shapes.addAll(local)
		})
		if !complete {
			c.Rep.Capped("not all generated encodings decoded before the deadline")
		}
		if selfBad > 0 {
			c.Rep.Capped(fmt.Sprintf("%d encodings skipped: reference encoder and reference decoder disagree (machinery fault, not judged)", selfBad))
		}
		c.Rep.Set("generated_packets", int64(len(jobs)))
		fm := map[string]int64{}
		for k, v := range forms {
			fm[k] = *v
		}
		c.Rep.Set("encodings_by_form", fm)
		// live part
		var live int64
		for _, raw := range [][]byte{{0xE0, 0x01, 0x04}, {0xE0, 0x02, 0x04, 0x00}, {0xE0, 0x00}, {0xE0, 0x01, 0x00}, {0xE0, 0x02, 0x00, 0x00}} {
			key, msg, tr := c42Live(raw)
			live++
			if key != "" {
				c.Rep.Add(explore.Violation{Key: key, Msg: msg, Trace: tr, Replay: c42Replay{Kind: "live", Ver: 5, Hex: hex.EncodeToString(raw)}})
			}
		}
		c.Rep.Set("live_disconnect_scenarios", live)
		c.Rep.Count("evaluations", evals+live)
		c.Rep.Count("distinct_nontrivial", shapes.size())
		c.Rep.Sample(map[string]any{"bytes": "e0 01 04", "version": 5, "meaning": "DISCONNECT reason 0x04, no properties", "expect": "decoded reason 0x04; will published"})
		c.Rep.Sample(map[string]any{"bytes": "f0 00", "version": 5, "meaning": "AUTH reason 0x00, no properties", "expect": "accepted, reason 0"})
		c.Rep.Sample(map[string]any{"bytes": "40 03 00 07 10", "version": 5, "meaning": "PUBACK id 7 reason 0x10", "expect": "reason 0x10"})
		c.Rep.Sample(map[string]any{"packet": "CONNECT v5 properties 11,21,27 in all 6 orders", "expect": "same session expiry / receive maximum / maximum packet size"})
	})
}
