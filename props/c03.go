package props

import (
	"fmt"
	"sort"
	"strings"
	"time"

	mqtt "github.com/mochi-mqtt/server/v2"

	"verif/explore"
	"verif/ref"
	"verif/world"
)

// C03: a connected client receives a published message exactly when, at publish time, it
// held a matching subscription whose No Local option does not exclude the message; one
// copy per publish even with overlapping subscriptions; payload, content type,
// correlation data, response topic and user properties unchanged. Permitted omissions
// are only the reported drops (full outbound queue, in-flight limit, packet-id
// exhaustion, packet larger than the client's maximum) and QoS 0 to an offline session.
//
// E2 scenario "c03" (arg: "f<n>" filters, pools "s<subs>u<unsubs>p<pubs>", "sess"):
//   clients a (v5, persistent session), b (v3.1.1, clean), c (v5, clean); all subscribe at QoS 1
//   sub:<client>:<k>:<nl>   k: 1 x/+  2 x/#  3 #  4 +/#      nl = No Local (v5 only)
//   unsub:<client>:<k>
//   pub:<client>:<topic>:<qos>  publisher a (v5: content type, response topic, correlation
//                               data, two user properties with equal keys) or b (v3.1.1)
//   disc:<a|c> / conn:<a|c>     ("sess": a resumes its session, c's session ends)
// With "acl" a read permission on (client, message topic) is installed (b may not read x/y,
// c may not read x; every filter may be subscribed): a matching subscription entitles only
// if the client may read the topic of the message.
// Reference model: subscription table; per publish the entitled set; for the offline
// persistent session the set of tags that must be queued (delivered QoS > 0).
//
// E2 scenario "c03drop": the same monitor with resource limits that force the permitted
// omissions; each omission must coincide with a recorded OnPublishDropped /
// InflightDropped increment / OnPacketIDExhausted event, or with a packet that is larger
// than the receiver's Maximum Packet Size.
//
// E3 scenario "c03conc": a (and d) subscribed, b and c publish concurrently (optionally a
// subscribe / unsubscribe races); every interleaving up to the deviation bound.

type c03Sub struct{ nl bool }

type c03Model struct {
	subs    map[string]c03Sub // "client|filter"
	online  map[string]bool
	pending map[string]bool // tags queued for a's offline session
	ndisc   map[string]int
	nsub    int
	nunsub  int
	npub    int
	acl     bool // scenario "acl": b may not read topic x/y, c may not read topic x (filters are all allowed)
}

// c03ReadDenied is the reference read permission of scenario "acl": it is a relation on
// (client, TOPIC of the message); being allowed to subscribe to a wildcard filter that
// covers the topic does not grant it.
func c03ReadDenied(cl, topic string) bool {
	return (cl == "b" && topic == "x/y") || (cl == "c" && topic == "x")
}

var c03Filters = map[string]string{"1": "x/+", "2": "x/#", "3": "#", "4": "+/#"}
var c03Ver = map[string]byte{"a": 5, "b": 4, "c": 5}

// entitled reports whether client cl must receive a message on topic published by origin,
// and describes the matching subscriptions for violation keys.
func (m *c03Model) entitled(cl, topic, origin string) (ok bool, matching []string, nlExcluded int) {
	for _, s := range explore.SortedKeys(m.subs) {
		i := strings.IndexByte(s, '|')
		if s[:i] != cl || !ref.Match(s[i+1:], topic) {
			continue
		}
		matching = append(matching, s[i+1:])
		if m.acl && c03ReadDenied(cl, topic) {
			continue
		}
		if m.subs[s].nl && origin == cl {
			nlExcluded++
			continue
		}
		ok = true
	}
	return
}

func c03ConnectPacket(cl string) ref.Packet {
	if cl == "a" {
		return v5connect("a", false, 0, 300)
	}
	return world.ConnectPacket(cl, c03Ver[cl], true)
}

// c03CheckCopy compares one delivered copy with what was published.
func c03CheckCopy(h *H, cl string, p ref.Packet, topic, tag string, origin string) {
	if p.Topic != topic {
		h.violate("c03:altered:topic", "%s received %s on topic %q, published on %q", cl, tag, p.Topic, topic)
	}
	if c03Ver[cl] == 5 {
		var want ref.Props
		if c03Ver[origin] == 5 {
			want = msgProps(tag)
		}
		if d := appPropsDiff(want, p.Props); d != "" {
			h.violate(fmt.Sprintf("c03:altered:%s:v%d-to-v5", d, c03Ver[origin]), "%s received %s with properties %v, published with %v", cl, tag, []ref.Prop(p.Props), []ref.Prop(want))
		}
	}
}

func c03Run(arg string) explore.HistFn {
	nf, maxSub, maxUnsub, maxPub, sess, acl := 3, 2, 1, 2, false, false
	for _, a := range strings.Split(arg, ",") {
		switch {
		case len(a) == 2 && a[0] == 'f':
			nf = int(a[1] - '0')
		case len(a) == 6 && a[0] == 's' && a[2] == 'u' && a[4] == 'p':
			maxSub, maxUnsub, maxPub = int(a[1]-'0'), int(a[3]-'0'), int(a[5]-'0')
		case a == "sess":
			sess = true
		case a == "acl":
			acl = true
		}
	}
	return func(hist []string) explore.HistResult {
		var cfg world.Config
		if acl {
			cfg.Hook = func(rh *world.RecHook) {
				rh.ACL = func(cl *mqtt.Client, topic string, write bool) bool { return write || !c03ReadDenied(cl.ID, topic) }
			}
		}
		h := newH(cfg)
		m := &c03Model{subs: map[string]c03Sub{}, online: map[string]bool{"a": true, "b": true, "c": true}, pending: map[string]bool{}, ndisc: map[string]int{}, acl: acl}
		cnt := map[string]int{}
		for _, cl := range []string{"a", "b", "c"} {
			h.connect(cl, c03ConnectPacket(cl))
		}
		pid := uint16(100)
		noPublishes := func(ctx string, got map[string][]ref.Packet) {
			for _, cl := range explore.SortedKeys(got) {
				if n := len(pubsOf(got[cl])); n > 0 {
					h.violate("c03:unexpected-publish:"+ctx, "%s received %d PUBLISH packets during %s: %v", cl, n, ctx, got[cl])
				}
			}
		}
		runHist(h, hist, func(op string) {
			f := fields(op)
			switch f[0] {
			case "sub":
				cl, k, nl := f[1], f[2], f[3] == "1"
				m.nsub++
				pid++
				sp := ref.Packet{Type: ref.SUBSCRIBE, PacketID: pid, Filters: []ref.Filter{{Filter: c03Filters[k], Opts: ref.SubOpts(1, nl, false, 0)}}}
				h.Cl[cl].Send(sp)
				h.logf("%s: -> %s", cl, sp)
				h.W.Run()
				got := h.settle(true)
				m.subs[cl+"|"+c03Filters[k]] = c03Sub{nl}
				if g := got[cl]; len(g) == 0 || g[0].Type != ref.SUBACK || len(g[0].ReasonCodes) != 1 || g[0].ReasonCodes[0] != 1 {
					h.violate("c03:subscribe-not-granted", "SUBSCRIBE %s by %s: %v", c03Filters[k], cl, g)
				}
				noPublishes("subscribe", got)
			case "unsub":
				cl, k := f[1], f[2]
				m.nunsub++
				pid++
				up := ref.Packet{Type: ref.UNSUBSCRIBE, PacketID: pid, Filters: []ref.Filter{{Filter: c03Filters[k]}}}
				h.Cl[cl].Send(up)
				h.logf("%s: -> %s", cl, up)
				h.W.Run()
				got := h.settle(true)
				delete(m.subs, cl+"|"+c03Filters[k])
				noPublishes("unsubscribe", got)
			case "disc":
				cl := f[1]
				m.online[cl] = false
				m.ndisc[cl]++
				h.Cl[cl].Send(ref.Packet{Type: ref.DISCONNECT})
				h.logf("%s: -> DISCONNECT", cl)
				h.W.Run()
				if cl != "a" { // clean session ends: its subscriptions are gone
					for s := range m.subs {
						if strings.HasPrefix(s, cl+"|") {
							delete(m.subs, s)
						}
					}
				}
				noPublishes("disconnect", h.settle(true))
			case "conn":
				cl := f[1]
				m.online[cl] = true
				got := h.connectSettle(cl, c03ConnectPacket(cl), true)
				if len(got) == 0 || got[0].Type != ref.CONNACK || got[0].ReasonCode != 0 {
					h.violate("c03:reconnect-refused", "%s: %v", cl, got)
				}
				seen := map[string]int{}
				for _, p := range pubsOf(got) {
					seen[string(p.Payload)]++
				}
				for tag := range m.pending {
					h.count(cnt, "queued_delivered_on_resume", 1)
					if cl == "a" && seen[tag] != 1 {
						kind := "lost"
						if seen[tag] > 1 {
							kind = "duplicated"
						}
						h.violate("c03:queued-for-offline-session:"+kind, "a resumed its session: queued %s delivered %d times, want 1 (pending %v, got %v)", tag, seen[tag], explore.SortedKeys(m.pending), got)
					}
				}
				for tag, n := range seen {
					if !(cl == "a" && m.pending[tag]) {
						h.violate("c03:unexpected-publish:on-connect", "%s received %s x%d on connect although it was not queued for it (pending %v)", cl, tag, n, explore.SortedKeys(m.pending))
					}
				}
				if cl == "a" {
					m.pending = map[string]bool{}
				}
			case "pub":
				origin, topic := f[1], f[2]
				q := f[3][0] - '0'
				m.npub++
				tag := "m" + itoa(m.npub)
				pk := pub(topic, tag, q, 0)
				if q > 0 {
					pid++
					pk.PacketID = pid
				}
				if c03Ver[origin] == 5 {
					pk.Props = msgProps(tag)
				}
				h.Cl[origin].Send(pk)
				h.logf("%s: -> %s", origin, pk)
				h.W.Run()
				got := h.settle(true)
				if q > 0 {
					acked := false
					for _, p := range got[origin] {
						if p.Type == ref.PUBACK && p.PacketID == pid && p.ReasonCode < 0x80 {
							acked = true
						}
					}
					if !acked {
						h.violate("c03:publish-not-acknowledged", "%s published %s q%d: %v", origin, tag, q, got[origin])
					}
				}
				for _, cl := range []string{"a", "b", "c"} {
					ent, matching, nlx := m.entitled(cl, topic, origin)
					n := 0
					for _, p := range pubsOf(got[cl]) {
						if string(p.Payload) != tag {
							h.violate("c03:stray-publish", "%s received %q while %s was being published", cl, p.Payload, tag)
							continue
						}
						n++
						if ent {
							c03CheckCopy(h, cl, p, topic, tag, origin)
						}
					}
					switch {
					case ent && m.online[cl]:
						h.count(cnt, "entitled_deliveries", 1)
						if len(matching) > 1 {
							h.count(cnt, "overlapping_subscriptions", 1)
						}
						if origin == cl {
							h.count(cnt, "own_message_deliveries", 1)
						}
						shape := filterShape(matching[0], topic)
						for _, f := range matching[1:] {
							if s := filterShape(f, topic); s != shape {
								shape = "overlap"
							}
						}
						if nlx > 0 {
							shape = "nolocal-overlap" // one matching subscription excludes it, another does not
						}
						if n == 0 {
							h.violate("c03:missing:"+shape, "%s published by %s on %q (q%d): %s holds %v (No Local excludes %d of them) and received nothing", tag, origin, topic, q, cl, matching, nlx)
						} else if n > 1 {
							h.violate("c03:duplicate:"+shape, "%s on %q: %s holds %v and received %d copies", tag, topic, cl, matching, n)
						}
					case ent && !m.online[cl]:
						// offline persistent session: QoS 0 may be dropped, QoS > 0 must be queued
						if n > 0 {
							h.violate("c03:delivered-to-closed-connection", "%s received %s while offline", cl, tag)
						}
						if cl == "a" && q > 0 {
							m.pending[tag] = true
							h.count(cnt, "queued_for_offline_session", 1)
						} else {
							h.count(cnt, "qos0_to_offline_session", 1)
						}
					default:
						if n > 0 {
							why := "no-matching-subscription"
							switch {
							case m.acl && c03ReadDenied(cl, topic) && len(matching) > 0:
								why = "not-authorised-to-read-topic"
							case nlx > 0:
								why = "no-local"
							case !m.online[cl]:
								why = "offline"
							}
							h.violate("c03:unentitled:"+why, "%s on %q published by %s: %s received %d copies but holds only %v (No Local excludes %d)", tag, topic, origin, cl, n, matching, nlx)
						} else if nlx > 0 {
							h.count(cnt, "no_local_exclusions", 1)
						} else if m.acl && c03ReadDenied(cl, topic) && len(matching) > 0 {
							h.count(cnt, "read_denied_exclusions", 1)
						}
					}
				}
			}
		})
		// enabled operations
		var next []string
		more := m.npub < maxPub || len(m.pending) > 0
		if m.npub < maxPub {
			next = append(next, "pub:a:x/y:0", "pub:a:x/y:1", "pub:a:x:0", "pub:b:x/y:1", "pub:b:x:0")
			if !m.online["a"] {
				next = next[3:]
			}
			for _, cl := range []string{"a", "b", "c"} {
				if !m.online[cl] {
					continue
				}
				for k := 1; k <= nf; k++ {
					ks := itoa(k)
					if _, held := m.subs[cl+"|"+c03Filters[ks]]; held && m.nunsub < maxUnsub {
						next = append(next, "unsub:"+cl+":"+ks)
					}
					if m.nsub < maxSub {
						next = append(next, "sub:"+cl+":"+ks+":0")
						if c03Ver[cl] == 5 {
							next = append(next, "sub:"+cl+":"+ks+":1")
						}
					}
				}
			}
		}
		if sess && more {
			for _, cl := range []string{"a", "c"} {
				if m.online[cl] && m.ndisc[cl] < 1 && m.npub < maxPub {
					next = append(next, "disc:"+cl)
				} else if !m.online[cl] {
					next = append(next, "conn:"+cl)
				}
			}
		}
		sort.Strings(next)
		key := h.W.State() + fmt.Sprintf("|model:%v|%v|%v|%v|%d,%d,%d", m.subs, m.online, explore.SortedKeys(m.pending), m.ndisc, m.nsub, m.nunsub, m.npub)
		r := h.finish(key, next)
		r.Counters = cnt
		return r
	}
}

// ---------------- permitted omissions must be reported ----------------

type c03dOut struct { // one unacknowledged delivery at a receiver
	pid uint16
	tag string
}

func c03DropRun(arg string) explore.HistFn {
	kind := strings.Split(arg, ",")[0]
	maxPub := 3
	if kind == "pid" {
		maxPub = 4
	}
	if strings.Contains(arg, "deep") {
		maxPub++
	}
	const cMax = 60 // c's Maximum Packet Size in the "size" scenario
	return func(hist []string) explore.HistResult {
		h := newH(world.Config{Caps: func(c *mqtt.Capabilities) {
			switch kind {
			case "queue":
				c.MaximumClientWritesPending = 1
			case "inflight":
				c.MaximumInflight = 1
			}
		}})
		if kind == "pid" {
			h.W.S.Options.Capabilities.VerifSetMaxPacketID(2)
		}
		cnt := map[string]int{}
		h.connect("a", world.ConnectPacket("a", 5, true))
		h.connect("b", world.ConnectPacket("b", 4, true))
		cp := world.ConnectPacket("c", 5, true)
		if kind == "size" {
			cp.Props = append(cp.Props, ref.Prop{ID: ref.PMaximumPacketSize, Num: cMax})
		}
		h.connect("c", cp)
		h.do("a", sub(1, "x/#", 1))
		h.do("c", sub(1, "x/+", 1))
		autoAck := kind == "queue" || kind == "size"
		out := map[string][]c03dOut{}
		npub, nop := 0, 0
		pid := uint16(100)
		runHist(h, hist, func(op string) {
			f := fields(op)
			ev0 := len(h.W.Events)
			dropped0 := h.W.S.Info.InflightDropped
			nop++
			type msg struct {
				tag string
				q   byte
			}
			var msgs []msg
			switch f[0] {
			case "ack":
				cl := f[1]
				o := out[cl][0]
				out[cl] = out[cl][1:]
				h.do(cl, ref.Packet{Type: ref.PUBACK, PacketID: o.pid})
			case "burst", "pub":
				n, q, big := 1, byte(0), false
				if f[0] == "burst" {
					n = int(f[1][0] - '0')
					q = f[2][0] - '0'
				} else {
					big = f[1] == "big"
					q = f[2][0] - '0'
				}
				for i := 0; i < n; i++ {
					npub++
					tag := "m" + itoa(npub)
					if big {
						tag = "M" + itoa(npub) + strings.Repeat(".", 80)
					}
					pk := pub("x/y", tag, q, 0)
					if q > 0 {
						pid++
						pk.PacketID = pid
					}
					h.Cl["b"].Send(pk)
					h.logf("b: -> %s", pk)
					msgs = append(msgs, msg{tag, q})
				}
				h.W.Run()
			}
			got := h.settle(autoAck)
			if len(msgs) == 0 {
				for _, cl := range []string{"a", "c"} {
					if n := len(pubsOf(got[cl])); n > 0 {
						h.violate("c03:unexpected-publish:acknowledge", "%s received %v after an acknowledgement", cl, got[cl])
					}
				}
				return
			}
			// reported drops during this op
			reported := map[string]int{}
			exhausted := 0
			for _, e := range h.W.Events[ev0:] {
				switch e.Name {
				case "OnPublishDropped":
					reported[e.Client+"|"+e.Tag]++
				case "OnPacketIDExhausted":
					reported[e.Client+"|"+e.Tag]++
					exhausted++
				}
			}
			unattributed := int(h.W.S.Info.InflightDropped-dropped0) - exhausted // in-flight limit: counter only
			for _, cl := range []string{"a", "c"} {
				copies := map[string]int{}
				for _, p := range pubsOf(got[cl]) {
					copies[string(p.Payload)]++
					if p.Qos > 0 && !autoAck {
						out[cl] = append(out[cl], c03dOut{p.PacketID, string(p.Payload)})
					}
					if p.Topic != "x/y" {
						h.violate("c03:altered:topic", "%s received %q on %q", cl, p.Payload, p.Topic)
					}
				}
				for _, mm := range msgs {
					n := copies[mm.tag]
					delete(copies, mm.tag)
					switch {
					case n > 1:
						h.violate("c03:duplicate:limits:"+kind, "%s received %q %d times", cl, mm.tag, n)
					case n == 1:
						h.count(cnt, "delivered", 1)
					case reported[cl+"|"+mm.tag] > 0:
						h.count(cnt, "omission_reported_by_hook", 1)
					case cl == "c" && kind == "size" && len(ref.Encode(ref.Packet{Type: ref.PUBLISH, Topic: "x/y", Payload: []byte(mm.tag), Qos: minb(mm.q, 1), PacketID: 1}, 5, ref.EncOpts{})) > cMax:
						h.count(cnt, "omission_oversize", 1)
					case mm.q > 0 && unattributed > 0:
						unattributed--
						h.count(cnt, "omission_counted_inflight_dropped", 1)
					default:
						h.violate("c03:silent-omission:"+kind, "%s is subscribed and did not receive %q (q%d); no OnPublishDropped/OnPacketIDExhausted event, no InflightDropped increment, packet within its maximum size; events=%v", cl, mm.tag, mm.q, h.W.Events[ev0:])
					}
				}
				for tag := range copies {
					h.violate("c03:stray-publish", "%s received %q which was not published in this step", cl, tag)
				}
			}
		})
		var next []string
		if npub < maxPub {
			switch kind {
			case "queue":
				next = append(next, "burst:2:0", "burst:2:1", "burst:3:1", "pub:small:0")
			case "size":
				next = append(next, "pub:small:0", "pub:small:1", "pub:big:0", "pub:big:1")
			default:
				next = append(next, "pub:small:0", "pub:small:1")
			}
		}
		for _, cl := range []string{"a", "c"} {
			if len(out[cl]) > 0 && (npub < maxPub) {
				next = append(next, "ack:"+cl)
			}
		}
		sort.Strings(next)
		key := h.W.State() + fmt.Sprintf("|model:%v|%d", out, npub)
		r := h.finish(key, next)
		r.Counters = cnt
		return r
	}
}

// ---------------- concurrent publishers (E3) ----------------

var c03ConcActs = map[string]func(cl map[string]*world.Client){
	"pubB1":  func(cl map[string]*world.Client) { cl["b"].Send(pub("x/y", "m1", 1, 11)) },
	"pubB0":  func(cl map[string]*world.Client) { cl["b"].Send(pub("x/y", "m1", 0, 0)) },
	"pubB1b": func(cl map[string]*world.Client) { cl["b"].Send(pub("x", "m3", 1, 12)) },
	"pubC0": func(cl map[string]*world.Client) {
		p := pub("x", "m2", 0, 0)
		p.Props = msgProps("m2")
		cl["c"].Send(p)
	},
	"pubC1": func(cl map[string]*world.Client) {
		p := pub("x/z", "m2", 1, 21)
		p.Props = msgProps("m2")
		cl["c"].Send(p)
	},
	"subD": func(cl map[string]*world.Client) { cl["d"].Send(sub(31, "x/+", 1)) },
	"unsubA": func(cl map[string]*world.Client) {
		cl["a"].Send(ref.Packet{Type: ref.UNSUBSCRIBE, PacketID: 32, Filters: []ref.Filter{{Filter: "x/#"}}})
	},
}

var c03ConcTags = map[string]string{"pubB1": "m1", "pubB0": "m1", "pubB1b": "m3", "pubC0": "m2", "pubC1": "m2"}

func c03ConcRun(arg string) explore.RunFn {
	acts := splitActs(arg)
	return func(prefix []int) explore.Outcome {
		w := world.New(prefix, world.Config{})
		defer w.End()
		cl := map[string]*world.Client{}
		cl["a"] = w.Connect(world.ConnectPacket("a", 5, true))
		cl["b"] = w.Connect(world.ConnectPacket("b", 4, true))
		cl["c"] = w.Connect(world.ConnectPacket("c", 5, true))
		cl["d"] = w.Connect(world.ConnectPacket("d", 4, true))
		cl["a"].Do(sub(1, "x/#", 1))
		cl["a"].Do(sub(2, "x/+", 1)) // overlapping: still one copy
		cl["d"].Do(sub(1, "#", 1))
		for _, c := range cl {
			c.Poll()
		}
		for _, a := range acts {
			c03ConcActs[a](cl)
		}
		w.Explore(true)
		w.Run()
		w.Explore(false)
		o := explore.Outcome{Points: w.X.Points, Divergence: w.X.Divergence(), Steps: w.X.Steps(), Counters: map[string]int{}}
		h := &H{W: w, Cl: cl, last: true}
		got := h.settle(true)
		var tags []string
		aStable, subD := true, false
		for _, a := range acts {
			if t, ok := c03ConcTags[a]; ok {
				tags = append(tags, t)
			}
			if a == "unsubA" {
				aStable = false
			}
			if a == "subD" {
				subD = true
			}
		}
		var obs strings.Builder
		for _, name := range []string{"a", "d"} {
			copies := map[string]int{}
			fmt.Fprintf(&obs, "%s:", name)
			for _, p := range pubsOf(got[name]) {
				copies[string(p.Payload)]++
				fmt.Fprintf(&obs, " %s", p.Payload)
				if name == "a" && string(p.Payload) == "m2" {
					if d := appPropsDiff(msgProps("m2"), p.Props); d != "" {
						h.violate("c03:altered:"+d+":concurrent", "a received m2 with %v", []ref.Prop(p.Props))
					}
				}
			}
			obs.WriteString("; ")
			for _, t := range tags {
				n := copies[t]
				delete(copies, t)
				stable := name == "d" || aStable
				switch {
				case n > 1:
					h.violate("c03:duplicate:concurrent-publishers", "%s received %s %d times (%s)", name, t, n, arg)
				case n == 0 && stable:
					h.violate("c03:missing:concurrent-publishers", "%s is subscribed throughout and did not receive %s (%s): %v", name, t, arg, got[name])
				case n == 1:
					o.Counters["deliveries"]++
				default:
					o.Counters["raced_away"]++
				}
			}
			_ = subD
			for t := range copies {
				h.violate("c03:stray-publish", "%s received %q (%s)", name, t, arg)
			}
		}
		for _, name := range []string{"b", "c"} {
			for _, p := range pubsOf(got[name]) {
				h.violate("c03:unentitled:publisher-not-subscribed", "%s received %q", name, p.Payload)
			}
		}
		o.Viol = append(h.Viol, runtimeViolations(w)...)
		o.Obs = obs.String()
		return o
	}
}

func init() {
	explore.RegisterBFS("c03", c03Run)
	explore.RegisterBFS("c03drop", c03DropRun)
	explore.RegisterDFS("c03conc", c03ConcRun)
	explore.Register("C03", func(c *explore.Ctx) {
		c.Rep.Level = "model_checking"
		c.Rep.Assumption("E2: one operation at a time, broker run to quiescence under the deterministic default schedule; harness clients acknowledge deliveries at once unless the scenario says otherwise")
		c.Rep.Assumption("E3: threads serialised by the cooperative scheduler; every departure from the default scheduler costs one deviation")
		c.Rep.Assumption("entitlement follows the statement literally: one matching subscription that No Local does not exclude suffices, even if another matching subscription of the same client has No Local set")
		type sc struct {
			name, arg string
			budget    time.Duration
		}
		scen := []sc{
			{"c03", "f3,s2u1p1", 8 * time.Second}, {"c03", "f2,s2u0p2,sess", 25 * time.Second}, {"c03", "f3,s2u0p1,acl", 8 * time.Second},
			{"c03drop", "queue", 4 * time.Second}, {"c03drop", "inflight", 4 * time.Second}, {"c03drop", "pid", 4 * time.Second}, {"c03drop", "size", 4 * time.Second},
		}
		conc := []string{"pubB1+pubC0", "pubB1+pubC1", "pubB0+pubC1+subD", "pubB1+pubC0+unsubA"}
		bounds := []explore.Bounds{{Preempt: 0}, {Preempt: 1}, {Preempt: 2}}
		per := 5 * time.Second
		if !c.Quick() {
			scen = []sc{
				{"c03", "f4,s3u1p2", 200 * time.Second}, {"c03", "f3,s3u1p2,sess", 220 * time.Second}, {"c03", "f4,s3u1p2,acl", 200 * time.Second},
				{"c03drop", "queue,deep", 20 * time.Second}, {"c03drop", "inflight,deep", 20 * time.Second}, {"c03drop", "pid,deep", 20 * time.Second}, {"c03drop", "size,deep", 20 * time.Second},
			}
			conc = append(conc, "pubB1+pubB1b+pubC1", "pubB1+pubC1+subD+unsubA")
			bounds = append(bounds, explore.Bounds{Preempt: 3})
			per = 30 * time.Second
		}
		tot := map[string]int64{}
		for _, s := range scen {
			if c.Expired() {
				c.Rep.Capped("scenario " + s.name + "/" + s.arg + " not started (deadline)")
				continue
			}
			st := explore.RunBFS(c, s.name, s.arg, 0, s.budget)
			for k, v := range st.Counters {
				tot[s.name+"_"+k] += v
			}
		}
		for _, s := range conc {
			if c.Expired() {
				c.Rep.Capped("scenario c03conc/" + s + " not started (deadline)")
				continue
			}
			explore.IterateDFS(c, "c03conc", s, bounds, per)
		}
		for k, v := range tot {
			c.Rep.Count(k, v)
		}
		if fullRun() && c.Rep.Get("transitions") > 0 && len(tot) > 0 {
			for _, k := range []string{"c03_entitled_deliveries", "c03_overlapping_subscriptions", "c03_no_local_exclusions", "c03_read_denied_exclusions", "c03_queued_for_offline_session", "c03drop_omission_reported_by_hook", "c03drop_omission_counted_inflight_dropped", "c03drop_omission_oversize"} {
				if tot[k] == 0 {
					c.Rep.Add(explore.Violation{Key: "internal:vacuous:" + k, Msg: fmt.Sprintf("C03 never exercised %s: %v", k, tot)})
				}
			}
		}
	})
}
