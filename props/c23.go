package props

import (
	"fmt"
	"strings"
	"time"

	mqtt "github.com/mochi-mqtt/server/v2"

	"verif/explore"
	"verif/ref"
	"verif/world"
)

// C23: everything the broker writes is well-formed for the client's protocol version.
//
// The monitor c23Check is applied to complete connection logs, decoded by the independent
// strict decoder (ref.DecodeStream): (1) dedicated E2 suite "c23" mixing v3/v4/v5 clients
// over error paths, (2) E3 scenarios (two writers to one connection: interleaving).

type c23Info struct {
	Ver          byte
	MaxSize      uint32 // client Maximum Packet Size (0: none)
	NoProblem    bool   // Request Problem Information = 0
	ResponseInfo bool   // Request Response Information = 1
}

var c23ServerTypes = map[byte]bool{ref.CONNACK: true, ref.PUBLISH: true, ref.PUBACK: true, ref.PUBREC: true, ref.PUBREL: true,
	ref.PUBCOMP: true, ref.SUBACK: true, ref.UNSUBACK: true, ref.PINGRESP: true}

// c23Reasons: the reason codes MQTT 5 permits per server-sent packet type (3.2.2.2, 3.4.2.1,
// 3.5.2.1, 3.6.2.1, 3.7.2.1, 3.9.3, 3.11.3, 3.14.2.1 restricted to codes a server may send).
var c23Reasons = map[byte][]byte{
	ref.CONNACK:    {0x00, 0x80, 0x81, 0x82, 0x83, 0x84, 0x85, 0x86, 0x87, 0x88, 0x89, 0x8A, 0x8C, 0x90, 0x95, 0x97, 0x99, 0x9A, 0x9B, 0x9C, 0x9D, 0x9F},
	ref.PUBACK:     {0x00, 0x10, 0x80, 0x83, 0x87, 0x90, 0x91, 0x97, 0x99},
	ref.PUBREC:     {0x00, 0x10, 0x80, 0x83, 0x87, 0x90, 0x91, 0x97, 0x99},
	ref.PUBREL:     {0x00, 0x92},
	ref.PUBCOMP:    {0x00, 0x92},
	ref.SUBACK:     {0x00, 0x01, 0x02, 0x80, 0x83, 0x87, 0x8F, 0x91, 0x97, 0x9E, 0xA1, 0xA2},
	ref.UNSUBACK:   {0x00, 0x11, 0x80, 0x83, 0x87, 0x8F, 0x91},
	ref.DISCONNECT: {0x00, 0x80, 0x81, 0x82, 0x83, 0x87, 0x89, 0x8B, 0x8D, 0x8E, 0x8F, 0x90, 0x93, 0x94, 0x95, 0x96, 0x97, 0x98, 0x99, 0x9A, 0x9B, 0x9C, 0x9D, 0x9E, 0xA0, 0xA1, 0xA2},
	ref.AUTH:       {0x00, 0x18, 0x19},
}

func c23ReasonOK(t, rc byte) bool {
	for _, v := range c23Reasons[t] {
		if v == rc {
			return true
		}
	}
	return false
}

func c23Check(cl *world.Client, in c23Info) []explore.Violation {
	var out []explore.Violation
	v := fmt.Sprintf("v%d", in.Ver)
	add := func(key, f string, a ...any) {
		out = append(out, explore.Violation{Key: key, Msg: fmt.Sprintf("conn of %q (%s): ", cl.ID, v) + fmt.Sprintf(f, a...)})
	}
	cl.Poll()
	if cl.Err != nil {
		add("malformed:"+v+":"+c23ErrClass(cl.Err.Error()), "broker output does not decode: %v (after %d good packets: %v)", cl.Err, len(cl.Recv), cl.Recv)
	}
	if n := cl.Leftover(); n > 0 && cl.Err == nil {
		add("partial-packet:"+v, "%d bytes of an incomplete packet at quiescence", n)
	}
	seenDisc := false
	for i, p := range cl.Recv {
		name := ref.TypeNames[p.Type]
		if seenDisc {
			// the pinned tree has a window between writing DISCONNECT and stopping the client in
			// which the write loop (queued PUBLISH) or the reader (a response) still writes; the
			// connection is closed right after. Anything written to a connection that stays open
			// after its DISCONNECT is a different matter and keeps the packet type in its key.
			switch {
			case !cl.Closed():
				add("after-disconnect:"+v+":"+name+":connection-left-open", "%s written after DISCONNECT and the connection is still open at quiescence", p)
			case p.Type == ref.PUBLISH:
				add("after-disconnect:"+v+":queued-publish:before-close", "%s written after DISCONNECT", p)
			default:
				add("after-disconnect:"+v+":response:before-close", "%s written after DISCONNECT", p)
			}
		}
		ok := c23ServerTypes[p.Type] || (in.Ver >= 5 && (p.Type == ref.DISCONNECT || p.Type == ref.AUTH))
		if !ok {
			add("type-not-for-client:"+v+":"+name, "packet type %s is never sent by a server in this protocol version", name)
		}
		if p.Type == ref.DISCONNECT {
			seenDisc = true
		}
		if in.Ver < 5 {
			switch p.Type {
			case ref.CONNACK:
				if p.ReasonCode > 5 {
					add(fmt.Sprintf("v3-connack-code:%#x", p.ReasonCode), "CONNACK return code %#x is not an MQTT 3 code (0-5)", p.ReasonCode)
				}
			case ref.SUBACK:
				for _, rc := range p.ReasonCodes {
					if !(rc <= 2 || rc == 0x80) {
						add(fmt.Sprintf("v3-suback-code:%#x", rc), "SUBACK return code %#x is not an MQTT 3 code", rc)
					}
				}
			}
		}
		if in.MaxSize > 0 && i < len(cl.Raw) && uint32(len(cl.Raw[i])) > in.MaxSize {
			add("oversize:"+name, "%s of %d bytes exceeds the client's Maximum Packet Size %d", name, len(cl.Raw[i]), in.MaxSize)
		}
		if p.Type == ref.PUBLISH && strings.ContainsAny(p.Topic, "+#") {
			add("publish-topic-wildcard", "outbound PUBLISH topic %q contains a wildcard", p.Topic)
		}
		if in.Ver >= 5 {
			switch p.Type {
			case ref.SUBACK, ref.UNSUBACK:
				for _, rc := range p.ReasonCodes {
					if !c23ReasonOK(p.Type, rc) {
						add(fmt.Sprintf("v5-reason-code:%s:%#x", name, rc), "%s carries %#x, which is not a %s reason code in MQTT 5", name, rc, name)
					}
				}
			case ref.CONNACK, ref.PUBACK, ref.PUBREC, ref.PUBREL, ref.PUBCOMP, ref.DISCONNECT, ref.AUTH:
				if !c23ReasonOK(p.Type, p.ReasonCode) {
					add(fmt.Sprintf("v5-reason-code:%s:%#x", name, p.ReasonCode), "%s carries reason code %#x, which MQTT 5 does not define for %s", name, p.ReasonCode, name)
				}
			}
			if in.NoProblem && p.Type != ref.PUBLISH && p.Type != ref.CONNACK && p.Type != ref.DISCONNECT {
				if _, has := p.Props.Get(ref.PReasonString); has {
					add("problem-info:reason-string:"+name, "%s carries a Reason String although the client set Request Problem Information 0", name)
				}
				if _, has := p.Props.Get(ref.PUser); has {
					add("problem-info:user-property:"+name, "%s carries User Properties although the client set Request Problem Information 0", name)
				}
			}
			if _, has := p.Props.Get(ref.PResponseInfo); has && !in.ResponseInfo {
				add("response-info-unrequested", "CONNACK carries Response Information although the client did not request it")
			}
		}
	}
	// nothing may be written after the connection's DISCONNECT: also no bytes after close is implied by Conn
	return out
}

func c23ErrClass(e string) string {
	switch {
	case strings.Contains(e, "trailing bytes"):
		return "trailing-bytes"
	case strings.Contains(e, "reserved flags"):
		// the decoder's message starts with the packet type: the key names which packet type
		// carried wrong fixed-header flags ("PUBREL: reserved flags 0xa")
		if i := strings.Index(e, ": reserved flags"); i > 0 && !strings.ContainsAny(e[:i], " :") {
			return "reserved-flags:" + e[:i]
		}
		return "reserved-flags"
	case strings.Contains(e, "not allowed"):
		return "property-not-allowed"
	case strings.Contains(e, "truncated"), strings.Contains(e, "exceeds"):
		return "length"
	case strings.Contains(e, "UTF-8"):
		return "utf8"
	}
	return "other"
}

// ---- E2 suite ----

type c23Client struct {
	info c23Info
	conn func(clean bool, id string) ref.Packet
}

var c23Clients = map[string]c23Client{
	"a3": {c23Info{Ver: 3}, func(clean bool, id string) ref.Packet { return world.ConnectPacket(id, 3, clean) }},
	"a4": {c23Info{Ver: 4}, func(clean bool, id string) ref.Packet { return world.ConnectPacket(id, 4, clean) }},
	"a5": {c23Info{Ver: 5, MaxSize: 40, NoProblem: true}, func(clean bool, id string) ref.Packet {
		return world.ConnectPacket(id, 5, clean, ref.Prop{ID: ref.PMaximumPacketSize, Num: 40}, ref.Prop{ID: ref.PRequestProblem, Num: 0}, ref.Prop{ID: ref.PSessionExpiry, Num: 100})
	}},
	"b5": {c23Info{Ver: 5, ResponseInfo: true}, func(clean bool, id string) ref.Packet {
		return world.ConnectPacket(id, 5, clean, ref.Prop{ID: ref.PRequestResponse, Num: 1}, ref.Prop{ID: ref.PSessionExpiry, Num: 100}, ref.Prop{ID: ref.PUser, Str: "k", Val: "v"})
	}},
}

func c23Run(arg string) explore.HistFn {
	maxOps := 4
	if strings.Contains(arg, "deep") {
		maxOps = 5
	}
	names := []string{"a3", "a4", "a5", "b5"}
	if strings.Contains(arg, "v5only") {
		names = []string{"a5", "b5"}
	}
	if strings.Contains(arg, "v3only") {
		names = []string{"a3", "a4", "b5"}
	}
	return func(hist []string) explore.HistResult {
		h := newH(world.Config{Hook: func(rh *world.RecHook) {
			rh.ACL = func(cl *mqtt.Client, topic string, write bool) bool { return !strings.HasPrefix(topic, "d") }
		}, Caps: func(cp *mqtt.Capabilities) { cp.MaximumQos = 1 }})
		infos := map[*world.Client]c23Info{}
		live := map[string]bool{}
		pid := uint16(20)
		connect := func(name string, p ref.Packet) {
			h.connect(name, p)
			infos[h.Cl[name]] = c23Clients[name].info
			live[name] = true
		}
		runHist(h, hist, func(op string) {
			f := fields(op)
			name := f[1]
			cc := c23Clients[name]
			pid++
			switch f[0] {
			case "conn":
				switch f[2] {
				case "clean":
					connect(name, cc.conn(true, name))
				case "persist":
					connect(name, cc.conn(false, name))
				case "emptyid0":
					connect(name, cc.conn(false, ""))
				case "willq2":
					p := cc.conn(true, name)
					p.WillFlag, p.WillTopic, p.WillPayload, p.WillQos = true, "x/w", []byte("w"), 2
					connect(name, p)
				case "will":
					p := cc.conn(true, name)
					p.WillFlag, p.WillTopic, p.WillPayload, p.WillQos = true, "x/#", []byte("w"), 1
					connect(name, p)
				}
			case "sub":
				opts := byte(1)
				if f[2] == "$share/g/x" && cc.info.Ver >= 5 {
					opts |= 4
				}
				h.do(name, ref.Packet{Type: ref.SUBSCRIBE, PacketID: pid, Filters: []ref.Filter{{Filter: f[2], Opts: opts}, {Filter: "x/y", Opts: 2}}, Props: c23UserProp(cc.info.Ver)})
			case "unsub":
				h.do(name, ref.Packet{Type: ref.UNSUBSCRIBE, PacketID: pid, Filters: []ref.Filter{{Filter: f[2]}}, Props: c23UserProp(cc.info.Ver)})
			case "pub":
				q := byte(f[3][0] - '0')
				payload := "p"
				if len(f) > 4 && f[4] == "L" {
					payload = strings.Repeat("L", 40)
				}
				pk := pub(f[2], payload, q, pid)
				pk.Props = c23UserProp(cc.info.Ver)
				h.do(name, pk)
			case "pubrel":
				h.do(name, ref.Packet{Type: ref.PUBREL, PacketID: 9, Props: c23UserProp(cc.info.Ver)})
			case "pubrec":
				h.do(name, ref.Packet{Type: ref.PUBREC, PacketID: 9})
			case "ping":
				h.do(name, ref.Packet{Type: ref.PINGREQ})
			case "connect2":
				h.do(name, cc.conn(true, name))
			case "disc":
				h.do(name, ref.Packet{Type: ref.DISCONNECT})
			case "drop":
				h.Cl[name].Drop()
			}
			for _, c := range h.All {
				c.Poll()
			}
			if h.last {
				for _, c := range h.All {
					h.Viol = append(h.Viol, c23Check(c, infos[c])...)
				}
			}
		})
		var next []string
		if len(hist) < maxOps {
			for _, n := range names {
				if !live[n] {
					for _, v := range []string{"clean", "persist", "emptyid0", "willq2", "will"} {
						next = append(next, "conn:"+n+":"+v)
					}
					continue
				}
				if h.Cl[n].Closed() {
					next = append(next, "conn:"+n+":persist", "conn:"+n+":clean")
					continue
				}
				next = append(next, "conn:"+n+":persist") // takeover of the live connection
				for _, f := range []string{"x/#", "a+", "$share/g/x", "d/#"} {
					next = append(next, "sub:"+n+":"+f)
				}
				next = append(next, "unsub:"+n+":x/#", "unsub:"+n+":nope")
				for _, t := range []string{"x/y", "$SYS/x", "x/#", "d"} {
					for _, q := range []string{"0", "1", "2"} {
						next = append(next, "pub:"+n+":"+t+":"+q)
					}
				}
				next = append(next, "pub:"+n+":x/y:1:L", "pubrel:"+n, "pubrec:"+n, "ping:"+n, "connect2:"+n, "disc:"+n, "drop:"+n)
			}
		}
		var cs []string
		for _, n := range names {
			if c := h.Cl[n]; c != nil {
				cs = append(cs, fmt.Sprintf("%s:%v", n, c.Closed()))
			}
		}
		return h.finish(h.W.State()+strings.Join(cs, ","), next)
	}
}

// ---- E2 suite "c23flow": QoS 1/2 flows in both directions across session resumption ----
//
// Subject s (MQTT 3.1 / 3.1.1 / 5, chosen by the first op; persistent session, subscribed to t
// at QoS 2) and a publisher p. The alphabet lets s answer - or not answer - every step of the
// outbound flows (PUBACK, PUBREC, PUBCOMP; oldest or newest open step), leave an inbound QoS 2
// flow half done (PUBLISH without PUBREL), lose / close / take over its connection and come
// back with the session (also with a smaller Maximum Packet Size) or with a clean one. So
// every kind of packet the session can hold (PUBLISH QoS 1/2, PUBREL, PUBREC) is resent on a
// later connection, and everything written to every connection goes through c23Check.

type c23Open struct {
	id   uint16
	resp byte // what s owes the broker for this packet identifier
}

func c23FlowRun(arg string) explore.HistFn {
	maxPubs, maxConns := 2, 2
	if strings.Contains(arg, "deep") {
		maxPubs, maxConns = 3, 3
	}
	const smallMPS = 40
	return func(hist []string) explore.HistResult {
		h := newH(world.Config{})
		infos := map[*world.Client]c23Info{}
		counters := map[string]int{}
		var ver byte
		var open []c23Open
		pubs, conns, spub := 0, 0, 0 // spub: 0 nothing, 1 inbound QoS 2 PUBLISH sent, 2 its PUBREL sent
		ppid := uint16(100)
		sconn := func(clean bool, mps uint32) ref.Packet {
			if ver < 5 {
				return world.ConnectPacket("s", ver, clean)
			}
			props := []ref.Prop{{ID: ref.PSessionExpiry, Num: 100}}
			if mps > 0 {
				props = append(props, ref.Prop{ID: ref.PMaximumPacketSize, Num: mps})
			}
			return world.ConnectPacket("s", ver, clean, props...)
		}
		// absorb updates what s owes from what it just received; resumed: the packets are what a
		// new connection got in answer to its CONNECT.
		absorb := func(pks []ref.Packet, resumed bool) {
			for _, p := range pks {
				resp := byte(0)
				switch {
				case p.Type == ref.PUBLISH && p.Qos == 1:
					resp = ref.PUBACK
				case p.Type == ref.PUBLISH && p.Qos == 2:
					resp = ref.PUBREC
				case p.Type == ref.PUBREL:
					resp = ref.PUBCOMP
				}
				if resumed && h.last {
					switch {
					case p.Type == ref.PUBLISH && p.Qos > 0:
						counters[fmt.Sprintf("resent_publish_qos%d", p.Qos)]++
					case p.Type == ref.PUBREL:
						counters["resent_pubrel"]++
					case p.Type == ref.PUBREC:
						counters["resent_pubrec"]++
					}
				}
				if resp == 0 {
					continue
				}
				found := false
				for i := range open {
					if open[i].id == p.PacketID {
						open[i].resp, found = resp, true
					}
				}
				if !found {
					open = append(open, c23Open{p.PacketID, resp})
				}
			}
		}
		connect := func(p ref.Packet, in c23Info) {
			open = nil // a new connection: s answers what this connection delivers
			got := h.connect("s", p)
			infos[h.Cl["s"]] = in
			absorb(got, true)
		}
		runHist(h, hist, func(op string) {
			f := fields(op)
			switch f[0] {
			case "s": // s:v3 | s:v4 | s:v5
				ver = f[1][1] - '0'
				h.connect("p", world.ConnectPacket("p", 4, true))
				infos[h.Cl["p"]] = c23Info{Ver: 4}
				connect(sconn(false, 0), c23Info{Ver: ver})
				h.do("s", sub(1, "t", 2))
			case "pub": // the publisher completes its side of the flow
				pubs++
				ppid++
				q := f[1][0] - '0'
				h.do("p", pub("t", fmt.Sprintf("m%d%s", pubs, strings.Repeat(".", 38)), q, ppid))
				if q == 2 {
					h.do("p", ref.Packet{Type: ref.PUBREL, PacketID: ppid})
				}
				if !h.Cl["s"].Closed() {
					absorb(h.poll("s"), false)
				}
			case "spub": // inbound QoS 2 flow left half done: the session holds a PUBREC
				spub = 1
				absorb(h.do("s", pub("o", "in", 2, 77)), false)
			case "srel":
				spub = 2
				absorb(h.do("s", ref.Packet{Type: ref.PUBREL, PacketID: 77}), false)
			case "ack": // ack:old | ack:new
				i := 0
				if f[1] == "new" {
					i = len(open) - 1
				}
				o := open[i]
				open = append(open[:i:i], open[i+1:]...)
				absorb(h.do("s", ref.Packet{Type: o.resp, PacketID: o.id}), false)
			case "drop":
				h.Cl["s"].Drop()
				h.logf("s: connection lost")
			case "disc":
				h.do("s", ref.Packet{Type: ref.DISCONNECT})
			case "conn": // conn:persist | conn:clean | conn:small (reconnection, or takeover of the live connection)
				conns++
				switch f[1] {
				case "persist":
					connect(sconn(false, 0), c23Info{Ver: ver})
				case "clean":
					connect(sconn(true, 0), c23Info{Ver: ver})
				case "small":
					connect(sconn(false, smallMPS), c23Info{Ver: ver, MaxSize: smallMPS})
				}
			}
			for _, c := range h.All {
				c.Poll()
			}
			if h.last {
				for _, c := range h.All {
					h.Viol = append(h.Viol, c23Check(c, infos[c])...)
				}
			}
		})
		var next []string
		switch {
		case len(hist) == 0:
			next = []string{"s:v4", "s:v5", "s:v3"}
		default:
			if pubs < maxPubs {
				next = append(next, "pub:2", "pub:1", "pub:0")
			}
			if conns < maxConns {
				next = append(next, "conn:persist", "conn:clean")
				if ver >= 5 {
					next = append(next, "conn:small")
				}
			}
			if !h.Cl["s"].Closed() {
				if len(open) > 0 {
					next = append(next, "ack:old")
				}
				if len(open) > 1 {
					next = append(next, "ack:new")
				}
				switch spub {
				case 0:
					next = append(next, "spub")
				case 1:
					next = append(next, "srel")
				}
				next = append(next, "drop", "disc")
			}
		}
		key := ""
		if len(hist) > 0 {
			key = fmt.Sprintf("%s|v%d open=%v pubs=%d conns=%d spub=%d closed=%v err=%v", h.W.State(), ver, open, pubs, conns, spub, h.Cl["s"].Closed(), h.Cl["s"].Err != nil)
		}
		r := h.finish(key, next)
		r.Counters = counters
		return r
	}
}

func c23UserProp(ver byte) ref.Props {
	if ver < 5 {
		return nil
	}
	return ref.Props{{ID: ref.PUser, Str: "k", Val: "v"}}
}

// ---- E3: the concurrent scenarios of C32 with the well-formedness monitor ----

func c23RunDFS(arg string) explore.RunFn {
	acts := splitActs(arg)
	return func(prefix []int) explore.Outcome {
		e := concSetup(prefix, world.Config{})
		w := e.W
		defer w.End()
		for _, a := range acts {
			concActions[a](e)
		}
		w.Explore(true)
		w.Run()
		w.Explore(false)
		o := explore.Outcome{Points: w.X.Points, Divergence: w.X.Divergence(), Steps: w.X.Steps()}
		for _, c := range e.Clients {
			o.Viol = append(o.Viol, c23Check(c, c23Info{Ver: c.Ver})...)
		}
		o.Obs = e.obs()
		return o
	}
}

// c23Size: every payload length 0..90 x QoS 0/1 x {plain, with user property} published to a
// v5 subscriber that announced Maximum Packet Size 64: every packet written to it must fit,
// byte-exactly at the boundary (fixed header included).
func c23Size(arg string) explore.CaseSet {
	return explore.CaseSet{Total: 91 * 4, Run: func(i int) explore.CaseResult {
		n, q, up := i/4, byte(i%2), (i/2)%2 == 1
		w := world.New(nil, world.Config{})
		defer w.End()
		a := w.Connect(world.ConnectPacket("a", 5, true, ref.Prop{ID: ref.PMaximumPacketSize, Num: 64}))
		p := w.Connect(world.ConnectPacket("p", 5, true))
		a.Do(sub(1, "t", 1))
		pk := pub("t", strings.Repeat("z", n), q, 7)
		if up {
			pk.Props = ref.Props{{ID: ref.PUser, Str: "k", Val: "v"}}
		}
		p.Do(pk)
		a.Poll()
		res := explore.CaseResult{Evals: 1, Counters: map[string]int64{}}
		res.Viol = c23Check(a, c23Info{Ver: 5, MaxSize: 64})
		delivered := false
		for j, r := range a.Recv {
			if r.Type == ref.PUBLISH {
				delivered = true
				if l := len(a.Raw[j]); l >= 62 && l <= 64 {
					res.Counters["delivered_within_2_bytes_of_limit"]++
				}
			}
		}
		if delivered {
			res.Counters["delivered"]++
		} else {
			res.Counters["withheld"]++
			res.Nontrivial = 1
		}
		return res
	}}
}

func init() {
	explore.RegisterCases("c23size", c23Size)
	explore.RegisterBFS("c23", c23Run)
	explore.RegisterBFS("c23flow", c23FlowRun)
	explore.RegisterDFS("c23", c23RunDFS)
	explore.Register("C23", func(c *explore.Ctx) {
		c.Rep.Level = "model_checking"
		c.Rep.Assumption("broker output is judged by an independent strict MQTT decoder (ref/codec.go) configured with the protocol version the client connected with")
		// the flow/resumption suite first: it is small and its levels are explored in order, so
		// the short decisive histories are judged even when the machine is loaded
		var flow *explore.BFSStats
		if c.Quick() {
			flow = explore.RunBFS(c, "c23flow", "", 6, 15*time.Second)
		} else {
			flow = explore.RunBFS(c, "c23flow", "deep", 8, 150*time.Second)
		}
		if flow.Transitions > 0 {
			for _, k := range []string{"resent_publish_qos1", "resent_publish_qos2", "resent_pubrel", "resent_pubrec"} {
				if flow.Counters[k] == 0 {
					c.Rep.Add(explore.Violation{Key: "internal:vacuous:c23flow-" + k, Msg: fmt.Sprintf("the flow suite never saw this kind of packet resent on a resumed session: %v", flow.Counters)})
				}
			}
		}
		if c.Quick() {
			explore.RunBFS(c, "c23", "v3only", 3, 25*time.Second)
			explore.RunBFS(c, "c23", "v5only", 3, 25*time.Second)
		} else {
			explore.RunBFS(c, "c23", "all,deep", 4, 6*time.Minute)
		}
		explore.RunCases(c, "c23size", "", 20*time.Second)
		bounds := []explore.Bounds{{Preempt: 0}, {Preempt: 1}, {Preempt: 2}}
		per := 3 * time.Second
		scen := []string{"pingA+pubB", "pubB+takeA", "pubA2+pubB", "pubB+close", "subA+pubB", "ackA+pubB", "discA+pubB", "pubB+takeAc"}
		if !c.Quick() {
			per = 20 * time.Second
		}
		for _, s := range scen {
			if c.Expired() {
				c.Rep.Capped("scenario " + s + " not started")
				continue
			}
			explore.IterateDFS(c, "c23", s, bounds, per)
		}
	})
}
