package props

import (
	"fmt"
	"os"
	"strconv"
	"strings"
	"time"

	"verif/explore"
)

// C20: after any history followed by a broker shutdown, a broker restarted on the same
// store has the same non-expired sessions with their expiry settings, the same
// subscriptions with their options, the same retained messages (payload, properties,
// expiry behaviour) and the same unacknowledged in-flight messages; for all four bundled
// back ends and for identifiers/filters/topics containing separator characters.
//
// E2 (history BFS) + restart differential. Scenario "c20", arg "be=<backend>,sc=<menu>[,deep]".
// Every reached state is shut down (the steps of Server.Close: every client disconnected with
// ErrServerShuttingDown, handlers run out, hook stopped; see stShutdown); then
//   (i)  the session-level state held in memory at shutdown (sessions + expiry settings,
//        client subscription lists and topic index with options, retained messages,
//        in-flight messages) is compared item by item with the state of a NEW server +
//        NEW hook instance started (readStore + listener, as Server.Serve does) on the same store;
//   (ii) two probe programmes (X: retained snapshot, reconnect with clean start 0 =>
//        Session Present + retransmissions, publish-and-observe; Y: +35 s retained
//        snapshot, +70 s reconnect) are run on the shut-down broker, which keeps living in
//        memory as the never-restarted twin (its store hook is cut off), and on the
//        restarted broker; the observations must be equal.
// Sessions whose expiry instant has already passed at shutdown are unspecified (skipped).
//
// E3 (schedule exploration), scenario "c20race" (props/c20_race.go), runs first: one QoS 1/2
// fan-out to a persistent subscriber whose reactive peer thread acknowledges as soon as it has
// read the PUBLISH, every interleaving of the publisher's handler (fan-out, store write) with
// the subscriber's acknowledgement (store delete) up to the delay bound, then shutdown and
// restart at quiescence with the same differential oracle.
//
// Menus (clients A = "a:b" v5, B = "a" v4, P = publisher; filters "c", "b:c", "n" = denied):
//   sess: connect modes (resume+expiry 60 / clean / v5 without expiry), takeover, DISCONNECT,
//         drop, one subscription each, one publish, two 40 s ticks
//   subs: subscribe with/without options, re-subscribe, ACL-refused subscribe, colliding
//         (id, filter) pairs, unsubscribe, drop, reconnect
//   msgs: QoS 1 publishes x {retained, not} x {message expiry 30, none} + retained clear,
//         retained publishes with one FIXED payload x {message expiry 30, none} whose content type
//         and user property are numbered per publish (a retained message replaced by a publication
//         with byte-identical payload and QoS but other properties / expiry: the newer
//         publication's properties and expiry must be what the restart restores),
//         acknowledgements, drop/reconnect, one tick

var c20SessMust = []string{"ProtocolVersion", "Clean", "SessionExpiryInterval", "SessionExpiryIntervalFlag"}
var c20SubMust = []string{"Qos", "NoLocal", "RetainAsPublished", "RetainHandling", "Identifier"}
var c20RetMust = []string{"Qos", "Retain", "TopicName", "Payload", "PayloadFormat", "PayloadFormatFlag", "ContentType", "ResponseTopic", "CorrelationData", "User",
	"MessageExpiryInterval", "Created", "Expiry", "ProtocolVersion"}
var c20InfMust = []string{"Type", "Qos", "Retain", "TopicName", "Payload", "PacketID", "PayloadFormat", "PayloadFormatFlag", "ContentType", "ResponseTopic", "CorrelationData", "User",
	"MessageExpiryInterval", "SubscriptionIdentifier"}

func c20Arg(arg, key, def string) string {
	for _, kv := range strings.Split(arg, ",") {
		if strings.HasPrefix(kv, key+"=") {
			return kv[len(key)+1:]
		}
	}
	return def
}

func c20Setup(sc string, s *stScen) {
	s.dial("P", "x")
	switch sc {
	case "subs":
		s.apply("con|A|k")
		s.apply("con|B|k")
	case "msgs":
		s.apply("con|A|k")
		s.apply("sub|A|c|o")
		s.apply("con|B|k")
		s.apply("sub|B|c|o") // not "b:c": the colliding pair is the subs menu's business
	}
	s.NSub, s.NDisc = 0, 0
}

func c20Next(sc string, deep bool, s *stScen) []string {
	var next []string
	add := func(ok bool, ops ...string) {
		if ok {
			next = append(next, ops...)
		}
	}
	d := 0
	if deep {
		d = 1
	}
	switch sc {
	case "sess":
		add(s.Conns["A"] < 2, "con|A|k", "con|A|c", "con|A|n")
		add(s.Conns["B"] < 1+d, "con|B|k", "con|B|c")
		add(s.Up["A"] && s.NDisc < 2+d, "dis|A", "drop|A")
		add(s.Up["B"] && s.NDisc < 2+d, "dis|B")
		add(s.Up["A"] && s.NSub < 2, "sub|A|c|o")
		add(s.Up["B"] && s.NSub < 2, "sub|B|b:c|o")
		add(s.Pubs < 1, "pub|c|0|0")
		add(s.Ticks < 2, "tick")
	case "subs":
		add(s.Up["A"] && s.NSub < 3+d, "sub|A|c|o", "sub|A|c|z", "sub|A|n|o")
		add(s.Up["B"] && s.NSub < 3+d, "sub|B|b:c|o", "sub|B|c|o")
		add(s.Up["A"] && s.NUns < 1, "unsub|A|c")
		add(s.Up["B"] && s.NUns < 1, "unsub|B|b:c")
		add(s.Up["A"] && s.NDisc < 1+d, "drop|A")
		add(s.Up["B"] && s.NDisc < 1+d, "drop|B")
		add(!s.Up["A"] && s.Conns["A"] < 2, "con|A|k")
		add(!s.Up["B"] && s.Conns["B"] < 2, "con|B|k")
		add(s.Pubs < 1, "pub|c|0|0")
	case "msgs":
		add(s.Pubs < 2+d, "pub|c|1|0|s", "pub|c|1|e|s", "pub|c|0|0", "pub|c|1|0", "pub|c|1|e", "pub|c|0|e", "pub|b:c|1|0", "pub|b:c|0|e", "pub|c|1|clr")
		add(s.Up["A"] && len(s.Pend["A"]) > 0, "ack|A")
		add(s.Up["B"] && len(s.Pend["B"]) > 0, "ack|B")
		add(s.Up["A"] && s.NDisc < 1+d, "drop|A")
		add(s.Up["B"] && s.NDisc < 1+d, "drop|B")
		add(!s.Up["A"] && s.Conns["A"] < 2, "con|A|k")
		add(!s.Up["B"] && s.Conns["B"] < 2, "con|B|k")
		add(s.Ticks < 1, "tick")
	default:
		panic("c20: unknown menu " + sc)
	}
	return next
}

// c20Exec runs hist on a fresh store of kind be, shuts down, restarts, and compares.
func c20Exec(be, sc string, deep bool, hist []string, prog string) (res explore.HistResult, lively bool) {
	t0 := time.Now()
	lap := func(what string) {
		if os.Getenv("VERIF_C20_TIMING") != "" {
			fmt.Fprintf(os.Stderr, "c20 timing %-10s %v\n", what, time.Since(t0))
			t0 = time.Now()
		}
	}
	store := stNewStore(be)
	defer store.Destroy()
	s := stNewScen(store, nil)
	lap("start")
	c20Setup(sc, s)
	runHist(s.H, hist, s.apply)
	s.H.last = true
	// the store is part of the state: equal brokers on different store contents differ after a restart
	key := s.W.State() + s.modelKey() + "|store:" + stRead(s.Wrap.Inner).String()
	next := c20Next(sc, deep, s)
	writes := len(s.Wrap.Log)

	lap("history")
	// ---- shutdown (the hook is stopped => store closed)
	nowMs := s.W.X.NowMillis()
	stShutdown(s.H, s.Wrap)
	now := s.W.Now()
	before := stSessionState(s.W.S, now)
	s.logf("state at shutdown: %s", before)
	if s.Wrap.StopMsg != "" {
		s.logf("hook Stop: %s", s.Wrap.StopMsg)
	}
	lap("shutdown")
	lively = len(before.Sessions) > 0 || len(before.Retained) > 0
	// the shut-down broker lives on as the never-restarted twin (store hook cut off)
	s.logf("=== probes %s on the never-restarted twin", prog)
	for _, n := range []string{"A", "B", "Z"} {
		delete(s.Cl, n)
	}
	twin := stProbes(s.H, prog)
	lap("probes1")
	viol := append([]explore.Violation{}, s.Viol...)
	viol = append(viol, runtimeViolations(s.W)...)
	trace := s.Trace
	s.W.End()

	// ---- restart: new server, NEW hook instance, same store, readStore + listener as in Server.Serve
	h2, wrap2 := stStart(store, nowMs, nil)
	lap("restart")
	h2.last = true
	h2.Trace = trace
	h2.logf("=== restarted on the same %s store at t=%dms", be, nowMs)
	after := stSessionState(h2.W.S, h2.W.Now())
	h2.logf("state after restart: %s", after)
	report := prog == "X" // the state comparison does not depend on the probe programme: report it once
	addAlways := func(key, msg string) {
		viol = append(viol, explore.Violation{Key: key + "@" + be, Msg: fmt.Sprintf("[%s, history %v] %s", be, hist, msg)})
	}
	add := func(key, msg string) {
		if report {
			addAlways(key, msg)
		}
	}
	// entities (client ids, retained topics) with a state-level difference: behavioural
	// differences about them are consequences and are not reported a second time
	explained := map[string]bool{}
	lapsed := func(k string) bool { return before.Lapsed[stOwner(k)] }
	{
		for _, d := range stDiffItems(before.Sessions, after.Sessions, c20SessMust, func(k string) bool { return before.Lapsed[k] }) {
			explained[d.Key] = true
			add("c20:state:session:"+d.What, "session "+d.Msg)
		}
		subShape := func(kind string, d stDelta) string {
			shape := ""
			ambiguous := false // the string "<id>:<filter>" also spells another (id, filter) pair
			spelled := strings.Replace(d.Key, "|", ":", 1)
			for _, def := range stClients {
				if def.ID != stOwner(d.Key) && strings.HasPrefix(spelled, def.ID+":") {
					ambiguous = true
				}
			}
			switch d.What {
			case "missing":
				if ambiguous {
					shape = ":ambiguous-id:filter-key"
				}
			case "extra":
				if q, _ := strconv.Atoi(after.Index[d.Key]["Qos"]); q >= 0x80 {
					shape = ":refused-subscribe"
				} else if q, _ := strconv.Atoi(after.Subs[d.Key]["Qos"]); q >= 0x80 {
					shape = ":refused-subscribe"
				} else if _, ok := after.Sessions[stOwner(d.Key)]; !ok {
					shape = ":no-session"
				}
			case "field:Qos":
				if q, _ := strconv.Atoi(after.Index[d.Key]["Qos"]); q >= 0x80 {
					shape = ":refused-resubscribe"
				} else if q, _ := strconv.Atoi(after.Subs[d.Key]["Qos"]); q >= 0x80 {
					shape = ":refused-resubscribe"
				}
			}
			return "c20:state:" + kind + ":" + d.What + shape
		}
		inIndex := map[string]bool{}
		for _, d := range stDiffItems(before.Index, after.Index, c20SubMust, lapsed) {
			explained[stOwner(d.Key)] = true
			inIndex[d.What+" "+d.Key] = true
			add(subShape("subscription", d), "subscription (topic index) "+d.Msg)
		}
		for _, d := range stDiffItems(before.Subs, after.Subs, c20SubMust, lapsed) {
			explained[stOwner(d.Key)] = true
			if !inIndex[d.What+" "+d.Key] { // same finding at both levels: reported once
				add(subShape("client-subscription-list", d), "subscription (client's own list) "+d.Msg)
			}
		}
		for _, d := range stDiffItems(before.Retained, after.Retained, c20RetMust, nil) {
			explained["topic="+d.Key] = true
			add("c20:state:retained:"+d.What, "retained message "+d.Msg)
		}
		infl := stDiffItems(before.Inflight, after.Inflight, c20InfMust, lapsed)
		for _, d := range infl {
			explained[stOwner(d.Key)] = true
			shape := ""
			if d.What == "extra" && strings.HasSuffix(d.Key, "|0") {
				shape = ":packet-id-0"
			}
			add("c20:state:inflight:"+d.What+shape, "in-flight message "+d.Msg)
		}
	}
	// ---- probes on the restarted broker
	h2.logf("=== probes %s on the restarted broker", prog)
	skipProbe := false
	for id := range before.Lapsed {
		_ = id
		skipProbe = true // a lapsed session makes reconnect outcomes unspecified
	}
	rest := stProbes(h2, prog)
	consequences := 0
	if !skipProbe {
		for _, d := range stCompareObs(twin, rest) {
			f := strings.Fields(d.Key)
			ent := ""
			switch {
			case f[0] == "connack" && len(f) > 1:
				ent = f[1]
			case (f[0] == "resend" || f[0] == "delivery") && len(f) > 2:
				ent = f[2]
			case f[0] == "retained" && len(f) > 2:
				ent = f[2] // topic=<t>
			}
			if explained[ent] {
				consequences++
				continue
			}
			addAlways("c20:probe:"+d.What, d.Msg)
		}
	}
	lap("probes2")
	viol = append(viol, runtimeViolations(h2.W)...)
	stShutdown(h2, wrap2)
	h2.W.End()
	lap("end")
	for i := range viol {
		if viol[i].Trace == nil {
			viol[i].Trace = h2.Trace
		}
	}
	probeLines := 0
	for _, l := range twin {
		probeLines += len(l)
	}
	res = explore.HistResult{Key: key, Next: next, Viol: viol, Trace: h2.Trace, Counters: map[string]int{
		"restarts": 1, "storage_writes": writes, "sessions_at_shutdown": len(before.Sessions), "subscriptions_at_shutdown": len(before.Index),
		"retained_at_shutdown": len(before.Retained), "inflight_at_shutdown": len(before.Inflight), "probe_observations": probeLines,
		"lapsed_sessions_skipped": len(before.Lapsed), "probe_differences_explained_by_state_differences": consequences}}
	return res, lively
}

func c20Run(arg string) explore.HistFn {
	be := c20Arg(arg, "be", "bolt")
	sc := c20Arg(arg, "sc", "sess")
	deep := strings.Contains(arg, "deep")
	return func(hist []string) explore.HistResult {
		res, lively := c20Exec(be, sc, deep, hist, "X")
		if lively { // something that can expire exists: run the time probes on a second copy
			r2, _ := c20Exec(be, sc, deep, hist, "Y")
			res.Viol = append(res.Viol, r2.Viol...)
			res.Counters["restarts"]++
			res.Counters["probe_observations"] += r2.Counters["probe_observations"]
			res.Counters["probe_differences_explained_by_state_differences"] += r2.Counters["probe_differences_explained_by_state_differences"]
		}
		// a defect reported by both programmes / both levels is one finding
		seen := map[string]bool{}
		var out []explore.Violation
		for _, v := range res.Viol {
			if !seen[v.Key] {
				seen[v.Key] = true
				out = append(out, v)
			}
		}
		res.Viol = out
		return res
	}
}

func init() {
	explore.RegisterBFS("c20", c20Run)
	explore.Register("C20", func(c *explore.Ctx) {
		c.Rep.Level = "model_checking"
		c.Rep.Assumption("one operation at a time, broker run to quiescence under the deterministic default schedule (sequential histories); shutdown = the steps of Server.Close (disconnect every client with ErrServerShuttingDown, let the handlers finish, stop the hook) at quiescence, the done channel left open so that the object can serve as twin; restart with zero downtime (the virtual clock continues)")
		c.Rep.Assumption("reference = the broker's own in-memory session state at shutdown and the behaviour of the same broker object living on without restart (differential oracle); sessions whose expiry instant passed before shutdown are unspecified and skipped")
		c.Rep.Assumption("back ends run with bolt NoSync, badger small tables/no sync, pebble on an in-memory FS shared by the hook instances, redis = in-process miniredis; third-party database goroutines run uncontrolled but are only called synchronously")
		backends := []string{"bolt", "redis"}
		menus := []string{"sess", "subs", "msgs"}
		per := 11 * time.Second
		suffix := ""
		depth := map[string]int{"sess": 5, "subs": 4, "msgs": 4}
		if !c.Quick() {
			backends = []string{"bolt", "redis", "pebble", "badger"}
			per = 55 * time.Second
			suffix = ",deep"
			depth = map[string]int{"sess": 0, "subs": 0, "msgs": 0}
		}
		// E3 first: the schedule explorations are small and must not be starved by the history search
		c.Rep.Assumption("c20race: one QoS 1/2 fan-out to a persistent subscriber whose peer thread acknowledges as soon as it has read the PUBLISH, all interleavings up to the delay bound; shutdown and restart at quiescence under the default schedule; oracle = in-memory state at shutdown vs restarted state, and no redelivery of a message whose final acknowledgement the subscriber had sent")
		c20Races(c)
		totals := map[string]int64{}
		for _, be := range backends {
			for _, sc := range menus {
				st := explore.RunBFS(c, "c20", "be="+be+",sc="+sc+suffix, depth[sc], per)
				for k, v := range st.Counters {
					totals[k] += v
				}
			}
		}
		for k, v := range totals {
			c.Rep.Count(k, v)
		}
		c.Rep.Set("backends", backends)
	})
}
