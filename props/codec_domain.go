package props

// The byte-string domain of C27 (also the input of C26's second half):
//  (i)  for every packet type x protocol version 3,4,5 x admissible fixed-header flags:
//       every byte string of length <= L over a 12-value alphabet taken from the MQTT
//       constants the decoders branch on;
//  (ii) for every vector of mochi's catalogue packets.TPacketData (used as seeds only, never
//       as an oracle): the body itself, every truncation, every single-byte substitution
//       from the alphabet (plus original byte +-1) at every offset, and (thorough) every pair
//       of substitutions within a window of 3 offsets.
// Every input is handed to the decoder as buf[:n:n] carved out of a larger array filled
// with a poison byte, so any access beyond the supplied bytes panics (bounds check) and
// a decoded field containing the poison byte shows an over-read.

import (
	"sort"
	"sync"

	"github.com/mochi-mqtt/server/v2/packets"

	"verif/explore"
	"verif/ref"
)

const cdcPoisonByte = 0xA5
const cdcArenaPad = 64

var cdcBaseAlphabet = []byte{0x00, 0x01, 0x02, 0x04, 0x0B, 0x21, 0x26, 0x7F, 0x80, 0xC2, 0xFF}

// cdcTypeExtra is the 12th alphabet value per packet type: a property identifier of that
// type not already in the base alphabet (0x03 doubles as a small length).
var cdcTypeExtra = map[byte]byte{
	ref.CONNECT: 0x11, ref.CONNACK: 0x12, ref.PUBLISH: 0x03, ref.PUBACK: 0x1F, ref.PUBREC: 0x1F, ref.PUBREL: 0x1F,
	ref.PUBCOMP: 0x1F, ref.SUBSCRIBE: 0x03, ref.SUBACK: 0x1F, ref.UNSUBSCRIBE: 0x03, ref.UNSUBACK: 0x1F,
	ref.PINGREQ: 0x03, ref.PINGRESP: 0x03, ref.DISCONNECT: 0x11, ref.AUTH: 0x15,
}

func cdcAlphabetFor(typ byte) []byte {
	return append(append([]byte{}, cdcBaseAlphabet...), cdcTypeExtra[typ])
}

// cdcHeaderBytes returns the fixed-header first bytes under which bodies of type typ are decoded.
func cdcHeaderBytes(typ byte) []byte {
	switch typ {
	case ref.PUBLISH:
		return []byte{0x30, 0x32, 0x34, 0x3B, 0x3D} // qos 0,1,2; qos1+dup+retain; qos2+dup+retain
	case ref.PUBREL, ref.SUBSCRIBE, ref.UNSUBSCRIBE:
		return []byte{typ<<4 | 2}
	}
	return []byte{typ << 4}
}

type codecInput struct {
	Hdr  byte
	Ver  byte
	Body []byte // len == cap; valid only during the callback
	Src  string // "enum" or "catalogue:<TYPE>#<index>:<mutation kind>"
}

// cdcArena is a poisoned array from which inputs are carved.
type cdcArena struct{ buf []byte }

func cdcNewArena(max int) *cdcArena {
	a := &cdcArena{buf: make([]byte, max+2*cdcArenaPad)}
	for i := range a.buf {
		a.buf[i] = cdcPoisonByte
	}
	return a
}

// carve copies b into the cdcArena and returns it with len == cap, surrounded by poison.
func (a *cdcArena) carve(b []byte) []byte {
	n := len(b)
	if n+2*cdcArenaPad > len(a.buf) {
		*a = *cdcNewArena(n * 2)
	}
	copy(a.buf[cdcArenaPad:], b)
	return a.buf[cdcArenaPad : cdcArenaPad+n : cdcArenaPad+n]
}

// release re-poisons the bytes used by the last carve of length n.
func (a *cdcArena) release(n int) {
	for i := cdcArenaPad; i < cdcArenaPad+n; i++ {
		a.buf[i] = cdcPoisonByte
	}
}

type cdcSeed struct {
	Typ  byte
	Idx  int
	Desc string
	Hdr  byte
	Body []byte
}

var (
	cdcSeedOnce sync.Once
	cdcSeedList []cdcSeed
)

// cdcCatalogueSeeds extracts (header byte, body) from every catalogue vector with raw bytes.
func cdcCatalogueSeeds() []cdcSeed {
	cdcSeedOnce.Do(func() {
		var types []int
		for t := range packets.TPacketData {
			types = append(types, int(t))
		}
		sort.Ints(types)
		for _, t := range types {
			for i, tc := range packets.TPacketData[byte(t)] {
				raw := tc.RawBytes
				if len(raw) < 2 {
					continue
				}
				// skip the length field (whatever it says; the broker always decodes a body whose
				// length equals the remaining length, so the body is simply what follows)
				j := 1
				for j < len(raw) && j <= 4 && raw[j]&0x80 != 0 {
					j++
				}
				if j >= len(raw) {
					continue
				}
				body := append([]byte{}, raw[j+1:]...)
				hdr := raw[0]
				var fh packets.FixedHeader
				if fh.Decode(hdr) != nil || hdr>>4 != byte(t) {
					hdr = cdcHeaderBytes(byte(t) & 15)[0]
				}
				cdcSeedList = append(cdcSeedList, cdcSeed{Typ: byte(t), Idx: i, Desc: tc.Desc, Hdr: hdr, Body: body})
			}
		}
	})
	return cdcSeedList
}

// cdcMutationOffsets bounds the offsets mutated in long vectors: all offsets of bodies up to
// 600 bytes, otherwise the first 96 and the last 32 (stated bound).
func cdcMutationOffsets(n int) []int {
	var out []int
	for i := 0; i < n; i++ {
		if n <= 600 || i < 96 || i >= n-32 {
			out = append(out, i)
		}
	}
	return out
}

// forEachCodecInput enumerates the domain in parallel. mk creates per-task state; fn is
// called for every input with that state; done folds the state. Returns false if cut short.
func forEachCodecInput(c *explore.Ctx, maxLen int, pairs bool, fn func(in *codecInput, st any), mk func() any, done func(st any)) bool {
	type task struct {
		enum    bool
		typ     byte
		hdr     byte
		ver     byte
		first   int // enum: index of the first body byte (-1: the empty body and nothing else)
		cdcSeed int
	}
	var tasks []task
	for typ := byte(1); typ <= 15; typ++ {
		for _, hdr := range cdcHeaderBytes(typ) {
			for _, ver := range []byte{3, 4, 5} {
				tasks = append(tasks, task{enum: true, typ: typ, hdr: hdr, ver: ver, first: -1})
				for f := 0; f < 12; f++ {
					tasks = append(tasks, task{enum: true, typ: typ, hdr: hdr, ver: ver, first: f})
				}
			}
		}
	}
	seeds := cdcCatalogueSeeds()
	for i := range seeds {
		for _, ver := range []byte{3, 4, 5} {
			tasks = append(tasks, task{cdcSeed: i, ver: ver})
		}
	}
	return explore.ParallelRange(len(tasks), c.Workers, c.Expired, func(i int) {
		t := tasks[i]
		st := mk()
		ar := cdcNewArena(256)
		emit := func(hdr, ver byte, body []byte, src string) {
			in := codecInput{Hdr: hdr, Ver: ver, Body: ar.carve(body), Src: src}
			fn(&in, st)
			ar.release(len(body))
		}
		if t.enum {
			alpha := cdcAlphabetFor(t.typ)
			if t.first < 0 {
				emit(t.hdr, t.ver, nil, "enum")
				done(st)
				return
			}
			buf := make([]byte, maxLen)
			buf[0] = alpha[t.first]
			idx := make([]int, maxLen)
			for n := 1; n <= maxLen; n++ {
				// all strings of length n starting with buf[0]
				for k := 1; k < n; k++ {
					idx[k] = 0
					buf[k] = alpha[0]
				}
				for {
					emit(t.hdr, t.ver, buf[:n], "enum")
					k := n - 1
					for k >= 1 {
						idx[k]++
						if idx[k] < len(alpha) {
							buf[k] = alpha[idx[k]]
							break
						}
						idx[k] = 0
						buf[k] = alpha[0]
						k--
					}
					if k < 1 {
						break
					}
				}
			}
			done(st)
			return
		}
		s := seeds[t.cdcSeed]
		typ := s.Typ & 15
		alpha := cdcAlphabetFor(typ)
		src := "catalogue:" + cdcTname(typ) + "#" + cdcItoa(s.Idx) + ":"
		emit(s.Hdr, t.ver, s.Body, src+"original")
		for n := 0; n < len(s.Body); n++ {
			if len(s.Body) > 600 && n > 96 && n < len(s.Body)-32 {
				continue
			}
			emit(s.Hdr, t.ver, s.Body[:n], src+"truncation")
		}
		offs := cdcMutationOffsets(len(s.Body))
		m := append([]byte{}, s.Body...)
		subs := func(o int) []byte {
			v := append([]byte{}, alpha...)
			return append(v, s.Body[o]+1, s.Body[o]-1)
		}
		for _, o := range offs {
			for _, v := range subs(o) {
				if v == s.Body[o] {
					continue
				}
				m[o] = v
				emit(s.Hdr, t.ver, m, src+"substitution")
			}
			m[o] = s.Body[o]
		}
		if pairs {
			for ai, o := range offs {
				for _, o2 := range offs[ai+1:] {
					if o2-o > 2 {
						break
					}
					for _, v := range alpha {
						if v == s.Body[o] {
							continue
						}
						m[o] = v
						for _, v2 := range alpha {
							if v2 == s.Body[o2] {
								continue
							}
							m[o2] = v2
							emit(s.Hdr, t.ver, m, src+"pair-substitution")
						}
						m[o2] = s.Body[o2]
					}
					m[o] = s.Body[o]
				}
			}
		}
		done(st)
	})
}

func cdcItoa(i int) string {
	if i == 0 {
		return "0"
	}
	var b []byte
	for i > 0 {
		b = append([]byte{byte('0' + i%10)}, b...)
		i /= 10
	}
	return string(b)
}
