package props

import (
	"bufio"
	"fmt"
	"os"
	"path/filepath"
	"sort"
	"strconv"
	"strings"

	mqtt "github.com/mochi-mqtt/server/v2"
	"github.com/mochi-mqtt/server/v2/zzvrt"

	"verif/explore"
	"verif/ref"
	"verif/world"
)

// Shared E2 scenario of C09, C10, C11, C12: a subscriber "a" with a QoS 2 subscription on
// topic t, a publisher "p", optionally a's own publishes on topic u (subscriber "s").
// The reference model below is written from MQTT 5.0 §4.3 (delivery protocols), §4.4
// (message delivery retry), §4.6 (ordering), §4.9 (flow control) and DESIGN Appendix
// A.3/A.4; it only looks at the operations issued and the packets seen on the wire.
//
// Ops (enabled by the scenario configuration; pools make the space finite):
//   pub:<q>            p publishes the next tagged message m<k> at QoS q to t
//   ack:<id>           a sends PUBACK <id>   (QoS 1 message transmitted on this connection)
//   rec:<id>           a sends PUBREC <id>   (QoS 2 message transmitted on this connection)
//   comp:<id>          a sends PUBCOMP <id>  (PUBREL received on this connection)
//   drop               a's network connection drops
//   rc0 | rc1          a reconnects with clean start 0 | 1 (and re-subscribes if no session is present)
//   to0 | to1          a opens a second connection while the first is live (takeover)
//   apub:<q>:<id>      a publishes its own message a<k> at QoS q with client-chosen packet id
//   adup:<id>          a retransmits its QoS 2 PUBLISH <id> with DUP 1 (before PUBREL)
//   arel:<id>          a sends PUBREL <id> for its own QoS 2 publish
//   tick               the clock advances (C12: Created seconds differ / wrap)
//   !alt:<c0.c1...>    re-executes the PREVIOUS op with the given choices at the map
//                      iteration points of Inflight.GetAll (C12; see qosRun)

type qState int

const (
	qQueued qState = iota
	qSent
	qRecd
	qDone
	qDropped
)

var qStateNames = [...]string{"Queued", "Sent", "Recd", "Done", "Dropped"}

type qMsg struct {
	tag      string
	qos      byte
	st       qState
	pid      uint16
	seq      int
	lastConn int    // connection on which the PUBLISH was last transmitted (0: never)
	relConn  int    // connection on which PUBREL was last received
	connTx   int    // connection during whose establishment the PUBLISH was (re)transmitted
	how      string // first transmission: direct | release | reconnect
	fc       bool   // reference send quota was exhausted when it was published (flow-control deferral expected)
	heldBack bool   // seen Queued at a quiescent point while a was connected
	offline  bool   // published while a was offline
	collided bool   // a's own PUBLISH used this packet id while the message was outstanding
	lost     bool   // the broker told us it no longer knows the message
	tick     int    // number of clock advances before it was published
}

type qIn struct {
	tag      string
	crossAck bool // a acknowledged an outbound message with the same id while this exchange was held
	reconn   bool
}

type qFinding struct{ Key, Msg string }

type qModel struct {
	cfg        qCfg
	msgs       []*qMsg // current session epoch, publish order
	old        map[string]bool
	conn       int
	connected  bool
	rm         int
	in         map[uint16]*qIn
	fwd        map[string]int // a's own messages: copies at s
	ain        int            // a's own publishes so far
	npub       int
	nconn      int // reconnects / takeovers used
	ticks      int
	report     bool
	trigger    string
	connStep   bool
	stepPubs   map[string]bool
	findings   []qFinding
	cnt        map[string]int
	nondefMap  bool
	everRel    bool
	arelConn   int  // connection on which a last sent a PUBREL of its own
	resendConn int  // last connection whose establishment carried PUBLISH packets
	stepQos0   bool // the current step is a QoS 0 publish of a
}

// redelivered: some message still outstanding on this connection was (re)transmitted as
// part of the connection's establishment.
func (q *qModel) redelivered() bool { return q.resendConn == q.conn }

func (q *qModel) find(prop, key, f string, a ...any) {
	if !q.report {
		return
	}
	q.findings = append(q.findings, qFinding{prop + ":" + key, fmt.Sprintf(f, a...)})
}

func (q *qModel) count(k string) {
	if q.report {
		q.cnt[k]++
	}
}

func (q *qModel) String() string {
	var b strings.Builder
	for _, m := range q.msgs {
		fmt.Fprintf(&b, "%s/q%d/%s/%d/c%v/r%v/%s/%v%v%v%v%v%d ", m.tag, m.qos, qStateNames[m.st], m.pid, m.lastConn == q.conn, m.relConn == q.conn, m.how+fmt.Sprint(m.connTx == q.conn), m.fc, m.heldBack, m.offline, m.collided, m.lost, m.tick)
	}
	var ins []string
	for id, x := range q.in {
		ins = append(ins, fmt.Sprintf("%d=%s/%v/%v", id, x.tag, x.crossAck, x.reconn))
	}
	sort.Strings(ins)
	var fs []string
	for t, n := range q.fwd {
		fs = append(fs, fmt.Sprintf("%s=%d", t, n))
	}
	sort.Strings(fs)
	return fmt.Sprintf("msgs[%s] old%d in%v fwd%v conn=%v rm=%d pools=%d,%d,%d,%d nd=%v ar=%v er=%v rs=%v", b.String(), len(q.old), ins, fs, q.connected, q.rm, q.npub, q.nconn, q.ain, q.ticks, q.nondefMap, q.arelConn == q.conn, q.everRel, q.resendConn == q.conn)
}

func (q *qModel) byTag(tag string) *qMsg {
	for _, m := range q.msgs {
		if m.tag == tag {
			return m
		}
	}
	return nil
}

// outstanding counts PUBLISH packets transmitted on the current connection and not yet
// completed: weak = no PUBACK/PUBREC yet; strict (MQTT-3.3.4-9) = no PUBACK/PUBCOMP yet.
func (q *qModel) outstanding() (weak, strict int) {
	for _, m := range q.msgs {
		if m.lastConn != q.conn {
			continue
		}
		switch m.st {
		case qSent:
			weak++
			strict++
		case qRecd:
			strict++
		}
	}
	return
}

// lostCause names the shape of the history of a message the broker lost.
func (q *qModel) lostCause(m *qMsg) (prop, cause string) {
	switch {
	case m.collided:
		return "c10", "outbound-deleted-by:client-publish-same-id"
	case m.how == "release":
		return "c09", "lost:after-deferred-release"
	case m.how == "reconnect" && (m.fc || m.heldBack):
		return "c09", "lost:deferred-then-resent-on-reconnect"
	}
	return "c09", "lost:other"
}

// published registers a message accepted for a's session.
func (q *qModel) published(tag string, qos byte) {
	_, strict := q.outstanding()
	queued := 0
	for _, m := range q.msgs {
		if m.st == qQueued {
			queued++
		}
	}
	m := &qMsg{tag: tag, qos: qos, seq: len(q.msgs), offline: !q.connected, tick: q.ticks}
	if q.rm > 0 && strict+queued >= q.rm {
		m.fc = true
	}
	q.msgs = append(q.msgs, m)
	q.stepPubs[tag] = true
}

// recv feeds the packets a received during the current step to the model.
func (q *qModel) recv(pks []ref.Packet) {
	for _, p := range pks {
		switch p.Type {
		case ref.PUBLISH:
			tag := string(p.Payload)
			if q.old[tag] {
				q.find("c09", "delivered-after-clean-start", "PUBLISH of %s (accepted before the clean start) received: %s", tag, p)
				continue
			}
			m := q.byTag(tag)
			if m == nil || p.Qos == 0 {
				continue
			}
			switch m.st {
			case qQueued:
				m.st, m.pid, m.lastConn = qSent, p.PacketID, q.conn
				if q.connStep {
					m.connTx = q.conn
					q.resendConn = q.conn
				}
				switch {
				case q.connStep:
					m.how = "reconnect"
					if m.fc || m.heldBack {
						q.everRel = true
					}
				case q.stepPubs[tag]:
					m.how = "direct"
				default:
					m.how = "release"
					q.everRel = true
					q.count("deferred_releases")
				}
				// C10: identifier range and uniqueness among a's unacknowledged outbound messages
				max := 65535
				if q.cfg.maxPID > 0 {
					max = q.cfg.maxPID
				}
				if p.PacketID == 0 || int(p.PacketID) > max {
					q.find("c10", "outbound-pid-out-of-range", "PUBLISH of %s carries packet id %d (allowed 1..%d)", tag, p.PacketID, max)
				}
				for _, o := range q.msgs {
					if o != m && (o.st == qSent || o.st == qRecd) && !o.lost && o.pid == p.PacketID {
						why := "other"
						switch {
						case o.collided:
							why = "after-client-publish-same-id"
						case o.how == "release" || (o.how == "reconnect" && (o.fc || o.heldBack)):
							why = "after-deferred-release"
						}
						q.find("c10", "outbound-pid-in-use:"+why, "PUBLISH of %s uses packet id %d which the unacknowledged message %s (%s) is using", tag, p.PacketID, o.tag, qStateNames[o.st])
					}
				}
				// C12: first transmissions in publish order (same publisher, topic, QoS)
				for _, o := range q.msgs {
					if o.seq < m.seq && o.qos == m.qos && o.st == qQueued {
						ord := "default-map-order"
						if q.nondefMap {
							ord = "nondefault-map-order"
						}
						if o.tick != m.tick {
							ord += ":created-seconds-differ"
						} else if q.cfg.maxPID > 0 && m.seq >= q.cfg.maxPID {
							ord += ":after-packet-id-wrap"
						}
						q.find("c12", "order:"+m.how+":"+ord, "first transmission of %s (published #%d) precedes that of %s (published #%d, still not transmitted); trigger=%s", m.tag, m.seq, o.tag, o.seq, q.trigger)
					}
				}
				q.count("first_tx_" + m.how)
			case qSent:
				if m.lastConn == q.conn {
					shape := "other"
					if m.how == "reconnect" && (m.fc || m.heldBack) {
						shape = "deferred-then-resent-on-reconnect"
					}
					q.find("c09", "retransmitted-on-same-connection:"+shape, "%s (Sent id %d) transmitted again on the same connection: %s; trigger=%s", tag, m.pid, p, q.trigger)
				} else {
					m.lastConn = q.conn
					if q.connStep {
						m.connTx = q.conn
						q.resendConn = q.conn
					}
					if !p.Dup {
						q.find("c09", "redelivery-without-dup", "redelivery of %s (id %d) has DUP=0: %s", tag, m.pid, p)
					}
					if p.PacketID != m.pid {
						q.find("c09", "redelivery-with-new-packet-id", "redelivery of %s uses id %d, original id %d", tag, p.PacketID, m.pid)
					}
				}
			case qRecd:
				q.find("c09", "publish-resent-after-pubrec", "%s (PUBREC sent, id %d) was transmitted as PUBLISH again: %s", tag, m.pid, p)
			case qDone:
				if !m.lost {
					q.find("c09", "resent-after-acknowledgement", "%s was acknowledged (id %d) and is transmitted again: %s; trigger=%s", tag, m.pid, p, q.trigger)
				}
			}
			// C11 (i)
			if q.rm > 0 {
				weak, strict := q.outstanding()
				cause := "other"
				switch {
				case q.connStep:
					cause = "on-reconnect-resend"
				case q.redelivered():
					cause = "after-reconnect-resend"
				case q.arelConn == q.conn:
					cause = "after-inbound-pubrel"
				}
				if weak > q.rm {
					q.find("c11", "receive-maximum-exceeded:"+cause, "%d PUBLISH packets without PUBACK/PUBREC on the connection, client Receive Maximum %d (after %s); trigger=%s", weak, q.rm, p, q.trigger)
				} else if strict > q.rm {
					q.find("c11", "receive-maximum-exceeded:counting-qos2-until-pubcomp:"+cause, "%d PUBLISH packets without PUBACK/PUBCOMP on the connection, client Receive Maximum %d (after %s); trigger=%s", strict, q.rm, p, q.trigger)
				}
			}
		case ref.PUBREL:
			var m *qMsg
			for _, o := range q.msgs {
				if o.st == qRecd && o.pid == p.PacketID {
					m = o
				}
			}
			if m != nil {
				m.relConn = q.conn
				if p.ReasonCode >= 0x80 {
					q.find("c09", "pubrel>=0x80", "PUBREL for %s (id %d) carries reason %#x", m.tag, m.pid, p.ReasonCode)
				}
				continue
			}
			if q.connStep {
				shape := "unknown-id"
				for _, o := range q.msgs {
					if o.st == qDone && o.qos == 2 && o.pid == p.PacketID && !o.lost {
						shape = "after-pubcomp"
					}
				}
				q.find("c09", "pubrel-resent:"+shape, "PUBREL id %d received after reconnect without a message awaiting PUBCOMP", p.PacketID)
			}
		case ref.DISCONNECT:
			if p.ReasonCode == 0x93 {
				held := len(q.in)
				lim := q.cfg.srm
				if lim == 0 {
					lim = 1024
				}
				if held <= lim {
					shape := "other"
					for _, o := range q.msgs {
						if o.st == qRecd {
							shape = "while-outbound-qos2-awaits-pubcomp"
						}
					}
					if q.stepQos0 {
						shape = "on-qos0-publish"
					}
					q.find("c11", "disconnect-0x93-within-limit:"+shape, "DISCONNECT 0x93 although a has %d unacknowledged QoS>0 publishes of its own (server Receive Maximum %d); trigger=%s", held, lim, q.trigger)
				}
			} else if p.ReasonCode != 0x8E {
				q.find("any", fmt.Sprintf("unexpected-disconnect:rc=%#x:on-%s", p.ReasonCode, q.trigger), "broker sent DISCONNECT %#x", p.ReasonCode)
			}
		}
	}
}

// ---------------- scenario configuration ----------------

type qCfg struct {
	prop    string
	aVer    byte
	rm      int
	srm     int
	maxPID  int
	pubs    int
	qos     string
	conns   int
	clean   bool
	take    bool
	apubs   int
	aids    int
	abase   int
	aqos    string
	adup    bool
	maps    bool
	closure string
	ticks   int
}

func argStr(arg, name, def string) string {
	for _, f := range strings.Split(arg, ",") {
		if strings.HasPrefix(f, name+"=") {
			return f[len(name)+1:]
		}
	}
	return def
}

func parseQCfg(prop, arg string) qCfg {
	return qCfg{
		prop: prop, aVer: byte(argInt(arg, "v", 5)), rm: argInt(arg, "rm", 0), srm: argInt(arg, "srm", 0), maxPID: argInt(arg, "maxpid", 0),
		pubs: argInt(arg, "pubs", 3), qos: argStr(arg, "qos", "12"), conns: argInt(arg, "conns", 2), clean: argInt(arg, "clean", 0) == 1,
		take: argInt(arg, "take", 0) == 1, apubs: argInt(arg, "apubs", 0), aids: argInt(arg, "aids", 2), abase: argInt(arg, "abase", 0), aqos: argStr(arg, "aqos", "12"),
		adup: argInt(arg, "adup", 0) == 1, maps: argInt(arg, "maps", 0) == 1, closure: argStr(arg, "closure", ""), ticks: argInt(arg, "ticks", 0),
	}
}

// getAllSite finds the instrumented map-range site inside Inflight.GetAll (line numbers
// move when /repo is edited, so the site is looked up in the instrumented source).
var getAllSiteCache string

func getAllSite() string {
	if getAllSiteCache != "" {
		return getAllSiteCache
	}
	getAllSiteCache = "inflight.go:"
	dir := os.Getenv("VERIF_DIR")
	if dir == "" {
		dir = "/verif"
	}
	f, err := os.Open(filepath.Join(dir, ".build", "mochi", "inflight.go"))
	if err != nil {
		return getAllSiteCache
	}
	defer f.Close()
	sc := bufio.NewScanner(f)
	in := false
	for sc.Scan() {
		l := sc.Text()
		if strings.HasPrefix(l, "func ") {
			in = strings.Contains(l, ") GetAll(")
		}
		if i := strings.Index(l, `zzvrt.Iter("`); in && i >= 0 {
			rest := l[i+len(`zzvrt.Iter("`):]
			if j := strings.IndexByte(rest, '"'); j > 0 {
				getAllSiteCache = rest[:j]
			}
		}
	}
	return getAllSiteCache
}

// splitAlts merges "!alt:<choices>" pseudo-ops into the op they follow.
func splitAlts(hist []string) (ops []string, alts [][]int) {
	for _, op := range hist {
		if strings.HasPrefix(op, "!alt:") {
			var cs []int
			for _, s := range strings.Split(op[5:], ".") {
				n, _ := strconv.Atoi(s)
				cs = append(cs, n)
			}
			if len(ops) > 0 {
				alts[len(ops)-1] = cs
			}
			continue
		}
		ops = append(ops, op)
		alts = append(alts, nil)
	}
	return
}

// qosRun builds the HistFn of a configuration. With cfg.maps the iteration order of the
// in-flight map inside Inflight.GetAll is part of the exploration: every execution
// records the choice points met during its last op, and for each one not yet fixed the
// alternatives are offered as "!alt" successors (stateless-DFS expansion), so all orders
// (all permutations up to 3 entries, rotations and reversals beyond) are enumerated.
func qosRun(prop string) func(arg string) explore.HistFn {
	return func(arg string) explore.HistFn {
		cfg := parseQCfg(prop, arg)
		return func(hist []string) explore.HistResult {
			ops, alts := splitAlts(hist)
			if !cfg.maps {
				r, _ := qosExec(cfg, ops, alts, nil)
				return r
			}
			// find the positions of the map choice points whose choice is not the default
			var prefix []int
			for iter := 0; ; iter++ {
				r, pts := qosExec(cfg, ops, alts, prefix)
				// pts: per op the GetAll choice points (position, n, chosen)
				fixed := true
				for i := range ops {
					for j, want := range alts[i] {
						if j >= len(pts[i]) {
							if want != 0 {
								r.Viol = append(r.Viol, explore.Violation{Key: "internal:alt-out-of-range", Msg: fmt.Sprintf("op %d %s: choice %d requested but only %d map points", i, ops[i], j, len(pts[i]))})
							}
							continue
						}
						if pts[i][j].chosen != want && fixed {
							fixed = false
							prefix = append(append([]int{}, pts[i][j].prefix...), want)
						}
					}
					if !fixed {
						break
					}
				}
				if fixed || iter > 12 {
					// offer the alternatives at the last op's not yet fixed points
					if n := len(ops); n > 0 {
						last := pts[n-1]
						for j := len(alts[n-1]); j < len(last); j++ {
							for c := 1; c < last[j].n; c++ {
								var cs []string
								for k := 0; k < j; k++ {
									cs = append(cs, strconv.Itoa(last[k].chosen))
								}
								cs = append(cs, strconv.Itoa(c))
								r.Next = append(r.Next, "!alt:"+strings.Join(cs, "."))
							}
						}
					}
					return r
				}
			}
		}
	}
}

type qPoint struct {
	n, chosen int
	prefix    []int // choices of all earlier points of the execution
}

// qosExec executes ops on a fresh broker; prefix is the scheduler/map choice prefix.
func qosExec(cfg qCfg, ops []string, alts [][]int, prefix []int) (explore.HistResult, [][]qPoint) {
	site := ""
	wcfg := world.Config{Caps: func(c *mqtt.Capabilities) {
		if cfg.srm > 0 {
			c.ReceiveMaximum = uint16(cfg.srm)
		}
	}}
	if cfg.maps {
		site = getAllSite()
		wcfg.Exploring = true
		wcfg.MapSite = func(s string) bool { return strings.HasPrefix(s, site) }
	}
	h := &H{W: world.New(prefix, wcfg), Cl: map[string]*world.Client{}}
	if cfg.maxPID > 0 {
		h.W.S.Options.Capabilities.VerifSetMaxPacketID(uint32(cfg.maxPID))
	}
	q := &qModel{cfg: cfg, old: map[string]bool{}, in: map[uint16]*qIn{}, fwd: map[string]int{}, cnt: map[string]int{}, stepPubs: map[string]bool{}}
	pts := make([][]qPoint, len(ops))

	aconn := func(clean bool) ref.Packet {
		if cfg.aVer >= 5 {
			props := []ref.Prop{{ID: ref.PSessionExpiry, Num: 1000000}}
			if cfg.rm > 0 {
				props = append(props, ref.Prop{ID: ref.PReceiveMaximum, Num: uint32(cfg.rm)})
			}
			return world.ConnectPacket("a", 5, clean, props...)
		}
		return world.ConnectPacket("a", cfg.aVer, clean)
	}
	subscribe := func() {
		q.recv(h.do("a", ref.Packet{Type: ref.SUBSCRIBE, PacketID: 999, Filters: []ref.Filter{{Filter: "t", Opts: 2}}}))
	}
	evSeen := 0
	scanEvents := func() {
		for ; evSeen < len(h.W.Events); evSeen++ {
			e := h.W.Events[evSeen]
			if e.Client != "a" {
				continue
			}
			if e.Name == "OnPublishDropped" || e.Name == "OnPacketIDExhausted" {
				if m := q.byTag(e.Tag); m != nil && m.st == qQueued {
					m.st = qDropped
					q.count("reported_drops")
				}
			}
		}
	}
	collectS := func() {
		if cfg.apubs == 0 {
			return
		}
		for _, p := range h.poll("s") {
			if p.Type == ref.PUBLISH {
				q.fwd[string(p.Payload)]++
			}
		}
	}
	// endStep: quiescent-point bookkeeping
	endStep := func() {
		scanEvents()
		collectS()
		if q.connected && h.Cl["a"].Closed() {
			q.connected = false
			if q.trigger != "drop" {
				q.count("closed_by_broker")
			}
		}
		for _, m := range q.msgs {
			if m.st == qQueued && q.connected {
				if !m.heldBack {
					q.count("messages_held_back_while_connected")
				}
				m.heldBack = true
			}
		}
	}
	// connect (re)connects a; kind: rc0 rc1 to0 to1 init
	connect := func(clean bool) {
		old := h.Cl["a"]
		q.conn++
		q.connStep = true
		got := h.connect("a", aconn(clean))
		q.connected = true
		q.rm = 0
		if cfg.aVer >= 5 {
			q.rm = cfg.rm
		}
		if old != nil {
			old.Poll()
		}
		if len(got) == 0 || got[0].Type != ref.CONNACK || got[0].ReasonCode != 0 {
			q.find("any", "connect-refused:on-"+q.trigger, "CONNECT of a not accepted: %v", got)
			q.connected = !h.Cl["a"].Closed()
			q.connStep = false
			return
		}
		sp := got[0].SessionPresent
		if clean || !sp {
			if !clean && q.conn > 1 {
				q.count("session_not_present_on_clean0")
			}
			for _, m := range q.msgs {
				q.old[m.tag] = true
			}
			q.msgs = nil
			q.in = map[uint16]*qIn{}
		}
		for _, x := range q.in {
			x.reconn = true
		}
		// expectations for the resumed session, from the states before this connection
		type exp struct {
			m  *qMsg
			st qState
		}
		var exps []exp
		for _, m := range q.msgs {
			exps = append(exps, exp{m, m.st})
		}
		q.recv(got[1:])
		if !sp || clean {
			subscribe()
		}
		q.connStep = false
		for _, e := range exps {
			m := e.m
			switch e.st {
			case qSent:
				n := 0
				for _, p := range got[1:] {
					if p.Type == ref.PUBLISH && string(p.Payload) == m.tag {
						n++
					}
				}
				if n == 0 {
					pr, cause := q.lostCause(m)
					q.find(pr, cause, "session resumed (CONNACK sp=1) but %s (QoS %d, Sent id %d, first transmission: %s) was not redelivered: %v", m.tag, m.qos, m.pid, m.how, got)
					m.lost = true
					m.st = qDone
				} else if n > 1 {
					q.find("c09", "redelivered-twice-on-reconnect", "%s redelivered %d times after CONNACK: %v", m.tag, n, got)
				}
				q.count("redeliveries_expected")
			case qRecd:
				if m.relConn != q.conn {
					pr, cause := q.lostCause(m)
					if pr == "c09" {
						cause = "pubrel-not-resent:" + strings.TrimPrefix(cause, "lost:")
					}
					q.find(pr, cause, "session resumed but PUBREL for %s (id %d, PUBREC sent) was not resent: %v", m.tag, m.pid, got)
					m.lost = true
					m.st = qDone
				}
				q.count("pubrel_resends_expected")
			}
		}
	}

	h.connect("p", world.ConnectPacket("p", 4, true))
	if cfg.apubs > 0 {
		h.connect("s", world.ConnectPacket("s", 4, true))
		h.do("s", ref.Packet{Type: ref.SUBSCRIBE, PacketID: 900, Filters: []ref.Filter{{Filter: "u", Opts: 0}}})
	}
	q.trigger = "init"
	connect(false)
	ppid := uint16(100)

	applyOp := func(op string) {
		f := fields(op)
		q.trigger = f[0]
		q.stepQos0 = false
		q.stepPubs = map[string]bool{}
		num := func(i int) int { n, _ := strconv.Atoi(f[i]); return n }
		switch f[0] {
		case "pub":
			qos := byte(num(1))
			q.npub++
			ppid++
			tag := fmt.Sprintf("m%d", q.npub)
			q.published(tag, qos)
			got := h.do("p", pub("t", tag, qos, ppid))
			accepted := false
			for _, p := range got {
				if p.Type == ref.PUBREC && qos == 2 {
					accepted = true
					h.do("p", ref.Packet{Type: ref.PUBREL, PacketID: ppid})
				}
				if p.Type == ref.PUBACK && qos == 1 {
					accepted = true
				}
			}
			if !accepted {
				// the broker did not take the publisher's message (not this model's subject): forget it
				q.msgs = q.msgs[:len(q.msgs)-1]
				q.count("publisher_not_acknowledged")
			}
			if q.connected {
				q.recv(h.poll("a"))
			}
		case "ack", "rec", "comp":
			id := uint16(num(1))
			var m *qMsg
			for _, o := range q.msgs {
				if o.pid == id && (o.st == qSent || o.st == qRecd) {
					m = o
				}
			}
			if m == nil {
				break
			}
			for _, x := range q.in {
				_ = x
			}
			if x := q.in[id]; x != nil {
				x.crossAck = true
				q.count("outbound_ack_while_same_inbound_id_held")
			}
			switch f[0] {
			case "ack":
				m.st = qDone
				q.recv(h.do("a", ref.Packet{Type: ref.PUBACK, PacketID: id}))
			case "comp":
				m.st = qDone
				q.recv(h.do("a", ref.Packet{Type: ref.PUBCOMP, PacketID: id}))
			case "rec":
				m.st = qRecd
				got := h.do("a", ref.Packet{Type: ref.PUBREC, PacketID: id})
				var rel *ref.Packet
				for i := range got {
					if got[i].Type == ref.PUBREL && got[i].PacketID == id {
						rel = &got[i]
					}
				}
				if rel != nil && rel.ReasonCode >= 0x80 {
					pr, cause := q.lostCause(m)
					q.find(pr, cause, "PUBREC for %s (id %d, first transmission: %s) answered with PUBREL reason %#x: the broker no longer holds the message", m.tag, id, m.how, rel.ReasonCode)
					m.lost = true
					m.st = qDone
					// drop the failing PUBREL from what the generic observer sees
					var rest []ref.Packet
					for _, p := range got {
						if !(p.Type == ref.PUBREL && p.PacketID == id) {
							rest = append(rest, p)
						}
					}
					got = rest
				} else if rel == nil && !h.Cl["a"].Closed() {
					q.find("c09", "no-pubrel-after-pubrec", "PUBREC for %s (id %d) not answered with PUBREL: %v", m.tag, id, got)
				}
				q.recv(got)
			}
		case "drop":
			h.Cl["a"].Drop()
			h.logf("a: dropped")
			q.connected = false
		case "rc0", "rc1", "to0", "to1":
			q.nconn++
			if f[0][0] == 't' {
				q.count("takeovers")
			}
			connect(f[0][2] == '1')
		case "apub":
			qos, id := byte(num(1)), uint16(num(2))
			q.ain++
			tag := fmt.Sprintf("a%d", q.ain)
			for _, o := range q.msgs {
				if qos > 0 && (o.st == qSent || o.st == qRecd) && o.pid == id {
					o.collided = true
					q.count("client_id_collides_with_outstanding_outbound_id")
				}
			}
			if qos == 2 {
				q.in[id] = &qIn{tag: tag}
			}
			q.stepQos0 = qos == 0
			if qos == 0 {
				q.count("own_qos0_publishes")
				if lim := cfg.srm; lim > 0 && len(q.in) == lim {
					q.count("own_qos0_publish_at_receive_maximum")
				}
			}
			got := h.do("a", pub("u", tag, qos, id))
			okAck := qos == 0
			for _, p := range got {
				if (qos == 1 && p.Type == ref.PUBACK || qos == 2 && p.Type == ref.PUBREC) && p.PacketID == id {
					okAck = true
					if p.ReasonCode >= 0x80 {
						q.find("c10", "inbound-publish-refused", "a's PUBLISH %s (QoS %d id %d) answered with reason %#x", tag, qos, id, p.ReasonCode)
					}
				}
			}
			q.recv(got)
			collectS()
			if !okAck && !h.Cl["a"].Closed() {
				q.find("c10", "inbound-publish-unanswered", "a's PUBLISH %s (QoS %d id %d) got no acknowledgement: %v", tag, qos, id, got)
			}
			if okAck && qos == 1 && q.fwd[tag] != 1 {
				q.find("c10", "inbound-qos1-not-forwarded-once", "a's QoS 1 publish %s acknowledged, subscriber holds %d copies", tag, q.fwd[tag])
			}
			if h.Cl["a"].Closed() && qos == 2 {
				delete(q.in, id)
			}
		case "adup":
			id := uint16(num(1))
			x := q.in[id]
			if x == nil {
				break
			}
			pk := pub("u", x.tag, 2, id)
			pk.Dup = true
			q.recv(h.do("a", pk))
			collectS()
			if q.fwd[x.tag] > 1 {
				k := "inbound-qos2-forwarded-twice:other"
				if x.crossAck {
					k = "inbound-qos2-state-deleted-by:outbound-ack-same-id"
				}
				q.find("c10", k, "a's QoS 2 publish %s (id %d) reached the subscriber %d times after a DUP retransmission", x.tag, id, q.fwd[x.tag])
			}
		case "arel":
			id := uint16(num(1))
			x := q.in[id]
			if x == nil {
				break
			}
			for _, o := range q.msgs {
				if o.st == qRecd && o.pid == id {
					q.count("inbound_pubrel_while_outbound_same_id_awaits_pubcomp")
				}
			}
			q.arelConn = q.conn
			got := h.do("a", ref.Packet{Type: ref.PUBREL, PacketID: id})
			var comp *ref.Packet
			for i := range got {
				if got[i].Type == ref.PUBCOMP && got[i].PacketID == id {
					comp = &got[i]
				}
			}
			q.recv(got)
			collectS()
			inKey := func(symptom string) string {
				if x.crossAck {
					return "inbound-qos2-state-deleted-by:outbound-ack-same-id"
				}
				return symptom + ":other"
			}
			if comp != nil && comp.ReasonCode >= 0x80 {
				q.find("c10", inKey("inbound-qos2-state-lost"), "PUBREL for a's own exchange %s (id %d, in progress) answered with PUBCOMP reason %#x", x.tag, id, comp.ReasonCode)
			}
			if comp != nil && q.fwd[x.tag] != 1 {
				q.find("c10", inKey("inbound-qos2-not-forwarded-once"), "a's QoS 2 exchange %s completed, subscriber holds %d copies", x.tag, q.fwd[x.tag])
			}
			delete(q.in, id)
		case "tick":
			q.ticks++
			h.W.Tick(50000 * 1000)
		}
	}

	var ptsAll []zzvrt.ChoicePoint
	preKey := ""
	for i, op := range ops {
		h.Step = i
		h.last = i == len(ops)-1
		q.report = h.last
		q.nondefMap = false
		for _, c := range alts[i] {
			if c != 0 {
				q.nondefMap = true
			}
		}
		alt := ""
		if len(alts[i]) > 0 {
			alt = fmt.Sprintf(" (map choices %v)", alts[i])
		}
		h.logf("--- op %d: %s%s", i, op, alt)
		start := len(h.W.X.Points)
		if cfg.maps && h.last {
			preKey = h.W.State() + "|" + q.String() + "|" + op
		}
		applyOp(op)
		endStep()
		if cfg.maps {
			ptsAll = h.W.X.Points
			for k := start; k < len(ptsAll); k++ {
				if ptsAll[k].Kind == zzvrt.ChMap && strings.HasPrefix(ptsAll[k].Site, site) {
					pre := make([]int, k)
					for x := 0; x < k; x++ {
						pre[x] = ptsAll[x].Chosen
					}
					pts[i] = append(pts[i], qPoint{n: ptsAll[k].N, chosen: ptsAll[k].Chosen, prefix: pre})
				}
			}
		}
	}
	q.nondefMap = false

	// enabled ops
	var next []string
	if q.npub < cfg.pubs {
		for _, c := range cfg.qos {
			next = append(next, "pub:"+string(c))
		}
	}
	if q.connected {
		for _, m := range q.msgs {
			switch {
			case m.st == qSent && m.lastConn == q.conn && m.qos == 1:
				next = append(next, fmt.Sprintf("ack:%d", m.pid))
			case m.st == qSent && m.lastConn == q.conn && m.qos == 2:
				next = append(next, fmt.Sprintf("rec:%d", m.pid))
			case m.st == qRecd && m.relConn == q.conn:
				next = append(next, fmt.Sprintf("comp:%d", m.pid))
			}
		}
		lim := cfg.srm
		if lim == 0 {
			lim = 1024
		}
		if q.ain < cfg.apubs && strings.Contains(cfg.aqos, "0") {
			next = append(next, "apub:0:0") // QoS 0 never counts against the server's Receive Maximum
		}
		if q.ain < cfg.apubs && len(q.in) < lim {
			for id := cfg.abase + 1; id <= cfg.abase+cfg.aids; id++ {
				if q.in[uint16(id)] != nil {
					continue
				}
				for _, c := range cfg.aqos {
					if c != '0' {
						next = append(next, fmt.Sprintf("apub:%s:%d", string(c), id))
					}
				}
			}
		}
		var ids []int
		for id := range q.in {
			ids = append(ids, int(id))
		}
		sort.Ints(ids)
		for _, id := range ids {
			if cfg.adup {
				next = append(next, fmt.Sprintf("adup:%d", id))
			}
			next = append(next, fmt.Sprintf("arel:%d", id))
		}
		if q.nconn < cfg.conns {
			next = append(next, "drop")
			if cfg.take {
				next = append(next, "to0")
				if cfg.clean {
					next = append(next, "to1")
				}
			}
		}
	} else if q.nconn < cfg.conns {
		next = append(next, "rc0")
		if cfg.clean {
			next = append(next, "rc1")
		}
	}
	if q.ticks < cfg.ticks {
		next = append(next, "tick")
	}
	key := h.W.State() + "|" + q.String()
	if n := len(ops); cfg.maps && n > 0 && len(pts[n-1]) > 0 {
		// the alternatives offered below belong to (state before the last op, op): histories are
		// only merged if they agree on that too, otherwise orders would be lost by deduplication
		key += "|pre:" + preKey
		q.cnt["ops_with_getall_order_choice"]++
		if len(alts[n-1]) > 0 {
			q.cnt["nondefault_getall_orders_executed"]++
		}
	}

	// closures on the replayed instance (do not influence the key)
	h.last = true
	q.report = true
	switch cfg.closure {
	case "reconnect":
		// from every state: drop + reconnect with clean start 0 must redeliver everything unacknowledged
		h.logf("--- closure: drop + reconnect clean start 0")
		if q.connected {
			h.Cl["a"].Drop()
			q.connected = false
		}
		q.trigger = "rc0"
		connect(false)
		endStep()
	case "ackall":
		if q.connected {
			h.logf("--- closure: a acknowledges everything outstanding")
			for round := 0; round < 64; round++ {
				progress := false
				for _, m := range q.msgs {
					if !q.connected {
						break
					}
					switch {
					case m.st == qSent && m.lastConn == q.conn && m.qos == 1:
						applyOp(fmt.Sprintf("ack:%d", m.pid))
					case m.st == qSent && m.lastConn == q.conn && m.qos == 2:
						applyOp(fmt.Sprintf("rec:%d", m.pid))
					case m.st == qRecd && m.relConn == q.conn:
						applyOp(fmt.Sprintf("comp:%d", m.pid))
					default:
						continue
					}
					progress = true
					endStep()
				}
				var ids []int
				for id := range q.in {
					ids = append(ids, int(id))
				}
				sort.Ints(ids)
				for _, id := range ids {
					if q.connected {
						applyOp(fmt.Sprintf("arel:%d", id))
						endStep()
						progress = true
					}
				}
				if !progress {
					break
				}
			}
			if q.connected {
				for _, m := range q.msgs {
					if m.st == qQueued {
						cause := "other"
						if q.everRel {
							cause = "after-deferred-release"
						}
						q.find("c11", "queued-never-sent:"+cause, "a acknowledged everything outstanding, yet %s (QoS %d, published #%d) was never transmitted", m.tag, m.qos, m.seq)
						break
					}
				}
				q.count("ackall_closures")
			}
		}
	}

	for _, fd := range q.findings {
		pr := fd.Key[:strings.IndexByte(fd.Key, ':')]
		if pr == cfg.prop || pr == "any" {
			k := fd.Key
			if pr == "any" {
				k = cfg.prop + fd.Key[3:]
			}
			h.Viol = append(h.Viol, explore.Violation{Key: k, Msg: fd.Msg})
		} else if h.last {
			q.cnt["other_property_findings"]++
		}
	}
	r := h.finish(key, next)
	r.Counters = q.cnt
	return r, pts
}

// qosFold runs the scenarios and folds their counters into the report.
func qosFold(c *explore.Ctx, sts []*explore.BFSStats, need ...string) {
	tot := map[string]int64{}
	for _, st := range sts {
		for k, v := range st.Counters {
			tot[k] += v
		}
	}
	for k, v := range tot {
		c.Rep.Count(k, v)
	}
	if os.Getenv("VERIF_SCEN") != "" {
		return
	}
	for _, n := range need {
		if tot[n] == 0 {
			c.Rep.Add(explore.Violation{Key: "internal:vacuous:" + n, Msg: "the scenarios never produced the case '" + n + "' they are meant to exercise"})
		}
	}
}
